// Unit transform — property C16: the per-segment steps of AttributionTracker::transform_attributions.
// transform_attributions itself cannot be verified as a whole (HashMap::entry, closure sorts).  Two of its
// match arms are straight cursor code over slices; they are extracted as *statement regions* (rule R1):
// the region's statements are the verbatim /repo text, the enclosing `fn` header and the returned tuple
// are add-only annotation lines: free variables become parameters, mutated ones are returned.
use vstd::prelude::*;
use vstd::std_specs::iter::IteratorSpec;
verus! {

//#include ../_shared/attr_specs.inc.rs
//#use-contract tracker_geom ../_shared/attribution.inc.rs
//#use-contract tracker_geom ../_shared/cursor_fns.inc.rs
//#use-contract catalog ../_shared/bytediff.inc.rs

// ---------------------------------------------------------------- specification vocabulary
pub open spec fn aview(a: Attribution) -> (int, int, Seq<char>, u128) { (a.start as int, a.end as int, a.author_id@, a.ts) }
/// attribution a meets the old-text segment [p, p+len)
pub open spec fn seg_meets(a: Attribution, p: int, len: int) -> bool { max_int(a.start as int, p) < min_int(a.end as int, p + len) }
/// the part of a inside the old segment [p, p+len), moved to where that segment sits in the new text (q)
pub open spec fn seg_image(a: Attribution, p: int, q: int, len: int) -> (int, int, Seq<char>, u128) {
    (q + max_int(a.start as int, p) - p, q + min_int(a.end as int, p + len) - p, a.author_id@, a.ts)
}
/// cursor invariant of transform_attributions: everything before the cursor ends at or before the current old position
pub open spec fn skipped_dead(a: Seq<Attribution>, cursor: int, pos: int) -> bool { forall|j: int| 0 <= j < cursor ==> (#[trigger] a[j]).end <= pos }
/// x is the image of some old attribution in [lo, hi) that meets the segment
pub open spec fn img_of(x: Attribution, a: Seq<Attribution>, lo: int, hi: int, p: int, q: int, len: int) -> bool {
    exists|j: int| lo <= j < hi && seg_meets(#[trigger] a[j], p, len) && aview(x) == seg_image(a[j], p, q, len)
}
/// aj's image is among the elements of out after index n0
pub open spec fn has_img(out: Seq<Attribution>, n0: int, aj: Attribution, p: int, q: int, len: int) -> bool {
    exists|k: int| n0 <= k < out.len() && aview(#[trigger] out[k]) == seg_image(aj, p, q, len)
}
/// every element appended to `out` after index n0 is the image of some old attribution in [lo, hi) that meets the segment
#[verifier::opaque]
pub open spec fn eq_sound(out: Seq<Attribution>, n0: int, a: Seq<Attribution>, lo: int, hi: int, p: int, q: int, len: int) -> bool {
    forall|k: int| n0 <= k < out.len() ==> img_of(#[trigger] out[k], a, lo, hi, p, q, len)
}
/// every old attribution in [lo, hi) that meets the segment has its image among the elements appended after n0
#[verifier::opaque]
pub open spec fn eq_complete(out: Seq<Attribution>, n0: int, a: Seq<Attribution>, lo: int, hi: int, p: int, q: int, len: int) -> bool {
    forall|j: int| lo <= j < hi && seg_meets(#[trigger] a[j], p, len) ==> has_img(out, n0, a[j], p, q, len)
}
/// every element appended after n0 is a non-empty range inside the new-text segment [q, q+len)
#[verifier::opaque]
pub open spec fn in_segment(out: Seq<Attribution>, n0: int, q: int, len: int) -> bool {
    forall|k: int| n0 <= k < out.len() ==> q <= (#[trigger] out[k]).start < out[k].end <= q + len
}
pub open spec fn prefix_kept(out: Seq<Attribution>, inp: Seq<Attribution>) -> bool { out.len() >= inp.len() && out.subrange(0, inp.len() as int) =~= inp }

proof fn lemma_eq_init(out: Seq<Attribution>, a: Seq<Attribution>, lo: int, p: int, q: int, len: int)
    ensures eq_sound(out, out.len() as int, a, lo, lo, p, q, len), eq_complete(out, out.len() as int, a, lo, lo, p, q, len), in_segment(out, out.len() as int, q, len), prefix_kept(out, out),
{
    reveal(eq_sound); reveal(eq_complete); reveal(in_segment);
}
proof fn lemma_sound_widen(out: Seq<Attribution>, n0: int, a: Seq<Attribution>, lo: int, hi: int, hi2: int, p: int, q: int, len: int)
    requires eq_sound(out, n0, a, lo, hi, p, q, len), hi <= hi2,
    ensures eq_sound(out, n0, a, lo, hi2, p, q, len),
{
    reveal(eq_sound);
    assert forall|k: int| n0 <= k < out.len() implies img_of(#[trigger] out[k], a, lo, hi2, p, q, len) by {
        assert(img_of(out[k], a, lo, hi, p, q, len));
        let j = choose|j: int| lo <= j < hi && seg_meets(#[trigger] a[j], p, len) && aview(out[k]) == seg_image(a[j], p, q, len);
        assert(lo <= j < hi2 && seg_meets(a[j], p, len));
    }
}
proof fn lemma_push_sound(out: Seq<Attribution>, x: Attribution, n0: int, a: Seq<Attribution>, lo: int, j0: int, p: int, q: int, len: int)
    requires eq_sound(out, n0, a, lo, j0, p, q, len), lo <= j0 < a.len(), seg_meets(a[j0], p, len), aview(x) == seg_image(a[j0], p, q, len),
    ensures eq_sound(out.push(x), n0, a, lo, j0 + 1, p, q, len),
{
    lemma_sound_widen(out, n0, a, lo, j0, j0 + 1, p, q, len);
    reveal(eq_sound);
    let o2 = out.push(x);
    assert forall|k: int| n0 <= k < o2.len() implies img_of(#[trigger] o2[k], a, lo, j0 + 1, p, q, len) by {
        if k < out.len() { assert(o2[k] == out[k]); } else { assert(o2[k] == x); assert(lo <= j0 < j0 + 1 && seg_meets(a[j0], p, len)); }
    }
}
proof fn lemma_push_complete(out: Seq<Attribution>, x: Attribution, n0: int, a: Seq<Attribution>, lo: int, j0: int, p: int, q: int, len: int)
    requires eq_complete(out, n0, a, lo, j0, p, q, len), n0 <= out.len(), lo <= j0 < a.len(), aview(x) == seg_image(a[j0], p, q, len),
    ensures eq_complete(out.push(x), n0, a, lo, j0 + 1, p, q, len),
{
    reveal(eq_complete);
    let o2 = out.push(x);
    assert forall|j: int| lo <= j < j0 + 1 && seg_meets(#[trigger] a[j], p, len) implies has_img(o2, n0, a[j], p, q, len) by {
        if j < j0 {
            assert(has_img(out, n0, a[j], p, q, len));
            let k = choose|k: int| n0 <= k < out.len() && aview(#[trigger] out[k]) == seg_image(a[j], p, q, len);
            assert(o2[k] == out[k]);
            assert(n0 <= k < o2.len() && aview(o2[k]) == seg_image(a[j], p, q, len));
        } else {
            let k = out.len() as int;
            assert(o2[k] == x);
            assert(n0 <= k < o2.len() && aview(o2[k]) == seg_image(a[j], p, q, len));
        }
    }
}
proof fn lemma_push_inside(out: Seq<Attribution>, x: Attribution, inp: Seq<Attribution>, n0: int, q: int, len: int)
    requires in_segment(out, n0, q, len), prefix_kept(out, inp), q <= x.start < x.end <= q + len,
    ensures in_segment(out.push(x), n0, q, len), prefix_kept(out.push(x), inp),
{
    reveal(in_segment);
    let o2 = out.push(x);
    assert forall|k: int| n0 <= k < o2.len() implies q <= (#[trigger] o2[k]).start < o2[k].end <= q + len by {
        if k < out.len() { assert(o2[k] == out[k]); } else { assert(o2[k] == x); }
    }
    assert(o2.subrange(0, inp.len() as int) =~= out.subrange(0, inp.len() as int));
}
proof fn lemma_skip(out: Seq<Attribution>, n0: int, a: Seq<Attribution>, lo: int, j0: int, p: int, q: int, len: int)
    requires eq_sound(out, n0, a, lo, j0, p, q, len), eq_complete(out, n0, a, lo, j0, p, q, len), lo <= j0 < a.len(), !seg_meets(a[j0], p, len),
    ensures eq_sound(out, n0, a, lo, j0 + 1, p, q, len), eq_complete(out, n0, a, lo, j0 + 1, p, q, len),
{
    lemma_sound_widen(out, n0, a, lo, j0, j0 + 1, p, q, len);
    reveal(eq_complete);
}
proof fn lemma_rest(out: Seq<Attribution>, n0: int, a: Seq<Attribution>, lo: int, j0: int, p: int, q: int, len: int)
    requires
        eq_sound(out, n0, a, lo, j0, p, q, len), eq_complete(out, n0, a, lo, j0, p, q, len), lo <= j0 <= a.len(),
        forall|j: int| j0 <= j < a.len() ==> !seg_meets(#[trigger] a[j], p, len),
    ensures eq_sound(out, n0, a, lo, a.len() as int, p, q, len), eq_complete(out, n0, a, lo, a.len() as int, p, q, len),
{
    lemma_sound_widen(out, n0, a, lo, j0, a.len() as int, p, q, len);
    reveal(eq_complete);
}

// ---------------------------------------------------------------- vocabulary for the moved-insertion fill (region ta_insert_moved)
/// merged move targets inside one insertion: non-empty, sorted, strictly separated (what the merge loop above the region produces)
pub open spec fn moved_sep(ms: Seq<(usize, usize)>) -> bool {
    &&& forall|i: int| 0 <= i < ms.len() ==> (#[trigger] ms[i]).0 < ms[i].1
    &&& forall|i: int, j: int| 0 <= i < j < ms.len() ==> (#[trigger] ms[i]).1 < (#[trigger] ms[j]).0
}
/// offset x of the insertion is the target of a detected move (among the first n merged ranges)
pub open spec fn moved_has(ms: Seq<(usize, usize)>, n: int, x: int) -> bool { exists|i: int| 0 <= i < n && (#[trigger] ms[i]).0 <= x < ms[i].1 }
/// absolute position x of the new text is inside a range appended at or after index n0
pub open spec fn fill_has(v: Seq<Attribution>, n0: int, x: int) -> bool { exists|k: int| n0 <= k < v.len() && (#[trigger] v[k]).start <= x < v[k].end }
/// appended ranges: reporting author, non-empty, inside [q, q+upto], sorted and disjoint
pub open spec fn fill_wf(v: Seq<Attribution>, n0: int, q: int, upto: int, author: Seq<char>, ts: u128) -> bool {
    &&& forall|k: int| n0 <= k < v.len() ==> q <= (#[trigger] v[k]).start < v[k].end <= q + upto && v[k].author_id@ == author && v[k].ts == ts
    &&& forall|i: int, j: int| n0 <= i < j < v.len() ==> (#[trigger] v[i]).end <= (#[trigger] v[j]).start
}
proof fn lemma_fill_push(v: Seq<Attribution>, n0: int, a: Attribution, x: int)
    requires 0 <= n0 <= v.len()
    ensures fill_has(v.push(a), n0, x) <==> (fill_has(v, n0, x) || a.start <= x < a.end)
{
    let w = v.push(a);
    if fill_has(w, n0, x) {
        let k = choose|k: int| n0 <= k < w.len() && (#[trigger] w[k]).start <= x < w[k].end;
        if k < v.len() { assert(w[k] == v[k]); assert(n0 <= k < v.len() && v[k].start <= x < v[k].end); } else { assert(w[k] == a); }
    }
    if fill_has(v, n0, x) {
        let k = choose|k: int| n0 <= k < v.len() && (#[trigger] v[k]).start <= x < v[k].end;
        assert(w[k] == v[k]); assert(n0 <= k < w.len() && w[k].start <= x < w[k].end);
    }
    if a.start <= x < a.end { let k = v.len() as int; assert(w[k] == a); assert(n0 <= k < w.len() && w[k].start <= x < w[k].end); }
}
proof fn lemma_moved_step(ms: Seq<(usize, usize)>, k: int, x: int)
    requires 0 <= k < ms.len()
    ensures moved_has(ms, k + 1, x) <==> (moved_has(ms, k, x) || ms[k].0 <= x < ms[k].1)
{
    if moved_has(ms, k + 1, x) {
        let i = choose|i: int| 0 <= i < k + 1 && (#[trigger] ms[i]).0 <= x < ms[i].1;
        if i < k { assert(0 <= i < k && ms[i].0 <= x < ms[i].1); }
    }
    if moved_has(ms, k, x) {
        let i = choose|i: int| 0 <= i < k && (#[trigger] ms[i]).0 <= x < ms[i].1;
        assert(0 <= i < k + 1 && ms[i].0 <= x < ms[i].1);
    }
    if ms[k].0 <= x < ms[k].1 { assert(0 <= k < k + 1 && ms[k].0 <= x < ms[k].1); }
}
proof fn lemma_moved_ends_monotone(ms: Seq<(usize, usize)>, i: int, j: int)
    requires moved_sep(ms), 0 <= i <= j < ms.len()
    ensures ms[i].1 <= ms[j].1, ms[i].0 <= ms[j].0
    decreases j - i
{
    if i < j { lemma_moved_ends_monotone(ms, i, j - 1); assert(ms[j - 1].1 < ms[j].0); }
}

pub open spec fn has_newline(d: Seq<u8>) -> bool { exists|i: int| 0 <= i < d.len() && d[i] == 10u8 }
/// uninterpreted: what data_is_whitespace computes (non-empty valid UTF-8 consisting of whitespace only)
pub uninterp spec fn is_ws_bytes(d: Seq<u8>) -> bool;

pub assume_specification<T: PartialEq>[ <[T]>::contains ](s: &[T], x: &T) -> (r: bool)
    ensures r == (exists|i: int| 0 <= i < s@.len() && s@[i] == *x);

//#item file=src/authorship/attribution_tracker.rs kind=fn name=data_is_whitespace
//@ #[verifier::external_body]
fn data_is_whitespace(data: &[u8]) -> (r_: bool)
//@     ensures r_ == is_ws_bytes(data@),
{
    if data.is_empty() {
        return false;
    }

    std::str::from_utf8(data)
        .map(|s| s.chars().all(|c| c.is_whitespace()))
        .unwrap_or(false)
}
//#end
//#item file=src/authorship/attribution_tracker.rs kind=region name=ta_equal in=transform_attributions from="let old_range = (old_pos, old_pos + len);" to="prev_whitespace_delete = false;" from_nth=0 to_nth=0 impl="AttributionTracker"
//@ fn region_ta_equal(old_attributions: &[Attribution], mut old_pos: usize, mut new_pos: usize, len: usize, mut old_attr_cursor: usize, mut new_attributions: Vec<Attribution>, mut prev_whitespace_delete: bool) -> (r_: (usize, usize, usize, Vec<Attribution>, bool))
//@     requires
//@         attrs_sorted(old_attributions@),
//@         old_pos + len <= usize::MAX, new_pos + len <= usize::MAX,
//@         old_attr_cursor <= old_attributions@.len(),
//@         skipped_dead(old_attributions@, old_attr_cursor as int, old_pos as int),
//@     ensures
//@         r_.0 == old_pos + len, r_.1 == new_pos + len, r_.4 == false,
//@         old_attr_cursor <= r_.2 <= old_attributions@.len(),
//@         skipped_dead(old_attributions@, r_.2 as int, old_pos as int),
//@         prefix_kept(r_.3@, new_attributions@),
//@         // unchanged text keeps its author: sound and complete image of the old attributions that meet the segment
//@         eq_sound(r_.3@, new_attributions@.len() as int, old_attributions@, r_.2 as int, old_attributions@.len() as int, old_pos as int, new_pos as int, len as int),
//@         eq_complete(r_.3@, new_attributions@.len() as int, old_attributions@, r_.2 as int, old_attributions@.len() as int, old_pos as int, new_pos as int, len as int),
//@         // every produced range is non-empty and lies inside the new-text segment
//@         in_segment(r_.3@, new_attributions@.len() as int, new_pos as int, len as int),
//@ {
//@     let ghost in_attrs = new_attributions@;
//@     let ghost p = old_pos as int; let ghost q = new_pos as int; let ghost n0 = new_attributions@.len() as int;
//@     let ghost c0 = old_attr_cursor;
                    let old_range = (old_pos, old_pos + len);
                    let new_range = (new_pos, new_pos + len);

                    while old_attr_cursor < old_attributions.len()
                        && old_attributions[old_attr_cursor].end <= old_range.0
                        //@     invariant
                        //@         c0 <= old_attr_cursor <= old_attributions@.len(), old_range.0 == old_pos,
                        //@         skipped_dead(old_attributions@, old_attr_cursor as int, old_pos as int),
                        //@     decreases old_attributions@.len() - old_attr_cursor,
                    {
                        old_attr_cursor += 1;
                    }
                    let mut attr_idx = old_attr_cursor;
                    //@ proof { lemma_eq_init(new_attributions@, old_attributions@, old_attr_cursor as int, p, q, len as int); }
                    while attr_idx < old_attributions.len()
                    //@     invariant
                    //@         old_attr_cursor <= attr_idx <= old_attributions@.len(),
                    //@         attrs_sorted(old_attributions@),
                    //@         old_range == (old_pos, (old_pos + len) as usize), new_range == (new_pos, (new_pos + len) as usize), old_pos + len <= usize::MAX, new_pos + len <= usize::MAX,
                    //@         p == old_pos, q == new_pos, n0 == in_attrs.len(),
                    //@         prefix_kept(new_attributions@, in_attrs),
                    //@         eq_sound(new_attributions@, n0, old_attributions@, old_attr_cursor as int, attr_idx as int, p, q, len as int),
                    //@         eq_complete(new_attributions@, n0, old_attributions@, old_attr_cursor as int, attr_idx as int, p, q, len as int),
                    //@         in_segment(new_attributions@, n0, q, len as int),
                    //@     ensures
                    //@         old_attr_cursor <= attr_idx <= old_attributions@.len(),
                    //@         prefix_kept(new_attributions@, in_attrs),
                    //@         eq_sound(new_attributions@, n0, old_attributions@, old_attr_cursor as int, old_attributions@.len() as int, p, q, len as int),
                    //@         eq_complete(new_attributions@, n0, old_attributions@, old_attr_cursor as int, old_attributions@.len() as int, p, q, len as int),
                    //@         in_segment(new_attributions@, n0, q, len as int),
                    //@     decreases old_attributions@.len() - attr_idx,
                    {
                        let attr = &old_attributions[attr_idx];
                        //@ let ghost before = new_attributions@;
                        if attr.start >= old_range.1 {
                        //@     proof {
                        //@         // sorted by start: nothing from here on can meet the segment
                        //@         assert forall|j: int| attr_idx <= j < old_attributions@.len() implies !seg_meets(#[trigger] old_attributions@[j], p, len as int) by {
                        //@             assert(old_attributions@[attr_idx as int].start <= old_attributions@[j].start);
                        //@         }
                        //@         lemma_rest(new_attributions@, n0, old_attributions@, old_attr_cursor as int, attr_idx as int, p, q, len as int);
                        //@     }
                            break;
                        }
                        if let Some((overlap_start, overlap_end)) =
                            attr.intersection(old_range.0, old_range.1)
                        {
                            // Transform to new position
                            let offset_in_range = overlap_start - old_range.0;
                            let overlap_len = overlap_end - overlap_start;

                            new_attributions.push(Attribution::new(
                                new_range.0 + offset_in_range,
                                new_range.0 + offset_in_range + overlap_len,
                                attr.author_id.clone(),
                                attr.ts,
                            ));
                        }
                        //@ proof {
                        //@     let j0 = attr_idx as int;
                        //@     if new_attributions@.len() > before.len() {
                        //@         let x = new_attributions@[before.len() as int];
                        //@         assert(new_attributions@ =~= before.push(x));
                        //@         lemma_push_sound(before, x, n0, old_attributions@, old_attr_cursor as int, j0, p, q, len as int);
    //@         lemma_push_complete(before, x, n0, old_attributions@, old_attr_cursor as int, j0, p, q, len as int);
    //@         lemma_push_inside(before, x, in_attrs, n0, q, len as int);
                        //@     } else {
                        //@         lemma_skip(new_attributions@, n0, old_attributions@, old_attr_cursor as int, j0, p, q, len as int);
                        //@     }
                        //@ }
                        attr_idx += 1;
                    }

                    old_pos += len;
                    new_pos += len;
                    prev_whitespace_delete = false;
//@     (old_pos, new_pos, old_attr_cursor, new_attributions, prev_whitespace_delete)
//@ }
//#end
//#item file=src/authorship/attribution_tracker.rs kind=region name=ta_insert in=transform_attributions from="let insertion_range = (new_pos, new_pos + len);" to="prev_whitespace_delete = false;" from_nth=0 to_nth=0 impl="AttributionTracker"
//@ fn region_ta_insert(diff: &ByteDiff, old_attributions: &[Attribution], current_author: &str, ts: u128, substantive_new_ranges: &[(usize, usize)], old_pos: usize, mut new_pos: usize, len: usize, mut insertion_idx: usize, mut prev_whitespace_delete: bool, mut insertion_attr_cursor: usize, mut new_attributions: Vec<Attribution>) -> (r_: (usize, usize, bool, usize, Vec<Attribution>))
//@     requires
//@         len == bd_data(*diff).len(), new_pos + len <= usize::MAX, insertion_idx < usize::MAX,
//@         ranges_sorted_disjoint(substantive_new_ranges@), attrs_sorted(old_attributions@),
//@         insertion_attr_cursor <= old_attributions@.len(),
//@     ensures
//@         r_.0 == new_pos + len, r_.1 == insertion_idx + 1, r_.2 == false,
//@         insertion_attr_cursor <= r_.3 <= old_attributions@.len(),
//@         // exactly one range is appended and it covers exactly the inserted bytes
//@         r_.4@.len() == new_attributions@.len() + 1, prefix_kept(r_.4@, new_attributions@),
//@         r_.4@.last().start == new_pos, r_.4@.last().end == new_pos + len,
//@         // new substantive text (or anything containing a newline) belongs to the reporting author
//@         (has_newline(bd_data(*diff)) || any_intersect(substantive_new_ranges@, substantive_new_ranges@.len() as int, (new_pos, (new_pos + len) as usize)))
//@             ==> (r_.4@.last().author_id@ == current_author@ && r_.4@.last().ts == ts),
//@         // a non-substantive insertion that is not half of a whitespace delete/insert pair continues the preceding range
//@         (!has_newline(bd_data(*diff)) && !any_intersect(substantive_new_ranges@, substantive_new_ranges@.len() as int, (new_pos, (new_pos + len) as usize))
//@             && !(prev_whitespace_delete && is_ws_bytes(bd_data(*diff))) && new_attributions@.len() > 0)
//@             ==> (r_.4@.last().author_id@ == new_attributions@.last().author_id@ && r_.4@.last().ts == new_attributions@.last().ts),
//@ {
//@     let ghost in_attrs = new_attributions@;
                    let insertion_range = (new_pos, new_pos + len);
                    let is_substantive_insert =
                        ranges_intersect(substantive_new_ranges, insertion_range);
                    let is_whitespace_only = data_is_whitespace(diff.data());
                    let contains_newline = diff.data().contains(&b'\n');
                    let is_formatting_pair = prev_whitespace_delete && is_whitespace_only;
                    let (author_id, attribution_ts) = if contains_newline {
                        (current_author.to_string(), ts)
                    } else if is_substantive_insert {
                        (current_author.to_string(), ts)
                    } else if is_formatting_pair {
                        if let Some(attr) = find_attribution_for_insertion(
                            old_attributions,
                            old_pos,
                            &mut insertion_attr_cursor,
                        ) {
                            (attr.author_id.clone(), attr.ts)
                        } else if let Some(attr) = new_attributions.last() {
                            (attr.author_id.clone(), attr.ts)
                        } else {
                            (current_author.to_string(), ts)
                        }
                    } else if let Some(attr) = new_attributions.last() {
                        (attr.author_id.clone(), attr.ts)
                    } else if let Some(attr) = find_attribution_for_insertion(
                        old_attributions,
                        old_pos,
                        &mut insertion_attr_cursor,
                    ) {
                        (attr.author_id.clone(), attr.ts)
                    } else {
                        (current_author.to_string(), ts)
                    };

                    new_attributions.push(Attribution::new(
                        new_pos,
                        new_pos + len,
                        author_id,
                        attribution_ts,
                    ));

                    new_pos += len;
                    insertion_idx += 1;
                    prev_whitespace_delete = false;
//@     proof { assert(new_attributions@.subrange(0, in_attrs.len() as int) =~= in_attrs); }
//@     (new_pos, insertion_idx, prev_whitespace_delete, insertion_attr_cursor, new_attributions)
//@ }
//#end
//#item file=src/authorship/attribution_tracker.rs kind=region name=ta_insert_moved in=transform_attributions from="let mut cursor = 0usize;" to="prev_whitespace_delete = false;" from_nth=0 to_nth=0 impl="AttributionTracker"
//@ fn region_ta_insert_moved(merged: Vec<(usize, usize)>, current_author: &str, ts: u128, mut new_pos: usize, len: usize, mut insertion_idx: usize, mut prev_whitespace_delete: bool, mut new_attributions: Vec<Attribution>) -> (r_: (usize, usize, bool, Vec<Attribution>))
//@     requires
//@         moved_sep(merged@), new_pos + len <= usize::MAX, insertion_idx < usize::MAX,
//@     ensures
//@         r_.0 == new_pos + len, r_.1 == insertion_idx + 1, r_.2 == false,
//@         prefix_kept(r_.3@, new_attributions@),
//@         // appended ranges: by the reporting author, non-empty, inside the inserted segment, sorted and disjoint
//@         fill_wf(r_.3@, new_attributions@.len() as int, new_pos as int, len as int, current_author@, ts),
//@         // and they cover exactly the inserted bytes that no detected move accounts for
//@         forall|x: int| 0 <= x < len ==> (#[trigger] fill_has(r_.3@, new_attributions@.len() as int, new_pos + x) <==> !moved_has(merged@, merged@.len() as int, x)),
//@ {
//@     let ghost inp = new_attributions@; let ghost n0 = new_attributions@.len() as int; let ghost q = new_pos as int; let ghost ms = merged@;
                        let mut cursor = 0usize;
                        //@ proof { assert(new_attributions@.subrange(0, inp.len() as int) =~= inp); }
                        for (start, end) in it_0: merged
                        //@     invariant
                        //@         it_0.snapshot@.remaining() =~= ms, moved_sep(ms), q == new_pos, n0 == inp.len(), new_pos + len <= usize::MAX,
                        //@         cursor <= len,
                        //@         it_0.index@ > 0 ==> cursor == min_int(ms[it_0.index@ - 1].1 as int, len as int),
                        //@         it_0.index@ == 0 ==> cursor == 0,
                        //@         prefix_kept(new_attributions@, inp),
                        //@         fill_wf(new_attributions@, n0, q, cursor as int, current_author@, ts),
                        //@         forall|x: int| 0 <= x < cursor ==> (#[trigger] fill_has(new_attributions@, n0, q + x) <==> !moved_has(ms, it_0.index@, x)),
                        //@         forall|x: int| x >= q + cursor ==> !(#[trigger] fill_has(new_attributions@, n0, x)),
                        {
                            //@ let ghost k = it_0.index@;
                            //@ let ghost before = new_attributions@;
                            //@ let ghost c_old = cursor;
                            //@ proof { assert((start, end) == ms[k]); if k > 0 { assert(ms[k - 1].1 < ms[k].0); } }
                            let clamped_start = start.min(len);
                            let clamped_end = end.min(len);

                            if cursor < clamped_start {
                                new_attributions.push(Attribution::new(
                                    new_pos + cursor,
                                    new_pos + clamped_start,
                                    current_author.to_string(),
                                    ts,
                                ));
                            }

                            cursor = cursor.max(clamped_end);
                            //@ proof {
                            //@     if new_attributions@.len() > before.len() {
                            //@         let a = new_attributions@[before.len() as int];
                            //@         assert(new_attributions@ =~= before.push(a));
                            //@         assert(new_attributions@.subrange(0, inp.len() as int) =~= before.subrange(0, inp.len() as int));
                            //@         assert forall|x: int| fill_has(new_attributions@, n0, x) <==> (fill_has(before, n0, x) || a.start <= x < a.end) by { lemma_fill_push(before, n0, a, x); }
                            //@     }
                            //@     assert(cursor == min_int(end as int, len as int));
                            //@     assert forall|x: int| 0 <= x < cursor implies (#[trigger] fill_has(new_attributions@, n0, q + x) <==> !moved_has(ms, k + 1, x)) by {
                            //@         lemma_moved_step(ms, k, x);
                            //@         if new_attributions@.len() > before.len() { lemma_fill_push(before, n0, new_attributions@[before.len() as int], q + x); }
                            //@         if x < c_old {
                            //@             assert(fill_has(before, n0, q + x) <==> !moved_has(ms, k, x));
                            //@             assert(x < start);
                            //@         } else {
                            //@             assert(!fill_has(before, n0, q + x));
                            //@             if moved_has(ms, k, x) {
                            //@                 let i = choose|i: int| 0 <= i < k && (#[trigger] ms[i]).0 <= x < ms[i].1;
                            //@                 lemma_moved_ends_monotone(ms, i, k - 1);
                            //@                 assert(false);
                            //@             }
                            //@         }
                            //@     }
                            //@     assert forall|x: int| x >= q + cursor implies !(#[trigger] fill_has(new_attributions@, n0, x)) by {
                            //@         if new_attributions@.len() > before.len() { lemma_fill_push(before, n0, new_attributions@[before.len() as int], x); }
                            //@     }
                            //@ }
                        }

                        //@ let ghost before2 = new_attributions@;
                        //@ let ghost c2 = cursor;
                        //@ proof {
                        //@     // after the loop every range has been processed: nothing at or beyond the cursor is covered by a move
                        //@     assert forall|x: int| c2 <= x < len implies !moved_has(ms, ms.len() as int, x) by {
                        //@         if moved_has(ms, ms.len() as int, x) { let i = choose|i: int| 0 <= i < ms.len() && (#[trigger] ms[i]).0 <= x < ms[i].1; lemma_moved_ends_monotone(ms, i, ms.len() - 1); }
                        //@     }
                        //@ }
                        if cursor < len {
                            new_attributions.push(Attribution::new(
                                new_pos + cursor,
                                new_pos + len,
                                current_author.to_string(),
                                ts,
                            ));
                        }

                        //@ proof {
                        //@     if new_attributions@.len() > before2.len() {
                        //@         let a = new_attributions@[before2.len() as int];
                        //@         assert(new_attributions@ =~= before2.push(a));
                        //@         assert(new_attributions@.subrange(0, inp.len() as int) =~= before2.subrange(0, inp.len() as int));
                        //@         assert forall|x: int| fill_has(new_attributions@, n0, x) <==> (fill_has(before2, n0, x) || a.start <= x < a.end) by { lemma_fill_push(before2, n0, a, x); }
                        //@     }
                        //@     assert forall|x: int| 0 <= x < len implies (#[trigger] fill_has(new_attributions@, n0, q + x) <==> !moved_has(ms, ms.len() as int, x)) by {
                        //@         if new_attributions@.len() > before2.len() { lemma_fill_push(before2, n0, new_attributions@[before2.len() as int], q + x); }
                        //@     }
                        //@ }
                        new_pos += len;
                        insertion_idx += 1;
                        prev_whitespace_delete = false;
//@     (new_pos, insertion_idx, prev_whitespace_delete, new_attributions)
//@ }
//#end
//#item file=src/authorship/attribution_tracker.rs kind=struct name=MoveMapping
pub(crate) struct MoveMapping {
    pub(crate) deletion_idx: usize,
    pub(crate) insertion_idx: usize,
    pub(crate) source_range: (usize, usize),
    pub(crate) target_range: (usize, usize),
}
//#end
//#item file=src/authorship/attribution_tracker.rs kind=struct name=Insertion
pub(crate) struct Insertion {
    pub(crate) start: usize,
    pub(crate) end: usize,
    pub(crate) bytes: Vec<u8>,
}
//#end
//#item file=src/authorship/attribution_tracker.rs kind=region name=ta_delete_move in=transform_attributions from="let insertion = &insertions[mapping.insertion_idx];" to="=}" from_nth=0 to_nth=5 impl="AttributionTracker"
//@ fn region_ta_delete_move(insertions: &[Insertion], mapping: &MoveMapping, deletion_range: (usize, usize), old_attributions: &[Attribution], mut old_attr_cursor: usize, mut new_attributions: Vec<Attribution>) -> (r_: (usize, Vec<Attribution>))
//@     requires
//@         mapping.insertion_idx < insertions@.len(),
//@         deletion_range.0 + mapping.source_range.0 <= usize::MAX, deletion_range.0 + mapping.source_range.1 <= usize::MAX,
//@         mapping.source_range.0 < mapping.source_range.1 ==> insertions@[mapping.insertion_idx as int].start + mapping.target_range.0 + (mapping.source_range.1 - mapping.source_range.0) <= usize::MAX,
//@         attrs_sorted(old_attributions@), old_attr_cursor <= old_attributions@.len(),
//@         skipped_dead(old_attributions@, old_attr_cursor as int, deletion_range.0 + mapping.source_range.0),
//@     ensures
//@         old_attr_cursor <= r_.0 <= old_attributions@.len(),
//@         skipped_dead(old_attributions@, r_.0 as int, deletion_range.0 + mapping.source_range.0),
//@         prefix_kept(r_.1@, new_attributions@),
//@         // an empty source range moves nothing
//@         mapping.source_range.0 >= mapping.source_range.1 ==> (r_.1@ == new_attributions@ && r_.0 == old_attr_cursor),
//@         // moved text keeps its author: sound and complete image of the old attributions that meet the moved source range,
//@         // shifted to where the move lands inside the insertion
//@         mapping.source_range.0 < mapping.source_range.1 ==> {
//@             let p = deletion_range.0 + mapping.source_range.0;
//@             let q = insertions@[mapping.insertion_idx as int].start + mapping.target_range.0;
//@             let n = mapping.source_range.1 - mapping.source_range.0;
//@             &&& eq_sound(r_.1@, new_attributions@.len() as int, old_attributions@, r_.0 as int, old_attributions@.len() as int, p, q, n)
//@             &&& eq_complete(r_.1@, new_attributions@.len() as int, old_attributions@, r_.0 as int, old_attributions@.len() as int, p, q, n)
//@             &&& in_segment(r_.1@, new_attributions@.len() as int, q, n)
//@         },
//@ {
//@     let ghost in_attrs = new_attributions@; let ghost n0 = new_attributions@.len() as int; let ghost c0 = old_attr_cursor;
//@     proof { assert(new_attributions@.subrange(0, in_attrs.len() as int) =~= in_attrs); }
                            let insertion = &insertions[mapping.insertion_idx];
                            let source_start = deletion_range.0 + mapping.source_range.0;
                            let source_end = deletion_range.0 + mapping.source_range.1;

                            if source_start < source_end {
                                let target_start = insertion.start + mapping.target_range.0;
                                //@ let ghost p = source_start as int; let ghost q = target_start as int; let ghost n = (source_end - source_start) as int;

                                while old_attr_cursor < old_attributions.len()
                                    && old_attributions[old_attr_cursor].end <= source_start
                                    //@     invariant
                                    //@         c0 <= old_attr_cursor <= old_attributions@.len(),
                                    //@         skipped_dead(old_attributions@, old_attr_cursor as int, source_start as int),
                                    //@     decreases old_attributions@.len() - old_attr_cursor,
                                {
                                    old_attr_cursor += 1;
                                }
                                let mut attr_idx = old_attr_cursor;
                                //@ proof { lemma_eq_init(new_attributions@, old_attributions@, old_attr_cursor as int, p, q, n); }
                                while attr_idx < old_attributions.len()
                                //@     invariant
                                //@         old_attr_cursor <= attr_idx <= old_attributions@.len(),
                                //@         attrs_sorted(old_attributions@),
                                //@         p == source_start, q == target_start, n == source_end - source_start, source_start < source_end, n0 == in_attrs.len(), q + n <= usize::MAX,
                                //@         prefix_kept(new_attributions@, in_attrs),
                                //@         eq_sound(new_attributions@, n0, old_attributions@, old_attr_cursor as int, attr_idx as int, p, q, n),
                                //@         eq_complete(new_attributions@, n0, old_attributions@, old_attr_cursor as int, attr_idx as int, p, q, n),
                                //@         in_segment(new_attributions@, n0, q, n),
                                //@     ensures
                                //@         old_attr_cursor <= attr_idx <= old_attributions@.len(),
                                //@         prefix_kept(new_attributions@, in_attrs),
                                //@         eq_sound(new_attributions@, n0, old_attributions@, old_attr_cursor as int, old_attributions@.len() as int, p, q, n),
                                //@         eq_complete(new_attributions@, n0, old_attributions@, old_attr_cursor as int, old_attributions@.len() as int, p, q, n),
                                //@         in_segment(new_attributions@, n0, q, n),
                                //@     decreases old_attributions@.len() - attr_idx,
                                {
                                    let attr = &old_attributions[attr_idx];
                                    //@ let ghost before = new_attributions@;
                                    if attr.start >= source_end {
                                    //@     proof {
                                    //@         assert forall|j: int| attr_idx <= j < old_attributions@.len() implies !seg_meets(#[trigger] old_attributions@[j], p, n) by {
                                    //@             assert(old_attributions@[attr_idx as int].start <= old_attributions@[j].start);
                                    //@         }
                                    //@         lemma_rest(new_attributions@, n0, old_attributions@, old_attr_cursor as int, attr_idx as int, p, q, n);
                                    //@     }
                                        break;
                                    }
                                    if let Some((overlap_start, overlap_end)) =
                                        attr.intersection(source_start, source_end)
                                    {
                                        let offset_in_source = overlap_start - source_start;
                                        let new_start = target_start + offset_in_source;
                                        let new_end = new_start + (overlap_end - overlap_start);

                                        if new_start < new_end {
                                            new_attributions.push(Attribution::new(
                                                new_start,
                                                new_end,
                                                attr.author_id.clone(),
                                                attr.ts,
                                            ));
                                        }
                                    }
                                    //@ proof {
                                    //@     let j0 = attr_idx as int;
                                    //@     if new_attributions@.len() > before.len() {
                                    //@         let x = new_attributions@[before.len() as int];
                                    //@         assert(new_attributions@ =~= before.push(x));
                                    //@         lemma_push_sound(before, x, n0, old_attributions@, old_attr_cursor as int, j0, p, q, n);
                                    //@         lemma_push_complete(before, x, n0, old_attributions@, old_attr_cursor as int, j0, p, q, n);
                                    //@         lemma_push_inside(before, x, in_attrs, n0, q, n);
                                    //@     } else {
                                    //@         lemma_skip(new_attributions@, n0, old_attributions@, old_attr_cursor as int, j0, p, q, n);
                                    //@     }
                                    //@ }
                                    attr_idx += 1;
                                }
                            }
//@     (old_attr_cursor, new_attributions)
//@ }
//#end

} // verus!
fn main() {}
