// Replay driver for unit finalstate: the ORIGINAL restore_author_in_range on small attribution lists; oracle: byte by byte
// and author by author, the credit after the call is what re-crediting exactly [range_start, range_end) prescribes.
#![allow(dead_code, unused)]
mod authorship { pub mod attribution_tracker { pub use crate::Attribution; } }
include!("@ITEMS@");
use std::panic::{catch_unwind, AssertUnwindSafe};
struct Ctx { evaluated: u64, failed: std::collections::HashSet<String> }
impl Ctx {
    fn fail(&mut self, f: &str, clause: &str, input: String, observed: String, expected: String) {
        if self.failed.insert(format!("{}::{}", f, clause)) { println!("FAIL fn=[[{}]] clause=[[{}]] input=[[{}]] observed=[[{}]] expected=[[{}]]", f, clause, input, observed, expected); }
    }
}
fn guarded<T>(f: impl FnOnce() -> T) -> Result<T, String> {
    catch_unwind(AssertUnwindSafe(f)).map_err(|e| { let m = e.downcast_ref::<String>().cloned().or_else(|| e.downcast_ref::<&str>().map(|s| s.to_string())).unwrap_or_default(); format!("panic: {}", m) })
}
struct Rng(u64);
impl Rng { fn next(&mut self) -> u64 { self.0 ^= self.0 << 13; self.0 ^= self.0 >> 7; self.0 ^= self.0 << 17; self.0 } fn below(&mut self, n: u64) -> u64 { self.next() % n } }
const AUTHORS: &[&str] = &["__DUMMY__", "ai-x", "ai-y", "human"];
fn credited(attrs: &[(usize, usize, String)], a: &str, p: usize) -> bool { attrs.iter().any(|(s, e, au)| au == a && *s <= p && p < *e) }
/// input: start-end-author,... | range_start | range_end | author
fn chk(c: &mut Ctx, attrs: &[(usize, usize, String)], rs: usize, re: usize, author: &str) {
    c.evaluated += 1;
    let input = format!("{}|{}|{}|{}", attrs.iter().map(|(s, e, a)| format!("{}-{}-{}", s, e, a)).collect::<Vec<_>>().join(","), rs, re, author);
    let v: Vec<Attribution> = attrs.iter().map(|(s, e, a)| Attribution::new(*s, *e, a.clone(), 7)).collect();
    let au = author.to_string();
    match guarded(move || restore_author_in_range(v, "__DUMMY__", &au, rs, re)) {
        Err(p) => c.fail("restore_author_in_range", "safety", input, p, "no panic".into()),
        Ok(out) => {
            let got: Vec<(usize, usize, String)> = out.iter().map(|a| (a.start, a.end, a.author_id.clone())).collect();
            let mut names: Vec<&str> = AUTHORS.to_vec(); names.push(author);
            for p in 0..24usize { for a in &names {
                let inside = rs <= p && p < re;
                let want = if inside { if *a == author { credited(attrs, author, p) || credited(attrs, "__DUMMY__", p) } else if *a == "__DUMMY__" { false } else { credited(attrs, a, p) } } else { credited(attrs, a, p) };
                if credited(&got, a, p) != want { c.fail("restore_author_in_range", "ensures#0", input.clone(), format!("byte {} credited to {}: {} (result {:?})", p, a, !want, got), format!("byte {} credited to {}: {} (only the placeholder's bytes inside [{}, {}) change hands)", p, a, want, rs, re)); return; }
            } }
        }
    }
}
/// the offset tables (cherry-pick replay and rebase replay): entry i must be where line i's text sits in the content
fn chk_offsets(c: &mut Ctx, content: &str) {
    for which in ["region_fs_offsets", "region_fs_offsets_rebase"] {
        c.evaluated += 1;
        let input = format!("OFFSETS|{}", content.replace('\\', "\\\\").replace('\r', "\\r").replace('\n', "\\n"));
        let owned = content.to_string();
        let rebase = which == "region_fs_offsets_rebase";
        match guarded(move || { let lines: Vec<&str> = owned.lines().collect(); let n = lines.len(); let texts: Vec<String> = lines.iter().map(|l| l.to_string()).collect(); (if rebase { region_fs_offsets_rebase(n, lines, owned.clone()) } else { region_fs_offsets(n, lines, owned.clone()) }, texts) }) {
            Err(p) => c.fail(which, "safety", input, p, "no panic".into()),
            Ok((starts, lines)) => {
                if starts.len() != lines.len() { c.fail(which, "ensures#0", input, format!("{} entries", starts.len()), format!("{} lines", lines.len())); continue; }
                for (i, l) in lines.iter().enumerate() {
                    let ok = content.as_bytes().get(starts[i]..starts[i] + l.len()).map(|b| b == l.as_bytes()).unwrap_or(false);
                    if !ok { c.fail(which, "ensures#1", input.clone(), format!("line {} ({:?}) recorded at byte {}", i + 1, l, starts[i]), "the byte offset at which that line's text sits in the content".into()); break; }
                }
            }
        }
    }
}
fn gen_attrs(g: &mut Rng) -> Vec<(usize, usize, String)> {
    (0..g.below(4)).map(|_| { let s = g.below(18) as usize; let e = s + g.below(7) as usize; (s, e, AUTHORS[g.below(AUTHORS.len() as u64) as usize].to_string()) }).collect()
}
fn main() {
    std::panic::set_hook(Box::new(|_| {}));
    let a: Vec<String> = std::env::args().collect();
    let mut c = Ctx { evaluated: 0, failed: Default::default() };
    if a[1] == "search" {
        // one placeholder block over three "lines" [0,5) [5,12) [12,20): re-credit each line in turn
        for (rs, re) in [(0usize, 5usize), (5, 12), (12, 20), (6, 11), (0, 20), (3, 3)] { chk(&mut c, &[(0, 20, "__DUMMY__".into())], rs, re, "ai-x"); chk(&mut c, &[(2, 9, "__DUMMY__".into()), (9, 15, "human".into()), (15, 22, "__DUMMY__".into())], rs, re, "ai-x"); }
        for t in ["", "a", "a\n", "a\nb", "a\r\nb\r\n", "a\r\nb", "\r\n\r\nx", "a\rb\nc", "a\r\r\nb", "ü\r\n日本\r\nz", "x\n\ny\r\n\r\nz\r", "\n", "\r\n", "\r"] { chk_offsets(&mut c, t); }
        { let mut g2 = Rng(a[3].parse::<u64>().unwrap_or(0).wrapping_mul(0xD1B54A32D192ED03) | 1);
          for _ in 0..3000 { let n = g2.below(8); let t: String = (0..n).map(|_| format!("{}{}", ["", "a", "bc", "ü", "  x"][g2.below(5) as usize], ["\n", "\r\n", "\n", "\r"][g2.below(4) as usize])).collect(); chk_offsets(&mut c, &t); chk_offsets(&mut c, t.trim_end_matches('\n')); } }
        let mut g = Rng(a[3].parse::<u64>().unwrap_or(0).wrapping_mul(0x9E3779B97F4A7C15) | 1);
        for _ in 0..6000 { let v = gen_attrs(&mut g); let rs = g.below(20) as usize; let re = rs + g.below(8) as usize; chk(&mut c, &v, rs, re, ["ai-x", "ai-y", "__DUMMY__"][g.below(3) as usize]); }
    } else {
        if let Some(t) = a[3].strip_prefix("OFFSETS|") { let mut out = String::new(); let mut it = t.chars(); while let Some(ch) = it.next() { if ch == '\\' { match it.next() { Some('r') => out.push('\r'), Some('n') => out.push('\n'), Some(o) => out.push(o), None => {} } } else { out.push(ch); } } chk_offsets(&mut c, &out); println!("DONE evaluated={}", c.evaluated); return; }
        let q: Vec<&str> = a[3].split('|').collect();
        let attrs: Vec<(usize, usize, String)> = q[0].split(',').filter(|x| !x.is_empty()).map(|x| { let w: Vec<&str> = x.splitn(3, '-').collect(); (w[0].parse().unwrap(), w[1].parse().unwrap(), w[2].to_string()) }).collect();
        chk(&mut c, &attrs, q[1].parse().unwrap(), q[2].parse().unwrap(), q[3]);
    }
    println!("DONE evaluated={}", c.evaluated);
}
