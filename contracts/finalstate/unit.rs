// Unit finalstate — properties C02 / C03: when attributions are carried through a rewritten commit
// (transform_attributions_to_final_state) text that re-appears is re-credited to its original AI author BY LINE CONTENT.
// restore_author_in_range is the step that does the re-crediting: it must credit exactly the bytes of the matched line that
// carried the placeholder author - nothing outside the line, nothing that had another author - so that "nothing else becomes AI".
use vstd::prelude::*;
use vstd::std_specs::iter::IteratorSpec;
use vstd::utf8::*;
use vstd::string::StringSliceAdditionalSpecFns;
verus! {


//#item file=src/authorship/attribution_tracker.rs kind=struct name=Attribution derive=PartialEq,Eq
#[derive(PartialEq, Eq)]
pub struct Attribution {
    pub start: usize,
    pub end: usize,
    pub author_id: String,
    pub ts: u128,
}
//#end
impl Attribution {
//#item file=src/authorship/attribution_tracker.rs kind=fn name=new impl="Attribution"
    pub fn new(start: usize, end: usize, author_id: String, ts: u128) -> (r_: Self)
    //@     ensures r_.start == start, r_.end == end, r_.author_id == author_id, r_.ts == ts,
    {
        Attribution {
            start,
            end,
            author_id,
            ts,
        }
    }
//#end
}
/// rule O1 on the path `crate::authorship::attribution_tracker::Attribution`
pub type TrackerAttribution = Attribution;
/// `String == &str` (documented: equal exactly when the characters are equal; vstd gives this comparison no specification)
#[verifier::external_body]
fn opq_str_eq(s: &String, p: &str) -> (r: bool)
    ensures r == (s@ == p@),
{ unimplemented!() }
/// byte p is credited to author a by some attribution of the list
pub open spec fn in_piece(e: Attribution, a: Seq<char>, p: int) -> bool { e.author_id@ == a && e.start <= p < e.end }
pub open spec fn cov(attrs: Seq<Attribution>, a: Seq<char>, p: int) -> bool {
    exists|i: int| 0 <= i < attrs.len() && in_piece(#[trigger] attrs[i], a, p)
}
pub open spec fn cov_upto(attrs: Seq<Attribution>, n: int, a: Seq<char>, p: int) -> bool {
    exists|i: int| 0 <= i < n && in_piece(#[trigger] attrs[i], a, p)
}
pub proof fn lemma_cov_push(s: Seq<Attribution>, e: Attribution, a: Seq<char>, p: int)
    ensures cov(s.push(e), a, p) == (cov(s, a, p) || in_piece(e, a, p)),
{
    let t = s.push(e);
    if cov(s, a, p) { let i = choose|i: int| 0 <= i < s.len() && in_piece(#[trigger] s[i], a, p); assert(t[i] == s[i]); assert(in_piece(t[i], a, p)); }
    if in_piece(e, a, p) { assert(t[s.len() as int] == e); assert(in_piece(t[s.len() as int], a, p)); }
    if cov(t, a, p) { let i = choose|i: int| 0 <= i < t.len() && in_piece(#[trigger] t[i], a, p); if i < s.len() { assert(t[i] == s[i]); assert(in_piece(s[i], a, p)); } else { assert(t[i] == e); } }
}
pub proof fn lemma_cov_upto_step(s: Seq<Attribution>, n: int, a: Seq<char>, p: int)
    requires 0 <= n < s.len(),
    ensures cov_upto(s, n + 1, a, p) == (cov_upto(s, n, a, p) || in_piece(s[n], a, p)),
{
    if cov_upto(s, n, a, p) { let i = choose|i: int| 0 <= i < n && in_piece(#[trigger] s[i], a, p); assert(0 <= i < n + 1 && in_piece(s[i], a, p)); }
    if in_piece(s[n], a, p) { assert(0 <= n < n + 1 && in_piece(s[n], a, p)); }
    if cov_upto(s, n + 1, a, p) { let i = choose|i: int| 0 <= i < n + 1 && in_piece(#[trigger] s[i], a, p); if i < n { assert(0 <= i < n && in_piece(s[i], a, p)); } }
}
/// what re-crediting [rs, re) from the placeholder ph to the author au must do to the credit of byte p for author a
pub open spec fn recredited(before: Seq<Attribution>, n: int, ph: Seq<char>, au: Seq<char>, rs: int, re: int, a: Seq<char>, p: int) -> bool {
    if rs <= p < re {
        if a == au { cov_upto(before, n, au, p) || cov_upto(before, n, ph, p) } else if a == ph { false } else { cov_upto(before, n, a, p) }
    } else { cov_upto(before, n, a, p) }
}
pub open spec fn step_ok(out: Seq<Attribution>, before: Seq<Attribution>, n: int, ph: Seq<char>, au: Seq<char>, rs: int, re: int) -> bool {
    forall|a: Seq<char>, p: int| #![trigger cov(out, a, p)] cov(out, a, p) == recredited(before, n, ph, au, rs, re, a, p)
}

//#item file=src/authorship/rebase_authorship.rs kind=fn name=restore_author_in_range opaque='[{"expr": "crate::authorship::attribution_tracker::Attribution", "call": "TrackerAttribution"}, {"expr": "attr.author_id == placeholder", "call": "opq_str_eq(&attr.author_id, placeholder)"}]'
fn restore_author_in_range(
    attrs: Vec<TrackerAttribution>,
    placeholder: &str,
    author: &str,
    range_start: usize,
    range_end: usize,
) -> (r_: Vec<TrackerAttribution>)
//@     ensures
//@         // for EVERY byte p and EVERY author a: inside the range the placeholder's credit goes to `author` (and only the
//@         // placeholder's: bytes of other authors keep their author, bytes nobody had stay unattributed); OUTSIDE the range
//@         // nothing changes - in particular a neighbouring line covered by the same placeholder attribution is not credited
//@         step_ok(r_@, attrs@, attrs@.len() as int, placeholder@, author@, range_start as int, range_end as int),
{
    let mut out = Vec::new();
    //@ let ghost a0 = attrs@;
    for attr in it_0: attrs
    //@     invariant
    //@         a0 == attrs@, it_0.snapshot@.remaining() == a0,
    //@         step_ok(out@, a0, it_0.index@, placeholder@, author@, range_start as int, range_end as int),
    {
        //@ let ghost k = it_0.index@;
        //@ let ghost o0 = out@;
        //@ let ghost x = a0[k];
        //@ proof { assert(attr == x); }
        if opq_str_eq(&attr.author_id, placeholder) && attr.start < range_end && attr.end > range_start {
            //@ let ghost o1 = out@;
            if attr.start < range_start {
                out.push(TrackerAttribution::new(
                    attr.start,
                    range_start,
                    attr.author_id.clone(),
                    attr.ts,
                ));
            }
            //@ let ghost o2 = out@;
            out.push(TrackerAttribution::new(
                attr.start.max(range_start),
                attr.end.min(range_end),
                author.to_string(),
                attr.ts,
            ));
            //@ let ghost o3 = out@;
            if attr.end > range_end {
                out.push(TrackerAttribution::new(
                    range_end,
                    attr.end,
                    attr.author_id.clone(),
                    attr.ts,
                ));
            }
            //@ proof {
            //@     let o4 = out@;
            //@     assert forall|a: Seq<char>, p: int| #![trigger cov(o4, a, p)] cov(o4, a, p) == recredited(a0, k + 1, placeholder@, author@, range_start as int, range_end as int, a, p) by {
            //@         lemma_cov_upto_step(a0, k, a, p);
            //@         assert(cov(o1, a, p) == recredited(a0, k, placeholder@, author@, range_start as int, range_end as int, a, p));
            //@         if x.start < range_start { lemma_cov_push(o1, o2[o1.len() as int], a, p); assert(o2 =~= o1.push(o2[o1.len() as int])); } else { assert(o2 =~= o1); }
            //@         lemma_cov_push(o2, o3[o2.len() as int], a, p); assert(o3 =~= o2.push(o3[o2.len() as int]));
            //@         if x.end > range_end { lemma_cov_push(o3, o4[o3.len() as int], a, p); assert(o4 =~= o3.push(o4[o3.len() as int])); } else { assert(o4 =~= o3); }
            //@         lemma_cov_upto_step(a0, k, placeholder@, p); lemma_cov_upto_step(a0, k, author@, p);
            //@     }
            //@ }
        } else {
            out.push(attr);
            //@ proof {
            //@     let o4 = out@;
            //@     assert(o4 =~= o0.push(x));
            //@     assert forall|a: Seq<char>, p: int| #![trigger cov(o4, a, p)] cov(o4, a, p) == recredited(a0, k + 1, placeholder@, author@, range_start as int, range_end as int, a, p) by {
            //@         lemma_cov_upto_step(a0, k, a, p); lemma_cov_upto_step(a0, k, placeholder@, p); lemma_cov_upto_step(a0, k, author@, p);
            //@         lemma_cov_push(o0, x, a, p);
            //@         assert(cov(o0, a, p) == recredited(a0, k, placeholder@, author@, range_start as int, range_end as int, a, p));
            //@     }
            //@ }
        }
    }
    out
}
//#end

// ---------------------------------------------------------------- where each line of the final content starts
pub open spec fn sb(s: String) -> Seq<u8> { encode_utf8(s@) }
/// the pieces of b between the occurrences of c (documented behaviour of splitting at a one-byte separator)
pub open spec fn split_of(b: Seq<u8>, c: u8) -> Seq<Seq<u8>>
    decreases b.len()
{
    if b.len() == 0 { seq![Seq::<u8>::empty()] } else {
        let pre = split_of(b.drop_last(), c);
        if b.last() == c { pre.push(Seq::<u8>::empty()) } else { pre.drop_last().push(pre.last().push(b.last())) }
    }
}
pub proof fn lemma_split_nonempty(b: Seq<u8>, c: u8)
    ensures split_of(b, c).len() >= 1,
    decreases b.len()
{
    if b.len() > 0 { lemma_split_nonempty(b.drop_last(), c); }
}
pub open spec fn strip_cr(p: Seq<u8>) -> Seq<u8> { if p.len() > 0 && p.last() == 0x0d { p.drop_last() } else { p } }
/// documented behaviour of `str::lines()`: the pieces between newlines, a carriage return before a newline removed,
/// no empty last line after a final newline
pub open spec fn lines_of(b: Seq<u8>) -> Seq<Seq<u8>> {
    let ps = split_of(b, 0x0a);
    let head = Seq::new((ps.len() - 1) as nat, |i: int| strip_cr(ps[i]));
    if ps.last().len() == 0 { head } else { head.push(ps.last()) }
}
pub open spec fn line_bytes(ls: Seq<&str>) -> Seq<Seq<u8>> { Seq::new(ls.len(), |i: int| ls[i].spec_bytes()) }
/// the offset at which piece i starts: every earlier piece and its one-byte separator
pub open spec fn poff(ps: Seq<Seq<u8>>, i: int) -> int
    decreases i
{
    if i <= 0 { 0 } else { poff(ps, i - 1) + ps[i - 1].len() + 1 }
}
pub proof fn lemma_poff_prefix(x: Seq<Seq<u8>>, y: Seq<Seq<u8>>, i: int)
    requires 0 <= i <= x.len(), i <= y.len(), forall|j: int| 0 <= j < i ==> x[j] == y[j],
    ensures poff(x, i) == poff(y, i),
    decreases i
{
    if i > 0 { lemma_poff_prefix(x, y, i - 1); }
}
/// the pieces sit in b one after the other, separated by exactly one c
pub open spec fn placed_at(b: Seq<u8>, ps: Seq<Seq<u8>>, i: int) -> bool {
    0 <= poff(ps, i) && poff(ps, i) + ps[i].len() <= b.len() && b.subrange(poff(ps, i), poff(ps, i) + ps[i].len()) == ps[i]
}
pub open spec fn pieces_placed(b: Seq<u8>, c: u8, ps: Seq<Seq<u8>>) -> bool {
    &&& ps.len() >= 1
    &&& poff(ps, ps.len() - 1) + ps.last().len() == b.len()
    &&& forall|i: int| 0 <= i < ps.len() ==> placed_at(b, ps, i)
    &&& forall|i: int| 0 <= i < ps.len() - 1 ==> b[poff(ps, i) + (#[trigger] ps[i]).len()] == c
}
pub proof fn lemma_poff_nonneg(ps: Seq<Seq<u8>>, i: int)
    ensures poff(ps, i) >= 0,
    decreases i
{
    if i > 0 { lemma_poff_nonneg(ps, i - 1); }
}
/// appending a separator: one more (empty) piece
proof fn lemma_positions_sep(b0: Seq<u8>, c: u8, pre: Seq<Seq<u8>>)
    requires pieces_placed(b0, c, pre),
    ensures pieces_placed(b0.push(c), c, pre.push(Seq::<u8>::empty())),
{
    let b = b0.push(c); let ps = pre.push(Seq::<u8>::empty()); let n = pre.len() as int;
    assert forall|i: int| 0 <= i <= n implies poff(ps, i) == poff(pre, i) by { lemma_poff_prefix(ps, pre, i); }
    assert(poff(ps, n) == poff(ps, n - 1) + ps[n - 1].len() + 1);
    assert(ps[n - 1] == pre[n - 1]);
    assert forall|i: int| 0 <= i < ps.len() implies placed_at(b, ps, i) by {
        if i < n { assert(placed_at(b0, pre, i)); assert(ps[i] == pre[i]); assert(b.subrange(poff(pre, i), poff(pre, i) + pre[i].len()) =~= b0.subrange(poff(pre, i), poff(pre, i) + pre[i].len())); }
        else { assert(b.subrange(poff(ps, n), poff(ps, n)) =~= ps[n]); }
    }
    assert forall|i: int| 0 <= i < ps.len() - 1 implies b[poff(ps, i) + (#[trigger] ps[i]).len()] == c by {
        assert(ps[i] == pre[i]); assert(placed_at(b0, pre, i));
        if i < n - 1 { assert(b[poff(pre, i) + pre[i].len()] == b0[poff(pre, i) + pre[i].len()]); }
    }
}
/// appending any other byte: the last piece grows
proof fn lemma_positions_byte(b0: Seq<u8>, c: u8, pre: Seq<Seq<u8>>, x: u8)
    requires pieces_placed(b0, c, pre), x != c,
    ensures pieces_placed(b0.push(x), c, pre.drop_last().push(pre.last().push(x))),
{
    let b = b0.push(x); let last2 = pre.last().push(x); let ps = pre.drop_last().push(last2); let n = pre.len() as int;
    assert forall|i: int| 0 <= i < n implies poff(ps, i) == poff(pre, i) by { lemma_poff_prefix(ps, pre, i); }
    assert forall|i: int| 0 <= i < ps.len() implies placed_at(b, ps, i) by {
        assert(placed_at(b0, pre, i));
        if i < n - 1 { assert(ps[i] == pre[i]); assert(b.subrange(poff(pre, i), poff(pre, i) + pre[i].len()) =~= b0.subrange(poff(pre, i), poff(pre, i) + pre[i].len())); }
        else {
            assert(ps[i] == last2);
            assert forall|t: int| 0 <= t < last2.len() implies b[poff(ps, i) + t] == last2[t] by {
                if t < pre[i].len() { assert(b0.subrange(poff(pre, i), poff(pre, i) + pre[i].len())[t] == pre[i][t]); }
            }
            assert(b.subrange(poff(ps, i), poff(ps, i) + last2.len()) =~= last2);
        }
    }
    assert forall|i: int| 0 <= i < ps.len() - 1 implies b[poff(ps, i) + (#[trigger] ps[i]).len()] == c by {
        assert(ps[i] == pre[i]); assert(placed_at(b0, pre, i)); assert(placed_at(b0, pre, i + 1)); assert(poff(pre, i + 1) == poff(pre, i) + pre[i].len() + 1);
        assert(b[poff(pre, i) + pre[i].len()] == b0[poff(pre, i) + pre[i].len()]);
    }
}
pub proof fn lemma_split_positions(b: Seq<u8>, c: u8)
    ensures pieces_placed(b, c, split_of(b, c)),
    decreases b.len()
{
    let ps = split_of(b, c);
    if b.len() == 0 {
        assert(ps =~= seq![Seq::<u8>::empty()]);
        assert(b.subrange(0, 0) =~= ps[0]);
        assert(placed_at(b, ps, 0));
    } else {
        let b0 = b.drop_last(); let x = b.last();
        lemma_split_positions(b0, c);
        assert(b0.push(x) =~= b);
        if x == c { lemma_positions_sep(b0, c, split_of(b0, c)); } else { lemma_positions_byte(b0, c, split_of(b0, c), x); }
    }
}
/// what follows the text of line k in the content: CR LF, LF, or the end
pub proof fn lemma_advance(b: Seq<u8>, k: int)
    requires 0 <= k < lines_of(b).len(),
    ensures ({
        let ps = split_of(b, 0x0a); let l = lines_of(b)[k]; let pos = poff(ps, k) + l.len();
        &&& k < ps.len() && 0 <= poff(ps, k) && pos <= b.len() && b.subrange(poff(ps, k), pos) == l
        &&& k < ps.len() - 1 && l.len() < ps[k].len() ==> pos + 1 < b.len() && b[pos] == 0x0d && b[pos + 1] == 0x0a && poff(ps, k + 1) == pos + 2
        &&& k < ps.len() - 1 && l.len() == ps[k].len() ==> pos < b.len() && b[pos] == 0x0a && poff(ps, k + 1) == pos + 1
        &&& k == ps.len() - 1 ==> pos == b.len()
        &&& l.len() <= ps[k].len()
    }),
{
    let ps = split_of(b, 0x0a); let l = lines_of(b)[k];
    lemma_split_positions(b, 0x0a);
    lemma_poff_nonneg(ps, k);
    let head = Seq::new((ps.len() - 1) as nat, |i: int| strip_cr(ps[i]));
    if ps.last().len() == 0 { assert(lines_of(b) == head); } else { assert(lines_of(b) == head.push(ps.last())); }
    assert(k < ps.len());
    if k < ps.len() - 1 { assert(head[k] == strip_cr(ps[k])); assert(l == strip_cr(ps[k])); } else { assert(ps.last().len() != 0); assert(l == ps[k]); }
    assert(placed_at(b, ps, k));
    assert(poff(ps, k + 1) == poff(ps, k) + ps[k].len() + 1);
    if k < ps.len() - 1 {
        assert(l == strip_cr(ps[k]));
        assert(placed_at(b, ps, k + 1));
        assert(b[poff(ps, k) + ps[k].len()] == 0x0a);
        if l.len() < ps[k].len() {
            assert(ps[k].last() == 0x0d);
            assert(b.subrange(poff(ps, k), poff(ps, k) + ps[k].len())[ps[k].len() - 1] == ps[k][ps[k].len() - 1]);
        }
    } else {
        assert(l == ps[k]);
    }
    assert(b.subrange(poff(ps, k), poff(ps, k) + l.len()) =~= l);
}
/// `content[pos..].starts_with("\r\n")` / `.starts_with('\n')` (documented behaviour; the slice index is the precondition)
#[verifier::external_body]
fn opq_at_crlf(s: &String, pos: usize) -> (r: bool)
    requires pos <= sb(*s).len(), is_char_boundary(sb(*s), pos as int),
    ensures r == (pos + 1 < sb(*s).len() && sb(*s)[pos as int] == 0x0d && sb(*s)[pos + 1] == 0x0a),
{ unimplemented!() }
#[verifier::external_body]
fn opq_at_lf(s: &String, pos: usize) -> (r: bool)
    requires pos <= sb(*s).len(), is_char_boundary(sb(*s), pos as int),
    ensures r == (pos < sb(*s).len() && sb(*s)[pos as int] == 0x0a),
{ unimplemented!() }
/// the recorded start of line i really is where that line's text sits in the content
pub open spec fn starts_ok(b: Seq<u8>, lines: Seq<Seq<u8>>, starts: Seq<usize>, n: int) -> bool {
    forall|i: int| 0 <= i < n ==> (#[trigger] starts[i]) + lines[i].len() <= b.len() && b.subrange(starts[i] as int, starts[i] + lines[i].len()) == lines[i]
}
//#item file=src/authorship/rebase_authorship.rs kind=region name=fs_offsets in=transform_attributions_to_final_state from="let mut line_start_chars = Vec::with_capacity(line_count);" to="// For each line with dummy attribution, try to restore from original" from_nth=0 to_nth=0 to_exclusive=yes opaque='[{"expr": "final_content[char_pos..].starts_with(\"\\r\\n\")", "call": "opq_at_crlf(&final_content, char_pos)"}, {"expr": "final_content[char_pos..].starts_with(\u0027\\n\u0027)", "call": "opq_at_lf(&final_content, char_pos)"}]'
//@ fn region_fs_offsets(line_count: usize, final_lines: Vec<&str>, final_content: String) -> (line_start_chars: Vec<usize>)
//@     requires line_bytes(final_lines@) == lines_of(sb(final_content)),    // `final_lines` is `final_content.lines().collect()`
//@         sb(final_content).len() <= usize::MAX,
//@     ensures
//@         // for LF and CRLF text alike: entry i is the byte offset at which line i's text sits in the content
//@         line_start_chars@.len() == final_lines@.len(),
//@         starts_ok(sb(final_content), line_bytes(final_lines@), line_start_chars@, final_lines@.len() as int),
//@ {
//@     let ghost b = sb(final_content);
//@     let ghost ps = split_of(b, 0x0a);
//@     let ghost ls = line_bytes(final_lines@);
//@     proof { lemma_split_nonempty(b, 0x0a); encode_utf8_valid_utf8(final_content@); is_char_boundary_start_end_of_seq(b); }
                let mut line_start_chars = Vec::with_capacity(line_count);
                let mut char_pos = 0usize;
                for line in it_0: &final_lines
                //@     invariant
                //@         b == sb(final_content), ps == split_of(b, 0x0a), ls == line_bytes(final_lines@), ls == lines_of(b), valid_utf8(b), b.len() <= usize::MAX, is_char_boundary(b, b.len() as int),
                //@         it_0.snapshot@.remaining().len() == ls.len(), forall|i: int| 0 <= i < ls.len() ==> (#[trigger] it_0.snapshot@.remaining()[i]).spec_bytes() == ls[i],
                //@         line_start_chars@.len() == it_0.index@, starts_ok(b, ls, line_start_chars@, it_0.index@),
                //@         char_pos == (if it_0.index@ < ps.len() { poff(ps, it_0.index@) } else { b.len() as int }),
                {
                    //@ let ghost k = it_0.index@;
                    //@ let ghost st0 = line_start_chars@;
                    //@ proof { assert(line.spec_bytes() == ls[k]); lemma_advance(b, k); }
                    line_start_chars.push(char_pos);
                    char_pos += line.len();
                    //@ proof {
                    //@     let pos = char_pos as int;
                    //@     if pos < b.len() { is_char_boundary_iff_not_is_continuation_byte(b, pos); }
                    //@     assert(starts_ok(b, ls, line_start_chars@, k + 1)) by { assert forall|i: int| 0 <= i < k + 1 implies (#[trigger] line_start_chars@[i]) + ls[i].len() <= b.len() && b.subrange(line_start_chars@[i] as int, line_start_chars@[i] + ls[i].len()) == ls[i] by { if i < k { assert(line_start_chars@[i] == st0[i]); } } }
                    //@ }
                    // Skip the line terminator that is actually there ("\r\n" counts two bytes)
                    if opq_at_crlf(&final_content, char_pos) {
                        char_pos += 2;
                    } else if opq_at_lf(&final_content, char_pos) {
                        char_pos += 1;
                    }
                }
//@     line_start_chars
//@ }
//#end
// the same table in the rebase replay (transform_changed_files_to_final_state)
//#item file=src/authorship/rebase_authorship.rs kind=region name=fs_offsets_rebase in=transform_changed_files_to_final_state from="let mut line_start_chars = Vec::with_capacity(line_count);" to="for (line_idx, line_content) in final_lines.iter().enumerate() {" from_nth=0 to_nth=0 to_exclusive=yes opaque='[{"expr": "final_content[char_pos..].starts_with(\"\\r\\n\")", "call": "opq_at_crlf(&final_content, char_pos)"}, {"expr": "final_content[char_pos..].starts_with(\u0027\\n\u0027)", "call": "opq_at_lf(&final_content, char_pos)"}]'
//@ fn region_fs_offsets_rebase(line_count: usize, final_lines: Vec<&str>, final_content: String) -> (line_start_chars: Vec<usize>)
//@     requires line_bytes(final_lines@) == lines_of(sb(final_content)),    // `final_lines` is `final_content.lines().collect()`
//@         sb(final_content).len() <= usize::MAX,
//@     ensures
//@         // for LF and CRLF text alike: entry i is the byte offset at which line i's text sits in the content
//@         line_start_chars@.len() == final_lines@.len(),
//@         starts_ok(sb(final_content), line_bytes(final_lines@), line_start_chars@, final_lines@.len() as int),
//@ {
//@     let ghost b = sb(final_content);
//@     let ghost ps = split_of(b, 0x0a);
//@     let ghost ls = line_bytes(final_lines@);
//@     proof { lemma_split_nonempty(b, 0x0a); encode_utf8_valid_utf8(final_content@); is_char_boundary_start_end_of_seq(b); }
                let mut line_start_chars = Vec::with_capacity(line_count);
                let mut char_pos = 0usize;
                for line in it_0: &final_lines
                //@     invariant
                //@         b == sb(final_content), ps == split_of(b, 0x0a), ls == line_bytes(final_lines@), ls == lines_of(b), valid_utf8(b), b.len() <= usize::MAX, is_char_boundary(b, b.len() as int),
                //@         it_0.snapshot@.remaining().len() == ls.len(), forall|i: int| 0 <= i < ls.len() ==> (#[trigger] it_0.snapshot@.remaining()[i]).spec_bytes() == ls[i],
                //@         line_start_chars@.len() == it_0.index@, starts_ok(b, ls, line_start_chars@, it_0.index@),
                //@         char_pos == (if it_0.index@ < ps.len() { poff(ps, it_0.index@) } else { b.len() as int }),
                {
                    //@ let ghost k = it_0.index@;
                    //@ let ghost st0 = line_start_chars@;
                    //@ proof { assert(line.spec_bytes() == ls[k]); lemma_advance(b, k); }
                    line_start_chars.push(char_pos);
                    char_pos += line.len();
                    //@ proof {
                    //@     let pos = char_pos as int;
                    //@     if pos < b.len() { is_char_boundary_iff_not_is_continuation_byte(b, pos); }
                    //@     assert(starts_ok(b, ls, line_start_chars@, k + 1)) by { assert forall|i: int| 0 <= i < k + 1 implies (#[trigger] line_start_chars@[i]) + ls[i].len() <= b.len() && b.subrange(line_start_chars@[i] as int, line_start_chars@[i] + ls[i].len()) == ls[i] by { if i < k { assert(line_start_chars@[i] == st0[i]); } } }
                    //@ }
                    // Skip the line terminator that is actually there ("\r\n" counts two bytes)
                    if opq_at_crlf(&final_content, char_pos) {
                        char_pos += 2;
                    } else if opq_at_lf(&final_content, char_pos) {
                        char_pos += 1;
                    }
                }
//@     line_start_chars
//@ }
//#end

} // verus!
fn main() {}
