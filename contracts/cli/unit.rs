// Unit cli — property C18: what the proxy hands to git.  ParsedGitInvocation::to_invocation_vec is the function
// that rebuilds the argv; it is proved to be exactly  global_args ++ ["--"]? ++ [command]? ++ command_args.
#![feature(pattern)]
use vstd::prelude::*;
use std::str::pattern::Pattern;
verus! {

#[verifier::external_trait_specification]
pub trait ExPattern: Sized {
    type ExternalTraitSpecificationFor: Pattern;
}
/// str::starts_with is uninterpreted here: the proofs are about WHERE tokens go, not about which tokens are options
pub uninterp spec fn pat_prefix<P>(s: Seq<char>, p: P) -> bool;
pub assume_specification<P: Pattern>[ str::starts_with::<P> ](s: &str, pat: P) -> (r: bool)
    ensures r == pat_prefix(s@, pat);
/// O1 stub for `tok.find('=')`: pure, total; its value is the uninterpreted find_eq
pub uninterp spec fn find_eq(s: Seq<char>) -> Option<usize>;
#[verifier::external_body]
fn opq_find_eq(s: &String) -> (r: Option<usize>)
    ensures r == find_eq(s@),
{ unimplemented!() }
/// O1 stubs for `&str == "lit"` / `String != "lit"` (vstd attaches no spec to these PartialEq impls): string equality
#[verifier::external_body]
fn opq_str_is(a: &str, b: &str) -> (r: bool)
    ensures r == (a@ == b@),
{ unimplemented!() }
#[verifier::external_body]
fn opq_string_is_not(a: &String, b: &str) -> (r: bool)
    ensures r == (a@ != b@),
{ unimplemented!() }
/// git's grammar for a value-taking global option: the token carries its own value when it is `--opt=value`
/// or a sticky `-C<path>` / `-c<name..>`; otherwise the value is the NEXT token
pub open spec fn carries_value(tok: Seq<char>, key: Seq<char>) -> bool {
    (match find_eq(tok) { Some(e) => e > 0 && pat_prefix(tok, "--"), None => false })
    || (key == "-C"@ && tok != "-C"@ && pat_prefix(tok, "-C"))
    || (key == "-c"@ && tok != "-c"@ && pat_prefix(tok, "-c"))
}

/// the argument vector as a sequence of strings
pub open spec fn strs(v: Seq<String>) -> Seq<Seq<char>> { v.map_values(|s: String| s@) }
pub open spec fn opt_str(o: Option<String>) -> Seq<Seq<char>> { match o { Some(c) => seq![c@], None => Seq::empty() } }
pub open spec fn dashdash(b: bool) -> Seq<Seq<char>> { if b { seq!["--"@] } else { Seq::empty() } }
/// what to_invocation_vec must return
pub open spec fn invocation_of(p: ParsedGitInvocation) -> Seq<Seq<char>> {
    strs(p.global_args@) + dashdash(p.saw_end_of_opts) + opt_str(p.command) + strs(p.command_args@)
}
proof fn lemma_strs_push(v: Seq<String>, s: String)
    ensures strs(v.push(s)) =~= strs(v).push(s@)
{
}
/// std: usize::from(bool) is 0 or 1
pub assume_specification[ <usize as From<bool>>::from ](b: bool) -> (r: usize)
    ensures r == (if b { 1usize } else { 0usize });
/// O1 stub for `v.extend(src.iter().cloned())`: appends clones of the elements in order (String::clone is the identity on the view)
#[verifier::external_body]
fn opq_extend_cloned(v: &mut Vec<String>, src: &Vec<String>)
    ensures strs(final(v)@) =~= strs(old(v)@) + strs(src@),
{ unimplemented!() }

//#item file=src/git/cli_parser.rs kind=struct name=ParsedGitInvocation
pub struct ParsedGitInvocation {
    pub global_args: Vec<String>,
    pub command: Option<String>,
    pub command_args: Vec<String>,
    pub saw_end_of_opts: bool,
    pub is_help: bool,
}
//#end
impl ParsedGitInvocation {
//#item file=src/git/cli_parser.rs kind=fn name=to_invocation_vec impl="ParsedGitInvocation" opaque='[{"expr": "v.extend(self.global_args.iter().cloned())", "call": "opq_extend_cloned(&mut v, &self.global_args)"}, {"expr": "v.extend(self.command_args.iter().cloned())", "call": "opq_extend_cloned(&mut v, &self.command_args)"}]'
    pub fn to_invocation_vec(&self) -> (r_: Vec<String>)
    //@     requires self.global_args@.len() + self.command_args@.len() + 2 <= usize::MAX,
    //@     ensures strs(r_@) =~= invocation_of(*self),
    {
        let mut v = Vec::with_capacity(
            self.global_args.len()
                + self.command_args.len()
                + usize::from(self.command.is_some())
                + usize::from(self.saw_end_of_opts),
        );
        opq_extend_cloned(&mut v, &self.global_args);
        if self.saw_end_of_opts {
            //@ let ghost v0 = v@;
            v.push("--".to_string());
            //@ proof { lemma_strs_push(v0, v@[v0.len() as int]); assert(v@ =~= v0.push(v@[v0.len() as int])); }
        }
        if let Some(cmd) = &self.command {
            //@ let ghost v1 = v@;
            v.push(cmd.clone());
            //@ proof { lemma_strs_push(v1, v@[v1.len() as int]); assert(v@ =~= v1.push(v@[v1.len() as int])); }
        }
        opq_extend_cloned(&mut v, &self.command_args);
        //@ proof { assert(strs(v@) =~= invocation_of(*self)); }
        v
    }
//#end
}
//#item file=src/git/cli_parser.rs kind=fn name=take_valueish in_fn=parse_git_cli_args opaque='[{"expr": "tok.find(\u0027=\u0027)", "call": "opq_find_eq(tok)"}, {"expr": "key == \"-C\"", "call": "opq_str_is(key, \"-C\")"}, {"expr": "tok != \"-C\"", "call": "opq_string_is_not(tok, \"-C\")"}, {"expr": "key == \"-c\"", "call": "opq_str_is(key, \"-c\")"}, {"expr": "tok != \"-c\"", "call": "opq_string_is_not(tok, \"-c\")"}]'
    fn take_valueish(all: &[String], i: usize, key: &str) -> (r_: (Vec<String>, usize))
    //@     requires i < all@.len(),
    //@     ensures
    //@         // the tokens handed back are exactly the tokens consumed, in order: nothing is dropped, invented or reordered
    //@         1 <= r_.1 <= 2, i + r_.1 <= all@.len(),
    //@         // a self-contained option token never swallows the token after it; a bare one takes exactly the next token
    //@         r_.1 == (if carries_value(all@[i as int]@, key@) || i + 1 >= all@.len() { 1usize } else { 2usize }),
    //@         strs(r_.0@) =~= strs(all@).subrange(i as int, i + r_.1),
    {
        let tok = &all[i];

        // Long form with '=' (e.g. --git-dir=/x, --exec-path=/x, --config-env=name=ENV).
        if let Some(eq) = opq_find_eq(tok) { if eq > 0
            && tok.starts_with("--") {
            return (vec![tok.clone()], 1);
        } }

        // Short sticky for -Cpath / -cname=value
        if opq_str_is(key, "-C") && opq_string_is_not(tok, "-C") && tok.starts_with("-C") {
            return (vec![tok.clone()], 1);
        }
        if opq_str_is(key, "-c") && opq_string_is_not(tok, "-c") && tok.starts_with("-c") {
            return (vec![tok.clone()], 1);
        }

        // Separate value in next token (if present).
        if i + 1 < all.len() {
            return (vec![tok.clone(), all[i + 1].clone()], 2);
        }
        // No following value; just return the option and let downstream handle the error later.
        (vec![tok.clone()], 1)
    }
//#end

/// O1 stubs for the Vec plumbing of parse_git_cli_args (documented std behaviour: elements are appended in order)
#[verifier::external_body]
fn opq_extend_owned(v: &mut Vec<String>, t: Vec<String>)
    ensures strs(final(v)@) =~= strs(old(v)@) + strs(t@),
{ unimplemented!() }
#[verifier::external_body]
fn opq_extend_tail(v: &mut Vec<String>, args: &[String], i: usize)
    requires i <= args@.len(),
    ensures strs(final(v)@) =~= strs(old(v)@) + strs(args@).subrange(i as int, args@.len() as int),
{ unimplemented!() }
/// O1 stub for `tok == "--"` (String compared with a str literal: vstd attaches no spec to this PartialEq impl)
#[verifier::external_body]
fn opq_is_dashdash(tok: &String) -> (r: bool)
    ensures r == (tok@ == "--"@),
{ unimplemented!() }
/// O1 stubs for `.iter().any(..)` over the buffered meta tokens: false on an empty buffer; otherwise not modelled
#[verifier::external_body]
fn opq_any_help(v: &Vec<String>) -> (r: bool)
    ensures v@.len() == 0 ==> !r,
{ unimplemented!() }
#[verifier::external_body]
fn opq_any_version(v: &Vec<String>) -> (r: bool)
    ensures v@.len() == 0 ==> !r,
{ unimplemented!() }
#[verifier::external_body]
fn opq_is_help(command: &Option<String>, meta: &Vec<String>, command_args: &Vec<String>) -> (r: bool)
{ unimplemented!() }
/// O1 stub for the whole help/version rewrite block: by inspection both of its branches act only under
/// `pre_has_help` / `pre_has_version`; that FRAME is the only thing assumed (what the rewrite does is not modelled)
#[verifier::external_body]
fn opq_rewrite_help_version(command: &mut Option<String>, command_args: &mut Vec<String>, meta: &Vec<String>, pre_has_help: bool, pre_has_version: bool)
    ensures (!pre_has_help && !pre_has_version) ==> (*final(command) == *old(command) && final(command_args)@ == old(command_args)@),
{ unimplemented!() }

//#item file=src/git/cli_parser.rs kind=enum name=Kind derive=Clone,Copy,PartialEq,Eq in_fn=parse_git_cli_args
#[derive(Copy, Clone, PartialEq, Eq)]
    enum Kind {
        GlobalNoValue,
        GlobalTakesValue, // e.g., --exec-path[=path]
        MetaNoValue,      // e.g., --version, --help, --html-path, --man-path, --info-path
        Unknown,          // something starting with '-' that isn't recognized at top-level
    }
//#end
use Kind::*;
//#item file=src/git/cli_parser.rs kind=fn name=classify body=opaque in_fn=parse_git_cli_args
    //@ #[verifier::external_body]
    fn classify(tok: &str) -> (r_: Kind)
    {
        // Meta top-level (treated as command args when no command):
        // --version/-v, --help/-h, and the *-path* queries.
        match tok {
            "-v" | "--version" => return MetaNoValue,
            "-h" | "--help" => return MetaNoValue,
            "--html-path" | "--man-path" | "--info-path" => return MetaNoValue,
            _ => {}
        }
        if tok == "--exec-path" || is_eq_form(tok, "--exec-path") {
            return GlobalTakesValue;
        }

        // Global no-value options.
        match tok {
            "-p"
            | "--paginate"
            | "-P"
            | "--no-pager"
            | "--no-replace-objects"
            | "--no-lazy-fetch"
            | "--no-optional-locks"
            | "--no-advice"
            | "--bare"
            | "--literal-pathspecs"
            | "--glob-pathspecs"
            | "--noglob-pathspecs"
            | "--icase-pathspecs" => return GlobalNoValue,
            _ => {}
        }

        // Global takes-value options (support both `--opt=VAL` and `--opt VAL`).
        if tok == "-C" || tok.starts_with("-C") {
            return GlobalTakesValue;
        } // allow -Cpath
        if tok == "-c" || tok.starts_with("-c") {
            return GlobalTakesValue;
        } // allow -cname=value
        if tok == "--git-dir" || is_eq_form(tok, "--git-dir") {
            return GlobalTakesValue;
        }
        if tok == "--work-tree" || is_eq_form(tok, "--work-tree") {
            return GlobalTakesValue;
        }
        if tok == "--namespace" || is_eq_form(tok, "--namespace") {
            return GlobalTakesValue;
        }
        if tok == "--config-env" || is_eq_form(tok, "--config-env") {
            return GlobalTakesValue;
        }
        if tok == "--list-cmds" || is_eq_form(tok, "--list-cmds") {
            return GlobalTakesValue;
        }
        if tok == "--attr-source" || is_eq_form(tok, "--attr-source") {
            return GlobalTakesValue;
        }
        // Seen in some builds' SYNOPSIS; treat as value-taking if present.
        if tok == "--super-prefix" || is_eq_form(tok, "--super-prefix") {
            return GlobalTakesValue;
        }

        // A plain `--` (end-of-options) is handled in the main loop.
        if tok == "--" {
            return Unknown;
        }

        // Anything else starting with '-' is unknown to top-level git option parsing.
        if tok.starts_with('-') {
            return Unknown;
        }

        // Non-dash token => not an option (caller decides whether it's the command).
        Unknown
    }
//#end
//#item file=src/git/cli_parser.rs kind=region name=parse_main in=parse_git_cli_args from="let mut global_args = Vec::new();" to='|| command_args.iter().any(|t| t == "--help" || t == "-h");' opaque='[{"expr": "command.as_deref() == Some(\"help\")\n || command.as_deref() == Some(\"--help\")\n || pre_command_meta.iter().any(|t| t == \"--help\" || t == \"-h\")\n || command_args.iter().any(|t| t == \"--help\" || t == \"-h\")", "call": "opq_is_help(&command, &pre_command_meta, &command_args)"}, {"stmt_from": "if command.is_some() {", "nth": 1, "call": "opq_rewrite_help_version(&mut command, &mut command_args, &pre_command_meta, pre_has_help, pre_has_version);"}, {"expr": "global_args.extend(taken)", "call": "opq_extend_owned(&mut global_args, taken)"}, {"expr": "command_args.extend(pre_command_meta.clone())", "call": "opq_extend_cloned(&mut command_args, &pre_command_meta)"}, {"expr": "command_args.extend_from_slice(&args[i..])", "call": "opq_extend_tail(&mut command_args, args, i)"}, {"expr": "pre_command_meta.iter().any(|t| t == \"--help\" || t == \"-h\")", "call": "opq_any_help(&pre_command_meta)"}, {"expr": "pre_command_meta\n .iter()\n .any(|t| t == \"--version\" || t == \"-v\")", "call": "opq_any_version(&pre_command_meta)"}, {"expr": "tok == \"--\"", "call": "opq_is_dashdash(tok)"}]'
//@ fn region_parse_main(args: &[String]) -> (r_: (Vec<String>, Option<String>, Vec<String>, bool, bool, Vec<String>))
//@     ensures
//@         // r_ = (global_args, command, command_args, saw_end_of_opts, is_help, pre_command_meta)
//@         // When no top-level meta option (-h/--help, -v/--version, --html-path/--man-path/--info-path) precedes the command,
//@         // the stored pieces re-assemble to exactly the arguments the user typed, in order.
//@         r_.5@.len() == 0 ==> strs(r_.0@) + dashdash(r_.3) + opt_str(r_.1) + strs(r_.2@) =~= strs(args@),
//@ {
    //@ let ghost a = strs(args@);
    let mut global_args = Vec::new();
    let mut command: Option<String> = None;
    let mut command_args = Vec::new();

    // If we see meta options *before* any command, we buffer them here.
    // If we end up with no command, we move them into command_args; otherwise we leave them out.
    // (Per your rule, e.g. `git --version` => command=None, command_args=["--version"]).
    let mut pre_command_meta: Vec<String> = Vec::new();

    // First pass: scan leading global options. Stop when we hit:
    // - `--` (then next token is *the command*, even if it starts with '-')
    // - a non-option token (that's the command)
    // - an unknown dash-option (treat as "no command", remaining go to command_args)
    let mut i = 0usize;
    let mut saw_end_of_opts = false;

    while i < args.len()
    //@     invariant_except_break
    //@         !saw_end_of_opts,
    //@         pre_command_meta@.len() == 0 ==> strs(global_args@) =~= a.subrange(0, i as int),
    //@     invariant
    //@         i <= args@.len(), command is None, a == strs(args@), command_args@.len() == 0,
    //@     ensures
    //@         i <= args@.len(), command is None, a == strs(args@), command_args@.len() == 0,
    //@         saw_end_of_opts ==> i >= 1 && a[i - 1] == "--"@,
    //@         pre_command_meta@.len() == 0 ==> strs(global_args@) =~= a.subrange(0, (if saw_end_of_opts { i - 1 } else { i as int })),
    //@     decreases args@.len() - i,
    {
        let tok = &args[i];

        if opq_is_dashdash(tok) {
            //@ proof { assert(a[i as int] == args@[i as int]@); }
            saw_end_of_opts = true;
            i += 1;
            break;
        }

        match classify(tok) {
            GlobalNoValue => {
                //@ let ghost g0 = global_args@;
                global_args.push(tok.clone());
                //@ proof {
                //@     lemma_strs_push(g0, global_args@[g0.len() as int]); assert(global_args@ =~= g0.push(global_args@[g0.len() as int]));
                //@     assert(a.subrange(0, i as int).push(a[i as int]) =~= a.subrange(0, i + 1));
                //@ }
                i += 1;
            }
            GlobalTakesValue => {
                // Figure out which key we're handling to parse sticky forms.
                let key = if tok.starts_with("-C") {
                    "-C"
                } else if tok.starts_with("-c") {
                    "-c"
                } else if tok.starts_with("--git-dir") {
                    "--git-dir"
                } else if tok.starts_with("--work-tree") {
                    "--work-tree"
                } else if tok.starts_with("--namespace") {
                    "--namespace"
                } else if tok.starts_with("--config-env") {
                    "--config-env"
                } else if tok.starts_with("--list-cmds") {
                    "--list-cmds"
                } else if tok.starts_with("--attr-source") {
                    "--attr-source"
                } else if tok.starts_with("--super-prefix") {
                    "--super-prefix"
                } else {
                    ""
                };

                let (taken, consumed) = take_valueish(args, i, key);
                opq_extend_owned(&mut global_args, taken);
                //@ proof { assert(a.subrange(0, i as int) + a.subrange(i as int, i + consumed) =~= a.subrange(0, i + consumed)); }
                i += consumed;
            }
            MetaNoValue => {
                // Buffer meta; they'll become command_args iff no subcommand appears.
                pre_command_meta.push(tok.clone());
                i += 1;
            }
            Unknown => {
                if tok.starts_with('-') {
                    // Unknown top-level dash-option: treat as a meta-ish/invalid sequence.
                    // We won't assign a command; remaining tokens will become command_args later.
                    // Do not mutate `pre_command_meta` here; post-parse rewrites rely on it.
                    command = None;
                    break;
                } else {
                    // Non-dash token => this is the command.
                    break;
                }
            }
        }
    }

    // If we haven't decided the command yet:
    //@ let ghost i0 = i;
    //@ let ghost mid = dashdash(saw_end_of_opts);
    if command.is_none() {
        if i < args.len() {
            if saw_end_of_opts {
                // `--` forces the very next token to be "the command", even if it begins with '-'.
                command = Some(args[i].clone());
                i += 1;
            } else if !args[i].starts_with('-') {
                // Normal case: first non-dash token after globals is the command.
                command = Some(args[i].clone());
                i += 1;
            } else {
                // Only meta/unknown options; no command.
                command = None;
            }
        } else {
            command = None;
        }
    }

    // The remainder are command args (if we found a command).
    //@ proof {
    //@     // after the command decision: what has been consumed so far is global_args ++ ["--"]? ++ [command]?
    //@     if pre_command_meta@.len() == 0 {
    //@         assert(strs(global_args@) + dashdash(saw_end_of_opts) + opt_str(command) =~= a.subrange(0, i as int));
    //@     }
    //@ }
    if command.is_some() {
        opq_extend_tail(&mut command_args, args, i);
        // NOTE: we intentionally DO NOT inject pre_command_meta when a subcommand exists.
        // Example: `git --help commit` is internally converted to `git help commit`, but per
        // the project's requirement we treat meta as *not* global and don't try to rewrite.
        // If you want to emulate conversion, you can special-case it here.
    } else {
        // No command: meta options are considered "command args".
        opq_extend_cloned(&mut command_args, &pre_command_meta);
        opq_extend_tail(&mut command_args, args, i);
    }

    // --- NEW: post-parse rewrite for help/version to match git(1) semantics ---
    // Top-level presence of -h/--help or -v/--version (before any command)
    //@ proof {
    //@     if pre_command_meta@.len() == 0 {
    //@         assert(strs(pre_command_meta@) =~= Seq::empty());
    //@         assert(a.subrange(0, i as int) + a.subrange(i as int, a.len() as int) =~= a);
    //@         assert(strs(global_args@) + dashdash(saw_end_of_opts) + opt_str(command) + strs(command_args@) =~= a);
    //@     }
    //@ }
    let pre_has_help = opq_any_help(&pre_command_meta);
    let pre_has_version = opq_any_version(&pre_command_meta);

    // NOTE: git docs: --help takes precedence over --version. (git(1) OPTIONS)
    // So we always check/perform help rewrites before version rewrites.
    opq_rewrite_help_version(&mut command, &mut command_args, &pre_command_meta, pre_has_help, pre_has_version);
    // --- End NEW block ---

    // Determine whether this invocation represents a help request.
    let is_help = opq_is_help(&command, &pre_command_meta, &command_args);
//@     (global_args, command, command_args, saw_end_of_opts, is_help, pre_command_meta)
//@ }
//#end

} // verus!
fn main() {}
