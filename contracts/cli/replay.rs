// Replay driver for unit cli: the ORIGINAL parse_git_cli_args and ParsedGitInvocation::to_invocation_vec.
// Oracle (C18): the argv handed to git equals the argv the user typed, unless a top-level -h/--help/-v/--version
// occurs before the subcommand (the documented normalisation into `help` / `version`).
#![allow(dead_code, unused)]
include!("@ITEMS@");
use std::panic::{catch_unwind, AssertUnwindSafe};
struct Ctx { evaluated: u64, failed: std::collections::HashSet<String> }
impl Ctx {
    fn fail(&mut self, f: &str, clause: &str, input: String, observed: String, expected: String) {
        if self.failed.insert(format!("{}::{}", f, clause)) { println!("FAIL fn=[[{}]] clause=[[{}]] input=[[{}]] observed=[[{}]] expected=[[{}]]", f, clause, input, observed, expected); }
    }
}
fn guarded<T>(f: impl FnOnce() -> T) -> Result<T, String> {
    catch_unwind(AssertUnwindSafe(f)).map_err(|e| { let m = e.downcast_ref::<String>().cloned().or_else(|| e.downcast_ref::<&str>().map(|s| s.to_string())).unwrap_or_default(); format!("panic: {}", m) })
}
struct Rng(u64);
impl Rng { fn next(&mut self) -> u64 { self.0 ^= self.0 << 13; self.0 ^= self.0 >> 7; self.0 ^= self.0 << 17; self.0 } fn below(&mut self, n: u64) -> u64 { self.next() % n } }
const VOCAB: [&str; 31] = ["status", "commit", "-m", "msg", "-C", "dir", "-Cdir", "-c", "a=b", "-ca=b", "-cfoo", "--git-dir", "--git-dir=/x", "/x", "--work-tree=/w", "--no-pager", "-p", "--bare",
    "--", "--html-path", "--man-path", "--info-path", "--exec-path", "--exec-path=/e", "--namespace", "ns", "-x", "--unknown", "log", "--oneline", "--config-env=a=B"];
const META_HV: [&str; 4] = ["-h", "--help", "-v", "--version"];
// Independent model of git's own top-level grammar (git.c handle_options): which token is the subcommand.
// Some(x): the model's answer; None: the sequence is outside the model (help/version/path-query tokens, bare --exec-path
// after which git prints and exits, `--opt=` with an empty value).
const NOVAL: [&str; 13] = ["-p", "--paginate", "-P", "--no-pager", "--no-replace-objects", "--no-lazy-fetch", "--no-optional-locks", "--no-advice", "--bare",
    "--literal-pathspecs", "--glob-pathspecs", "--noglob-pathspecs", "--icase-pathspecs"];
const TAKES: [&str; 9] = ["-C", "-c", "--git-dir", "--work-tree", "--namespace", "--config-env", "--list-cmds", "--attr-source", "--super-prefix"];
fn git_command_model(args: &[String]) -> Option<Option<String>> {
    let mut i = 0;
    while i < args.len() {
        let t = args[i].as_str();
        if t == "--" { return Some(args.get(i + 1).cloned()); }
        if META_HV.contains(&t) || ["--html-path", "--man-path", "--info-path", "--exec-path"].contains(&t) { return None; }
        if NOVAL.contains(&t) { i += 1; continue; }
        if TAKES.contains(&t) { i += 2; continue; }                         // detached value: the next token, whatever it looks like
        if t.starts_with("-C") || t.starts_with("-c") { i += 1; continue; }   // sticky value
        if let Some(eq) = t.find('=') {
            let name = &t[..eq];
            if name == "--exec-path" || (name.starts_with("--") && TAKES.contains(&name)) { if eq + 1 == t.len() { return None; } i += 1; continue; }
        }
        if t.starts_with('-') { return Some(None); }                        // unknown top-level option: git stops with an error, no subcommand
        return Some(Some(t.to_string()));
    }
    Some(None)
}
// position of the subcommand as git itself sees it is not modelled; the exception applies when a help/version token occurs anywhere (conservative)
fn chk(c: &mut Ctx, args: &[String]) {
    c.evaluated += 1;
    let input = args.join(" ");
    let res = guarded(|| { let p = parse_git_cli_args(args); (p.to_invocation_vec(), p.command.clone()) });
    match res {
        Ok((out, cmd)) => {
            let has_hv = args.iter().any(|a| META_HV.contains(&a.as_str()));
            if !has_hv && out != args {
                // distinguish the recorded finding (a path-query option before a subcommand is dropped) from any other divergence
                let path_q = ["--html-path", "--man-path", "--info-path"];
                let strip = |v: &[String]| -> Vec<String> { v.iter().filter(|a| !path_q.contains(&a.as_str())).cloned().collect() };
                // the only difference is where the path-query tokens ended up (dropped before a subcommand, or moved behind later global options)
                let clause = if strip(args) == strip(&out) && strip(args).len() != args.len() { "path_query_option_not_kept_in_place" } else { "argv_preserved" };
                c.fail("region_parse_main", clause, input.clone(), out.join(" "), "the argv the user typed, in order".into());
            }
            // global options and their values are never mistaken for the subcommand (and the subcommand never for a value)
            if let Some(want) = git_command_model(args) {
                if cmd != want { c.fail("region_parse_main", "command_is_git_subcommand", input, format!("command={:?}", cmd), format!("command={:?} (first token that is neither a global option nor the value of one)", want)); }
            }
        }
        Err(p) => c.fail("region_parse_main", "safety", input, p, "no panic".into()),
    }
}
fn main() {
    std::panic::set_hook(Box::new(|_| {}));
    let a: Vec<String> = std::env::args().collect();
    let mut c = Ctx { evaluated: 0, failed: Default::default() };
    if a[1] == "search" {
        // all sequences up to length 3 over the vocabulary (+ help/version tokens for the no-panic check)
        let mut voc: Vec<&str> = VOCAB.to_vec(); voc.extend(META_HV);
        chk(&mut c, &[]);
        for x in &voc { chk(&mut c, &[x.to_string()]); for y in &voc { chk(&mut c, &[x.to_string(), y.to_string()]); for z in &voc { chk(&mut c, &[x.to_string(), y.to_string(), z.to_string()]); } } }
        let mut g = Rng(a[3].parse::<u64>().unwrap_or(0).wrapping_mul(0x9E3779B97F4A7C15) ^ 0x632be59bd9b4e019);
        for _ in 0..20000 { let n = g.below(7) as usize; let v: Vec<String> = (0..n).map(|_| voc[g.below(voc.len() as u64) as usize].to_string()).collect(); chk(&mut c, &v); }
    } else {
        let v: Vec<String> = if a[3].is_empty() { vec![] } else { a[3].split(' ').map(|s| s.to_string()).collect() };
        chk(&mut c, &v);
    }
    println!("DONE evaluated={}", c.evaluated);
}
