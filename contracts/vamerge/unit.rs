// Unit vamerge — properties C02 / C03: the merge helpers at the end of virtual_attribution.rs, used when a stash is popped
// (restore_stashed_va), on reset / amend / squash / rebase and wherever two sets of attributions are combined
// (merge_attributions_favoring_first: committed + working, stashed + new HEAD).
//  * merge_char_attributions (whole function) is proved to implement "favoring first" BYTE BY BYTE and (author, ts) BY (author, ts):
//    the result credits (a, t) at byte p exactly when the primary set does, or when no byte of p's character is covered by ANY
//    primary range and p lies in a secondary range of (a, t) widened to whole characters.  Nothing else is credited; every primary
//    entry is kept; the added ranges are non-empty, inside the text, on char boundaries; total (no panic, no overflow).
//    theorem_* restate this as C03 "nothing invented", "primary wins", C02 "credit survives", "uncovered stays uncovered".
//  * floor_char_boundary / ceil_char_boundary (the copies in virtual_attribution.rs): whole functions.
//  * transform_attributions_to_final (whole function): what update_attributions returns for (old, new, attrs, "__DUMMY__", ts) minus the
//    placeholder entries, in order, nothing else; update_attributions itself is a stand-in with an uninterpreted result.
//  * region mf_merge (rule R1) of merge_attributions_favoring_first: the FIRST argument is the favoured one and the line attributions
//    stored are those of exactly the merged list on the final content.
//  * restore_stashed_va (whole function, git / fs / neighbouring functions as stand-ins): what is written as INITIAL attributions is
//    merge(stashed FIRST, working log of the NEW head or an empty set, working-tree text of exactly the stashed files that exist),
//    converted for (new_head, new_head) and written to the working log of new_head.
use vstd::prelude::*;
use vstd::std_specs::iter::IteratorSpec;
use vstd::utf8::*;
use vstd::string::StringSliceAdditionalSpecFns;
verus! {

//#include ../_shared/str_axioms.inc.rs

//#item file=src/authorship/attribution_tracker.rs kind=struct name=Attribution derive=PartialEq,Eq
#[derive(PartialEq, Eq)]
pub struct Attribution {
    pub start: usize,
    pub end: usize,
    pub author_id: String,
    pub ts: u128,
}
//#end
impl Attribution {
//#item file=src/authorship/attribution_tracker.rs kind=fn name=new impl="Attribution"
    pub fn new(start: usize, end: usize, author_id: String, ts: u128) -> (r_: Self)
    //@     ensures r_.start == start, r_.end == end, r_.author_id == author_id, r_.ts == ts,
    {
        Attribution {
            start,
            end,
            author_id,
            ts,
        }
    }
//#end
}

// ---------------------------------------------------------------- credit, byte by byte
/// byte p is credited to (author a, timestamp t) by entry e
pub open spec fn in_piece(e: Attribution, a: Seq<char>, t: u128, p: int) -> bool { e.author_id@ == a && e.ts == t && e.start <= p < e.end }
/// byte p lies in entry e, whoever its author is
pub open spec fn in_any(e: Attribution, p: int) -> bool { e.start <= p < e.end }
/// credit among the entries [i0, i1) of v
pub open spec fn cov_rng(v: Seq<Attribution>, i0: int, i1: int, a: Seq<char>, t: u128, p: int) -> bool {
    exists|i: int| i0 <= i < i1 && 0 <= i < v.len() && in_piece(#[trigger] v[i], a, t, p)
}
pub open spec fn cov(v: Seq<Attribution>, a: Seq<char>, t: u128, p: int) -> bool { cov_rng(v, 0, v.len() as int, a, t, p) }
pub open spec fn any_rng(v: Seq<Attribution>, i0: int, i1: int, p: int) -> bool {
    exists|i: int| i0 <= i < i1 && 0 <= i < v.len() && in_any(#[trigger] v[i], p)
}
/// byte p is covered by SOME entry of v (what the `covered` bitmap of merge_char_attributions records for the primary set)
pub open spec fn any_cov(v: Seq<Attribution>, p: int) -> bool { any_rng(v, 0, v.len() as int, p) }

// ---------------------------------------------------------------- characters
/// bytes p and q belong to the same character: no char boundary after the smaller one up to and including the larger one
pub open spec fn same_char(bytes: Seq<u8>, p: int, q: int) -> bool {
    forall|j: int| (p < j <= q || q < j <= p) ==> !#[trigger] is_char_boundary(bytes, j)
}
/// floor_char_boundary(s) <= p, said without the function: no boundary in (p, min(s, len)]
pub open spec fn lo_ok(bytes: Seq<u8>, s: int, p: int) -> bool {
    forall|j: int| p < j <= s && j <= bytes.len() ==> !#[trigger] is_char_boundary(bytes, j)
}
/// p < ceil_char_boundary(e) (for p inside the text): no boundary in [e, p]
pub open spec fn hi_ok(bytes: Seq<u8>, e: int, p: int) -> bool {
    forall|j: int| e <= j <= p ==> !#[trigger] is_char_boundary(bytes, j)
}
/// byte p lies in [s, e) widened to whole characters (start rounded down, end rounded up)
pub open spec fn widened(bytes: Seq<u8>, s: int, e: int, p: int) -> bool { 0 <= p < bytes.len() && lo_ok(bytes, s, p) && hi_ok(bytes, e, p) }
/// some byte of p's character is covered by a primary range
pub open spec fn blocked(prim: Seq<Attribution>, bytes: Seq<u8>, p: int) -> bool {
    exists|q: int| 0 <= q < bytes.len() && same_char(bytes, p, q) && #[trigger] any_cov(prim, q)
}
pub open spec fn sec_piece(e: Attribution, bytes: Seq<u8>, a: Seq<char>, t: u128, p: int) -> bool {
    e.author_id@ == a && e.ts == t && widened(bytes, e.start as int, e.end as int, p)
}
/// what the first n secondary entries contribute: their character-widened ranges, minus every character the primary touches
pub open spec fn sec_credit_upto(prim: Seq<Attribution>, sec: Seq<Attribution>, n: int, bytes: Seq<u8>, a: Seq<char>, t: u128, p: int) -> bool {
    !blocked(prim, bytes, p) && exists|i: int| 0 <= i < n && i < sec.len() && sec_piece(#[trigger] sec[i], bytes, a, t, p)
}
pub open spec fn sec_credit(prim: Seq<Attribution>, sec: Seq<Attribution>, bytes: Seq<u8>, a: Seq<char>, t: u128, p: int) -> bool {
    sec_credit_upto(prim, sec, sec.len() as int, bytes, a, t, p)
}
/// a range cut out of the secondary set: non-empty, inside the text, on char boundaries
pub open spec fn piece_ok(e: Attribution, bytes: Seq<u8>) -> bool {
    e.start < e.end <= bytes.len() && is_char_boundary(bytes, e.start as int) && is_char_boundary(bytes, e.end as int)
}
pub open spec fn sorted_se(v: Seq<Attribution>) -> bool {
    forall|i: int, j: int| 0 <= i < j < v.len() ==> (#[trigger] v[i]).start < (#[trigger] v[j]).start || (v[i].start == v[j].start && v[i].end <= v[j].end)
}
/// THE CONTRACT of merge_char_attributions
pub open spec fn merge_post(r: Seq<Attribution>, prim: Seq<Attribution>, sec: Seq<Attribution>, bytes: Seq<u8>) -> bool {
    // credit, exactly
    &&& forall|a: Seq<char>, t: u128, p: int| #[trigger] cov(r, a, t, p) <==> (cov(prim, a, t, p) || sec_credit(prim, sec, bytes, a, t, p))
    // every primary entry (also the zero-length ones) is kept as it is
    &&& forall|i: int| 0 <= i < prim.len() ==> r.contains(#[trigger] prim[i])
    // every other entry is a non-empty range inside the text on char boundaries
    &&& forall|i: int| 0 <= i < r.len() ==> prim.contains(#[trigger] r[i]) || piece_ok(r[i], bytes)
    &&& r.len() >= prim.len()
    // sorted by (start, end) (not for an empty text: the primary list is then returned as it came)
    &&& bytes.len() > 0 ==> sorted_se(r)
}

// ---------------------------------------------------------------- small lemmas on cov_rng / any_rng
proof fn lemma_cov_split(v: Seq<Attribution>, i0: int, i1: int, i2: int, a: Seq<char>, t: u128, p: int)
    requires i0 <= i1 <= i2,
    ensures cov_rng(v, i0, i2, a, t, p) <==> (cov_rng(v, i0, i1, a, t, p) || cov_rng(v, i1, i2, a, t, p)),
{
    if cov_rng(v, i0, i2, a, t, p) { let i = choose|i: int| i0 <= i < i2 && 0 <= i < v.len() && in_piece(#[trigger] v[i], a, t, p); if i < i1 { assert(i0 <= i < i1 && in_piece(v[i], a, t, p)); } else { assert(i1 <= i < i2 && in_piece(v[i], a, t, p)); } }
    if cov_rng(v, i0, i1, a, t, p) { let i = choose|i: int| i0 <= i < i1 && 0 <= i < v.len() && in_piece(#[trigger] v[i], a, t, p); assert(i0 <= i < i2 && in_piece(v[i], a, t, p)); }
    if cov_rng(v, i1, i2, a, t, p) { let i = choose|i: int| i1 <= i < i2 && 0 <= i < v.len() && in_piece(#[trigger] v[i], a, t, p); assert(i0 <= i < i2 && in_piece(v[i], a, t, p)); }
}
/// two lists that agree on [i0, i1) give the same credit there
proof fn lemma_cov_agree(v: Seq<Attribution>, w: Seq<Attribution>, i0: int, i1: int, a: Seq<char>, t: u128, p: int)
    requires 0 <= i0, i1 <= v.len(), i1 <= w.len(), forall|i: int| i0 <= i < i1 ==> v[i] == w[i],
    ensures cov_rng(v, i0, i1, a, t, p) <==> cov_rng(w, i0, i1, a, t, p),
{
    if cov_rng(v, i0, i1, a, t, p) { let i = choose|i: int| i0 <= i < i1 && 0 <= i < v.len() && in_piece(#[trigger] v[i], a, t, p); assert(v[i] == w[i]); assert(i0 <= i < i1 && in_piece(w[i], a, t, p)); }
    if cov_rng(w, i0, i1, a, t, p) { let i = choose|i: int| i0 <= i < i1 && 0 <= i < w.len() && in_piece(#[trigger] w[i], a, t, p); assert(v[i] == w[i]); assert(i0 <= i < i1 && in_piece(v[i], a, t, p)); }
}
proof fn lemma_any_push(v: Seq<Attribution>, e: Attribution, base: int, p: int)
    requires 0 <= base <= v.len(),
    ensures any_rng(v.push(e), base, v.len() as int + 1, p) <==> (any_rng(v, base, v.len() as int, p) || in_any(e, p)),
{
    let w = v.push(e);
    if any_rng(w, base, v.len() as int + 1, p) { let i = choose|i: int| base <= i < v.len() + 1 && 0 <= i < w.len() && in_any(#[trigger] w[i], p); if i < v.len() { assert(w[i] == v[i]); assert(base <= i < v.len() && in_any(v[i], p)); } else { assert(w[i] == e); } }
    if any_rng(v, base, v.len() as int, p) { let i = choose|i: int| base <= i < v.len() && 0 <= i < v.len() && in_any(#[trigger] v[i], p); assert(w[i] == v[i]); assert(base <= i < v.len() + 1 && in_any(w[i], p)); }
    if in_any(e, p) { let i = v.len() as int; assert(w[i] == e); assert(base <= i < v.len() + 1 && in_any(w[i], p)); }
}
proof fn lemma_any_step(v: Seq<Attribution>, k: int, p: int)
    requires 0 <= k < v.len(),
    ensures any_rng(v, 0, k + 1, p) <==> (any_rng(v, 0, k, p) || in_any(v[k], p)),
{
    if any_rng(v, 0, k + 1, p) { let i = choose|i: int| 0 <= i < k + 1 && 0 <= i < v.len() && in_any(#[trigger] v[i], p); if i < k { assert(0 <= i < k && in_any(v[i], p)); } }
    if any_rng(v, 0, k, p) { let i = choose|i: int| 0 <= i < k && 0 <= i < v.len() && in_any(#[trigger] v[i], p); assert(0 <= i < k + 1 && in_any(v[i], p)); }
    if in_any(v[k], p) { assert(0 <= k < k + 1 && in_any(v[k], p)); }
}

// ---------------------------------------------------------------- characters: cells, floor / ceil
/// [cs, ce) is one character of the text
pub open spec fn cell(bytes: Seq<u8>, cs: int, ce: int) -> bool {
    &&& 0 <= cs < ce <= bytes.len()
    &&& is_char_boundary(bytes, cs) && is_char_boundary(bytes, ce)
    &&& forall|j: int| cs < j < ce ==> !#[trigger] is_char_boundary(bytes, j)
}
pub open spec fn cell_blocked(prim: Seq<Attribution>, cs: int, ce: int) -> bool { exists|q: int| cs <= q < ce && #[trigger] any_cov(prim, q) }
proof fn lemma_cell_blocked(prim: Seq<Attribution>, bytes: Seq<u8>, cs: int, ce: int, p: int)
    requires cell(bytes, cs, ce), cs <= p < ce,
    ensures blocked(prim, bytes, p) <==> cell_blocked(prim, cs, ce),
{
    if blocked(prim, bytes, p) {
        let q = choose|q: int| 0 <= q < bytes.len() && same_char(bytes, p, q) && #[trigger] any_cov(prim, q);
        if q < cs { assert(q < cs <= p && is_char_boundary(bytes, cs)); }
        if q >= ce { assert(p < ce <= q && is_char_boundary(bytes, ce)); }
        assert(cs <= q < ce && any_cov(prim, q));
    }
    if cell_blocked(prim, cs, ce) {
        let q = choose|q: int| cs <= q < ce && #[trigger] any_cov(prim, q);
        assert(same_char(bytes, p, q));
        assert(0 <= q < bytes.len() && same_char(bytes, p, q) && any_cov(prim, q));
    }
}
/// what floor_char_boundary / ceil_char_boundary return pins the widened range
proof fn lemma_widened_iff(bytes: Seq<u8>, s: int, e: int, lo: int, hi: int)
    requires
        0 <= lo <= bytes.len(), lo <= s, is_char_boundary(bytes, lo), forall|j: int| lo < j <= s && j <= bytes.len() ==> !is_char_boundary(bytes, j),
        0 <= hi <= bytes.len(), hi >= e || hi == bytes.len(), is_char_boundary(bytes, hi), forall|j: int| e <= j < hi ==> !is_char_boundary(bytes, j),
    ensures forall|p: int| #[trigger] widened(bytes, s, e, p) <==> lo <= p < hi,
{
    assert forall|p: int| #[trigger] widened(bytes, s, e, p) <==> lo <= p < hi by {
        if widened(bytes, s, e, p) {
            if p < lo { assert(p < lo <= s && lo <= bytes.len() && is_char_boundary(bytes, lo)); }
            if p >= hi { assert(e <= hi <= p && is_char_boundary(bytes, hi)); }
        }
        if lo <= p < hi {
            assert(lo_ok(bytes, s, p));
            assert(hi_ok(bytes, e, p));
        }
    }
}
/// the char boundaries of a sub-slice cut at char boundaries are those of the text, shifted
pub open spec fn bnd_rel(bytes: Seq<u8>, sb: Seq<u8>, lo: int) -> bool {
    forall|j: int| 0 <= j <= sb.len() ==> (#[trigger] is_char_boundary(sb, j) <==> is_char_boundary(bytes, lo + j))
}
proof fn lemma_sub_boundaries(bytes: Seq<u8>, lo: int, hi: int)
    requires valid_utf8(bytes), valid_utf8(bytes.subrange(lo, hi)), 0 <= lo <= hi <= bytes.len(), is_char_boundary(bytes, lo), is_char_boundary(bytes, hi),
    ensures bnd_rel(bytes, bytes.subrange(lo, hi), lo),
{
    let s = bytes.subrange(lo, hi);
    is_char_boundary_start_end_of_seq(s);
    assert forall|j: int| 0 <= j <= s.len() implies (#[trigger] is_char_boundary(s, j) <==> is_char_boundary(bytes, lo + j)) by {
        if j < hi - lo {
            is_char_boundary_iff_not_is_continuation_byte(s, j);
            is_char_boundary_iff_not_is_continuation_byte(bytes, lo + j);
            assert(s[j] == bytes[lo + j]);
        }
    }
}

// ---------------------------------------------------------------- rule O1 stubs
/// `primary.to_vec()` (Clone of every entry: an equal list)
#[verifier::external_body]
fn opq_attrs_to_vec(s: &[Attribution]) -> (r: Vec<Attribution>)
    ensures r@ =~= s@,
{ unimplemented!() }
/// `result.extend(primary.iter().cloned())`
#[verifier::external_body]
fn opq_extend_cloned(v: &mut Vec<Attribution>, s: &[Attribution])
    ensures final(v)@ =~= old(v)@ + s@,
{ unimplemented!() }
/// `&content[a..b]` on str: vstd checks the precondition of the index (in bounds, on char boundaries) but states nothing about
/// the result; the documented behaviour (the sub-bytes) is assumed
#[verifier::external_body]
fn str_sub(s: &str, a: usize, b: usize) -> (r: &str)
    requires a <= b <= s.spec_bytes().len(), is_char_boundary(s.spec_bytes(), a as int), is_char_boundary(s.spec_bytes(), b as int),
    ensures r.spec_bytes() == s.spec_bytes().subrange(a as int, b as int),
{ unimplemented!() }
/// `slice.char_indices()`, collected.  ASSUMED (documented behaviour of str::char_indices and char::len_utf8): the cells
/// (offset, offset + len_utf8) tile the text in order, every offset is a char boundary and no boundary lies inside a cell
pub open spec fn cell_end(v: Seq<(usize, char)>, k: int) -> int { v[k].0 + v[k].1.len_utf8() }
pub open spec fn cells_ok(v: Seq<(usize, char)>, sb: Seq<u8>) -> bool {
    &&& forall|k: int| 0 <= k < v.len() ==> is_char_boundary(sb, (#[trigger] v[k]).0 as int) && cell_end(v, k) <= sb.len() && is_char_boundary(sb, cell_end(v, k))
    &&& forall|k: int, j: int| 0 <= k < v.len() && (#[trigger] v[k]).0 < j < cell_end(v, k) ==> !#[trigger] is_char_boundary(sb, j)
    &&& forall|k: int, m: int| 0 <= k && m == k + 1 && m < v.len() ==> cell_end(v, k) == (#[trigger] v[m]).0 && (#[trigger] v[k]).0 < v[m].0
    &&& v.len() > 0 ==> v[0].0 == 0 && cell_end(v, v.len() - 1) == sb.len()
    &&& v.len() == 0 ==> sb.len() == 0
}
pub uninterp spec fn char_idx(sb: Seq<u8>) -> Seq<(usize, char)>;
#[verifier::external_body]
fn opq_char_indices(s: &str) -> (r: Vec<(usize, char)>)
    ensures r@ == char_idx(s.spec_bytes()), cells_ok(r@, s.spec_bytes()),
{ unimplemented!() }
/// `result.sort_by_key(|a| (a.start, a.end))`: a permutation, ordered by (start, end)
#[verifier::external_body]
fn opq_sort_start_end(v: &mut Vec<Attribution>)
    ensures final(v)@.to_multiset() == old(v)@.to_multiset(), sorted_se(final(v)@),
{ unimplemented!() }

// ---------------------------------------------------------------- the emission loop of one secondary entry
/// `covered` is the primary coverage bitmap
pub open spec fn cov_map(covered: Seq<bool>, prim: Seq<Attribution>, k: int) -> bool {
    forall|q: int| 0 <= q < covered.len() ==> (#[trigger] covered[q] <==> any_rng(prim, 0, k, q))
}
pub open spec fn emitted_ok(e: Attribution, bytes: Seq<u8>, au: Seq<char>, ts: u128) -> bool { e.author_id@ == au && e.ts == ts && piece_ok(e, bytes) }
/// state of the scan of one secondary entry after the characters of [lo, cur): the ranges emitted so far (entries base..) are
/// exactly the unblocked bytes of [lo, x), x being the start of the open run (or cur when no run is open); the open run is unblocked
pub open spec fn emit_inv(res: Seq<Attribution>, base: int, prim: Seq<Attribution>, bytes: Seq<u8>, lo: int, cur: int, rs: Option<usize>, au: Seq<char>, ts: u128) -> bool {
    let x = match rs { Some(r) => r as int, None => cur };
    &&& 0 <= base <= res.len()
    &&& 0 <= lo <= cur <= bytes.len() && is_char_boundary(bytes, cur)
    &&& forall|i: int| base <= i < res.len() ==> emitted_ok(#[trigger] res[i], bytes, au, ts)
    &&& forall|p: int| #[trigger] any_rng(res, base, res.len() as int, p) <==> (lo <= p < x && !blocked(prim, bytes, p))
    &&& match rs { Some(r) => lo <= r < cur && is_char_boundary(bytes, r as int) && (forall|p: int| r <= p < cur ==> !#[trigger] blocked(prim, bytes, p)), None => true }
}
/// `if let Some(r) = range_start.take() && r < cur { result.push(Attribution::new(r, cur, author, ts)) }`
pub open spec fn flush_rel(res0: Seq<Attribution>, res1: Seq<Attribution>, cur: int, rs0: Option<usize>, au: Seq<char>, ts: u128) -> bool {
    match rs0 {
        Some(r) => if (r as int) < cur { res1.len() == res0.len() + 1 && res1.drop_last() =~= res0 && res1.last().start == r && res1.last().end == cur && res1.last().author_id@ == au && res1.last().ts == ts } else { res1 =~= res0 },
        None => res1 =~= res0,
    }
}
proof fn lemma_flush(res0: Seq<Attribution>, res1: Seq<Attribution>, base: int, prim: Seq<Attribution>, bytes: Seq<u8>, lo: int, cur: int, rs0: Option<usize>, au: Seq<char>, ts: u128)
    requires emit_inv(res0, base, prim, bytes, lo, cur, rs0, au, ts), flush_rel(res0, res1, cur, rs0, au, ts),
    ensures emit_inv(res1, base, prim, bytes, lo, cur, None, au, ts),
{
    match rs0 {
        Some(r) => {
            let e = res1.last();
            assert(res1 =~= res0.push(e));
            assert forall|i: int| base <= i < res1.len() implies emitted_ok(#[trigger] res1[i], bytes, au, ts) by { if i < res0.len() { assert(res1[i] == res0[i]); } }
            assert forall|p: int| #[trigger] any_rng(res1, base, res1.len() as int, p) <==> (lo <= p < cur && !blocked(prim, bytes, p)) by {
                lemma_any_push(res0, e, base, p);
                assert(any_rng(res0, base, res0.len() as int, p) <==> (lo <= p < r && !blocked(prim, bytes, p)));
            }
        }
        None => {}
    }
}
proof fn lemma_adv_blocked(res: Seq<Attribution>, base: int, prim: Seq<Attribution>, bytes: Seq<u8>, lo: int, cur: int, ce: int, au: Seq<char>, ts: u128)
    requires emit_inv(res, base, prim, bytes, lo, cur, None, au, ts), cell(bytes, cur, ce), cell_blocked(prim, cur, ce),
    ensures emit_inv(res, base, prim, bytes, lo, ce, None, au, ts),
{
    assert forall|p: int| #[trigger] any_rng(res, base, res.len() as int, p) <==> (lo <= p < ce && !blocked(prim, bytes, p)) by {
        if cur <= p < ce { lemma_cell_blocked(prim, bytes, cur, ce, p); }
    }
}
proof fn lemma_adv_free(res: Seq<Attribution>, base: int, prim: Seq<Attribution>, bytes: Seq<u8>, lo: int, cur: int, ce: int, rs0: Option<usize>, au: Seq<char>, ts: u128)
    requires emit_inv(res, base, prim, bytes, lo, cur, rs0, au, ts), cell(bytes, cur, ce), !cell_blocked(prim, cur, ce), cur <= usize::MAX,
    ensures emit_inv(res, base, prim, bytes, lo, ce, if rs0 is None { Some(cur as usize) } else { rs0 }, au, ts),
{
    let rs1: Option<usize> = if rs0 is None { Some(cur as usize) } else { rs0 };
    let r = rs1.unwrap() as int;
    assert forall|p: int| r <= p < ce implies !#[trigger] blocked(prim, bytes, p) by {
        if cur <= p { lemma_cell_blocked(prim, bytes, cur, ce, p); }
    }
}

// ---------------------------------------------------------------- the loop over the secondary entries
pub open spec fn outer_inv(res: Seq<Attribution>, prim: Seq<Attribution>, sec: Seq<Attribution>, n: int, bytes: Seq<u8>) -> bool {
    &&& res.len() >= prim.len() && res.subrange(0, prim.len() as int) =~= prim
    &&& forall|i: int| prim.len() <= i < res.len() ==> piece_ok(#[trigger] res[i], bytes)
    &&& forall|a: Seq<char>, t: u128, p: int| #[trigger] cov_rng(res, prim.len() as int, res.len() as int, a, t, p) <==> sec_credit_upto(prim, sec, n, bytes, a, t, p)
}
proof fn lemma_credit_step(prim: Seq<Attribution>, sec: Seq<Attribution>, k: int, bytes: Seq<u8>, a: Seq<char>, t: u128, p: int)
    requires 0 <= k < sec.len(),
    ensures sec_credit_upto(prim, sec, k + 1, bytes, a, t, p) <==> (sec_credit_upto(prim, sec, k, bytes, a, t, p) || (!blocked(prim, bytes, p) && sec_piece(sec[k], bytes, a, t, p))),
{
    if sec_credit_upto(prim, sec, k + 1, bytes, a, t, p) { let i = choose|i: int| 0 <= i < k + 1 && i < sec.len() && sec_piece(#[trigger] sec[i], bytes, a, t, p); if i < k { assert(0 <= i < k && sec_piece(sec[i], bytes, a, t, p)); } }
    if sec_credit_upto(prim, sec, k, bytes, a, t, p) { let i = choose|i: int| 0 <= i < k && i < sec.len() && sec_piece(#[trigger] sec[i], bytes, a, t, p); assert(0 <= i < k + 1 && sec_piece(sec[i], bytes, a, t, p)); }
    if !blocked(prim, bytes, p) && sec_piece(sec[k], bytes, a, t, p) { assert(0 <= k < k + 1 && sec_piece(sec[k], bytes, a, t, p)); }
}
/// one secondary entry done: its emitted ranges (entries base.. of res) are the unblocked bytes of [lo, cur) == its widened range
proof fn lemma_attr_done(r0: Seq<Attribution>, res: Seq<Attribution>, prim: Seq<Attribution>, sec: Seq<Attribution>, k: int, bytes: Seq<u8>, lo: int, cur: int)
    requires
        outer_inv(r0, prim, sec, k, bytes), 0 <= k < sec.len(), res.len() >= r0.len(), res.subrange(0, r0.len() as int) =~= r0,
        emit_inv(res, r0.len() as int, prim, bytes, lo, cur, None, sec[k].author_id@, sec[k].ts),
        forall|p: int| #[trigger] widened(bytes, sec[k].start as int, sec[k].end as int, p) <==> lo <= p < cur,
    ensures outer_inv(res, prim, sec, k + 1, bytes),
{
    let np = prim.len() as int; let base = r0.len() as int; let au = sec[k].author_id@; let ts = sec[k].ts;
    assert(res.subrange(0, np) =~= r0.subrange(0, np)) by { assert forall|i: int| 0 <= i < np implies res[i] == r0[i] by { assert(res.subrange(0, base)[i] == r0[i]); } }
    assert forall|i: int| np <= i < res.len() implies piece_ok(#[trigger] res[i], bytes) by { if i < base { assert(res.subrange(0, base)[i] == r0[i]); } else { assert(emitted_ok(res[i], bytes, au, ts)); } }
    assert forall|a: Seq<char>, t: u128, p: int| #[trigger] cov_rng(res, np, res.len() as int, a, t, p) <==> sec_credit_upto(prim, sec, k + 1, bytes, a, t, p) by {
        lemma_cov_split(res, np, base, res.len() as int, a, t, p);
        assert forall|i: int| np <= i < base implies res[i] == r0[i] by { assert(res.subrange(0, base)[i] == r0[i]); }
        lemma_cov_agree(res, r0, np, base, a, t, p);
        assert(cov_rng(r0, np, r0.len() as int, a, t, p) <==> sec_credit_upto(prim, sec, k, bytes, a, t, p));
        lemma_credit_step(prim, sec, k, bytes, a, t, p);
        // the emitted part: all by (au, ts)
        if cov_rng(res, base, res.len() as int, a, t, p) {
            let i = choose|i: int| base <= i < res.len() && 0 <= i < res.len() && in_piece(#[trigger] res[i], a, t, p);
            assert(emitted_ok(res[i], bytes, au, ts));
            assert(base <= i < res.len() && in_any(res[i], p));
            assert(any_rng(res, base, res.len() as int, p));
            assert(widened(bytes, sec[k].start as int, sec[k].end as int, p));
        }
        if !blocked(prim, bytes, p) && sec_piece(sec[k], bytes, a, t, p) {
            assert(lo <= p < cur);
            assert(any_rng(res, base, res.len() as int, p));
            let i = choose|i: int| base <= i < res.len() && 0 <= i < res.len() && in_any(#[trigger] res[i], p);
            assert(emitted_ok(res[i], bytes, au, ts));
            assert(base <= i < res.len() && in_piece(res[i], a, t, p));
        }
    }
}
proof fn lemma_empty_content(prim: Seq<Attribution>, sec: Seq<Attribution>, bytes: Seq<u8>)
    requires bytes.len() == 0,
    ensures merge_post(prim, prim, sec, bytes),
{
    assert forall|i: int| 0 <= i < prim.len() implies prim.contains(#[trigger] prim[i]) by {}
}
proof fn lemma_contains_cov(v: Seq<Attribution>, a: Seq<char>, t: u128, p: int)
    ensures cov(v, a, t, p) <==> exists|e: Attribution| v.contains(e) && #[trigger] in_piece(e, a, t, p),
{
    if cov(v, a, t, p) { let i = choose|i: int| 0 <= i < v.len() && 0 <= i < v.len() && in_piece(#[trigger] v[i], a, t, p); assert(v.contains(v[i]) && in_piece(v[i], a, t, p)); }
    if exists|e: Attribution| v.contains(e) && #[trigger] in_piece(e, a, t, p) {
        let e = choose|e: Attribution| v.contains(e) && #[trigger] in_piece(e, a, t, p);
        let i = choose|i: int| 0 <= i < v.len() && v[i] == e;
        assert(0 <= i < v.len() && in_piece(v[i], a, t, p));
    }
}
/// after the sort: same entries, so the same credit
proof fn lemma_final(res: Seq<Attribution>, r: Seq<Attribution>, prim: Seq<Attribution>, sec: Seq<Attribution>, bytes: Seq<u8>)
    requires outer_inv(res, prim, sec, sec.len() as int, bytes), r.to_multiset() == res.to_multiset(), sorted_se(r),
    ensures merge_post(r, prim, sec, bytes),
{
    broadcast use vstd::seq_lib::group_to_multiset_ensures;
    let np = prim.len() as int;
    assert forall|e: Attribution| r.contains(e) <==> res.contains(e) by {
        r.to_multiset_ensures(); res.to_multiset_ensures();
        assert(r.contains(e) <==> r.to_multiset().count(e) > 0);
        assert(res.contains(e) <==> res.to_multiset().count(e) > 0);
    }
    assert(r.len() == res.len()) by { r.to_multiset_ensures(); res.to_multiset_ensures(); }
    assert forall|a: Seq<char>, t: u128, p: int| #[trigger] cov(r, a, t, p) <==> (cov(prim, a, t, p) || sec_credit(prim, sec, bytes, a, t, p)) by {
        lemma_contains_cov(r, a, t, p); lemma_contains_cov(res, a, t, p);
        assert(cov(r, a, t, p) <==> cov(res, a, t, p));
        lemma_cov_split(res, 0, np, res.len() as int, a, t, p);
        assert forall|i: int| 0 <= i < np implies res[i] == prim[i] by { assert(res.subrange(0, np)[i] == prim[i]); }
        lemma_cov_agree(res, prim, 0, np, a, t, p);
    }
    assert forall|i: int| 0 <= i < prim.len() implies r.contains(#[trigger] prim[i]) by { assert(res.subrange(0, np)[i] == prim[i]); assert(res[i] == prim[i]); assert(res.contains(prim[i])); }
    assert forall|i: int| 0 <= i < r.len() implies prim.contains(#[trigger] r[i]) || piece_ok(r[i], bytes) by {
        assert(r.contains(r[i])); assert(res.contains(r[i]));
        let j = choose|j: int| 0 <= j < res.len() && res[j] == r[i];
        if j < np { assert(res.subrange(0, np)[j] == prim[j]); assert(prim.contains(r[i])); } else { assert(piece_ok(res[j], bytes)); }
    }
}


// ---------------------------------------------------------------- what the contract means for C02 / C03 (over the spec functions)
/// an EMPTY (or inverted) secondary range never starts strictly inside a character.  NOT guaranteed by the code: see REPORT.md,
/// "zero-length range inside a multi-byte character"
pub open spec fn sec_wf(sec: Seq<Attribution>, bytes: Seq<u8>) -> bool {
    forall|i: int| 0 <= i < sec.len() ==> (#[trigger] sec[i]).start < sec[i].end || sec[i].start >= bytes.len() || is_char_boundary(bytes, sec[i].start as int)
}
proof fn lemma_cov_any(v: Seq<Attribution>, a: Seq<char>, t: u128, p: int)
    requires cov(v, a, t, p),
    ensures any_cov(v, p),
{
    let i = choose|i: int| 0 <= i < v.len() && 0 <= i < v.len() && in_piece(#[trigger] v[i], a, t, p);
    assert(0 <= i < v.len() && in_any(v[i], p));
}
/// C03 "nothing is invented": whatever the result credits to (a, t) at byte p is credited by the primary set at p, or p is not
/// covered by the primary set at all and some byte of p's character is credited to (a, t) by the secondary set
proof fn theorem_nothing_invented(r: Seq<Attribution>, prim: Seq<Attribution>, sec: Seq<Attribution>, bytes: Seq<u8>, a: Seq<char>, t: u128, p: int)
    requires merge_post(r, prim, sec, bytes), is_char_boundary(bytes, bytes.len() as int), sec_wf(sec, bytes), cov(r, a, t, p),
    ensures cov(prim, a, t, p) || (0 <= p < bytes.len() && !any_cov(prim, p) && exists|q: int| same_char(bytes, p, q) && #[trigger] cov(sec, a, t, q)),
{
    if !cov(prim, a, t, p) {
        assert(sec_credit(prim, sec, bytes, a, t, p));
        assert(same_char(bytes, p, p));
        if any_cov(prim, p) { assert(0 <= p < bytes.len() && same_char(bytes, p, p) && any_cov(prim, p)); }
        let i = choose|i: int| 0 <= i < sec.len() && i < sec.len() && sec_piece(#[trigger] sec[i], bytes, a, t, p);
        let s = sec[i].start as int; let e = sec[i].end as int; let n = bytes.len() as int;
        assert(lo_ok(bytes, s, p) && hi_ok(bytes, e, p));
        if s < e {
            let q = if s <= p < e { p } else if p < s { s } else { e - 1 };
            if p < s { if s >= n { assert(p < n <= s && is_char_boundary(bytes, n)); } assert(same_char(bytes, p, s)); }
            if p >= e { assert(same_char(bytes, p, e - 1)); }
            assert(0 <= i < sec.len() && in_piece(sec[i], a, t, q));
            assert(same_char(bytes, p, q) && cov(sec, a, t, q));
        } else {
            if p < s { if s >= n { assert(p < n <= s && is_char_boundary(bytes, n)); } else { assert(p < s <= s && is_char_boundary(bytes, s)); } }
            else { assert(e <= s <= p); assert(!is_char_boundary(bytes, s)); }
            assert(false);
        }
    }
}
/// "favoring first": where the primary set covers a byte, only what the primary set says about it is in the result
proof fn theorem_primary_wins(r: Seq<Attribution>, prim: Seq<Attribution>, sec: Seq<Attribution>, bytes: Seq<u8>, a: Seq<char>, t: u128, p: int)
    requires merge_post(r, prim, sec, bytes), any_cov(prim, p),
    ensures cov(r, a, t, p) <==> cov(prim, a, t, p),
{
    if cov(r, a, t, p) && !cov(prim, a, t, p) {
        assert(sec_credit(prim, sec, bytes, a, t, p));
        assert(same_char(bytes, p, p));
        assert(0 <= p < bytes.len() && same_char(bytes, p, p) && any_cov(prim, p));
    }
}
/// C02 "every surviving credit is kept": the primary's credit always, the secondary's wherever the primary does not touch the character
proof fn theorem_credit_survives(r: Seq<Attribution>, prim: Seq<Attribution>, sec: Seq<Attribution>, bytes: Seq<u8>, a: Seq<char>, t: u128, p: int)
    requires merge_post(r, prim, sec, bytes),
    ensures
        cov(prim, a, t, p) ==> cov(r, a, t, p),
        cov(sec, a, t, p) && 0 <= p < bytes.len() && !blocked(prim, bytes, p) ==> cov(r, a, t, p),
{
    if cov(sec, a, t, p) && 0 <= p < bytes.len() && !blocked(prim, bytes, p) {
        let i = choose|i: int| 0 <= i < sec.len() && 0 <= i < sec.len() && in_piece(#[trigger] sec[i], a, t, p);
        assert(lo_ok(bytes, sec[i].start as int, p) && hi_ok(bytes, sec[i].end as int, p));
        assert(0 <= i < sec.len() && sec_piece(sec[i], bytes, a, t, p));
    }
}
/// a byte whose character is touched by neither set is credited to nobody
proof fn theorem_uncovered_stays_uncovered(r: Seq<Attribution>, prim: Seq<Attribution>, sec: Seq<Attribution>, bytes: Seq<u8>, a: Seq<char>, t: u128, p: int)
    requires
        merge_post(r, prim, sec, bytes), is_char_boundary(bytes, bytes.len() as int), sec_wf(sec, bytes),
        forall|q: int| same_char(bytes, p, q) ==> !any_cov(prim, q) && !any_cov(sec, q),
    ensures !cov(r, a, t, p),
{
    if cov(r, a, t, p) {
        theorem_nothing_invented(r, prim, sec, bytes, a, t, p);
        assert(same_char(bytes, p, p));
        if cov(prim, a, t, p) { lemma_cov_any(prim, a, t, p); }
        else { let q = choose|q: int| same_char(bytes, p, q) && #[trigger] cov(sec, a, t, q); lemma_cov_any(sec, a, t, q); }
    }
}
/// for a text of one-byte characters the statement is the plain byte-level one: primary credit, plus secondary credit on the
/// bytes no primary range covers, and nothing else
proof fn theorem_one_byte_chars(r: Seq<Attribution>, prim: Seq<Attribution>, sec: Seq<Attribution>, bytes: Seq<u8>, a: Seq<char>, t: u128, p: int)
    requires merge_post(r, prim, sec, bytes), forall|j: int| 0 <= j <= bytes.len() ==> is_char_boundary(bytes, j),
    ensures cov(r, a, t, p) <==> (cov(prim, a, t, p) || (0 <= p < bytes.len() && !any_cov(prim, p) && cov(sec, a, t, p))),
{
    let n = bytes.len() as int;
    if 0 <= p < n {
        assert(same_char(bytes, p, p));
        assert(blocked(prim, bytes, p) <==> any_cov(prim, p)) by {
            if blocked(prim, bytes, p) { let q = choose|q: int| 0 <= q < n && same_char(bytes, p, q) && #[trigger] any_cov(prim, q); if q < p { assert(is_char_boundary(bytes, p)); } if q > p { assert(is_char_boundary(bytes, q)); } }
            if any_cov(prim, p) { assert(0 <= p < n && same_char(bytes, p, p) && any_cov(prim, p)); }
        }
        assert forall|i: int| 0 <= i < sec.len() implies (sec_piece(#[trigger] sec[i], bytes, a, t, p) <==> in_piece(sec[i], a, t, p)) by {
            let s = sec[i].start as int; let e = sec[i].end as int;
            if p < s { assert(is_char_boundary(bytes, p + 1)); assert(!lo_ok(bytes, s, p)); }
            if e <= p { assert(is_char_boundary(bytes, p)); assert(!hi_ok(bytes, e, p)); }
            if s <= p < e { assert(lo_ok(bytes, s, p) && hi_ok(bytes, e, p)); }
        }
        if sec_credit(prim, sec, bytes, a, t, p) { let i = choose|i: int| 0 <= i < sec.len() && i < sec.len() && sec_piece(#[trigger] sec[i], bytes, a, t, p); assert(0 <= i < sec.len() && in_piece(sec[i], a, t, p)); }
        if !any_cov(prim, p) && cov(sec, a, t, p) { let i = choose|i: int| 0 <= i < sec.len() && 0 <= i < sec.len() && in_piece(#[trigger] sec[i], a, t, p); assert(0 <= i < sec.len() && sec_piece(sec[i], bytes, a, t, p)); }
    }
}

//#item file=src/authorship/virtual_attribution.rs kind=fn name=floor_char_boundary
fn floor_char_boundary(content: &str, idx: usize) -> (r_: usize)
//@     ensures
//@         r_ <= content.spec_bytes().len(), r_ <= idx,
//@         is_char_boundary(content.spec_bytes(), r_ as int),
//@         forall|j: int| r_ < j <= idx && j <= content.spec_bytes().len() ==> !is_char_boundary(content.spec_bytes(), j),
{
    let mut i = idx.min(content.len());
    //@ proof { encode_utf8_valid_utf8(content@); is_char_boundary_start_end_of_seq(content.spec_bytes()); }
    while i > 0 && !content.is_char_boundary(i)
    //@     invariant
    //@         i <= content.spec_bytes().len(), i <= idx,
    //@         is_char_boundary(content.spec_bytes(), 0),
    //@         forall|j: int| i < j <= idx && j <= content.spec_bytes().len() ==> !is_char_boundary(content.spec_bytes(), j),
    //@     decreases i,
    {
        i -= 1;
    }
    i
}
//#end
//#item file=src/authorship/virtual_attribution.rs kind=fn name=ceil_char_boundary
fn ceil_char_boundary(content: &str, idx: usize) -> (r_: usize)
//@     ensures
//@         r_ <= content.spec_bytes().len(),
//@         r_ >= idx || r_ == content.spec_bytes().len(),
//@         is_char_boundary(content.spec_bytes(), r_ as int),
//@         forall|j: int| idx <= j < r_ ==> !is_char_boundary(content.spec_bytes(), j),
{
    let mut i = idx.min(content.len());
    //@ proof { encode_utf8_valid_utf8(content@); is_char_boundary_start_end_of_seq(content.spec_bytes()); }
    while i < content.len() && !content.is_char_boundary(i)
    //@     invariant
    //@         i <= content.spec_bytes().len(),
    //@         i >= idx || i == content.spec_bytes().len(),
    //@         is_char_boundary(content.spec_bytes(), content.spec_bytes().len() as int),
    //@         forall|j: int| idx <= j < i ==> !is_char_boundary(content.spec_bytes(), j),
    //@     decreases content.spec_bytes().len() - i,
    {
        i += 1;
    }
    i
}
//#end

/// where the scan of the cells stands before cell m: at the start of cell m, or at the end of the slice
pub open spec fn cur_at(cells: Seq<(usize, char)>, m: int, lo: int, hi: int) -> int { if m < cells.len() { lo + cells[m].0 } else { hi } }

//#item file=src/authorship/virtual_attribution.rs kind=fn name=merge_char_attributions opaque='[{"expr": "primary.to_vec()", "call": "opq_attrs_to_vec(primary)"}, {"expr": "result.extend(primary.iter().cloned())", "call": "opq_extend_cloned(&mut result, primary)"}, {"expr": "&content[safe_start..safe_end]", "call": "str_sub(content, safe_start, safe_end)"}, {"expr": "slice.char_indices()", "call": "opq_char_indices(slice)"}, {"expr": "result.sort_by_key(|a| (a.start, a.end))", "call": "opq_sort_start_end(&mut result)"}]'
fn merge_char_attributions(
    primary: &[Attribution],
    secondary: &[Attribution],
    content: &str,
) -> (r_: Vec<Attribution>)
//@     ensures merge_post(r_@, primary@, secondary@, content.spec_bytes()),
{
    //@ let ghost bytes = content.spec_bytes(); let ghost prim = primary@; let ghost sec = secondary@; let ghost np = prim.len() as int;
    //@ proof { encode_utf8_valid_utf8(content@); is_char_boundary_start_end_of_seq(bytes); }
    let content_len = content.len();
    if content_len == 0 {
        //@ proof { lemma_empty_content(prim, sec, bytes); }
        return opq_attrs_to_vec(primary);
    }

    // Create coverage map for primary (byte-based).
    let mut covered = vec![false; content_len];
    for attr in it_0: primary
    //@     invariant
    //@         prim == primary@, it_0.snapshot@.remaining().len() == prim.len(), forall|k: int| 0 <= k < prim.len() ==> *(#[trigger] it_0.snapshot@.remaining()[k]) == prim[k],
    //@         covered@.len() == content_len, cov_map(covered@, prim, it_0.index@),
    {
        //@ let ghost k0 = it_0.index@; let ghost c0 = covered@;
        //@ proof { assert(*attr == prim[k0]); }
        for i in it_1: attr.start..attr.end.min(content_len)
        //@     invariant
        //@         covered@.len() == content_len, c0.len() == content_len,
        //@         forall|q: int| 0 <= q < content_len ==> (#[trigger] covered@[q] <==> (c0[q] || attr.start <= q < attr.start + it_1.index@)),
        {
            covered[i] = true;
        }
        //@ proof { assert forall|q: int| 0 <= q < covered@.len() implies (#[trigger] covered@[q] <==> any_rng(prim, 0, k0 + 1, q)) by { lemma_any_step(prim, k0, q); assert(c0[q] <==> any_rng(prim, 0, k0, q)); } }
    }

    let mut result = Vec::new();

    // Add all primary attributions.
    opq_extend_cloned(&mut result, primary);
    //@ proof { assert(result@ =~= prim); assert(result@.subrange(0, np) =~= prim); }

    // Add secondary attributions only where primary doesn't cover, on UTF-8 boundaries.
    for attr in it_2: secondary
    //@     invariant
    //@         bytes == content.spec_bytes(), valid_utf8(bytes), content_len == bytes.len(), content_len > 0, prim == primary@, sec == secondary@, np == prim.len(),
    //@         it_2.snapshot@.remaining().len() == sec.len(), forall|k: int| 0 <= k < sec.len() ==> *(#[trigger] it_2.snapshot@.remaining()[k]) == sec[k],
    //@         covered@.len() == content_len, cov_map(covered@, prim, np),
    //@         outer_inv(result@, prim, sec, it_2.index@, bytes),
    {
        //@ let ghost k = it_2.index@; let ghost r0 = result@; let ghost base = r0.len() as int; let ghost au = attr.author_id@; let ghost ats = attr.ts;
        //@ proof { assert(*attr == sec[k]); }
        let mut range_start: Option<usize> = None;
        let safe_start = floor_char_boundary(content, attr.start);
        let safe_end = ceil_char_boundary(content, attr.end);
        //@ let ghost lo = safe_start as int; let ghost hi = safe_end as int;
        //@ proof {
        //@     lemma_widened_iff(bytes, attr.start as int, attr.end as int, lo, hi);
        //@     if safe_start >= safe_end { lemma_attr_done(r0, r0, prim, sec, k, bytes, lo, lo); }
        //@ }

        if !(safe_start >= safe_end) {

        let slice = str_sub(content, safe_start, safe_end);
        //@ let ghost sb = slice.spec_bytes(); let ghost cells = char_idx(sb);
        //@ proof { encode_utf8_valid_utf8(slice@); lemma_sub_boundaries(bytes, lo, hi); }
        for (rel_idx, ch) in it_3: opq_char_indices(slice)
        //@     invariant
        //@         bytes == content.spec_bytes(), content_len == bytes.len(), covered@.len() == content_len, cov_map(covered@, prim, np), np == prim.len(),
        //@         lo == safe_start, hi == safe_end, lo < hi <= bytes.len(), sb =~= bytes.subrange(lo, hi), bnd_rel(bytes, sb, lo), cells == char_idx(sb), it_3.snapshot@.remaining() == cells, cells_ok(cells, sb),
        //@         base == r0.len(), result@.len() >= base, result@.subrange(0, base) =~= r0, au == attr.author_id@, ats == attr.ts,
        //@         emit_inv(result@, base, prim, bytes, lo, cur_at(cells, it_3.index@, lo, hi), range_start, au, ats),
        {
            //@ let ghost m = it_3.index@; let ghost cur = lo + cells[m].0; let ghost ce = lo + cell_end(cells, m);
            //@ proof {
            //@     assert((rel_idx, ch) == cells[m]);
            //@     if m + 1 < cells.len() { assert(cell_end(cells, m) == cells[m + 1].0); }
            //@     assert(cur_at(cells, m + 1, lo, hi) == ce);
            //@     assert(cell(bytes, cur, ce)) by { assert forall|j: int| cur < j < ce implies !#[trigger] is_char_boundary(bytes, j) by { assert(cells[m].0 < j - lo < cell_end(cells, m)); assert(!is_char_boundary(sb, j - lo)); } }
            //@ }
            let start = safe_start + rel_idx;
            let end = start + ch.len_utf8();
            let mut is_covered = false;
            for i in it_4: start..end.min(content_len)
            //@     invariant_except_break
            //@         !is_covered,
            //@         forall|q: int| start <= q < start + it_4.index@ ==> !covered@[q],
            //@     invariant
            //@         covered@.len() == content_len, end <= content_len,
            //@     ensures
            //@         is_covered <==> exists|q: int| start <= q < end && covered@[q],
            {
                if covered[i] {
                    is_covered = true;
                    break;
                }
            }
            //@ let ghost a0 = result@; let ghost rs0 = range_start;
            //@ proof {
            //@     if is_covered { let q = choose|q: int| start <= q < end && covered@[q]; assert(any_cov(prim, q)); assert(cell_blocked(prim, cur, ce)); }
            //@     if cell_blocked(prim, cur, ce) { let q = choose|q: int| cur <= q < ce && #[trigger] any_cov(prim, q); assert(covered@[q]); }
            //@ }

            if is_covered {
                if let Some(range_start_idx) = range_start.take() { if range_start_idx < start {
                    result.push(Attribution::new(
                        range_start_idx,
                        start,
                        attr.author_id.clone(),
                        attr.ts,
                    ));
                } }
                //@ proof { lemma_flush(a0, result@, base, prim, bytes, lo, cur, rs0, au, ats); lemma_adv_blocked(result@, base, prim, bytes, lo, cur, ce, au, ats); }
            } else if range_start.is_none() {
                range_start = Some(start);
                //@ proof { lemma_adv_free(a0, base, prim, bytes, lo, cur, ce, rs0, au, ats); }
            }
            //@ proof {
            //@     if !is_covered && rs0 is Some { lemma_adv_free(a0, base, prim, bytes, lo, cur, ce, rs0, au, ats); }
            //@     assert(result@.subrange(0, base) =~= r0);
            //@ }
        }

        //@ let ghost a1 = result@; let ghost rs1 = range_start;
        if let Some(range_start_idx) = range_start.take() { if range_start_idx < safe_end {
            result.push(Attribution::new(
                range_start_idx,
                safe_end,
                attr.author_id.clone(),
                attr.ts,
            ));
        } }
        //@ proof {
        //@     lemma_flush(a1, result@, base, prim, bytes, lo, hi, rs1, au, ats);
        //@     assert(result@.subrange(0, base) =~= r0);
        //@     lemma_attr_done(r0, result@, prim, sec, k, bytes, lo, hi);
        //@ }
    }
    }

    // Sort by start position.
    //@ let ghost res = result@;
    opq_sort_start_end(&mut result);
    //@ proof { lemma_final(res, result@, prim, sec, bytes); }
    result
}
//#end

// ---------------------------------------------------------------- transform_attributions_to_final
/// stand-ins: the tracker (its update_attributions is proved piecewise in the C16 units; here only its result is named) and the error type
#[verifier::external_body] pub struct AttributionTracker { _o: () }
pub enum GitAiError { Generic(String) }
/// rule O1 on the path `crate::authorship::attribution_tracker::AttributionTracker`
pub type TrackerT = AttributionTracker;
/// the placeholder author given to text that is new in the final content
pub open spec fn DUMMY() -> Seq<char> { "__DUMMY__"@ }
/// what update_attributions returns for these arguments (None: an error); uninterpreted
pub uninterp spec fn upd(old_content: Seq<char>, new_content: Seq<char>, attrs: Seq<Attribution>, author: Seq<char>, ts: u128) -> Option<Seq<Attribution>>;
impl AttributionTracker {
    #[verifier::external_body]
    pub fn update_attributions(&self, old_content: &str, new_content: &str, old_attributions: &[Attribution], current_author: &str, ts: u128) -> (r: Result<Vec<Attribution>, GitAiError>)
        ensures match r { Ok(v) => upd(old_content@, new_content@, old_attributions@, current_author@, ts) == Some(v@), Err(_) => upd(old_content@, new_content@, old_attributions@, current_author@, ts) is None },
    { unimplemented!() }
}
pub open spec fn not_author(a: Seq<char>) -> spec_fn(Attribution) -> bool { |e: Attribution| e.author_id@ != a }
pub open spec fn keep_real(s: Seq<Attribution>) -> Seq<Attribution> { s.filter(not_author(DUMMY())) }
/// `transformed.into_iter().filter(|attr| attr.author_id != dummy_author).collect()`: the entries whose author differs, in order
#[verifier::external_body]
fn opq_filter_not_author(v: Vec<Attribution>, author: &str) -> (r: Vec<Attribution>)
    ensures r@ == v@.filter(not_author(author@)),
{ unimplemented!() }
/// C03 for this step: what comes out are entries update_attributions produced, none of them the placeholder; C02: every real one is kept
proof fn theorem_filter_keeps_exactly_the_real_ones(s: Seq<Attribution>)
    ensures
        forall|i: int| 0 <= i < keep_real(s).len() ==> s.contains(#[trigger] keep_real(s)[i]) && keep_real(s)[i].author_id@ != DUMMY(),
        forall|i: int| 0 <= i < s.len() && (#[trigger] s[i]).author_id@ != DUMMY() ==> keep_real(s).contains(s[i]),
{
    let pred = not_author(DUMMY());
    assert forall|i: int| 0 <= i < keep_real(s).len() implies s.contains(#[trigger] keep_real(s)[i]) && keep_real(s)[i].author_id@ != DUMMY() by {
        let e = keep_real(s)[i]; assert(s.filter(pred).contains(e)); s.lemma_filter_contains_rev(pred, e); assert(pred(e));
    }
    assert forall|i: int| 0 <= i < s.len() && (#[trigger] s[i]).author_id@ != DUMMY() implies keep_real(s).contains(s[i]) by { s.lemma_filter_contains(pred, i); }
}

//#item file=src/authorship/virtual_attribution.rs kind=fn name=transform_attributions_to_final opaque='[{"expr": "crate::authorship::attribution_tracker::AttributionTracker", "call": "TrackerT"}, {"expr": "transformed .into_iter() .filter(|attr| attr.author_id != dummy_author) .collect()", "call": "opq_filter_not_author(transformed, dummy_author)"}]'
fn transform_attributions_to_final(
    tracker: &TrackerT,
    old_content: &str,
    old_attributions: &[Attribution],
    new_content: &str,
    ts: u128,
) -> (r_: Result<Vec<Attribution>, GitAiError>)
//@     ensures
//@         match r_ {
//@             Ok(v) => upd(old_content@, new_content@, old_attributions@, DUMMY(), ts) is Some && v@ == keep_real(upd(old_content@, new_content@, old_attributions@, DUMMY(), ts).unwrap()),
//@             Err(_) => upd(old_content@, new_content@, old_attributions@, DUMMY(), ts) is None,
//@         },
{
    // Use a dummy author for new insertions (we'll discard them anyway)
    let dummy_author = "__DUMMY__";

    let transformed = tracker.update_attributions(
        old_content,
        new_content,
        old_attributions,
        dummy_author,
        ts,
    )?;

    // Filter out dummy attributions (new insertions)
    let filtered: Vec<Attribution> = opq_filter_not_author(transformed, dummy_author);

    Ok(filtered)
}
//#end

// ---------------------------------------------------------------- the per-file merge step of merge_attributions_favoring_first
#[verifier::external_body] pub struct LineAttribution { _o: () }
pub uninterp spec fn line_attrs_of(attrs: Seq<Attribution>, content: Seq<u8>) -> Seq<LineAttribution>;
/// rule O1 on the path `crate::authorship::attribution_tracker::attributions_to_line_attributions` (dominant author per line; units
/// dominant / projection of C16); here only named
#[verifier::external_body]
fn tracker_attributions_to_line_attributions(attributions: &[Attribution], content: &str) -> (r: Vec<LineAttribution>)
    ensures r@ == line_attrs_of(attributions@, content.spec_bytes()),
{ unimplemented!() }

//#item file=src/authorship/virtual_attribution.rs kind=region name=mf_merge in=merge_attributions_favoring_first from="let merged_char_attrs =" to="=merged" from_nth=0 to_nth=0 to_exclusive=yes opaque='[{"expr": "crate::authorship::attribution_tracker::attributions_to_line_attributions", "call": "tracker_attributions_to_line_attributions"}]'
//@ fn region_mf_merge(transformed_primary: Vec<Attribution>, transformed_secondary: Vec<Attribution>, final_content: &String) -> (r_: (Vec<Attribution>, Vec<LineAttribution>))
//@     ensures
//@         // "primary wins overlaps, secondary fills gaps": the FIRST argument of merge_attributions_favoring_first is the favoured one
//@         merge_post(r_.0@, transformed_primary@, transformed_secondary@, encode_utf8(final_content@)),
//@         // and the line attributions stored with it are those of exactly this merged list on the final content
//@         r_.1@ == line_attrs_of(r_.0@, encode_utf8(final_content@)),
//@ {
        let merged_char_attrs =
            merge_char_attributions(&transformed_primary, &transformed_secondary, final_content);

        // Convert to line attributions
        let merged_line_attrs =
            tracker_attributions_to_line_attributions(
                &merged_char_attrs,
                final_content,
            );
//@     (merged_char_attrs, merged_line_attrs)
//@ }
//#end

// ---------------------------------------------------------------- restore_stashed_va: who is favoured, which files, which head
/// stand-ins (rule O1 / typing only): everything behind them is git, the file system or code of other units
#[verifier::external_body] pub struct VirtualAttributions { _o: () }
#[verifier::external_body] pub struct FileMap { _o: () }                // HashMap<String, String> (and the two empty maps given to VirtualAttributions::new)
#[verifier::external_body] pub struct WorkDir { _o: () }                // PathBuf
#[verifier::external_body] pub struct AbsPath { _o: () }                // PathBuf
#[verifier::external_body] pub struct InitFiles { _o: () }
#[verifier::external_body] pub struct InitPrompts { _o: () }
#[verifier::external_body] pub struct AuthorshipLog { _o: () }
#[verifier::external_body] pub struct PersistedWorkingLog { _o: () }
#[verifier::external_body] pub struct RepoStorage { _o: () }
pub struct Repository { pub storage: RepoStorage }
pub struct InitialAttributions { pub files: InitFiles, pub prompts: InitPrompts }
pub uninterp spec fn fm_view(m: FileMap) -> Map<Seq<char>, Seq<char>>;
pub uninterp spec fn va_files(va: VirtualAttributions) -> Seq<String>;
/// the text of file f under work directory wd, when it exists and is readable UTF-8
pub uninterp spec fn fs_text(wd: Seq<char>, f: Seq<char>) -> Option<Seq<char>>;
pub uninterp spec fn wl_va(head: Seq<char>) -> VirtualAttributions;       // VirtualAttributions::from_just_working_log(repo, head, None)
pub uninterp spec fn empty_va(head: Seq<char>) -> VirtualAttributions;    // VirtualAttributions::new(repo, head, {}, {}, 0)
pub uninterp spec fn merge_spec(primary: VirtualAttributions, secondary: VirtualAttributions, final_state: Map<Seq<char>, Seq<char>>) -> Option<VirtualAttributions>;
pub uninterp spec fn initial_of(va: VirtualAttributions, parent: Seq<char>, commit: Seq<char>) -> Option<(InitFiles, InitPrompts)>;
pub uninterp spec fn wl_head(w: PersistedWorkingLog) -> Seq<char>;
pub uninterp spec fn files_empty(f: InitFiles) -> bool;
pub uninterp spec fn prompts_empty(f: InitPrompts) -> bool;
pub mod utils { use vstd::prelude::*; #[verifier::external_body] pub fn debug_log(s: &str) { unimplemented!() } }
#[verifier::external_body] fn opq_msg() -> (r: &'static str) { unimplemented!() }
#[verifier::external_body] fn opq_map_new() -> (r: FileMap) ensures fm_view(r) =~= Map::<Seq<char>, Seq<char>>::empty(), { unimplemented!() }
#[verifier::external_body] fn opq_repo_clone(r: &Repository) -> (c: Repository) { unimplemented!() }
impl FileMap {
    #[verifier::external_body] pub fn insert(&mut self, k: String, v: String) -> (r: Option<String>) ensures fm_view(*final(self)) == fm_view(*old(self)).insert(k@, v@), { unimplemented!() }
    #[verifier::external_body] pub fn is_empty(&self) -> (r: bool) ensures r == (fm_view(*self) =~= Map::<Seq<char>, Seq<char>>::empty()), { unimplemented!() }
}
impl View for WorkDir { type V = Seq<char>; uninterp spec fn view(&self) -> Seq<char>; }
impl View for AbsPath { type V = (Seq<char>, Seq<char>); uninterp spec fn view(&self) -> (Seq<char>, Seq<char>); }
impl WorkDir { #[verifier::external_body] pub fn join(&self, f: &String) -> (r: AbsPath) ensures r@ == (self@, f@), { unimplemented!() } }
/// `Path::exists`: a file that does not exist cannot be read
impl AbsPath { #[verifier::external_body] pub fn exists(&self) -> (r: bool) ensures !r ==> fs_text(self@.0, self@.1) is None, { unimplemented!() } }
#[verifier::external_body]
fn opq_read_to_string(p: &AbsPath) -> (r: Result<String, GitAiError>)
    ensures match r { Ok(s) => fs_text(p@.0, p@.1) == Some(s@), Err(_) => fs_text(p@.0, p@.1) is None },
{ unimplemented!() }
impl Repository {
    pub uninterp spec fn workdir_spec(&self) -> Option<Seq<char>>;
    #[verifier::external_body] pub fn workdir(&self) -> (r: Result<WorkDir, GitAiError>) ensures match r { Ok(w) => self.workdir_spec() == Some(w@), Err(_) => self.workdir_spec() is None }, { unimplemented!() }
}
impl RepoStorage { #[verifier::external_body] pub fn working_log_for_base_commit(&self, sha: &str) -> (r: PersistedWorkingLog) ensures wl_head(r) == sha@, { unimplemented!() } }
impl InitFiles { #[verifier::external_body] pub fn is_empty(&self) -> (r: bool) ensures r == files_empty(*self), { unimplemented!() } }
impl InitPrompts { #[verifier::external_body] pub fn is_empty(&self) -> (r: bool) ensures r == prompts_empty(*self), { unimplemented!() } }
impl VirtualAttributions {
    #[verifier::external_body] pub fn files(&self) -> (r: Vec<String>) ensures r@ == va_files(*self), { unimplemented!() }
    #[verifier::external_body] pub fn from_just_working_log(repo: Repository, base_commit: String, human_author: Option<String>) -> (r: Result<VirtualAttributions, GitAiError>)
        ensures r matches Ok(va) ==> human_author is None && va == wl_va(base_commit@), { unimplemented!() }
    #[verifier::external_body] pub fn new(repo: Repository, base_commit: String, attributions: FileMap, file_contents: FileMap, ts: u128) -> (r: VirtualAttributions)
        ensures fm_view(attributions) =~= Map::<Seq<char>, Seq<char>>::empty() && fm_view(file_contents) =~= Map::<Seq<char>, Seq<char>>::empty() && ts == 0 ==> r == empty_va(base_commit@), { unimplemented!() }
    #[verifier::external_body] pub fn to_authorship_log_and_initial_working_log(self, repo: &Repository, parent_sha: &str, commit_sha: &str, pathspecs: Option<Vec<String>>) -> (r: Result<(AuthorshipLog, InitialAttributions), GitAiError>)
        ensures r matches Ok(p) ==> pathspecs is None && initial_of(self, parent_sha@, commit_sha@) == Some((p.1.files, p.1.prompts)), { unimplemented!() }
}
/// merge_attributions_favoring_first itself (HashMap / HashSet iteration, prompt bookkeeping) is out of reach as a whole; its per-file
/// step is region mf_merge above.  Here it is only NAMED, so that the ORDER of its arguments is visible to the proof
#[verifier::external_body]
fn merge_attributions_favoring_first(primary: VirtualAttributions, secondary: VirtualAttributions, final_state: FileMap) -> (r: Result<VirtualAttributions, GitAiError>)
    ensures r matches Ok(va) ==> merge_spec(primary, secondary, fm_view(final_state)) == Some(va),
{ unimplemented!() }
/// `working_log.write_initial_attributions(files, prompts)`: the PRECONDITION is the statement about what is written
#[verifier::external_body]
fn opq_write_initial(w: &PersistedWorkingLog, files: InitFiles, prompts: InitPrompts, Ghost(expected): Ghost<(Seq<char>, Option<(InitFiles, InitPrompts)>)>) -> (r: Result<(), GitAiError>)
    requires wl_head(*w) == expected.0, expected.1 == Some((files, prompts)),
{ unimplemented!() }
/// m holds exactly the working-tree texts of those of the first n stashed files that exist (and are readable)
pub open spec fn is_wf(m: Map<Seq<char>, Seq<char>>, wd: Seq<char>, files: Seq<String>, n: int) -> bool {
    &&& forall|f: Seq<char>| #[trigger] m.dom().contains(f) <==> (fs_text(wd, f) is Some && exists|j: int| 0 <= j < n && j < files.len() && (#[trigger] files[j])@ == f)
    &&& forall|f: Seq<char>| #[trigger] m.dom().contains(f) ==> m[f] == fs_text(wd, f).unwrap()
}
proof fn lemma_wf_step(wd: Seq<char>, files: Seq<String>, k: int, m0: Map<Seq<char>, Seq<char>>, m1: Map<Seq<char>, Seq<char>>)
    requires 0 <= k < files.len(), is_wf(m0, wd, files, k),
        m1 == (if fs_text(wd, files[k]@) is Some { m0.insert(files[k]@, fs_text(wd, files[k]@).unwrap()) } else { m0 }),
    ensures is_wf(m1, wd, files, k + 1),
{
    assert forall|f: Seq<char>| #[trigger] m1.dom().contains(f) <==> (fs_text(wd, f) is Some && exists|j: int| 0 <= j < k + 1 && j < files.len() && (#[trigger] files[j])@ == f) by {
        if fs_text(wd, f) is Some && exists|j: int| 0 <= j < k + 1 && j < files.len() && (#[trigger] files[j])@ == f {
            let j = choose|j: int| 0 <= j < k + 1 && j < files.len() && (#[trigger] files[j])@ == f;
            if j < k { assert(0 <= j < k && files[j]@ == f); assert(m0.dom().contains(f)); }
        }
        if m0.dom().contains(f) { let j = choose|j: int| 0 <= j < k && j < files.len() && (#[trigger] files[j])@ == f; assert(0 <= j < k + 1 && files[j]@ == f); }
        if f == files[k]@ && fs_text(wd, f) is Some { assert(0 <= k < k + 1 && files[k]@ == f); }
    }
}

//#item file=src/authorship/virtual_attribution.rs kind=fn name=restore_stashed_va opaque='[{"expr": "&format!( \"Restoring stashed VA: {} -> {}\", old_head, new_head )", "call": "opq_msg()"}, {"expr": "std::collections::HashMap::new()", "call": "opq_map_new()"}, {"expr": "std::fs::read_to_string(&abs_path)", "call": "opq_read_to_string(&abs_path)"}, {"expr": "repository.clone()", "call": "opq_repo_clone(repository)"}, {"expr": "&format!(\"Failed to build new VA: {}, using empty\", e)", "call": "opq_msg()"}, {"expr": "&format!(\"Failed to merge VirtualAttributions: {}\", e)", "call": "opq_msg()"}, {"expr": "&format!(\"Failed to convert VA to INITIAL: {}\", e)", "call": "opq_msg()"}, {"expr": "&format!(\"Failed to write INITIAL attributions: {}\", e)", "call": "opq_msg()"}, {"expr": "&format!( \"✓ Restored AI attributions to INITIAL for new HEAD {}\", &new_head[..8.min(new_head.len())] )", "call": "opq_msg()"}, {"expr": "working_log .write_initial_attributions(initial_attributions.files, initial_attributions.prompts)", "call": "opq_write_initial(&working_log, initial_attributions.files, initial_attributions.prompts, Ghost(expected))"}]'
pub fn restore_stashed_va(
    repository: &mut Repository,
    old_head: &str,
    new_head: &str,
    stashed_va: VirtualAttributions,
)
//@     // what is written is pinned by the precondition of opq_write_initial (proved at its call site): the INITIAL attributions of
//@     // merge(stashed FIRST, the new HEAD's working log (or an empty set), the working-tree text of the stashed files) for new_head
{
    //@ let ghost sv = stashed_va;
    use crate::utils::debug_log;

    debug_log(opq_msg());

    // Get the files that were in the stashed VA
    let stashed_files: Vec<String> = stashed_va.files();

    if stashed_files.is_empty() {
        debug_log("Stashed VA has no files, nothing to restore");
        return;
    }

    // Get current working directory file contents (final state after operation)
    let mut working_files = opq_map_new();
    //@ let ghost files = stashed_files@;
    //@ let ghost wd = match repository.workdir_spec() { Some(w) => w, None => arbitrary() };
    //@ proof { assert(is_wf(fm_view(working_files), wd, files, 0)); }
    if let Ok(workdir) = repository.workdir() {
        for file_path in it_0: &stashed_files
        //@     invariant
        //@         files == stashed_files@, it_0.snapshot@.remaining().len() == files.len(), forall|k: int| 0 <= k < files.len() ==> *(#[trigger] it_0.snapshot@.remaining()[k]) == files[k],
        //@         workdir@ == wd, is_wf(fm_view(working_files), wd, files, it_0.index@),
        {
            //@ let ghost k = it_0.index@; let ghost m0 = fm_view(working_files);
            //@ proof { assert(*file_path == files[k]); }
            let abs_path = workdir.join(file_path);
            if abs_path.exists() { if let Ok(content) = opq_read_to_string(&abs_path)
            {
                working_files.insert(file_path.clone(), content);
            } }
            //@ proof { lemma_wf_step(wd, files, k, m0, fm_view(working_files)); }
        }
    }

    //@ let ghost wf = fm_view(working_files);
    //@ proof { assert(is_wf(wf, wd, files, files.len() as int) || wf =~= Map::<Seq<char>, Seq<char>>::empty()); }
    if working_files.is_empty() {
        debug_log("No working files to restore attributions for");
        return;
    }

    // Build a VA for the new HEAD state (if there are any existing attributions)
    let new_va = match VirtualAttributions::from_just_working_log(
        opq_repo_clone(repository),
        new_head.to_string(),
        None,
    ) {
        Ok(va) => va,
        Err(e) => {
            debug_log(opq_msg());
            VirtualAttributions::new(
                opq_repo_clone(repository),
                new_head.to_string(),
                opq_map_new(),
                opq_map_new(),
                0,
            )
        }
    };

    //@ let ghost nv = new_va;
    //@ proof { assert(nv == wl_va(new_head@) || nv == empty_va(new_head@)); }
    // Merge VAs, favoring the stashed VA (our original work)
    let merged_va = match merge_attributions_favoring_first(stashed_va, new_va, working_files) {
        Ok(va) => va,
        Err(e) => {
            debug_log(opq_msg());
            return;
        }
    };

    // Convert merged VA to INITIAL attributions for the new HEAD
    // Since these are uncommitted changes, we use the same SHA for parent and commit
    // to get all attributions into the INITIAL file (not the authorship log)
    let (_authorship_log, initial_attributions) = match merged_va
        .to_authorship_log_and_initial_working_log(repository, new_head, new_head, None)
    {
        Ok(result) => result,
        Err(e) => {
            debug_log(opq_msg());
            return;
        }
    };

    //@ let ghost expected = (new_head@, initial_of(merge_spec(sv, nv, wf).unwrap(), new_head@, new_head@));
    // Write INITIAL attributions to working log for new HEAD
    if !initial_attributions.files.is_empty() || !initial_attributions.prompts.is_empty() {
        let working_log = repository.storage.working_log_for_base_commit(new_head);
        if let Err(e) = opq_write_initial(&working_log, initial_attributions.files, initial_attributions.prompts, Ghost(expected))
        {
            debug_log(opq_msg());
            return;
        }

        debug_log(opq_msg());
    }
}
//#end

} // verus!
fn main() {}
