// Replay driver for unit vamerge: the ORIGINAL merge_char_attributions, transform_attributions_to_final and the per-file merge
// step of merge_attributions_favoring_first.  Oracle for the merge, written from the property ("favoring first", nothing is
// invented), byte by byte and (author, ts) by (author, ts), with the characters taken from str::char_indices of the content:
//   the result credits (a, t) at byte p  <=>  the primary list does, or: p is inside the text, NO byte of p's character lies in any
//   primary range, and SOME byte of p's character lies in a secondary range of (a, t).
// plus: every primary entry is kept, every other entry is a non-empty range inside the text on char boundaries, sorted by (start, end).
#![allow(dead_code, unused)]
use std::cell::RefCell;
#[derive(Debug)]
pub enum GitAiError { Generic(String) }
thread_local! {
    static UPD_RESULT: RefCell<Option<Vec<(usize, usize, String, u128)>>> = Default::default();
    static UPD_CALLS: RefCell<Vec<(String, String, Vec<(usize, usize, String, u128)>, String, u128)>> = Default::default();
    static LINE_CALLS: RefCell<Vec<(Vec<(usize, usize, String, u128)>, String)>> = Default::default();
}
fn tup(a: &Attribution) -> (usize, usize, String, u128) { (a.start, a.end, a.author_id.clone(), a.ts) }
mod authorship { pub mod attribution_tracker {
    pub use crate::Attribution;
    use crate::{GitAiError, UPD_RESULT, UPD_CALLS, LINE_CALLS, tup};
    /// stand-in tracker: records what it is asked and answers from a table
    pub struct AttributionTracker { pub _opaque: () }
    impl AttributionTracker {
        pub fn update_attributions(&self, old_content: &str, new_content: &str, old_attributions: &[Attribution], current_author: &str, ts: u128) -> Result<Vec<Attribution>, GitAiError> {
            UPD_CALLS.with(|c| c.borrow_mut().push((old_content.to_string(), new_content.to_string(), old_attributions.iter().map(tup).collect(), current_author.to_string(), ts)));
            match UPD_RESULT.with(|r| r.borrow().clone()) { Some(v) => Ok(v.into_iter().map(|(s, e, a, t)| Attribution::new(s, e, a, t)).collect()), None => Err(GitAiError::Generic("update failed".into())) }
        }
    }
    #[derive(Debug, Clone, PartialEq)]
    pub struct LineAttribution { pub marker: usize }
    pub fn attributions_to_line_attributions(attributions: &[Attribution], content: &str) -> Vec<LineAttribution> {
        LINE_CALLS.with(|c| c.borrow_mut().push((attributions.iter().map(tup).collect(), content.to_string())));
        vec![LineAttribution { marker: attributions.len() }]
    }
} }

// ---- stand-ins for restore_stashed_va: git, the working log and the neighbouring functions answer from flags and record what they are asked
impl std::fmt::Display for GitAiError { fn fmt(&self, f: &mut std::fmt::Formatter<'_>) -> std::fmt::Result { write!(f, "{:?}", self) } }
mod utils { pub fn debug_log(_m: &str) {} }
#[derive(Clone, Default)]
pub struct Scenario { workdir_ok: bool, wl_ok: bool, merge_ok: bool, convert_ok: bool, init_files: bool, init_prompts: bool, write_ok: bool }
#[derive(Clone, Debug, PartialEq)]
pub enum Ev { FromWl(String, bool), NewEmpty(String, usize, usize, u128), Merge(String, String, Vec<(String, String)>), Convert(String, String, String, bool), Write(String, Vec<String>, Vec<String>) }
thread_local! { static SCN: RefCell<Scenario> = Default::default(); static EVS: RefCell<Vec<Ev>> = Default::default(); static WORKDIR: RefCell<std::path::PathBuf> = Default::default(); }
fn ev(e: Ev) { EVS.with(|l| l.borrow_mut().push(e)); }
fn scn() -> Scenario { SCN.with(|s| s.borrow().clone()) }
#[derive(Clone)] pub struct RepoStorage;
#[derive(Clone)] pub struct Repository { pub storage: RepoStorage }
impl Repository { pub fn workdir(&self) -> Result<std::path::PathBuf, GitAiError> { if scn().workdir_ok { Ok(WORKDIR.with(|w| w.borrow().clone())) } else { Err(GitAiError::Generic("bare".into())) } } }
pub struct PersistedWorkingLog { head: String }
impl RepoStorage { pub fn working_log_for_base_commit(&self, sha: &str) -> PersistedWorkingLog { PersistedWorkingLog { head: sha.to_string() } } }
impl PersistedWorkingLog { pub fn write_initial_attributions(&self, files: std::collections::HashMap<String, usize>, prompts: std::collections::HashMap<String, usize>) -> Result<(), GitAiError> {
    let mut f: Vec<String> = files.keys().cloned().collect(); f.sort(); let mut p: Vec<String> = prompts.keys().cloned().collect(); p.sort();
    ev(Ev::Write(self.head.clone(), f, p)); if scn().write_ok { Ok(()) } else { Err(GitAiError::Generic("disk".into())) } } }
pub struct InitialAttributions { pub files: std::collections::HashMap<String, usize>, pub prompts: std::collections::HashMap<String, usize> }
pub struct VirtualAttributions { id: String, file_list: Vec<String> }
impl VirtualAttributions {
    pub fn files(&self) -> Vec<String> { self.file_list.clone() }
    pub fn from_just_working_log(_repo: Repository, base_commit: String, human_author: Option<String>) -> Result<VirtualAttributions, GitAiError> {
        ev(Ev::FromWl(base_commit.clone(), human_author.is_none()));
        if scn().wl_ok { Ok(VirtualAttributions { id: format!("wl:{}", base_commit), file_list: vec![] }) } else { Err(GitAiError::Generic("no log".into())) } }
    pub fn new(_repo: Repository, base_commit: String, attributions: std::collections::HashMap<String, usize>, file_contents: std::collections::HashMap<String, String>, ts: u128) -> VirtualAttributions {
        ev(Ev::NewEmpty(base_commit.clone(), attributions.len(), file_contents.len(), ts)); VirtualAttributions { id: format!("empty:{}", base_commit), file_list: vec![] } }
    pub fn to_authorship_log_and_initial_working_log(self, _repo: &Repository, parent_sha: &str, commit_sha: &str, pathspecs: Option<Vec<String>>) -> Result<((), InitialAttributions), GitAiError> {
        ev(Ev::Convert(self.id.clone(), parent_sha.to_string(), commit_sha.to_string(), pathspecs.is_none()));
        if !scn().convert_ok { return Err(GitAiError::Generic("convert".into())); }
        let mut i = InitialAttributions { files: Default::default(), prompts: Default::default() };
        if scn().init_files { i.files.insert(format!("files-of:{}", self.id), 1); } if scn().init_prompts { i.prompts.insert(format!("prompts-of:{}", self.id), 1); }
        Ok(((), i)) }
}
pub fn merge_attributions_favoring_first(primary: VirtualAttributions, secondary: VirtualAttributions, final_state: std::collections::HashMap<String, String>) -> Result<VirtualAttributions, GitAiError> {
    let mut fs: Vec<(String, String)> = final_state.into_iter().collect(); fs.sort();
    ev(Ev::Merge(primary.id.clone(), secondary.id.clone(), fs));
    if scn().merge_ok { Ok(VirtualAttributions { id: format!("merge({},{})", primary.id, secondary.id), file_list: vec![] }) } else { Err(GitAiError::Generic("merge".into())) } }
use authorship::attribution_tracker::LineAttribution;
include!("@ITEMS@");
use std::panic::{catch_unwind, AssertUnwindSafe};
struct Ctx { evaluated: u64, failed: std::collections::HashSet<String> }
impl Ctx {
    fn fail(&mut self, f: &str, clause: &str, input: String, observed: String, expected: String) {
        if self.failed.insert(format!("{}::{}", f, clause)) { println!("FAIL fn=[[{}]] clause=[[{}]] input=[[{}]] observed=[[{}]] expected=[[{}]]", f, clause, input, observed, expected); }
    }
}
fn guarded<T>(f: impl FnOnce() -> T) -> Result<T, String> {
    catch_unwind(AssertUnwindSafe(f)).map_err(|e| { let m = e.downcast_ref::<String>().cloned().or_else(|| e.downcast_ref::<&str>().map(|s| s.to_string())).unwrap_or_default(); format!("panic: {}", m) })
}
struct Rng(u64);
impl Rng { fn next(&mut self) -> u64 { self.0 ^= self.0 << 13; self.0 ^= self.0 >> 7; self.0 ^= self.0 << 17; self.0 } fn below(&mut self, n: u64) -> u64 { self.next() % n } }
fn esc(s: &str) -> String { s.chars().map(|c| if (c.is_ascii_graphic() && c != '\\' && c != '|' && c != '~') || c == ' ' { c.to_string() } else { format!("\\u{{{:x}}}", c as u32) }).collect() }
fn unesc(s: &str) -> String {
    let mut out = String::new(); let mut it = s.chars().peekable();
    while let Some(c) = it.next() {
        if c == '\\' && it.peek() == Some(&'u') { it.next(); it.next(); let mut h = String::new(); while let Some(&d) = it.peek() { it.next(); if d == '}' { break; } h.push(d); } out.push(char::from_u32(u32::from_str_radix(&h, 16).unwrap()).unwrap()); }
        else { out.push(c); }
    }
    out
}
type A = (usize, usize, String, u128);
const AUTHORS: &[&str] = &["ai-x", "ai-y"];
const CONTENTS: &[&str] = &["", "abc", "a\u{e9}b", "\u{20ac}x", "a\u{1F600}", "ab\ncd", "\u{e9}\u{e9}"];
fn fmt_list(v: &[A]) -> String { v.iter().map(|a| format!("{}:{}:{}:{}", a.0, a.1, a.2, a.3)).collect::<Vec<_>>().join(",") }
fn parse_list(s: &str) -> Vec<A> { s.split(',').filter(|t| !t.is_empty()).map(|t| { let q: Vec<&str> = t.splitn(4, ':').collect(); (q[0].parse().unwrap(), q[1].parse().unwrap(), q[2].to_string(), q[3].parse().unwrap()) }).collect() }
fn mk(v: &[A]) -> Vec<Attribution> { v.iter().map(|a| Attribution::new(a.0, a.1, a.2.clone(), a.3)).collect() }
fn credited(v: &[A], a: &str, t: u128, p: usize) -> bool { v.iter().any(|r| r.2 == a && r.3 == t && r.0 <= p && p < r.1) }
fn touched(v: &[A], p: usize) -> bool { v.iter().any(|r| r.0 <= p && p < r.1) }
/// the character [cs, ce) that byte p of the content belongs to
fn char_of(content: &str, p: usize) -> (usize, usize) { let mut last = (0, 0); for (i, ch) in content.char_indices() { last = (i, i + ch.len_utf8()); if p < last.1 { return last; } } last }
/// an empty or inverted secondary range that starts strictly inside a character: see REPORT.md (not generated by `search`)
fn ill_formed(content: &str, sec: &[A]) -> bool { sec.iter().any(|r| r.0 >= r.1 && r.0 < content.len() && !content.is_char_boundary(r.0)) }
/// the oracle on a merged list `got`
fn oracle(c: &mut Ctx, f: &str, input: &str, content: &str, prim: &[A], sec: &[A], got: &[A]) {
    let n = content.len();
    let mut names: Vec<(String, u128)> = vec![];
    for r in prim.iter().chain(sec.iter()).chain(got.iter()) { if !names.contains(&(r.2.clone(), r.3)) { names.push((r.2.clone(), r.3)); } }
    for p in 0..n + 3 { for (a, t) in &names {
        let want = credited(prim, a, *t, p) || (p < n && { let (cs, ce) = char_of(content, p); !(cs..ce).any(|q| touched(prim, q)) && (cs..ce).any(|q| credited(sec, a, *t, q)) });
        if credited(got, a, *t, p) != want {
            c.fail(f, "ensures#0", input.to_string(), format!("byte {} credited to ({}, {}): {} (result {})", p, a, t, !want, fmt_list(got)), format!("byte {} credited to ({}, {}): {} (primary wins, secondary only where the primary does not touch the character, nothing else)", p, a, t, want));
            return;
        }
    } }
    // every primary entry kept; the others are non-empty, inside the text, on char boundaries
    let mut rest: Vec<A> = got.to_vec();
    for r in prim { match rest.iter().position(|g| g == r) { Some(i) => { rest.remove(i); } None => { c.fail(f, "ensures#0", input.to_string(), format!("primary entry {}:{}:{}:{} missing from {}", r.0, r.1, r.2, r.3, fmt_list(got)), "every primary entry is kept".into()); return; } } }
    if n > 0 { for r in &rest { if !(r.0 < r.1 && r.1 <= n && content.is_char_boundary(r.0) && content.is_char_boundary(r.1)) { c.fail(f, "ensures#0", input.to_string(), format!("entry {}:{}:{}:{}", r.0, r.1, r.2, r.3), format!("a non-empty range inside the {} bytes of the text on char boundaries", n)); return; } } }
    else if !rest.is_empty() { c.fail(f, "ensures#0", input.to_string(), fmt_list(got), "only the primary entries for an empty text".into()); return; }
    if n > 0 && !got.windows(2).all(|w| (w[0].0, w[0].1) <= (w[1].0, w[1].1)) { c.fail(f, "ensures#0", input.to_string(), fmt_list(got), "sorted by (start, end)".into()); }
}
/// input: content | primary | secondary
fn chk_merge(c: &mut Ctx, content: &str, prim: &[A], sec: &[A]) {
    c.evaluated += 1;
    let input = format!("{}|{}|{}", esc(content), fmt_list(prim), fmt_list(sec));
    let (pv, sv) = (mk(prim), mk(sec));
    match guarded(|| merge_char_attributions(&pv, &sv, content)) {
        Err(p) => c.fail("merge_char_attributions", "safety", input, p, "no panic".into()),
        Ok(out) => { let got: Vec<A> = out.iter().map(tup).collect(); oracle(c, "merge_char_attributions", &input, content, prim, sec, &got); }
    }
}
fn chk_region(c: &mut Ctx, content: &str, prim: &[A], sec: &[A]) {
    c.evaluated += 1;
    let input = format!("{}|{}|{}", esc(content), fmt_list(prim), fmt_list(sec));
    let (pv, sv, owned) = (mk(prim), mk(sec), content.to_string());
    LINE_CALLS.with(|l| l.borrow_mut().clear());
    match guarded(|| region_mf_merge(pv, sv, &owned)) {
        Err(p) => c.fail("region_mf_merge", "safety", input, p, "no panic".into()),
        Ok((chars, lines)) => {
            let got: Vec<A> = chars.iter().map(tup).collect();
            oracle(c, "region_mf_merge", &input, content, prim, sec, &got);
            let calls = LINE_CALLS.with(|l| l.borrow().clone());
            if calls.len() != 1 || calls[0].0 != got || calls[0].1 != content || lines != vec![LineAttribution { marker: got.len() }] {
                c.fail("region_mf_merge", "ensures#1", input, format!("line attributions computed from {:?}", calls), format!("from the merged list {} on the final content", fmt_list(&got)));
            }
        }
    }
}
/// input: old | new | attrs | ts | update result (`ERR` or a list)
fn chk_transform(c: &mut Ctx, old: &str, new: &str, attrs: &[A], ts: u128, upd: Option<&[A]>) {
    c.evaluated += 1;
    let input = format!("{}|{}|{}|{}|{}", esc(old), esc(new), fmt_list(attrs), ts, match upd { Some(v) => fmt_list(v), None => "ERR".into() });
    UPD_RESULT.with(|r| *r.borrow_mut() = upd.map(|v| v.to_vec())); UPD_CALLS.with(|l| l.borrow_mut().clear());
    let av = mk(attrs);
    let tracker = authorship::attribution_tracker::AttributionTracker { _opaque: () };
    let r = guarded(|| transform_attributions_to_final(&tracker, old, &av, new, ts));
    let calls = UPD_CALLS.with(|l| l.borrow().clone());
    match r {
        Err(p) => c.fail("transform_attributions_to_final", "safety", input, p, "no panic".into()),
        Ok(res) => {
            let want_call = (old.to_string(), new.to_string(), attrs.to_vec(), "__DUMMY__".to_string(), ts);
            if calls.len() != 1 || calls[0] != want_call { c.fail("transform_attributions_to_final", "ensures#0", input.clone(), format!("update_attributions asked {:?}", calls), format!("once, with {:?}", want_call)); return; }
            match (res, upd) {
                (Err(_), None) => {}
                (Ok(v), Some(u)) => {
                    let got: Vec<A> = v.iter().map(tup).collect();
                    let want: Vec<A> = u.iter().filter(|r| r.2 != "__DUMMY__").cloned().collect();
                    if got != want { c.fail("transform_attributions_to_final", "ensures#0", input, fmt_list(&got), format!("{} (what update_attributions returned minus the placeholder author, nothing else)", fmt_list(&want))); }
                }
                (Ok(v), None) => c.fail("transform_attributions_to_final", "ensures#0", input, format!("Ok({})", fmt_list(&v.iter().map(tup).collect::<Vec<_>>())), "the error of update_attributions".into()),
                (Err(e), Some(_)) => c.fail("transform_attributions_to_final", "ensures#0", input, format!("Err({:?})", e), "Ok".into()),
            }
        }
    }
}

/// the files the stand-in work directory holds (created by main under the system temp dir, removed at the end)
const WD_FILES: &[(&str, &[u8])] = &[("a.txt", b"abc\n"), ("sub/b.txt", b"h\xc3\xa9llo"), ("bad.bin", b"\xff\xfe"), ("empty.txt", b"")];
const STASH_NAMES: &[&str] = &["a.txt", "sub/b.txt", "bad.bin", "empty.txt", "missing.txt"];
/// input: files(comma) | flags (7 x 0/1: workdir wl merge convert init_files init_prompts write) | old_head | new_head
fn chk_restore(c: &mut Ctx, files: &[String], sc: &Scenario, old_head: &str, new_head: &str) {
    c.evaluated += 1;
    let b = |x: bool| if x { '1' } else { '0' };
    let input = format!("{}|{}{}{}{}{}{}{}|{}|{}", files.join(","), b(sc.workdir_ok), b(sc.wl_ok), b(sc.merge_ok), b(sc.convert_ok), b(sc.init_files), b(sc.init_prompts), b(sc.write_ok), old_head, new_head);
    SCN.with(|s| *s.borrow_mut() = sc.clone()); EVS.with(|l| l.borrow_mut().clear());
    let mut repo = Repository { storage: RepoStorage };
    let va = VirtualAttributions { id: "stashed".into(), file_list: files.to_vec() };
    if let Err(p) = guarded(|| restore_stashed_va(&mut repo, old_head, new_head, va)) { c.fail("restore_stashed_va", "safety", input, p, "no panic".into()); return; }
    let got = EVS.with(|l| l.borrow().clone());
    // expected, from the description of the operation: the stash is favoured over what the new HEAD already has, on the working-tree
    // text of the stashed files, and the result becomes the INITIAL attributions of the NEW head
    let mut want: Vec<Ev> = vec![];
    let mut wf: Vec<(String, String)> = vec![];
    if sc.workdir_ok { for f in files { if let Some((_, bytes)) = WD_FILES.iter().find(|(n, _)| n == f) { if let Ok(t) = String::from_utf8(bytes.to_vec()) { if !wf.iter().any(|(n, _)| n == f) { wf.push((f.clone(), t)); } } } } }
    wf.sort();
    if !files.is_empty() && !wf.is_empty() {
        want.push(Ev::FromWl(new_head.to_string(), true));
        let second = if sc.wl_ok { format!("wl:{}", new_head) } else { want.push(Ev::NewEmpty(new_head.to_string(), 0, 0, 0)); format!("empty:{}", new_head) };
        want.push(Ev::Merge("stashed".into(), second.clone(), wf));
        if sc.merge_ok {
            let m = format!("merge(stashed,{})", second);
            want.push(Ev::Convert(m.clone(), new_head.to_string(), new_head.to_string(), true));
            if sc.convert_ok && (sc.init_files || sc.init_prompts) { want.push(Ev::Write(new_head.to_string(), if sc.init_files { vec![format!("files-of:{}", m)] } else { vec![] }, if sc.init_prompts { vec![format!("prompts-of:{}", m)] } else { vec![] })); }
        }
    }
    if got != want { c.fail("restore_stashed_va", "pre@opq_write_initial#0", input, format!("{:?}", got), format!("{:?}", want)); }
}
fn gen_list(g: &mut Rng, upto: u64, max: usize, authors: &[&str]) -> Vec<A> {
    let n = g.below(upto) as usize;
    (0..n).map(|_| { let s = g.below(max as u64 + 2) as usize; let e = if g.below(5) == 0 { g.below(max as u64 + 2) as usize } else { s + g.below(4) as usize }; (s, e, authors[g.below(authors.len() as u64) as usize].to_string(), 1 + g.below(2) as u128) }).collect()
}
fn main() {
    std::panic::set_hook(Box::new(|_| {}));
    let a: Vec<String> = std::env::args().collect();
    let mut c = Ctx { evaluated: 0, failed: Default::default() };
    let want = |f: &str| a[2] == "*" || a[2] == f;
    let wd = std::env::temp_dir().join(format!("vamerge-replay-{}", std::process::id()));
    if want("restore_stashed_va") {
        for (n, bytes) in WD_FILES { let p = wd.join(n); std::fs::create_dir_all(p.parent().unwrap()).unwrap(); std::fs::write(&p, bytes).unwrap(); }
        WORKDIR.with(|w| *w.borrow_mut() = wd.clone());
    }
    if a[1] == "search" {
        let mut g = Rng(a[3].parse::<u64>().unwrap_or(0).wrapping_mul(0x9E3779B97F4A7C15) ^ 0x6a09e667f3bcc909);
        if want("merge_char_attributions") || want("region_mf_merge") {
            // exhaustive-small: one primary range x one secondary range (every start / end up to one past the text, inverted ones
            // included), same or different author
            for content in CONTENTS { let n = content.len(); for ps in 0..=n + 1 { for pe in 0..=n + 1 { for ss in 0..=n + 1 { for se in 0..=n + 1 { for sa in AUTHORS {
                let prim = vec![(ps, pe, "ai-x".to_string(), 1u128)]; let sec = vec![(ss, se, sa.to_string(), 1u128)];
                if ill_formed(content, &sec) { continue; }
                if want("merge_char_attributions") { chk_merge(&mut c, content, &prim, &sec); }
                if want("region_mf_merge") && ps % 2 == 0 { chk_region(&mut c, content, &prim, &sec); }
            } } } } } }
            for content in CONTENTS { let n = content.len(); for ss in 0..=n + 1 { for se in 0..=n + 1 { let sec = vec![(ss, se, "ai-y".to_string(), 2u128)]; if !ill_formed(content, &sec) { chk_merge(&mut c, content, &[], &sec); chk_merge(&mut c, content, &sec, &[]); } } } }
            for _ in 0..20000 {
                let content = CONTENTS[g.below(CONTENTS.len() as u64) as usize];
                let prim = gen_list(&mut g, 4, content.len(), AUTHORS); let sec = gen_list(&mut g, 4, content.len(), AUTHORS);
                if ill_formed(content, &sec) { continue; }
                if want("merge_char_attributions") { chk_merge(&mut c, content, &prim, &sec); }
                if want("region_mf_merge") && g.below(4) == 0 { chk_region(&mut c, content, &prim, &sec); }
            }
        }
        if want("transform_attributions_to_final") {
            let with_dummy: &[&str] = &["ai-x", "__DUMMY__", "ai-y", "__DUMMY__x", "human"];
            chk_transform(&mut c, "old", "new", &[], 7, None);
            chk_transform(&mut c, "old", "new", &[], 7, Some(&[]));
            for _ in 0..3000 {
                let old = CONTENTS[g.below(CONTENTS.len() as u64) as usize]; let new = CONTENTS[g.below(CONTENTS.len() as u64) as usize];
                let attrs = gen_list(&mut g, 3, old.len(), AUTHORS); let u = gen_list(&mut g, 5, new.len(), with_dummy);
                let ts = g.below(1000) as u128;
                if g.below(8) == 0 { chk_transform(&mut c, old, new, &attrs, ts, None); } else { chk_transform(&mut c, old, new, &attrs, ts, Some(&u)); }
            }
        }
        if want("restore_stashed_va") {
            // every subset of the five names (in order), every combination of the seven flags
            for mask in 0..32u32 { for fl in 0..128u32 {
                let files: Vec<String> = STASH_NAMES.iter().enumerate().filter(|(i, _)| mask & (1 << i) != 0).map(|(_, n)| n.to_string()).collect();
                let sc = Scenario { workdir_ok: fl & 1 != 0, wl_ok: fl & 2 != 0, merge_ok: fl & 4 != 0, convert_ok: fl & 8 != 0, init_files: fl & 16 != 0, init_prompts: fl & 32 != 0, write_ok: fl & 64 != 0 };
                chk_restore(&mut c, &files, &sc, "1111111111111111111111111111111111111111", "2222222222222222222222222222222222222222");
            } }
            let all = Scenario { workdir_ok: true, wl_ok: true, merge_ok: true, convert_ok: true, init_files: true, init_prompts: true, write_ok: true };
            chk_restore(&mut c, &["a.txt".to_string(), "a.txt".to_string()], &all, "old", "new");
            chk_restore(&mut c, &["a.txt".to_string()], &all, "old", "\u{e9}\u{e9}\u{e9}\u{e9}\u{e9}");
        }
    } else {
        let parts: Vec<&str> = a[3].split('|').collect();
        match a[2].as_str() {
            "merge_char_attributions" => chk_merge(&mut c, &unesc(parts[0]), &parse_list(parts[1]), &parse_list(parts[2])),
            "region_mf_merge" => chk_region(&mut c, &unesc(parts[0]), &parse_list(parts[1]), &parse_list(parts[2])),
            "transform_attributions_to_final" => { let u = if parts[4] == "ERR" { None } else { Some(parse_list(parts[4])) }; chk_transform(&mut c, &unesc(parts[0]), &unesc(parts[1]), &parse_list(parts[2]), parts[3].parse().unwrap(), u.as_deref()); }
            "restore_stashed_va" => { let f: Vec<char> = parts[1].chars().collect(); let sc = Scenario { workdir_ok: f[0] == '1', wl_ok: f[1] == '1', merge_ok: f[2] == '1', convert_ok: f[3] == '1', init_files: f[4] == '1', init_prompts: f[5] == '1', write_ok: f[6] == '1' };
                chk_restore(&mut c, &parts[0].split(',').filter(|t| !t.is_empty()).map(|t| t.to_string()).collect::<Vec<_>>(), &sc, parts[2], parts[3]); }
            _ => {}
        }
    }
    if want("restore_stashed_va") { let _ = std::fs::remove_dir_all(&wd); }
    println!("DONE evaluated={}", c.evaluated);
}
