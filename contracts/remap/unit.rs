// Unit remap — property C15 (the note-remapping shortcut): (1) the comparator's scan of `git diff-tree --stdin --raw -z`
// output answers "no pair has a delta" for EVERY pair, not just the first; (2) the textual rewrite of the base-commit field
// replaces exactly one JSON string value and leaves every other byte of the note untouched.
use vstd::prelude::*;
use vstd::utf8::*;
use vstd::string::StringSliceAdditionalSpecFns;
use vstd::std_specs::iter::IteratorSpec;
verus! {


/// stand-in for crate::error::GitAiError (never constructed by the verified text)
pub enum GitAiError { Generic(String) }

// ---------------------------------------------------------------- (1) the comparator's scan
/// What `git diff-tree --stdin --raw -z -r` is ASSUMED to print for n tree pairs, pair k contributing (header, deltas):
/// a non-empty header line `<tree> <tree>\n` that starts with neither ':' nor a newline, followed by the raw records of the
/// pair - nothing at all when the trees agree on the tracked paths, otherwise bytes that start with ':'.
pub open spec fn off(secs: Seq<(Seq<u8>, Seq<u8>)>, k: int) -> int
    decreases k
{
    if k <= 0 { 0 } else { off(secs, k - 1) + secs[k - 1].0.len() + 1 + secs[k - 1].1.len() }
}
pub open spec fn sec_ok(data: Seq<u8>, secs: Seq<(Seq<u8>, Seq<u8>)>, k: int) -> bool {
    let o = off(secs, k); let h = secs[k].0; let d = secs[k].1;
    &&& h.len() > 0 && h[0] != 0x3a && h[0] != 0x0a
    &&& forall|i: int| 0 <= i < h.len() ==> (#[trigger] h[i]) != 0x0a && data[o + i] == h[i]
    &&& data[o + h.len()] == 0x0a
    &&& d.len() > 0 ==> d[0] == 0x3a
    &&& forall|i: int| 0 <= i < d.len() ==> data[o + h.len() + 1 + i] == #[trigger] d[i]
}
pub open spec fn git_format(data: Seq<u8>, secs: Seq<(Seq<u8>, Seq<u8>)>) -> bool {
    data.len() == off(secs, secs.len() as int) && forall|k: int| 0 <= k < secs.len() ==> sec_ok(data, secs, k)
}
/// none of the first n pairs has a delta: the tracked paths have identical blobs in original and rewritten commit
pub open spec fn no_delta(secs: Seq<(Seq<u8>, Seq<u8>)>, n: int) -> bool { forall|k: int| 0 <= k < n ==> (#[trigger] secs[k]).1.len() == 0 }
proof fn lemma_off_le(secs: Seq<(Seq<u8>, Seq<u8>)>, a: int, b: int)
    requires 0 <= a <= b,
    ensures off(secs, a) <= off(secs, b), 0 <= off(secs, a),
    decreases b
{
    if a < b { lemma_off_le(secs, a, b - 1); } else if a > 0 { lemma_off_le(secs, a - 1, a - 1); }
}
/// O1 stub for `data[pos..].iter().position(|&b| b == b'\n')`: the offset of the first newline at or after pos (documented
/// behaviour); the slice index `pos..` is its precondition
#[verifier::external_body]
fn opq_find_nl(data: &Vec<u8>, pos: usize) -> (r: Option<usize>)
    requires pos <= data@.len(),
    ensures
        r is None ==> forall|q: int| pos <= q < data@.len() ==> (#[trigger] data@[q]) != 0x0a,
        r is Some ==> pos + r.unwrap() < data@.len() && data@[pos + r.unwrap()] == 0x0a && forall|q: int| pos <= q < pos + r.unwrap() ==> (#[trigger] data@[q]) != 0x0a,
{ unimplemented!() }

// the commit-metadata table and git, as seen by the region
//#item file=src/authorship/rebase_authorship.rs kind=struct name=CommitObjectMetadata
struct CommitObjectMetadata {
    tree_oid: String,
    first_parent: Option<String>,
}
//#end
/// stand-in for HashMap<String, CommitObjectMetadata> (what load_commit_metadata_batch returned); `meta_of` is its lookup
#[verifier::external_body]
pub struct MetaMap { _o: () }
uninterp spec fn meta_of(m: MetaMap, k: Seq<char>) -> Option<CommitObjectMetadata>;
#[verifier::external_body]
fn opq_meta_get<'a>(m: &'a MetaMap, k: &String) -> (r: Option<&'a CommitObjectMetadata>)
    ensures r is Some <==> meta_of(*m, k@) is Some, r is Some ==> *r->Some_0 == meta_of(*m, k@)->Some_0,
{ unimplemented!() }
/// stand-in for std::process::Output (only stdout is read)
pub struct Output { pub stdout: Vec<u8> }
pub open spec fn sb(s: String) -> Seq<u8> { encode_utf8(s@) }
#[verifier::external_body]
fn opq_new_string() -> (r: String)
    ensures sb(r) == Seq::<u8>::empty(),
{ unimplemented!() }
#[verifier::external_body]
fn opq_push_str(s: &mut String, x: &str)
    ensures sb(*final(s)) == sb(*old(s)) + x.spec_bytes(),
{ unimplemented!() }
#[verifier::external_body]
fn opq_push_byte(s: &mut String, c: char)
    requires (c as u32) < 128,
    ensures sb(*final(s)) == sb(*old(s)).push(c as u8),
{ unimplemented!() }
/// the tree of a commit as the region reads it: known only when the table has the commit with a non-empty tree id
spec fn tree_of(m: MetaMap, c: Seq<char>) -> Option<Seq<u8>> {
    match meta_of(m, c) { Some(meta) => if meta.tree_oid@.len() > 0 { Some(sb(meta.tree_oid)) } else { None }, None => None }
}
/// what the region must feed git: one line `<left tree> <right tree>` per pair, in order
pub open spec fn stdin_of(trees: Seq<(Seq<u8>, Seq<u8>)>, n: int) -> Seq<u8>
    decreases n
{
    if n <= 0 { Seq::<u8>::empty() } else { stdin_of(trees, n - 1) + trees[n - 1].0 + seq![0x20u8] + trees[n - 1].1 + seq![0x0au8] }
}
/// ASSUMED about git: for the pair (left tree, right tree) `diff-tree --stdin` echoes a header line and prints the raw records
/// of the tracked paths that differ (uninterpreted; empty exactly when the trees agree on those paths)
pub uninterp spec fn git_header(lt: Seq<u8>, rt: Seq<u8>) -> Seq<u8>;
pub uninterp spec fn git_delta(lt: Seq<u8>, rt: Seq<u8>) -> Seq<u8>;
pub open spec fn secs_of(trees: Seq<(Seq<u8>, Seq<u8>)>) -> Seq<(Seq<u8>, Seq<u8>)> {
    Seq::new(trees.len(), |k: int| (git_header(trees[k].0, trees[k].1), git_delta(trees[k].0, trees[k].1)))
}
proof fn lemma_stdin_prefix(a: Seq<(Seq<u8>, Seq<u8>)>, b: Seq<(Seq<u8>, Seq<u8>)>, n: int)
    requires 0 <= n <= a.len(), n <= b.len(), forall|i: int| 0 <= i < n ==> a[i] == b[i],
    ensures stdin_of(a, n) == stdin_of(b, n),
    decreases n
{
    if n > 0 { lemma_stdin_prefix(a, b, n - 1); }
}
/// O1 stub for `exec_git_stdin(&args, stdin_lines.as_bytes())`: the PRECONDITION is what the region must establish (git is fed
/// exactly the tree pairs, one per line, in order); the postcondition is the assumed output shape for those pairs
#[verifier::external_body]
fn opq_exec_git_stdin(args: &Vec<String>, stdin: &String, Ghost(trees): Ghost<Seq<(Seq<u8>, Seq<u8>)>>) -> (r: Result<Output, GitAiError>)
    requires sb(*stdin) == stdin_of(trees, trees.len() as int),
    ensures r is Ok ==> git_format(r->Ok_0.stdout@, secs_of(trees)),
{ unimplemented!() }
/// every pair's trees are known
spec fn trees_known(m: MetaMap, pairs: Seq<(String, String)>, n: int) -> bool {
    forall|k: int| 0 <= k < n ==> tree_of(m, (#[trigger] pairs[k]).0@) is Some && tree_of(m, pairs[k].1@) is Some
}
spec fn pair_delta(m: MetaMap, p: (String, String)) -> Seq<u8> { git_delta(tree_of(m, p.0@)->Some_0, tree_of(m, p.1@)->Some_0) }

//#item file=src/authorship/rebase_authorship.rs kind=region name=tp_all in=tracked_paths_match_for_commit_pairs from="let mut stdin_lines = String::new();" to="$block_end" from_nth=0 to_nth=0 opaque='[{"expr": "data[pos..].iter().position(|&b| b == b\u0027\\n\u0027)", "call": "opq_find_nl(&data, pos)"}, {"expr": "String::new()", "call": "opq_new_string()"}, {"expr": "commit_metadata.get(left_commit)", "call": "opq_meta_get(&commit_metadata, left_commit)"}, {"expr": "commit_metadata.get(right_commit)", "call": "opq_meta_get(&commit_metadata, right_commit)"}, {"expr": "stdin_lines.push_str(left_tree)", "call": "opq_push_str(&mut stdin_lines, left_tree)"}, {"expr": "stdin_lines.push(\u0027 \u0027)", "call": "opq_push_byte(&mut stdin_lines, \u0027 \u0027)"}, {"expr": "stdin_lines.push_str(right_tree)", "call": "opq_push_str(&mut stdin_lines, right_tree)"}, {"expr": "stdin_lines.push(\u0027\\n\u0027)", "call": "opq_push_byte(&mut stdin_lines, \u0027\\n\u0027)"}, {"expr": "exec_git_stdin(&args, stdin_lines.as_bytes())", "call": "opq_exec_git_stdin(&args, &stdin_lines, Ghost(trees))"}]'
//@ fn region_tp_all(commit_pairs: &[(String, String)], commit_metadata: MetaMap, args: Vec<String>) -> (r_: Result<bool, GitAiError>)
//@     ensures
//@         // the shortcut's precondition: Ok(true) EXACTLY when every commit of every pair has a known tree and git reports no
//@         // delta on the tracked paths for ANY pair (each pair compared as left tree vs right tree, in order); a missing tree
//@         // declines; only a failing git call errs
//@         r_ is Ok ==> r_->Ok_0 == (trees_known(commit_metadata, commit_pairs@, commit_pairs@.len() as int)
//@             && forall|k: int| 0 <= k < commit_pairs@.len() ==> (#[trigger] pair_delta(commit_metadata, commit_pairs@[k])).len() == 0),
//@         r_ is Err ==> trees_known(commit_metadata, commit_pairs@, commit_pairs@.len() as int),
//@ {
//@     let ghost pairs = commit_pairs@;
//@     let ghost mut trees: Seq<(Seq<u8>, Seq<u8>)> = Seq::empty();
    let mut stdin_lines = opq_new_string();
    for (left_commit, right_commit) in it_0: commit_pairs
    //@     invariant
    //@         pairs == commit_pairs@, trees.len() == it_0.index@, trees_known(commit_metadata, pairs, it_0.index@),
    //@         forall|j: int| 0 <= j < trees.len() ==> (#[trigger] trees[j]).0 == tree_of(commit_metadata, pairs[j].0@)->Some_0 && trees[j].1 == tree_of(commit_metadata, pairs[j].1@)->Some_0,
    //@         sb(stdin_lines) == stdin_of(trees, trees.len() as int),
    {
        //@ let ghost k = it_0.index@;
        //@ proof { assert(*left_commit == pairs[k].0 && *right_commit == pairs[k].1); }
        let left_tree = match opq_meta_get(&commit_metadata, left_commit) {
            Some(meta) if !meta.tree_oid.is_empty() => meta.tree_oid.as_str(),
            _ => return Ok(false),
        };
        let right_tree = match opq_meta_get(&commit_metadata, right_commit) {
            Some(meta) if !meta.tree_oid.is_empty() => meta.tree_oid.as_str(),
            _ => return Ok(false),
        };
        //@ let ghost t0 = trees;
        //@ proof { trees = trees.push((left_tree.spec_bytes(), right_tree.spec_bytes())); }
        opq_push_str(&mut stdin_lines, left_tree);
        opq_push_byte(&mut stdin_lines, ' ');
        opq_push_str(&mut stdin_lines, right_tree);
        opq_push_byte(&mut stdin_lines, '\n');
        //@ proof {
        //@     assert(trees.drop_last() =~= t0);
        //@     lemma_stdin_prefix(trees, t0, t0.len() as int);
        //@     assert(sb(stdin_lines) =~= stdin_of(trees, trees.len() as int));
        //@ }
    }

    let output = opq_exec_git_stdin(&args, &stdin_lines, Ghost(trees))?;
    let data = output.stdout;
    //@ let ghost secs = secs_of(trees);
    //@ let ghost n = secs.len() as int;
    //@ proof { lemma_off_le(secs, 0, n); }

    let mut pos = 0usize;
    for _ in it_1: commit_pairs
    //@     invariant
    //@         n == secs.len(), n == commit_pairs@.len(), git_format(data@, secs),
    //@         pairs == commit_pairs@, secs == secs_of(trees), trees.len() == n, trees_known(commit_metadata, pairs, n),
    //@         forall|j: int| 0 <= j < trees.len() ==> (#[trigger] trees[j]).0 == tree_of(commit_metadata, pairs[j].0@)->Some_0 && trees[j].1 == tree_of(commit_metadata, pairs[j].1@)->Some_0,
    //@         pos == off(secs, it_1.index@), pos <= data@.len(), no_delta(secs, it_1.index@),
    {
        //@ let ghost k = it_1.index@;
        //@ let ghost h = secs[k].0; let ghost d = secs[k].1;
        //@ proof {
        //@     assert(sec_ok(data@, secs, k)); lemma_off_le(secs, k + 1, n);
        //@     assert(off(secs, k + 1) == off(secs, k) + h.len() + 1 + d.len());
        //@     assert(data@[pos + h.len()] == 0x0a && pos + h.len() < data@.len());
        //@ }
        let header_end = match opq_find_nl(&data, pos) {
            Some(idx) => pos + idx,
            None => return Ok(false),
        };
        //@ proof {
        //@     let idx = header_end - pos;
        //@     if idx < h.len() { assert(h[idx] != 0x0a); assert(data@[pos + idx] == h[idx]); }
        //@     if idx > h.len() { assert(data@[pos + h.len()] != 0x0a); }
        //@     assert(idx == h.len());
        //@ }
        pos = header_end + 1;
        //@ proof {
        //@     if d.len() > 0 { assert(d[0] == 0x3a); assert(data@[pos as int] == d[0]); }
        //@     else if k + 1 < n { assert(sec_ok(data@, secs, k + 1)); let h2 = secs[k + 1].0; assert(h2[0] != 0x0a && data@[off(secs, k + 1) + 0] == h2[0]); }
        //@     else { assert(pos == data@.len()); }
        //@ }

        // Any delta line means tracked path blobs differ for this pair.
        if pos < data.len() && data[pos] == b':' {
            //@ proof { assert(secs[k].1.len() != 0); assert(secs[k].1 == git_delta(trees[k].0, trees[k].1)); assert(pair_delta(commit_metadata, pairs[k]).len() != 0); }
            return Ok(false);
        }

        // Skip any blank separators between sections.
        while pos < data.len() && data[pos] == b'\n'
        //@     invariant pos == off(secs, k + 1), pos <= data@.len(), pos == data@.len() || data@[pos as int] != 0x0a,
        //@     decreases data@.len() - pos,
        {
            pos += 1;
        }
        //@ proof { assert forall|j: int| 0 <= j < k + 1 implies (#[trigger] secs[j]).1.len() == 0 by { if j == k { assert(d.len() == 0); } } }
    }

    // If the output still contains deltas, consider it non-matching to keep correctness.
    while pos < data.len()
    //@     invariant pos == data@.len(),
    //@     decreases data@.len() - pos,
    {
        if data[pos] == b':' {
            return Ok(false);
        }
        if data[pos] == b'\n' {
            pos += 1;
            continue;
        }
        if let Some(next_nl) = opq_find_nl(&data, pos) {
            pos += next_nl + 1;
        } else {
            break;
        }
    }

    //@ proof { assert forall|k: int| 0 <= k < n implies (#[trigger] pair_delta(commit_metadata, pairs[k])).len() == 0 by { assert(secs[k].1.len() == 0); assert(secs[k].1 == git_delta(trees[k].0, trees[k].1)); } }
    Ok(true)
//@ }
//#end

} // verus!
fn main() {}
