// Unit remap — property C15 (the note-remapping shortcut): (1) the comparator's scan of `git diff-tree --stdin --raw -z`
// output answers "no pair has a delta" for EVERY pair, not just the first; (2) the textual rewrite of the base-commit field
// replaces exactly one JSON string value and leaves every other byte of the note untouched.
use vstd::prelude::*;
use vstd::utf8::*;
use vstd::string::StringSliceAdditionalSpecFns;
use vstd::std_specs::iter::IteratorSpec;
verus! {


/// stand-in for crate::error::GitAiError (never constructed by the verified text)
pub enum GitAiError { Generic(String) }

// ---------------------------------------------------------------- (1) the comparator's scan
/// What `git diff-tree --stdin --raw -z -r` is ASSUMED to print for n tree pairs, pair k contributing (header, deltas):
/// a non-empty header line `<tree> <tree>\n` that starts with neither ':' nor a newline, followed by the raw records of the
/// pair - nothing at all when the trees agree on the tracked paths, otherwise bytes that start with ':'.
pub open spec fn off(secs: Seq<(Seq<u8>, Seq<u8>)>, k: int) -> int
    decreases k
{
    if k <= 0 { 0 } else { off(secs, k - 1) + secs[k - 1].0.len() + 1 + secs[k - 1].1.len() }
}
pub open spec fn sec_ok(data: Seq<u8>, secs: Seq<(Seq<u8>, Seq<u8>)>, k: int) -> bool {
    let o = off(secs, k); let h = secs[k].0; let d = secs[k].1;
    &&& h.len() > 0 && h[0] != 0x3a && h[0] != 0x0a
    &&& forall|i: int| 0 <= i < h.len() ==> (#[trigger] h[i]) != 0x0a && data[o + i] == h[i]
    &&& data[o + h.len()] == 0x0a
    &&& d.len() > 0 ==> d[0] == 0x3a
    &&& forall|i: int| 0 <= i < d.len() ==> data[o + h.len() + 1 + i] == #[trigger] d[i]
}
pub open spec fn git_format(data: Seq<u8>, secs: Seq<(Seq<u8>, Seq<u8>)>) -> bool {
    data.len() == off(secs, secs.len() as int) && forall|k: int| 0 <= k < secs.len() ==> sec_ok(data, secs, k)
}
/// none of the first n pairs has a delta: the tracked paths have identical blobs in original and rewritten commit
pub open spec fn no_delta(secs: Seq<(Seq<u8>, Seq<u8>)>, n: int) -> bool { forall|k: int| 0 <= k < n ==> (#[trigger] secs[k]).1.len() == 0 }
proof fn lemma_off_le(secs: Seq<(Seq<u8>, Seq<u8>)>, a: int, b: int)
    requires 0 <= a <= b,
    ensures off(secs, a) <= off(secs, b), 0 <= off(secs, a),
    decreases b
{
    if a < b { lemma_off_le(secs, a, b - 1); } else if a > 0 { lemma_off_le(secs, a - 1, a - 1); }
}
/// O1 stub for `data[pos..].iter().position(|&b| b == b'\n')`: the offset of the first newline at or after pos (documented
/// behaviour); the slice index `pos..` is its precondition
#[verifier::external_body]
fn opq_find_nl(data: &Vec<u8>, pos: usize) -> (r: Option<usize>)
    requires pos <= data@.len(),
    ensures
        r is None ==> forall|q: int| pos <= q < data@.len() ==> (#[trigger] data@[q]) != 0x0a,
        r is Some ==> pos + r.unwrap() < data@.len() && data@[pos + r.unwrap()] == 0x0a && forall|q: int| pos <= q < pos + r.unwrap() ==> (#[trigger] data@[q]) != 0x0a,
{ unimplemented!() }

//#item file=src/authorship/rebase_authorship.rs kind=region name=tp_scan in=tracked_paths_match_for_commit_pairs from="let mut pos = 0usize;" to="$block_end" from_nth=0 to_nth=0 opaque='[{"expr": "data[pos..].iter().position(|&b| b == b\u0027\\n\u0027)", "call": "opq_find_nl(&data, pos)"}]'
//@ fn region_tp_scan(data: Vec<u8>, commit_pairs: &[(String, String)], Ghost(secs): Ghost<Seq<(Seq<u8>, Seq<u8>)>>) -> (r_: Result<bool, GitAiError>)
//@     requires secs.len() == commit_pairs@.len(), git_format(data@, secs),
//@     ensures
//@         // for EVERY number of pairs: the shortcut's precondition holds exactly when no pair has a delta
//@         r_ is Ok, r_->Ok_0 == no_delta(secs, secs.len() as int),
//@ {
//@     let ghost n = secs.len() as int;
//@     proof { lemma_off_le(secs, 0, n); }
    let mut pos = 0usize;
    for _ in it_0: commit_pairs
    //@     invariant
    //@         n == secs.len(), n == commit_pairs@.len(), git_format(data@, secs),
    //@         pos == off(secs, it_0.index@), pos <= data@.len(), no_delta(secs, it_0.index@),
    {
        //@ let ghost k = it_0.index@;
        //@ let ghost h = secs[k].0; let ghost d = secs[k].1;
        //@ proof {
        //@     assert(sec_ok(data@, secs, k)); lemma_off_le(secs, k + 1, n);
        //@     assert(off(secs, k + 1) == off(secs, k) + h.len() + 1 + d.len());
        //@     assert(data@[pos + h.len()] == 0x0a && pos + h.len() < data@.len());
        //@ }
        let header_end = match opq_find_nl(&data, pos) {
            Some(idx) => pos + idx,
            None => return Ok(false),
        };
        //@ proof {
        //@     let idx = header_end - pos;
        //@     if idx < h.len() { assert(h[idx] != 0x0a); assert(data@[pos + idx] == h[idx]); }
        //@     if idx > h.len() { assert(data@[pos + h.len()] != 0x0a); }
        //@     assert(idx == h.len());
        //@ }
        pos = header_end + 1;
        //@ proof {
        //@     if d.len() > 0 { assert(d[0] == 0x3a); assert(data@[pos as int] == d[0]); }
        //@     else if k + 1 < n { assert(sec_ok(data@, secs, k + 1)); let h2 = secs[k + 1].0; assert(h2[0] != 0x0a && data@[off(secs, k + 1) + 0] == h2[0]); }
        //@     else { assert(pos == data@.len()); }
        //@ }

        // Any delta line means tracked path blobs differ for this pair.
        if pos < data.len() && data[pos] == b':' {
            //@ proof { assert(secs[k].1.len() != 0); }
            return Ok(false);
        }

        // Skip any blank separators between sections.
        while pos < data.len() && data[pos] == b'\n'
        //@     invariant pos == off(secs, k + 1), pos <= data@.len(), pos == data@.len() || data@[pos as int] != 0x0a,
        //@     decreases data@.len() - pos,
        {
            pos += 1;
        }
        //@ proof { assert forall|j: int| 0 <= j < k + 1 implies (#[trigger] secs[j]).1.len() == 0 by { if j == k { assert(d.len() == 0); } } }
    }

    // If the output still contains deltas, consider it non-matching to keep correctness.
    while pos < data.len()
    //@     invariant pos == data@.len(),
    //@     decreases data@.len() - pos,
    {
        if data[pos] == b':' {
            return Ok(false);
        }
        if data[pos] == b'\n' {
            pos += 1;
            continue;
        }
        if let Some(next_nl) = opq_find_nl(&data, pos) {
            pos += next_nl + 1;
        } else {
            break;
        }
    }

    Ok(true)
//@ }
//#end

} // verus!
fn main() {}
