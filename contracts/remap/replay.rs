// Replay driver for unit remap: the ORIGINAL try_remap_base_commit_sha_field (whole function) and the ORIGINAL text of the
// comparator's scan (region tp_scan of tracked_paths_match_for_commit_pairs) between a plain-Rust wrapper.  Inputs are built
// from their parts, so the expected result is known by construction and owes nothing to the scanning logic under test.
#![allow(dead_code, unused)]
#[derive(Debug)]
pub enum GitAiError { Generic(String) }
include!("@ITEMS@");
use std::panic::{catch_unwind, AssertUnwindSafe};
struct Ctx { evaluated: u64, failed: std::collections::HashSet<String> }
impl Ctx {
    fn fail(&mut self, f: &str, clause: &str, input: String, observed: String, expected: String) {
        if self.failed.insert(format!("{}::{}", f, clause)) { println!("FAIL fn=[[{}]] clause=[[{}]] input=[[{}]] observed=[[{}]] expected=[[{}]]", f, clause, input, observed, expected); }
    }
}
fn guarded<T>(f: impl FnOnce() -> T) -> Result<T, String> {
    catch_unwind(AssertUnwindSafe(f)).map_err(|e| { let m = e.downcast_ref::<String>().cloned().or_else(|| e.downcast_ref::<&str>().map(|s| s.to_string())).unwrap_or_default(); format!("panic: {}", m) })
}
struct Rng(u64);
impl Rng { fn next(&mut self) -> u64 { self.0 ^= self.0 << 13; self.0 ^= self.0 >> 7; self.0 ^= self.0 << 17; self.0 } fn below(&mut self, n: u64) -> u64 { self.next() % n } }
fn esc(s: &str) -> String { s.chars().map(|c| if (c.is_ascii_graphic() && c != '\\' && c != '|') || c == ' ' { c.to_string() } else { format!("\\u{{{:x}}}", c as u32) }).collect() }
fn unesc(s: &str) -> String {
    let mut out = String::new(); let mut it = s.chars().peekable();
    while let Some(c) = it.next() {
        if c == '\\' && it.peek() == Some(&'u') { it.next(); it.next(); let mut h = String::new(); while let Some(&d) = it.peek() { it.next(); if d == '}' { break; } h.push(d); } out.push(char::from_u32(u32::from_str_radix(&h, 16).unwrap()).unwrap()); }
        else { out.push(c); }
    }
    out
}

// ---------------------------------------------------------------- the comparator's scan
/// sections: (header without newline, delta bytes) per tree pair, the shape git prints
fn chk_scan(c: &mut Ctx, secs: &[(String, String)]) {
    c.evaluated += 1;
    let input = secs.iter().map(|(h, d)| format!("{}~{}", esc(h), esc(d))).collect::<Vec<_>>().join("|");
    let mut data: Vec<u8> = Vec::new();
    for (h, d) in secs { data.extend_from_slice(h.as_bytes()); data.push(b'\n'); data.extend_from_slice(d.as_bytes()); }
    let pairs: Vec<(String, String)> = secs.iter().map(|_| ("orig".to_string(), "new".to_string())).collect();
    let want = secs.iter().all(|(_, d)| d.is_empty());
    match guarded(move || region_tp_scan(data, &pairs)) {
        Ok(Ok(b)) => if b != want { c.fail("region_tp_scan", "ensures#1", input, format!("Ok({})", b), format!("Ok({}): true exactly when no pair has a delta", want)); },
        Ok(Err(e)) => c.fail("region_tp_scan", "ensures#0", input, format!("Err({:?})", e), "Ok".into()),
        Err(p) => c.fail("region_tp_scan", "safety", input, p, "no panic".into()),
    }
}
fn gen_secs(g: &mut Rng) -> Vec<(String, String)> {
    let n = g.below(5) as usize;
    (0..n).map(|_| {
        let h = ["4b825dc6 4b825dc6", "aaaa bbbb", "t1 t2", "0123456789abcdef0123456789abcdef01234567 89abcdef0123456789abcdef0123456789abcdef"][g.below(4) as usize].to_string();
        let d = match g.below(5) { 0 => ":100644 100644 aaa bbb M\0src/main.rs\0".to_string(), 1 => ":100644 000000 aaa 000 D\0a\nb.txt\0:100644 100644 c d M\0x\0".to_string(), _ => String::new() };
        (h, d)
    }).collect()
}

fn main() {
    std::panic::set_hook(Box::new(|_| {}));
    let a: Vec<String> = std::env::args().collect();
    let mut c = Ctx { evaluated: 0, failed: Default::default() };
    let want = |f: &str| a[2] == "*" || a[2] == f;
    if a[1] == "search" {
        let mut g = Rng(a[3].parse::<u64>().unwrap_or(0).wrapping_mul(0x9E3779B97F4A7C15) ^ 0x6a09e667f3bcc909);
        if want("region_tp_scan") {
            chk_scan(&mut c, &[]);
            for n in 1..5usize { for bad in 0..=n { let secs: Vec<(String, String)> = (0..n).map(|k| ("t1 t2".to_string(), if k + 1 == bad { ":100644 100644 a b M\0f\0".to_string() } else { String::new() })).collect(); chk_scan(&mut c, &secs); } }
            for _ in 0..3000 { let s = gen_secs(&mut g); chk_scan(&mut c, &s); }
        }
    } else {
        match a[2].as_str() {
            "region_tp_scan" => { let secs: Vec<(String, String)> = a[3].split('|').filter(|s| !s.is_empty()).map(|s| { let (h, d) = s.split_once('~').unwrap(); (unesc(h), unesc(d)) }).collect(); chk_scan(&mut c, &secs); }
            _ => {}
        }
    }
    println!("DONE evaluated={}", c.evaluated);
}
