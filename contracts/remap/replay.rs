// Replay driver for unit remap: the ORIGINAL text of the comparator (region tp_all of tracked_paths_match_for_commit_pairs:
// building git's stdin from the commit-metadata table, running git, scanning its output) between a plain-Rust wrapper.
// git is a stand-in that answers from a table of tree pairs, so the expected result is known by construction.
#![allow(dead_code, unused)]
#[derive(Debug)]
pub enum GitAiError { Generic(String) }
use std::collections::HashMap;
pub struct Output { pub stdout: Vec<u8> }
thread_local! { static DELTAS: std::cell::RefCell<HashMap<(String, String), String>> = Default::default(); static GIT_CALLS: std::cell::Cell<u32> = Default::default(); }
/// stand-in for git diff-tree --stdin --raw -z: per stdin line `<left> <right>` the header and the delta recorded for that pair
fn exec_git_stdin(_args: &[String], stdin: &[u8]) -> Result<Output, GitAiError> {
    GIT_CALLS.with(|c| c.set(c.get() + 1));
    let text = String::from_utf8_lossy(stdin).to_string();
    let mut out: Vec<u8> = Vec::new();
    for line in text.split('\n') {
        if line.is_empty() { continue; }
        let (l, r) = line.split_once(' ').ok_or_else(|| GitAiError::Generic(format!("bad stdin line {:?}", line)))?;
        out.extend_from_slice(format!("{} {}\n", l, r).as_bytes());
        let d = DELTAS.with(|m| m.borrow().get(&(l.to_string(), r.to_string())).cloned());
        match d { Some(d) => out.extend_from_slice(d.as_bytes()), None => return Err(GitAiError::Generic(format!("git was asked about an unknown tree pair {:?}", line))) }
    }
    Ok(Output { stdout: out })
}
include!("@ITEMS@");
use std::panic::{catch_unwind, AssertUnwindSafe};
struct Ctx { evaluated: u64, failed: std::collections::HashSet<String> }
impl Ctx {
    fn fail(&mut self, f: &str, clause: &str, input: String, observed: String, expected: String) {
        if self.failed.insert(format!("{}::{}", f, clause)) { println!("FAIL fn=[[{}]] clause=[[{}]] input=[[{}]] observed=[[{}]] expected=[[{}]]", f, clause, input, observed, expected); }
    }
}
fn guarded<T>(f: impl FnOnce() -> T) -> Result<T, String> {
    catch_unwind(AssertUnwindSafe(f)).map_err(|e| { let m = e.downcast_ref::<String>().cloned().or_else(|| e.downcast_ref::<&str>().map(|s| s.to_string())).unwrap_or_default(); format!("panic: {}", m) })
}
struct Rng(u64);
impl Rng { fn next(&mut self) -> u64 { self.0 ^= self.0 << 13; self.0 ^= self.0 >> 7; self.0 ^= self.0 << 17; self.0 } fn below(&mut self, n: u64) -> u64 { self.next() % n } }
fn esc(s: &str) -> String { s.chars().map(|c| if (c.is_ascii_graphic() && c != '\\' && c != '|') || c == ' ' { c.to_string() } else { format!("\\u{{{:x}}}", c as u32) }).collect() }
fn unesc(s: &str) -> String {
    let mut out = String::new(); let mut it = s.chars().peekable();
    while let Some(c) = it.next() {
        if c == '\\' && it.peek() == Some(&'u') { it.next(); it.next(); let mut h = String::new(); while let Some(&d) = it.peek() { it.next(); if d == '}' { break; } h.push(d); } out.push(char::from_u32(u32::from_str_radix(&h, 16).unwrap()).unwrap()); }
        else { out.push(c); }
    }
    out
}

// ---------------------------------------------------------------- the comparator
/// one commit pair: (left tree or "" when the table lacks the commit / has an empty tree, right tree likewise, delta git prints)
type Pair = (String, String, String);
fn chk_all(c: &mut Ctx, ps: &[Pair]) {
    c.evaluated += 1;
    let input = ps.iter().map(|(l, r, d)| format!("{}~{}~{}", esc(l), esc(r), esc(d))).collect::<Vec<_>>().join("|");
    let mut meta: HashMap<String, CommitObjectMetadata> = HashMap::new();
    let mut pairs: Vec<(String, String)> = vec![];
    DELTAS.with(|m| m.borrow_mut().clear());
    for (k, (l, r, d)) in ps.iter().enumerate() {
        let (lc, rc) = (format!("orig{}", k), format!("new{}", k));
        // "-" = the commit is missing from the table, "" = present with an empty tree id
        if l != "-" { meta.insert(lc.clone(), CommitObjectMetadata { tree_oid: l.clone(), first_parent: None }); }
        if r != "-" { meta.insert(rc.clone(), CommitObjectMetadata { tree_oid: r.clone(), first_parent: None }); }
        DELTAS.with(|m| { m.borrow_mut().entry((l.clone(), r.clone())).or_insert(d.clone()); });   // git's answer is a function of the tree pair: the first definition wins
        pairs.push((lc, rc));
    }
    let known = ps.iter().all(|(l, r, _)| l != "-" && r != "-" && !l.is_empty() && !r.is_empty());
    let want = known && ps.iter().all(|(l, r, _)| DELTAS.with(|m| m.borrow().get(&(l.clone(), r.clone())).map(|d| d.is_empty()).unwrap_or(true)));
    match guarded(move || region_tp_all(&pairs, meta, vec!["diff-tree".to_string()])) {
        Ok(Ok(b)) => if b != want { c.fail("region_tp_all", "ensures#0", input, format!("Ok({})", b), format!("Ok({}): true exactly when every tree is known and no pair has a delta", want)); },
        Ok(Err(e)) => c.fail("region_tp_all", "ensures#1", input, format!("Err({:?})", e), "Ok (the stand-in git answers every pair it should be asked about)".into()),
        Err(p) => c.fail("region_tp_all", "safety", input, p, "no panic".into()),
    }
}
const TREES: &[&str] = &["4b825dc642cb6eb9a060e54bf8d69288fbee4904", "aaaa", "bbbb", "t1", "0123456789abcdef0123456789abcdef01234567"];
fn gen_pairs(g: &mut Rng) -> Vec<Pair> {
    let n = g.below(5) as usize;
    (0..n).map(|_| {
        let l = TREES[g.below(TREES.len() as u64) as usize].to_string();
        let same = g.below(3) == 0;
        let r = if same { l.clone() } else { TREES[g.below(TREES.len() as u64) as usize].to_string() };
        let d = if same || l == r { String::new() } else { match g.below(4) { 0 => ":100644 100644 aaa bbb M\0src/main.rs\0".to_string(), 1 => ":100644 000000 aaa 000 D\0a\nb.txt\0:100644 100644 c d M\0x\0".to_string(), _ => String::new() } };
        let (l, r) = match g.below(14) { 0 => ("-".to_string(), r), 1 => (l, "-".to_string()), 2 => (String::new(), r), _ => (l, r) };
        (l, r, d)
    }).collect()
}

fn main() {
    std::panic::set_hook(Box::new(|_| {}));
    let a: Vec<String> = std::env::args().collect();
    let mut c = Ctx { evaluated: 0, failed: Default::default() };
    let want = |f: &str| a[2] == "*" || a[2] == f;
    if a[1] == "search" {
        let mut g = Rng(a[3].parse::<u64>().unwrap_or(0).wrapping_mul(0x9E3779B97F4A7C15) ^ 0x6a09e667f3bcc909);
        if want("region_tp_all") {
            chk_all(&mut c, &[]);
            let dl = ":100644 100644 a b M\0f\0".to_string();
            // identical trees in one pair, a delta in another: every position of the delta, every position of the identical pair
            for n in 1..5usize { for bad in 0..=n { for same in 0..=n {
                let ps: Vec<Pair> = (0..n).map(|k| if k + 1 == bad { ("t1".to_string(), "t2".to_string(), dl.clone()) } else if k + 1 == same { ("t7".to_string(), "t7".to_string(), String::new()) } else { (format!("l{}", k), format!("r{}", k), String::new()) }).collect();
                chk_all(&mut c, &ps);
            } } }
            for _ in 0..3000 { let s = gen_pairs(&mut g); chk_all(&mut c, &s); }
        }
    } else {
        match a[2].as_str() {
            "region_tp_all" => { let ps: Vec<Pair> = a[3].split('|').filter(|s| !s.is_empty()).map(|s| { let q: Vec<&str> = s.split('~').collect(); (unesc(q[0]), unesc(q[1]), unesc(q[2])) }).collect(); chk_all(&mut c, &ps); }
            _ => {}
        }
    }
    println!("DONE evaluated={}", c.evaluated);
}
