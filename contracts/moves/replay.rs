// Replay driver for unit moves: the ORIGINAL detect_moves / build_groups / build_deletion_lookup / sort_and_normalize.
// Oracle, written from the property (C16 "conservative", "total"), not from the code: a mapping pairs equally many (>= threshold)
// inserted and deleted lines, pair by pair with EQUAL trimmed content, both sides runs of consecutive line numbers taken from the
// lists handed in, no inserted line used twice; threshold 0 gives nothing; the lists come back sorted, normalized, otherwise unchanged.
#![allow(dead_code, unused)]
use std::collections::HashMap;
use std::collections::hash_map::DefaultHasher;
use std::hash::{Hash, Hasher};
include!("@ITEMS@");
use std::panic::{catch_unwind, AssertUnwindSafe};
struct Ctx { evaluated: u64, failed: std::collections::HashSet<String> }
impl Ctx {
    fn fail(&mut self, f: &str, clause: &str, input: String, observed: String, expected: String) {
        if self.failed.insert(format!("{}::{}", f, clause)) { println!("FAIL fn=[[{}]] clause=[[{}]] input=[[{}]] observed=[[{}]] expected=[[{}]]", f, clause, input, observed, expected); }
    }
}
fn guarded<T>(f: impl FnOnce() -> T) -> Result<T, String> {
    catch_unwind(AssertUnwindSafe(f)).map_err(|e| { let m = e.downcast_ref::<String>().cloned().or_else(|| e.downcast_ref::<&str>().map(|s| s.to_string())).unwrap_or_default(); format!("panic: {}", m) })
}
struct Rng(u64);
impl Rng { fn next(&mut self) -> u64 { self.0 ^= self.0 << 13; self.0 ^= self.0 >> 7; self.0 ^= self.0 << 17; self.0 } fn below(&mut self, n: u64) -> u64 { self.next() % n } }
fn esc(s: &str) -> String { s.chars().map(|c| if (c.is_ascii_graphic() && c != '\\' && c != '|' && c != '~' && c != '#') || c == ' ' { c.to_string() } else { format!("\\u{{{:x}}}", c as u32) }).collect() }
fn unesc(s: &str) -> String {
    let mut out = String::new(); let mut it = s.chars().peekable();
    while let Some(c) = it.next() {
        if c == '\\' && it.peek() == Some(&'u') { it.next(); it.next(); let mut h = String::new(); while let Some(&d) = it.peek() { it.next(); if d == '}' { break; } h.push(d); } out.push(char::from_u32(u32::from_str_radix(&h, 16).unwrap()).unwrap()); }
        else { out.push(c); }
    }
    out
}
/// a line as the driver sees it: (line number, insertion/deletion index, content, normalized content)
type L = (usize, usize, String, String);
fn il(l: &L) -> InsertedLine { InsertedLine { content: l.2.clone(), normalized_content: l.3.clone(), line_number: l.0, insertion_idx: l.1 } }
fn dl(l: &L) -> DeletedLine { DeletedLine { content: l.2.clone(), normalized_content: l.3.clone(), line_number: l.0, deletion_idx: l.1 } }
fn li(l: &InsertedLine) -> L { (l.line_number, l.insertion_idx, l.content.clone(), l.normalized_content.clone()) }
fn ld(l: &DeletedLine) -> L { (l.line_number, l.deletion_idx, l.content.clone(), l.normalized_content.clone()) }
fn enc(ls: &[L]) -> String { ls.iter().map(|l| format!("{}~{}~{}~{}", l.0, l.1, esc(&l.2), esc(&l.3))).collect::<Vec<_>>().join("|") }
fn dec(s: &str) -> Vec<L> { s.split('|').filter(|x| !x.is_empty()).map(|x| { let p: Vec<&str> = x.splitn(4, '~').collect(); (p[0].parse().unwrap(), p[1].parse().unwrap(), unesc(p[2]), unesc(p[3])) }).collect() }
fn count<T: PartialEq>(v: &[T], x: &T) -> usize { v.iter().filter(|y| *y == x).count() }
/// the lists as they must come back: same lines, ordered by line number (ties in any order), normalized = trimmed content
fn check_normalized(before: &[L], after: &[L]) -> Option<String> {
    if before.len() != after.len() { return Some(format!("{} lines became {}", before.len(), after.len())); }
    for a in after {
        if a.3 != a.2.trim() { return Some(format!("line {} normalized {:?}, content {:?}", a.0, a.3, a.2)); }
        let key = |x: &L| (x.0, x.1, x.2.clone());
        if before.iter().filter(|b| key(b) == key(a)).count() != after.iter().filter(|b| key(b) == key(a)).count() { return Some(format!("line {:?} is not kept as often as it was given", key(a))); }
    }
    if after.windows(2).any(|w| w[0].0 > w[1].0) { return Some("not ordered by line number".into()); }
    None
}
/// the runs a group may be drawn from, in the most obvious way: lines with non-blank content whose numbers follow one another
fn obvious_groups(sorted: &[L], th: usize) -> Vec<Vec<L>> {
    let mut runs: Vec<Vec<L>> = vec![];
    let mut prev: Option<usize> = None;
    for l in sorted.iter().filter(|l| !l.2.trim().is_empty()) {
        if prev.is_some() && prev.unwrap().checked_add(1) == Some(l.0) { runs.last_mut().unwrap().push(l.clone()); } else { runs.push(vec![l.clone()]); }
        prev = Some(l.0);
    }
    runs.into_iter().filter(|r| r.len() >= th).collect()
}
fn chk_detect(c: &mut Ctx, th: usize, ins: &[L], del: &[L]) {
    c.evaluated += 1;
    let input = format!("{}#{}#{}", th, enc(ins), enc(del));
    let mut iv: Vec<InsertedLine> = ins.iter().map(il).collect();
    let mut dv: Vec<DeletedLine> = del.iter().map(dl).collect();
    let r = guarded(|| { let m = detect_moves(&mut iv, &mut dv, th); (m, iv, dv) });
    let (ms, iv, dv) = match r { Err(p) => { c.fail("detect_moves", "safety", input, p, "no panic".into()); return; } Ok(x) => x };
    let ia: Vec<L> = iv.iter().map(li).collect(); let da: Vec<L> = dv.iter().map(ld).collect();
    if th == 0 {
        if !ms.is_empty() { c.fail("detect_moves", "ensures#0", input.clone(), format!("{} mappings", ms.len()), "threshold 0: no mappings".into()); }
        return;
    }
    if ia.len() != ins.len() { c.fail("detect_moves", "ensures#1", input.clone(), format!("{}", ia.len()), format!("{}", ins.len())); }
    if da.len() != del.len() { c.fail("detect_moves", "ensures#2", input.clone(), format!("{}", da.len()), format!("{}", del.len())); }
    if let Some(m) = check_normalized(ins, &ia).or_else(|| check_normalized(del, &da)) { c.fail("detect_moves", "ensures#3", input.clone(), m, "the lists come back sorted by line number, normalized = trimmed content, nothing else changed".into()); }
    let ig = obvious_groups(&ia, th); let dg = obvious_groups(&da, th);
    let mut used: Vec<L> = vec![];
    for (a, m) in ms.iter().enumerate() {
        let mi: Vec<L> = m.inserted.iter().map(li).collect(); let md: Vec<L> = m.deleted.iter().map(ld).collect();
        let mut bad: Option<String> = None;
        if mi.len() != md.len() || mi.len() < th { bad = Some(format!("mapping {}: {} inserted, {} deleted lines, threshold {}", a, mi.len(), md.len(), th)); }
        for k in 0..mi.len().min(md.len()) {
            if bad.is_some() { break; }
            if mi[k].2.trim() != md[k].2.trim() || mi[k].3 != md[k].3 { bad = Some(format!("mapping {} pair {}: inserted {:?} / deleted {:?} differ in content", a, k, mi[k].2, md[k].2)); }
            else if mi[k].2.trim().is_empty() { bad = Some(format!("mapping {} pair {}: blank line moved", a, k)); }
            else if mi[k].3 != mi[k].2.trim() { bad = Some(format!("mapping {} pair {}: normalized {:?} is not the trimmed content {:?}", a, k, mi[k].3, mi[k].2)); }
            else if k > 0 && (mi[k - 1].0.checked_add(1) != Some(mi[k].0) || md[k - 1].0.checked_add(1) != Some(md[k].0)) { bad = Some(format!("mapping {}: line numbers not consecutive at pair {}", a, k)); }
            else if count(&ia, &mi[k]) == 0 || count(&da, &md[k]) == 0 { bad = Some(format!("mapping {} pair {}: not a line of the lists handed in", a, k)); }
        }
        if bad.is_none() {
            if m.insertion_group_index >= ig.len() || m.deletion_group_index >= dg.len() { bad = Some(format!("mapping {}: group indices ({}, {}) with {} insertion / {} deletion groups", a, m.insertion_group_index, m.deletion_group_index, ig.len(), dg.len())); }
            else if mi.iter().any(|l| count(&ig[m.insertion_group_index], l) == 0) || md.iter().any(|l| count(&dg[m.deletion_group_index], l) == 0) { bad = Some(format!("mapping {}: lines are not all from group ({}, {})", a, m.insertion_group_index, m.deletion_group_index)); }
        }
        used.extend(mi.iter().cloned());
        if let Some(b) = bad { c.fail("detect_moves", "ensures#4", input.clone(), b, "each mapping: equally many (>= threshold) inserted and deleted lines from one group each, pairwise equal trimmed non-blank content, consecutive line numbers".into()); }
    }
    for l in &used { if count(&used, l) > count(&ia, l) { c.fail("detect_moves", "ensures#4", input.clone(), format!("inserted line {:?} is in {} mapping positions but was given {} times", (l.0, &l.2), count(&used, l), count(&ia, l)), "no inserted line in two mappings".into()); break; } }
}
fn chk_groups(c: &mut Ctx, th: usize, lines: &[L]) {
    c.evaluated += 1;
    let input = format!("{}#{}", th, enc(lines));
    let v: Vec<InsertedLine> = lines.iter().map(il).collect();
    let gs = match guarded(|| build_groups(&v, th)) { Err(p) => { c.fail("build_groups", "safety", input, p, "no panic".into()); return; } Ok(x) => x };
    let mut last: Option<usize> = None;
    for g in &gs {
        let mut bad: Option<String> = None;
        if g.len() < th { bad = Some(format!("group {:?} shorter than {}", g, th)); }
        for (k, &i) in g.iter().enumerate() {
            if bad.is_some() { break; }
            if i >= lines.len() { bad = Some(format!("index {} out of range", i)); }
            else if lines[i].3.is_empty() { bad = Some(format!("index {} has empty normalized content", i)); }
            else if last.is_some() && last.unwrap() >= i { bad = Some(format!("index {} after {}: groups must be disjoint and increasing", i, last.unwrap())); }
            else if k > 0 && lines[g[k - 1]].0.checked_add(1) != Some(lines[i].0) { bad = Some(format!("line numbers {} , {} not consecutive inside a group", lines[g[k - 1]].0, lines[i].0)); }
            last = Some(i);
        }
        if let Some(b) = bad { c.fail("build_groups", "ensures#0", input.clone(), format!("{:?}: {}", gs, b), "groups: >= threshold indices in range, increasing, disjoint, non-empty normalized content, consecutive line numbers".into()); return; }
    }
}
fn chk_lookup(c: &mut Ctx, lines: &[L], groups: &[Vec<usize>]) {
    c.evaluated += 1;
    let input = format!("{}#{}", enc(lines), groups.iter().map(|g| g.iter().map(|i| i.to_string()).collect::<Vec<_>>().join(",")).collect::<Vec<_>>().join(";"));
    let v: Vec<DeletedLine> = lines.iter().map(dl).collect();
    let m = match guarded(|| build_deletion_lookup(&v, groups)) { Err(p) => { c.fail("build_deletion_lookup", "safety", input, p, "no panic".into()); return; } Ok(x) => x };
    for (_, cands) in &m { for &(g, p) in cands {
        if g >= groups.len() || p >= groups[g].len() { c.fail("build_deletion_lookup", "ensures#0", input.clone(), format!("candidate ({}, {})", g, p), "every candidate is a position inside a group".into()); return; }
    } }
}
const CONTENTS: &[&str] = &["a", " a ", "b", "", "  ", "c\t", "\tb", "ab", "a b", "h\u{e9}"];
fn gen_lines(g: &mut Rng, normalized: bool) -> Vec<L> {
    let n = g.below(9) as usize;
    let base = 1 + g.below(4) as usize;
    let mut v: Vec<L> = vec![];
    let mut ln = base;
    for _ in 0..n {
        let span = if g.below(3) == 0 { CONTENTS.len() as u64 } else { 3 };
        let c = CONTENTS[g.below(span) as usize].to_string();
        let norm = if normalized { c.trim().to_string() } else { String::new() };
        v.push((ln, g.below(3) as usize, c, norm));
        match g.below(8) { 0 => {} 1 => ln += 2 + g.below(3) as usize, _ => ln += 1 }
    }
    if !normalized && g.below(2) == 0 { for i in (1..v.len()).rev() { let j = g.below(i as u64 + 1) as usize; v.swap(i, j); } }
    v
}
fn small_lists() -> Vec<Vec<L>> {
    let cs = ["a", "b", " a", ""];
    let mut out: Vec<Vec<L>> = vec![vec![]];
    for n in 1..=3usize { let mut idx = vec![0usize; n]; loop {
        out.push(idx.iter().enumerate().map(|(p, &k)| (p + 1, 0usize, cs[k].to_string(), String::new())).collect());
        let mut p = 0; while p < n { idx[p] += 1; if idx[p] < cs.len() { break; } idx[p] = 0; p += 1; } if p == n { break; }
    } }
    out
}
fn main() {
    std::panic::set_hook(Box::new(|_| {}));
    let a: Vec<String> = std::env::args().collect();
    let mut c = Ctx { evaluated: 0, failed: Default::default() };
    let want = |f: &str| a[2] == "*" || a[2] == f || a[2].starts_with("region_") || a[2].starts_with("opq_");
    if a[1] == "search" {
        let mut g = Rng(a[3].parse::<u64>().unwrap_or(0).wrapping_mul(0x9E3779B97F4A7C15) ^ 0x6a09e667f3bcc909);
        if want("detect_moves") {
            let sl = small_lists();
            for th in 0..=3usize { for i in &sl { for d in &sl { chk_detect(&mut c, th, i, d); } } }
            // the same line falling into two insertions (same number twice), and long repeated blocks
            let dup: Vec<L> = vec![(5, 0, "a".into(), String::new()), (5, 1, "a".into(), String::new()), (6, 1, "b".into(), String::new())];
            let one: Vec<L> = vec![(1, 0, "a".into(), String::new()), (2, 0, "b".into(), String::new())];
            for th in 0..=3usize { chk_detect(&mut c, th, &dup, &one); chk_detect(&mut c, th, &one, &dup); }
            for _ in 0..6000 { let i = gen_lines(&mut g, false); let d = gen_lines(&mut g, false); let th = g.below(4) as usize; chk_detect(&mut c, th, &i, &d); }
        }
        if want("build_groups") {
            for th in 0..=3usize { for l in small_lists() { let l: Vec<L> = l.into_iter().map(|x| { let n = x.2.trim().to_string(); (x.0, x.1, x.2, n) }).collect(); chk_groups(&mut c, th, &l); } }
            for _ in 0..4000 { let mut l = gen_lines(&mut g, true); l.sort_by_key(|x| x.0); let th = g.below(4) as usize; chk_groups(&mut c, th, &l); }
        }
        if want("build_deletion_lookup") {
            for _ in 0..2000 {
                let mut l = gen_lines(&mut g, true); l.sort_by_key(|x| x.0);
                let th = 1 + g.below(3) as usize;
                let v: Vec<DeletedLine> = l.iter().map(dl).collect();
                if let Ok(gs) = guarded(|| build_groups(&v, th)) { chk_lookup(&mut c, &l, &gs); }
            }
        }
    } else {
        match a[2].as_str() {
            "build_groups" => { let (t, rest) = a[3].split_once('#').unwrap(); chk_groups(&mut c, t.parse().unwrap(), &dec(rest)); }
            "build_deletion_lookup" => { let (ls, gs) = a[3].split_once('#').unwrap(); let groups: Vec<Vec<usize>> = gs.split(';').filter(|x| !x.is_empty()).map(|x| x.split(',').map(|i| i.parse().unwrap()).collect()).collect(); chk_lookup(&mut c, &dec(ls), &groups); }
            _ => { let p: Vec<&str> = a[3].splitn(3, '#').collect(); chk_detect(&mut c, p[0].parse().unwrap(), &dec(p[1]), &dec(p[2])); }
        }
    }
    println!("DONE evaluated={}", c.evaluated);
}
