// Unit moves - property C16 ("conservative": a detected move never carries an author onto text with different content; "total"):
// the move detector of src/authorship/move_detection.rs.  detect_moves, build_groups<T>, sort_and_normalize<T>, build_deletion_lookup and
// the eight LineRecord accessors are verified on the text extracted from /repo.  The nested matching loop of detect_moves (a labelled
// `continue` out of a `for`, which Verus refuses) is verified as statement region match_loop (rule R1) and enters detect_moves through
// the rule-O1 stub opq_match_loop, which carries the SAME contract (loop_pre / loop_post).  User-level statement:
// theorem_moves_conservative.  Stubs: enumerate, entry().or_default().push(), the clone-collect chains, sort_by_key, trim, the hash.
use vstd::prelude::*;
use vstd::std_specs::iter::IteratorSpec;
use std::collections::HashMap;
verus! {

//#item file=src/authorship/move_detection.rs kind=struct name=InsertedLine
pub struct InsertedLine {
    pub content: String,
    pub normalized_content: String,
    pub line_number: usize,
    pub insertion_idx: usize,
}
//#end
//#item file=src/authorship/move_detection.rs kind=struct name=DeletedLine
pub struct DeletedLine {
    pub content: String,
    pub normalized_content: String,
    pub line_number: usize,
    pub deletion_idx: usize,
}
//#end
//#item file=src/authorship/move_detection.rs kind=struct name=MoveMapping
pub struct MoveMapping {
    pub deletion_group_index: usize,
    pub insertion_group_index: usize,
    pub deleted: Vec<DeletedLine>,
    pub inserted: Vec<InsertedLine>,
}
//#end

// ---------------------------------------------------------------- the trait: a stand-in declaration (the engine extracts fns,
// structs, enums and consts only).  Same four method signatures as /repo's `trait LineRecord`, plus three spec accessors and the
// contracts; the eight method BODIES below are /repo's text and are verified against these contracts.
pub trait LineRecord {
    spec fn sp_line(&self) -> usize;
    spec fn sp_content(&self) -> Seq<char>;
    spec fn sp_norm(&self) -> Seq<char>;
    fn line_number(&self) -> (r_: usize)
        ensures r_ == self.sp_line();
    fn content(&self) -> (r_: &str)
        ensures r_@ == self.sp_content();
    fn set_normalized_content(&mut self, normalized: String)
        ensures final(self).sp_norm() == normalized@, final(self).sp_line() == old(self).sp_line(), final(self).sp_content() == old(self).sp_content();
    fn normalized_content(&self) -> (r_: &str)
        ensures r_@ == self.sp_norm();
}

impl LineRecord for InsertedLine {
    open spec fn sp_line(&self) -> usize { self.line_number }
    open spec fn sp_content(&self) -> Seq<char> { self.content@ }
    open spec fn sp_norm(&self) -> Seq<char> { self.normalized_content@ }
//#item file=src/authorship/move_detection.rs kind=fn name=line_number impl="LineRecord for InsertedLine"
    fn line_number(&self) -> (r_: usize)
    {
        self.line_number
    }
//#end
//#item file=src/authorship/move_detection.rs kind=fn name=content impl="LineRecord for InsertedLine"
    fn content(&self) -> (r_: &str)
    {
        &self.content
    }
//#end
//#item file=src/authorship/move_detection.rs kind=fn name=set_normalized_content impl="LineRecord for InsertedLine"
    fn set_normalized_content(&mut self, normalized: String)
    {
        self.normalized_content = normalized;
    }
//#end
//#item file=src/authorship/move_detection.rs kind=fn name=normalized_content impl="LineRecord for InsertedLine"
    fn normalized_content(&self) -> (r_: &str)
    {
        &self.normalized_content
    }
//#end
}

impl LineRecord for DeletedLine {
    open spec fn sp_line(&self) -> usize { self.line_number }
    open spec fn sp_content(&self) -> Seq<char> { self.content@ }
    open spec fn sp_norm(&self) -> Seq<char> { self.normalized_content@ }
//#item file=src/authorship/move_detection.rs kind=fn name=line_number impl="LineRecord for DeletedLine"
    fn line_number(&self) -> (r_: usize)
    {
        self.line_number
    }
//#end
//#item file=src/authorship/move_detection.rs kind=fn name=content impl="LineRecord for DeletedLine"
    fn content(&self) -> (r_: &str)
    {
        &self.content
    }
//#end
//#item file=src/authorship/move_detection.rs kind=fn name=set_normalized_content impl="LineRecord for DeletedLine"
    fn set_normalized_content(&mut self, normalized: String)
    {
        self.normalized_content = normalized;
    }
//#end
//#item file=src/authorship/move_detection.rs kind=fn name=normalized_content impl="LineRecord for DeletedLine"
    fn normalized_content(&self) -> (r_: &str)
    {
        &self.normalized_content
    }
//#end
}

// ---------------------------------------------------------------- rule-O1 stubs (documented behaviour of std only)
/// `v.iter().enumerate()`, collected
#[verifier::external_body]
fn opq_enumerated<'a, T>(v: &'a [T]) -> (r: Vec<(usize, &'a T)>)
    ensures r@.len() == v@.len(), forall|i: int| 0 <= i < r@.len() ==> (#[trigger] r@[i]).0 == i && *r@[i].1 == v@[i],
{ unimplemented!() }
/// `(p, &x) in g.iter().enumerate()`: the pairs (position, copy of the element)
#[verifier::external_body]
fn opq_enum_copied(v: &Vec<usize>) -> (r: Vec<(usize, usize)>)
    ensures r@.len() == v@.len(), forall|i: int| 0 <= i < r@.len() ==> (#[trigger] r@[i]).0 == i && r@[i].1 == v@[i],
{ unimplemented!() }
/// `m.entry(h).or_default().push(x)`
#[verifier::external_body]
fn opq_entry_push(m: &mut HashMap<u64, Vec<(usize, usize)>>, h: u64, x: (usize, usize))
    ensures
        final(m)@.dom() == old(m)@.dom().insert(h),
        final(m)@[h]@ == (if old(m)@.contains_key(h) { old(m)@[h]@ } else { Seq::<(usize, usize)>::empty() }).push(x),
        forall|k: u64| k != h && old(m)@.contains_key(k) ==> final(m)@[k] == old(m)@[k],
{ unimplemented!() }
pub closed spec fn iv(l: InsertedLine) -> (Seq<char>, Seq<char>, usize, usize) { (l.content@, l.normalized_content@, l.line_number, l.insertion_idx) }
pub closed spec fn dv(l: DeletedLine) -> (Seq<char>, Seq<char>, usize, usize) { (l.content@, l.normalized_content@, l.line_number, l.deletion_idx) }
/// `<slice of indices>.iter().map(|&idx| lines[idx].clone()).collect()`: field-wise copies of the lines at those indices; that the
/// indices are in range is an OBLIGATION of the caller (the slice expression itself, `g[a..b]`, is verified natively)
pub trait CloneLines {
    spec fn idxs(&self) -> Seq<usize>;
    fn opq_clone_inserted(&self, lines: &[InsertedLine]) -> (r: Vec<InsertedLine>)
        requires forall|k: int| 0 <= k < self.idxs().len() ==> (#[trigger] self.idxs()[k]) < lines@.len(),
        ensures r@.len() == self.idxs().len(), forall|k: int| 0 <= k < r@.len() ==> iv(#[trigger] r@[k]) == iv(lines@[self.idxs()[k] as int]);
    fn opq_clone_deleted(&self, lines: &[DeletedLine]) -> (r: Vec<DeletedLine>)
        requires forall|k: int| 0 <= k < self.idxs().len() ==> (#[trigger] self.idxs()[k]) < lines@.len(),
        ensures r@.len() == self.idxs().len(), forall|k: int| 0 <= k < r@.len() ==> dv(#[trigger] r@[k]) == dv(lines@[self.idxs()[k] as int]);
}
impl CloneLines for [usize] {
    open spec fn idxs(&self) -> Seq<usize> { self@ }
    #[verifier::external_body]
    fn opq_clone_inserted(&self, lines: &[InsertedLine]) -> (r: Vec<InsertedLine>)
    { unimplemented!() }
    #[verifier::external_body]
    fn opq_clone_deleted(&self, lines: &[DeletedLine]) -> (r: Vec<DeletedLine>)
    { unimplemented!() }
}
pub uninterp spec fn hash_of(s: Seq<char>) -> u64;
pub uninterp spec fn trim_of(s: Seq<char>) -> Seq<char>;

//#item file=src/authorship/move_detection.rs kind=fn name=hash_normalized body=opaque
//@ #[verifier::external_body]
fn hash_normalized(value: &str) -> (r_: u64)
//@     ensures r_ == hash_of(value@),
{
    let mut hasher = DefaultHasher::new();
    value.hash(&mut hasher);
    hasher.finish()
}
//#end

// ---------------------------------------------------------------- groups
/// one group: indices into `lines`, strictly increasing, non-empty normalized content, consecutive line numbers
#[verifier::opaque]
pub closed spec fn run_ok<T: LineRecord>(g: Seq<usize>, lines: Seq<T>) -> bool {
    (forall|k: int| 0 <= k < g.len() ==> (#[trigger] g[k]) < lines.len() && lines[g[k] as int].sp_norm().len() > 0)
    && (forall|k: int, m: int| 0 <= k && m == k + 1 && m < g.len() ==> (#[trigger] g[k]) < (#[trigger] g[m]) && lines[g[m] as int].sp_line() == lines[g[k] as int].sp_line() + 1)
}
/// every element of every group is below `bound`
#[verifier::opaque]
pub closed spec fn all_below(gs: Seq<Vec<usize>>, bound: int) -> bool {
    forall|a: int, i: int| 0 <= a < gs.len() && 0 <= i < gs[a]@.len() ==> (#[trigger] gs[a]@[i]) < bound
}
/// every element of group a is below every element of group b, for a < b: the groups are disjoint and in increasing order
#[verifier::opaque]
pub closed spec fn groups_ordered(gs: Seq<Vec<usize>>) -> bool {
    forall|a: int, b: int, i: int, j: int| 0 <= a < b < gs.len() && 0 <= i < gs[a]@.len() && 0 <= j < gs[b]@.len() ==> (#[trigger] gs[a]@[i]) < (#[trigger] gs[b]@[j])
}
pub closed spec fn groups_ok<T: LineRecord>(gs: Seq<Vec<usize>>, lines: Seq<T>, th: int) -> bool {
    (forall|a: int| 0 <= a < gs.len() ==> (#[trigger] gs[a])@.len() >= th && run_ok(gs[a]@, lines))
    && groups_ordered(gs)
}
pub closed spec fn lines_bounded<T: LineRecord>(lines: Seq<T>) -> bool { forall|i: int| 0 <= i < lines.len() ==> (#[trigger] lines[i]).sp_line() < usize::MAX }
pub closed spec fn last_ok<T: LineRecord>(last: Option<usize>, cur: Seq<usize>, lines: Seq<T>) -> bool {
    if cur.len() == 0 { last is None } else { cur[cur.len() - 1] < lines.len() && last == Some(lines[cur[cur.len() - 1] as int].sp_line()) }
}
pub closed spec fn cur_below(cur: Seq<usize>, n: int) -> bool { forall|k: int| 0 <= k < cur.len() ==> (#[trigger] cur[k]) < n }
pub closed spec fn first_or(cur: Seq<usize>, n: int) -> int { if cur.len() > 0 { cur[0] as int } else { n } }

proof fn lemma_run_elem<T: LineRecord>(g: Seq<usize>, lines: Seq<T>, k: int)
    requires run_ok(g, lines), 0 <= k < g.len(),
    ensures g[k] < lines.len(), lines[g[k] as int].sp_norm().len() > 0,
{ reveal(run_ok); }
proof fn lemma_run_step<T: LineRecord>(g: Seq<usize>, lines: Seq<T>, k: int)
    requires run_ok(g, lines), 0 <= k, k + 1 < g.len(),
    ensures g[k] < g[k + 1] < lines.len(), g[k] < lines.len(), lines[g[k + 1] as int].sp_line() == lines[g[k] as int].sp_line() + 1,
{ reveal(run_ok); let m = k + 1; assert(g[k] < g[m]); }
/// inside a group the indices increase strictly and the line numbers are consecutive
proof fn lemma_run_mono<T: LineRecord>(g: Seq<usize>, lines: Seq<T>, i: int, j: int)
    requires run_ok(g, lines), 0 <= i <= j < g.len(),
    ensures g[i] + (j - i) <= g[j], g[j] < lines.len(), g[i] < lines.len(), lines[g[j] as int].sp_line() == lines[g[i] as int].sp_line() + (j - i),
    decreases j - i
{
    lemma_run_elem(g, lines, i);
    if i < j { lemma_run_mono(g, lines, i, j - 1); lemma_run_step(g, lines, j - 1); }
}
proof fn lemma_run_empty<T: LineRecord>(lines: Seq<T>)
    ensures run_ok(Seq::<usize>::empty(), lines),
{ reveal(run_ok); }
proof fn lemma_run_single<T: LineRecord>(n: usize, lines: Seq<T>)
    requires n < lines.len(), lines[n as int].sp_norm().len() > 0,
    ensures run_ok(seq![n], lines),
{ reveal(run_ok); }
proof fn lemma_run_push<T: LineRecord>(g: Seq<usize>, lines: Seq<T>, n: usize)
    requires run_ok(g, lines), g.len() > 0, n < lines.len(), lines[n as int].sp_norm().len() > 0, g[g.len() - 1] < n,
        g[g.len() - 1] < lines.len() ==> lines[n as int].sp_line() == lines[g[g.len() - 1] as int].sp_line() + 1,
    ensures run_ok(g.push(n), lines),
{
    reveal(run_ok);
    let h = g.push(n);
    assert forall|k: int, m: int| 0 <= k && m == k + 1 && m < h.len() implies (#[trigger] h[k]) < (#[trigger] h[m]) && lines[h[m] as int].sp_line() == lines[h[k] as int].sp_line() + 1 by {
        if m < g.len() { assert(h[k] == g[k] && h[m] == g[m]); } else { assert(h[k] == g[g.len() - 1]); assert(g[k] < lines.len()); }
    }
    assert forall|k: int| 0 <= k < h.len() implies (#[trigger] h[k]) < lines.len() && lines[h[k] as int].sp_norm().len() > 0 by { if k < g.len() { assert(h[k] == g[k]); } }
}
proof fn lemma_below_weaken(gs: Seq<Vec<usize>>, b0: int, b1: int)
    requires all_below(gs, b0), b0 <= b1,
    ensures all_below(gs, b1),
{ reveal(all_below); }
proof fn lemma_groups_empty<T: LineRecord>(lines: Seq<T>, th: int, b: int)
    ensures groups_ok(Seq::<Vec<usize>>::empty(), lines, th), all_below(Seq::<Vec<usize>>::empty(), b),
{ reveal(all_below); reveal(groups_ordered); }
/// closing the current run as a new group
proof fn lemma_groups_push<T: LineRecord>(gs: Seq<Vec<usize>>, c: Vec<usize>, lines: Seq<T>, th: int, n: int)
    requires groups_ok(gs, lines, th), run_ok(c@, lines), c@.len() >= th, cur_below(c@, n), all_below(gs, first_or(c@, n)),
    ensures groups_ok(gs.push(c), lines, th), all_below(gs.push(c), n),
{
    reveal(all_below); reveal(groups_ordered);
    let hs = gs.push(c);
    assert forall|a: int| 0 <= a < hs.len() implies (#[trigger] hs[a])@.len() >= th && run_ok(hs[a]@, lines) by { if a < gs.len() { assert(hs[a] == gs[a]); } }
    assert forall|a: int, b: int, i: int, j: int| 0 <= a < b < hs.len() && 0 <= i < hs[a]@.len() && 0 <= j < hs[b]@.len() implies (#[trigger] hs[a]@[i]) < (#[trigger] hs[b]@[j]) by {
        assert(hs[a] == gs[a]);
        if b < gs.len() { assert(hs[b] == gs[b]); } else { assert(hs[b] == c); lemma_run_mono(c@, lines, 0, j); assert(gs[a]@[i] < c@[0]); }
    }
    assert forall|a: int, i: int| 0 <= a < hs.len() && 0 <= i < hs[a]@.len() implies (#[trigger] hs[a]@[i]) < n by {
        if a < gs.len() { assert(hs[a] == gs[a]); assert(gs[a]@[i] < first_or(c@, n)); if c@.len() > 0 { assert(c@[0] < n); } } else { assert(hs[a]@[i] == c@[i]); }
    }
}

//#item file=src/authorship/move_detection.rs kind=fn name=build_groups opaque='[{"expr": "lines.iter().enumerate()", "call": "opq_enumerated(lines)"}]'
fn build_groups<T: LineRecord>(lines: &[T], threshold: usize) -> (r_: Vec<Vec<usize>>)
//@     requires lines_bounded(lines@),
//@     ensures groups_ok(r_@, lines@, threshold as int),
{
    let mut groups = Vec::new();
    let mut current = Vec::new();
    let mut last_number: Option<usize> = None;

    //@ let ghost ls = lines@;
    //@ proof { lemma_groups_empty(ls, threshold as int, 0); lemma_run_empty(ls); }
    for (idx, line) in it_0: opq_enumerated(lines)
    //@     invariant
    //@         ls == lines@, lines_bounded(ls), it_0.snapshot@.remaining().len() == ls.len(),
    //@         forall|k: int| 0 <= k < ls.len() ==> (#[trigger] it_0.snapshot@.remaining()[k]).0 == k && *it_0.snapshot@.remaining()[k].1 == ls[k],
    //@         groups_ok(groups@, ls, threshold as int), run_ok(current@, ls), cur_below(current@, it_0.index@), last_ok(last_number, current@, ls),
    //@         all_below(groups@, first_or(current@, it_0.index@)),
    {
        //@ let ghost n = it_0.index@;
        //@ let ghost g0 = groups@; let ghost c0 = current@;
        //@ proof { assert(idx == n && *line == ls[n]); if c0.len() > 0 { lemma_run_mono(c0, ls, 0, c0.len() - 1); } }
        if !(line.normalized_content().is_empty()) {

        match last_number {
            Some(prev) if line.line_number() == prev + 1 => current.push(idx),
            _ => {
                if current.len() >= threshold {
                    //@ proof { lemma_groups_push(g0, current, ls, threshold as int, n); }
                    groups.push(current);
                }
                //@ proof { lemma_below_weaken(g0, first_or(c0, n), n); lemma_run_single(idx, ls); }
                current = vec![idx];
            }
        }

        last_number = Some(line.line_number());
        //@ proof { if current@.len() > 1 { lemma_run_push(c0, ls, idx); assert(current@ =~= c0.push(idx)); } else { assert(current@ =~= seq![idx]); } }
    }
        //@ proof { if c0.len() == 0 && current@.len() == 0 { lemma_below_weaken(g0, n, n + 1); } }
    }

    if current.len() >= threshold {
        //@ proof { lemma_groups_push(groups@, current, ls, threshold as int, ls.len() as int); }
        groups.push(current);
    }

    groups
}
//#end

// ---------------------------------------------------------------- the lookup table: hash -> (deleted group, position) candidates
pub closed spec fn runs_ok<T: LineRecord>(gs: Seq<Vec<usize>>, lines: Seq<T>) -> bool { forall|a: int| 0 <= a < gs.len() ==> run_ok((#[trigger] gs[a])@, lines) }
/// every candidate the table holds is a position inside a deleted group (what the matching loop indexes with)
#[verifier::opaque]
pub closed spec fn lookup_ok(m: Map<u64, Vec<(usize, usize)>>, dg: Seq<Vec<usize>>) -> bool {
    forall|h: u64, j: int| m.contains_key(h) && 0 <= j < m[h]@.len() ==> (#[trigger] m[h]@[j]).0 < dg.len() && m[h]@[j].1 < dg[m[h]@[j].0 as int]@.len()
}
proof fn lemma_lookup_elem(m: Map<u64, Vec<(usize, usize)>>, dg: Seq<Vec<usize>>, h: u64, j: int)
    requires lookup_ok(m, dg), m.contains_key(h), 0 <= j < m[h]@.len(),
    ensures m[h]@[j].0 < dg.len(), m[h]@[j].1 < dg[m[h]@[j].0 as int]@.len(),
{ reveal(lookup_ok); }
proof fn lemma_lookup_empty(dg: Seq<Vec<usize>>)
    ensures lookup_ok(Map::<u64, Vec<(usize, usize)>>::empty(), dg),
{ reveal(lookup_ok); }
proof fn lemma_lookup_push(m0: Map<u64, Vec<(usize, usize)>>, m1: Map<u64, Vec<(usize, usize)>>, dg: Seq<Vec<usize>>, h: u64, x: (usize, usize))
    requires lookup_ok(m0, dg), x.0 < dg.len(), x.1 < dg[x.0 as int]@.len(),
        m1.dom() == m0.dom().insert(h),
        m1[h]@ == (if m0.contains_key(h) { m0[h]@ } else { Seq::<(usize, usize)>::empty() }).push(x),
        forall|k: u64| k != h && m0.contains_key(k) ==> m1[k] == m0[k],
    ensures lookup_ok(m1, dg),
{
    reveal(lookup_ok);
    assert forall|g: u64, j: int| m1.contains_key(g) && 0 <= j < m1[g]@.len() implies (#[trigger] m1[g]@[j]).0 < dg.len() && m1[g]@[j].1 < dg[m1[g]@[j].0 as int]@.len() by {
        if g == h {
            if m0.contains_key(h) && j < m0[h]@.len() { assert(m1[g]@[j] == m0[h]@[j]); } else { assert(m1[g]@[j] == x); }
        } else { assert(m0.contains_key(g)); assert(m1[g] == m0[g]); assert(m1[g]@[j] == m0[g]@[j]); }
    }
}

//#item file=src/authorship/move_detection.rs kind=fn name=build_deletion_lookup opaque='[{"expr": "deleted_groups.iter().enumerate()", "call": "opq_enumerated(deleted_groups)"}, {"expr": "(line_pos, &line_idx) in group.iter().enumerate()", "call": "(line_pos, line_idx) in opq_enum_copied(group)"}, {"expr": "lookup.entry(hash).or_default().push((group_idx, line_pos))", "call": "opq_entry_push(&mut lookup, hash, (group_idx, line_pos))"}]'
fn build_deletion_lookup(
    deleted_lines: &[DeletedLine],
    deleted_groups: &[Vec<usize>],
) -> (r_: HashMap<u64, Vec<(usize, usize)>>)
//@     requires runs_ok(deleted_groups@, deleted_lines@),
//@     ensures lookup_ok(r_@, deleted_groups@),
{
    let mut lookup: HashMap<u64, Vec<(usize, usize)>> = HashMap::new();

    //@ let ghost dg = deleted_groups@;
    //@ proof { lemma_lookup_empty(dg); }
    for (group_idx, group) in it_0: opq_enumerated(deleted_groups)
    //@     invariant
    //@         dg == deleted_groups@, runs_ok(dg, deleted_lines@), it_0.snapshot@.remaining().len() == dg.len(),
    //@         forall|k: int| 0 <= k < dg.len() ==> (#[trigger] it_0.snapshot@.remaining()[k]).0 == k && *it_0.snapshot@.remaining()[k].1 == dg[k],
    //@         lookup_ok(lookup@, dg),
    {
        //@ let ghost a = it_0.index@;
        //@ proof { assert(group_idx == a && *group == dg[a]); }
        for (line_pos, line_idx) in it_1: opq_enum_copied(group)
        //@     invariant
        //@         group_idx == a, 0 <= a < dg.len(), *group == dg[a], run_ok(group@, deleted_lines@), it_1.snapshot@.remaining().len() == group@.len(),
        //@         forall|k: int| 0 <= k < group@.len() ==> (#[trigger] it_1.snapshot@.remaining()[k]).0 == k && it_1.snapshot@.remaining()[k].1 == group@[k],
        //@         lookup_ok(lookup@, dg),
        {
            //@ let ghost p = it_1.index@;
            //@ let ghost m0 = lookup@;
            //@ proof { assert(line_pos == p && line_idx == group@[p]); lemma_run_elem(group@, deleted_lines@, p); }
            let hash = hash_normalized(deleted_lines[line_idx].normalized_content());
            opq_entry_push(&mut lookup, hash, (group_idx, line_pos));
            //@ proof { lemma_lookup_push(m0, lookup@, dg, hash, (group_idx, line_pos)); }
        }
    }

    lookup
}
//#end

// ---------------------------------------------------------------- mappings
/// `n` positions of group g from p on and of group d from q on hold lines with EQUAL normalized content
pub closed spec fn matched(g: Seq<usize>, d: Seq<usize>, p: int, q: int, n: int, ins: Seq<InsertedLine>, del: Seq<DeletedLine>) -> bool {
    forall|i: int| p <= i < p + n ==> (#[trigger] g[i]) < ins.len() && d[i - p + q] < del.len() && ins[g[i] as int].normalized_content@ == del[d[i - p + q] as int].normalized_content@
}
/// one mapping: `len >= th` line pairs, copies of the lines at positions pi.. of insertion group gi and pd.. of deletion group gd,
/// pairwise with equal normalized content
pub closed spec fn map_ok(m: MoveMapping, pi: int, pd: int, ig: Seq<Vec<usize>>, dg: Seq<Vec<usize>>, ins: Seq<InsertedLine>, del: Seq<DeletedLine>, th: int) -> bool {
    let gi = m.insertion_group_index as int; let gd = m.deletion_group_index as int; let len = m.inserted@.len() as int;
    0 <= gi < ig.len() && 0 <= gd < dg.len() && m.deleted@.len() == len && len >= th && len >= 1
    && 0 <= pi && pi + len <= ig[gi]@.len() && 0 <= pd && pd + len <= dg[gd]@.len()
    && matched(ig[gi]@, dg[gd]@, pi, pd, len, ins, del)
    && (forall|k: int| 0 <= k < len ==> iv(#[trigger] m.inserted@[k]) == iv(ins[ig[gi]@[pi + k] as int]))
    && (forall|k: int| 0 <= k < len ==> dv(#[trigger] m.deleted@[k]) == dv(del[dg[gd]@[pd + k] as int]))
}
/// mapping a lies before mapping b: an earlier insertion group, or the same group and an earlier, disjoint stretch of it
pub closed spec fn before(ma: MoveMapping, pa: int, mb: MoveMapping, pb: int) -> bool {
    ma.insertion_group_index < mb.insertion_group_index || (ma.insertion_group_index == mb.insertion_group_index && pa + ma.inserted@.len() <= pb)
}
#[verifier::opaque]
pub closed spec fn maps_ok(ms: Seq<MoveMapping>, w: Seq<(int, int)>, ig: Seq<Vec<usize>>, dg: Seq<Vec<usize>>, ins: Seq<InsertedLine>, del: Seq<DeletedLine>, th: int) -> bool {
    w.len() == ms.len()
    && (forall|a: int| 0 <= a < ms.len() ==> map_ok(#[trigger] ms[a], w[a].0, w[a].1, ig, dg, ins, del, th))
    && (forall|a: int, b: int| 0 <= a < b < ms.len() ==> before(#[trigger] ms[a], w[a].0, #[trigger] ms[b], w[b].0))
}
/// every mapping found so far lies before position p of insertion group g
#[verifier::opaque]
pub closed spec fn bounded_by(ms: Seq<MoveMapping>, w: Seq<(int, int)>, g: int, p: int) -> bool {
    w.len() == ms.len()
    && forall|a: int| 0 <= a < ms.len() ==> (#[trigger] ms[a]).insertion_group_index < g || (ms[a].insertion_group_index == g && w[a].0 + ms[a].inserted@.len() <= p)
}
proof fn lemma_maps_empty(ig: Seq<Vec<usize>>, dg: Seq<Vec<usize>>, ins: Seq<InsertedLine>, del: Seq<DeletedLine>, th: int, g: int, p: int)
    ensures maps_ok(Seq::<MoveMapping>::empty(), Seq::<(int, int)>::empty(), ig, dg, ins, del, th), bounded_by(Seq::<MoveMapping>::empty(), Seq::<(int, int)>::empty(), g, p),
{ reveal(maps_ok); reveal(bounded_by); }
proof fn lemma_bounded_weaken(ms: Seq<MoveMapping>, w: Seq<(int, int)>, g: int, p: int, g2: int, p2: int)
    requires bounded_by(ms, w, g, p), g < g2 || (g == g2 && p <= p2),
    ensures bounded_by(ms, w, g2, p2),
{ reveal(bounded_by); }
proof fn lemma_maps_push(ms: Seq<MoveMapping>, w: Seq<(int, int)>, m: MoveMapping, pi: int, pd: int, ig: Seq<Vec<usize>>, dg: Seq<Vec<usize>>, ins: Seq<InsertedLine>, del: Seq<DeletedLine>, th: int)
    requires maps_ok(ms, w, ig, dg, ins, del, th), map_ok(m, pi, pd, ig, dg, ins, del, th), bounded_by(ms, w, m.insertion_group_index as int, pi),
    ensures maps_ok(ms.push(m), w.push((pi, pd)), ig, dg, ins, del, th), bounded_by(ms.push(m), w.push((pi, pd)), m.insertion_group_index as int, pi + m.inserted@.len()),
{
    reveal(maps_ok); reveal(bounded_by);
    let ms1 = ms.push(m); let w1 = w.push((pi, pd));
    assert forall|a: int| 0 <= a < ms1.len() implies map_ok(#[trigger] ms1[a], w1[a].0, w1[a].1, ig, dg, ins, del, th) by { if a < ms.len() { assert(ms1[a] == ms[a] && w1[a] == w[a]); } }
    assert forall|a: int, b: int| 0 <= a < b < ms1.len() implies before(#[trigger] ms1[a], w1[a].0, #[trigger] ms1[b], w1[b].0) by {
        assert(ms1[a] == ms[a] && w1[a] == w[a]);
        if b < ms.len() { assert(ms1[b] == ms[b] && w1[b] == w[b]); }
    }
    assert forall|a: int| 0 <= a < ms1.len() implies (#[trigger] ms1[a]).insertion_group_index < m.insertion_group_index || (ms1[a].insertion_group_index == m.insertion_group_index && w1[a].0 + ms1[a].inserted@.len() <= pi + m.inserted@.len()) by {
        if a < ms.len() { assert(ms1[a] == ms[a] && w1[a] == w[a]); }
    }
}
/// what the matching loop needs / what it delivers (the contract shared by the region and by the stub that stands for it in detect_moves)
pub closed spec fn loop_pre(ins: Seq<InsertedLine>, del: Seq<DeletedLine>, th: int, ig: Seq<Vec<usize>>, dg: Seq<Vec<usize>>, lk: Map<u64, Vec<(usize, usize)>>) -> bool {
    th >= 1 && groups_ok(ig, ins, th) && groups_ok(dg, del, th) && lookup_ok(lk, dg)
}
pub closed spec fn loop_post(r: Seq<MoveMapping>, ins: Seq<InsertedLine>, del: Seq<DeletedLine>, th: int, ig: Seq<Vec<usize>>, dg: Seq<Vec<usize>>) -> bool {
    exists|w: Seq<(int, int)>| maps_ok(r, w, ig, dg, ins, del, th)
}

//#item file=src/authorship/move_detection.rs kind=region name=match_loop in=detect_moves from="let mut insert_pos = 0;" to="$block_end" from_nth=0 to_nth=0 opaque='[{"expr": ".iter() .map(|&idx| inserted_lines[idx].clone()) .collect()", "call": ".opq_clone_inserted(inserted_lines)"}, {"expr": ".iter() .map(|&idx| deleted_lines[idx].clone()) .collect()", "call": ".opq_clone_deleted(deleted_lines)"}]'
//@ #[verifier::loop_isolation(false)]
//@ fn region_match_loop(inserted_lines: &[InsertedLine], deleted_lines: &[DeletedLine], threshold: usize, inserted_groups: &Vec<Vec<usize>>, deleted_groups: &Vec<Vec<usize>>, deletion_lookup: &HashMap<u64, Vec<(usize, usize)>>) -> (r_: Vec<MoveMapping>)
//@     requires loop_pre(inserted_lines@, deleted_lines@, threshold as int, inserted_groups@, deleted_groups@, deletion_lookup@),
//@     ensures loop_post(r_@, inserted_lines@, deleted_lines@, threshold as int, inserted_groups@, deleted_groups@),
//@ {
//@     let ghost ins = inserted_lines@; let ghost del = deleted_lines@; let ghost ig = inserted_groups@; let ghost dg = deleted_groups@; let ghost th = threshold as int; let ghost lk = deletion_lookup@;
//@     let mut mappings: Vec<MoveMapping> = Vec::new();
//@     let ghost mut w: Seq<(int, int)> = Seq::empty();
//@     proof { lemma_maps_empty(ig, dg, ins, del, th, 0, 0); }
//@     // `for (insert_group_idx, insert_group) in inserted_groups.iter().enumerate() { BODY }` with a `continue 'insert_groups` in BODY:
//@     // an index loop whose body runs BODY once inside a labelled one-trip `while` (there `continue` = "end of this trip")
//@     let mut gi_: usize = 0;
//@     while gi_ < inserted_groups.len()
//@         invariant gi_ <= ig.len(), maps_ok(mappings@, w, ig, dg, ins, del, th), bounded_by(mappings@, w, gi_ as int, 0),
//@         decreases ig.len() - gi_,
//@     {
//@         let insert_group_idx = gi_; let insert_group = &inserted_groups[gi_]; gi_ = gi_ + 1;
//@         let mut once_ = true;
//@         proof { assert(run_ok(ig[insert_group_idx as int]@, ins)); }
//@         'insert_groups: while once_
//@             invariant maps_ok(mappings@, w, ig, dg, ins, del, th), once_ ==> bounded_by(mappings@, w, insert_group_idx as int, 0), !once_ ==> bounded_by(mappings@, w, gi_ as int, 0),
//@             decreases (if once_ { 1int } else { 0int }),
//@         {
//@             once_ = false;
        let mut insert_pos = 0;
        while insert_pos < insert_group.len()
        //@     invariant insert_pos <= insert_group@.len(), !once_, maps_ok(mappings@, w, ig, dg, ins, del, th), bounded_by(mappings@, w, insert_group_idx as int, insert_pos as int),
        //@     decreases insert_group@.len() - insert_pos,
        {
            //@ let ghost pos0 = insert_pos;
            //@ proof { lemma_run_elem(insert_group@, ins, insert_pos as int); }
            let inserted_index = insert_group[insert_pos];
            let inserted_line = &inserted_lines[inserted_index];
            let hash = hash_normalized(inserted_line.normalized_content());
            let mut advanced = false;

            if let Some(candidates) = deletion_lookup.get(&hash) {
                //@ proof { assert(lk.contains_key(hash) && lk[hash] == *candidates); }
                for vr_1 in it_1: candidates
                //@     invariant_except_break !advanced, insert_pos == pos0, bounded_by(mappings@, w, insert_group_idx as int, insert_pos as int),
                //@     invariant
                //@         it_1.snapshot@.remaining().len() == candidates@.len(), forall|j: int| 0 <= j < candidates@.len() ==> *(#[trigger] it_1.snapshot@.remaining()[j]) == candidates@[j],
                //@         !once_, maps_ok(mappings@, w, ig, dg, ins, del, th),
                //@     ensures insert_pos <= insert_group@.len(), advanced ==> insert_pos > pos0, !advanced ==> insert_pos == pos0, bounded_by(mappings@, w, insert_group_idx as int, insert_pos as int),
                {
                    let (delete_group_idx, delete_pos) = *vr_1;
                    //@ proof { assert((delete_group_idx, delete_pos) == candidates@[it_1.index@]); lemma_lookup_elem(lk, dg, hash, it_1.index@); assert(run_ok(dg[delete_group_idx as int]@, del)); lemma_run_elem(dg[delete_group_idx as int]@, del, delete_pos as int); }
                    let delete_group = &deleted_groups[delete_group_idx];
                    //@ proof { assert(delete_group@ == dg[delete_group_idx as int]@ && delete_pos < delete_group@.len() && delete_group.len() == delete_group@.len()); }
                    let delete_index = delete_group[delete_pos];
                    let delete_line = &deleted_lines[delete_index];

                    if !(inserted_line.normalized_content() != delete_line.normalized_content()) {

                    let mut match_len = 1;
                    let mut insert_iter = insert_pos + 1;
                    let mut delete_iter = delete_pos + 1;

                    while insert_iter < insert_group.len() && delete_iter < delete_group.len()
                    //@     invariant
                    //@         match_len >= 1, insert_iter == insert_pos + match_len, delete_iter == delete_pos + match_len, insert_iter <= insert_group@.len(), delete_iter <= delete_group@.len(),
                    //@         matched(insert_group@, delete_group@, insert_pos as int, delete_pos as int, match_len as int, ins, del),
                    //@     decreases insert_group@.len() - insert_iter,
                    {
                        //@ proof { lemma_run_elem(insert_group@, ins, insert_iter as int); lemma_run_elem(delete_group@, del, delete_iter as int); }
                        let insert_idx = insert_group[insert_iter];
                        let delete_idx = delete_group[delete_iter];
                        let insert_line = &inserted_lines[insert_idx];
                        let delete_line = &deleted_lines[delete_idx];

                        if insert_line.normalized_content() != delete_line.normalized_content() {
                            break;
                        }

                        match_len += 1;
                        insert_iter += 1;
                        delete_iter += 1;
                    }

                    if match_len >= threshold {
                        //@ proof { assert forall|k: int| delete_pos <= k < delete_pos + match_len implies (#[trigger] delete_group@[k]) < del.len() by { lemma_run_elem(delete_group@, del, k); } }
                        let matched_inserted = insert_group[insert_pos..insert_pos + match_len]
                            .opq_clone_inserted(inserted_lines);
                        let matched_deleted = delete_group[delete_pos..delete_pos + match_len]
                            .opq_clone_deleted(deleted_lines);

                        //@ let ghost ms0 = mappings@;
                        mappings.push(MoveMapping {
                            deletion_group_index: delete_group_idx,
                            insertion_group_index: insert_group_idx,
                            deleted: matched_deleted,
                            inserted: matched_inserted,
                        });
                        //@ let ghost m = mappings@[ms0.len() as int];
                        //@ proof {
                        //@     assert(mappings@ =~= ms0.push(m));
                        //@     assert(map_ok(m, insert_pos as int, delete_pos as int, ig, dg, ins, del, th));
                        //@     lemma_maps_push(ms0, w, m, insert_pos as int, delete_pos as int, ig, dg, ins, del, th);
                        //@     w = w.push((insert_pos as int, delete_pos as int));
                        //@ }

                        if insert_iter >= insert_group.len() {
                            //@ proof { lemma_bounded_weaken(mappings@, w, insert_group_idx as int, insert_pos + match_len, gi_ as int, 0); }
                            continue 'insert_groups;
                        } else {
                            insert_pos = insert_iter;
                            advanced = true;
                            break;
                        }
                    }
                }
                }
            }

            if !advanced {
                //@ proof { lemma_bounded_weaken(mappings@, w, insert_group_idx as int, insert_pos as int, insert_group_idx as int, insert_pos + 1); }
                insert_pos += 1;
            }
        }
//@             proof { lemma_bounded_weaken(mappings@, w, insert_group_idx as int, insert_pos as int, gi_ as int, 0); }
//@         }
//@     }
//@     proof { assert(maps_ok(mappings@, w, ig, dg, ins, del, th)); }
//@     mappings
//@ }
//#end

// ---------------------------------------------------------------- detect_moves
/// the stub that stands for the labelled `for` loop of detect_moves: its contract is the contract PROVED for region match_loop
#[verifier::external_body]
fn opq_match_loop(inserted_lines: &[InsertedLine], deleted_lines: &[DeletedLine], threshold: usize, inserted_groups: &Vec<Vec<usize>>, deleted_groups: &Vec<Vec<usize>>, deletion_lookup: &HashMap<u64, Vec<(usize, usize)>>) -> (r: Vec<MoveMapping>)
    requires loop_pre(inserted_lines@, deleted_lines@, threshold as int, inserted_groups@, deleted_groups@, deletion_lookup@),
    ensures loop_post(r@, inserted_lines@, deleted_lines@, threshold as int, inserted_groups@, deleted_groups@),
{ unimplemented!() }
/// x has the line number and content of some element of s
pub closed spec fn from_old<T: LineRecord>(x: T, s: Seq<T>) -> bool { exists|j: int| 0 <= j < s.len() && x.sp_line() == (#[trigger] s[j]).sp_line() && x.sp_content() == s[j].sp_content() }
pub closed spec fn normalized_sorted<T: LineRecord>(now: Seq<T>, before: Seq<T>) -> bool {
    now.len() == before.len()
    && (forall|i: int| 0 <= i < now.len() ==> from_old(#[trigger] now[i], before) && now[i].sp_norm() == trim_of(now[i].sp_content()))
    && (forall|i: int, j: int| 0 <= i <= j < now.len() ==> (#[trigger] now[i]).sp_line() <= (#[trigger] now[j]).sp_line())
}
proof fn lemma_bounded_kept<T: LineRecord>(now: Seq<T>, before: Seq<T>)
    requires normalized_sorted(now, before), lines_bounded(before),
    ensures lines_bounded(now),
{
    assert forall|i: int| 0 <= i < now.len() implies (#[trigger] now[i]).sp_line() < usize::MAX by {
        assert(from_old(now[i], before));
        let j = choose|j: int| 0 <= j < before.len() && now[i].sp_line() == (#[trigger] before[j]).sp_line() && now[i].sp_content() == before[j].sp_content();
        assert(before[j].sp_line() < usize::MAX);
    }
}

/// `lines.sort_by_key(|line| line.line_number())`: documented behaviour of slice::sort_by_key - a permutation, ordered by the key
#[verifier::external_body]
fn opq_sort_by_line<T: LineRecord>(lines: &mut [T])
    ensures final(lines)@.len() == old(lines)@.len(), final(lines)@.to_multiset() == old(lines)@.to_multiset(),
        forall|i: int, j: int| 0 <= i <= j < final(lines)@.len() ==> (#[trigger] final(lines)@[i]).sp_line() <= (#[trigger] final(lines)@[j]).sp_line(),
{ unimplemented!() }
/// `s.trim()`: an uninterpreted function of the text
#[verifier::external_body]
fn opq_trim(s: &str) -> (r: &str)
    ensures r@ == trim_of(s@),
{ unimplemented!() }
proof fn lemma_perm_elem<T>(a: Seq<T>, b: Seq<T>, i: int)
    requires a.to_multiset() == b.to_multiset(), 0 <= i < a.len(),
    ensures exists|j: int| 0 <= j < b.len() && #[trigger] b[j] == a[i],
{
    a.to_multiset_ensures(); b.to_multiset_ensures();
    assert(a.contains(a[i]));
    assert(a.to_multiset().count(a[i]) > 0);
    assert(b.to_multiset().count(a[i]) > 0);
    assert(b.contains(a[i]));
}
/// line `now` is line `was` with its normalized content set
pub closed spec fn norm_done<T: LineRecord>(now: T, was: T) -> bool { now.sp_line() == was.sp_line() && now.sp_content() == was.sp_content() && now.sp_norm() == trim_of(was.sp_content()) }

//#item file=src/authorship/move_detection.rs kind=fn name=sort_and_normalize opaque='[{"expr": "lines.sort_by_key(|line| line.line_number())", "call": "opq_sort_by_line(lines)"}, {"expr": "line.content().trim()", "call": "opq_trim(line.content())"}]'
fn sort_and_normalize<T: LineRecord>(lines: &mut [T])
//@     ensures normalized_sorted(final(lines)@, old(lines)@),
{
    //@ let ghost l0 = lines@;
    opq_sort_by_line(lines);
    //@ let ghost l1 = lines@;
    for line in it_0: lines.iter_mut()
    //@     invariant
    //@         it_0.snapshot@.remaining().len() == l1.len(), forall|i: int| 0 <= i < l1.len() ==> *(#[trigger] it_0.snapshot@.remaining()[i]) == l1[i],
    //@         forall|i: int| 0 <= i < it_0.index@ ==> norm_done(*final(#[trigger] it_0.snapshot@.remaining()[i]), l1[i]),
    {
        //@ let ghost k = it_0.index@;
        //@ proof { assert(*line == l1[k]); assert(*final(line) == *final(it_0.snapshot@.remaining()[k])); }
        let normalized = opq_trim(line.content()).to_string();
        line.set_normalized_content(normalized);
    }
    //@ proof {
    //@     let l2 = lines@;
    //@     assert forall|i: int| 0 <= i < l2.len() implies from_old(#[trigger] l2[i], l0) && l2[i].sp_norm() == trim_of(l2[i].sp_content()) by {
    //@         assert(norm_done(l2[i], l1[i]));
    //@         lemma_perm_elem(l1, l0, i);
    //@         let j = choose|j: int| 0 <= j < l0.len() && #[trigger] l0[j] == l1[i];
    //@         assert(l2[i].sp_line() == l0[j].sp_line() && l2[i].sp_content() == l0[j].sp_content());
    //@     }
    //@     assert forall|i: int, j: int| 0 <= i <= j < l2.len() implies (#[trigger] l2[i]).sp_line() <= (#[trigger] l2[j]).sp_line() by { assert(norm_done(l2[i], l1[i]) && norm_done(l2[j], l1[j])); }
    //@ }
}
//#end

/// what detect_moves returns, relative to the (sorted, normalized) line lists it leaves behind: there are insertion groups ig and
/// deletion groups dg (well-formed, disjoint, ordered) and start positions w such that every mapping is a stretch of >= th positions
/// of one insertion group paired with an equally long stretch of one deletion group, line by line with EQUAL normalized content,
/// and the stretches of different mappings are disjoint on the insertion side
pub closed spec fn moves_ok(r: Seq<MoveMapping>, ig: Seq<Vec<usize>>, dg: Seq<Vec<usize>>, w: Seq<(int, int)>, ins: Seq<InsertedLine>, del: Seq<DeletedLine>, th: int) -> bool {
    groups_ok(ig, ins, th) && groups_ok(dg, del, th) && maps_ok(r, w, ig, dg, ins, del, th)
}
proof fn lemma_moves_none(ins: Seq<InsertedLine>, del: Seq<DeletedLine>, th: int)
    ensures moves_ok(Seq::<MoveMapping>::empty(), Seq::<Vec<usize>>::empty(), Seq::<Vec<usize>>::empty(), Seq::<(int, int)>::empty(), ins, del, th),
{
    lemma_groups_empty(ins, th, 0); lemma_groups_empty(del, th, 0);
    lemma_maps_empty(Seq::<Vec<usize>>::empty(), Seq::<Vec<usize>>::empty(), ins, del, th, 0, 0);
}

/// precondition of detect_moves (an ASSUMPTION about its callers): no line number is usize::MAX (`prev + 1` in build_groups)
pub open spec fn ins_bounded(s: Seq<InsertedLine>) -> bool { forall|i: int| 0 <= i < s.len() ==> (#[trigger] s[i]).line_number < usize::MAX }
pub open spec fn del_bounded(s: Seq<DeletedLine>) -> bool { forall|i: int| 0 <= i < s.len() ==> (#[trigger] s[i]).line_number < usize::MAX }

//#item file=src/authorship/move_detection.rs kind=fn name=detect_moves opaque='[{"stmt_from": "\u0027insert_groups: for (insert_group_idx, insert_group) in inserted_groups.iter().enumerate() {", "call": "mappings = opq_match_loop(inserted_lines, deleted_lines, threshold, &inserted_groups, &deleted_groups, &deletion_lookup);"}]'
pub fn detect_moves(
    inserted_lines: &mut [InsertedLine],
    deleted_lines: &mut [DeletedLine],
    threshold: usize,
) -> (r_: Vec<MoveMapping>)
//@     requires ins_bounded(old(inserted_lines)@), del_bounded(old(deleted_lines)@),
//@     ensures
//@         threshold == 0 ==> r_@.len() == 0,
//@         final(inserted_lines)@.len() == old(inserted_lines)@.len(), final(deleted_lines)@.len() == old(deleted_lines)@.len(),
//@         threshold > 0 ==> normalized_sorted(final(inserted_lines)@, old(inserted_lines)@) && normalized_sorted(final(deleted_lines)@, old(deleted_lines)@),
//@         exists|ig: Seq<Vec<usize>>, dg: Seq<Vec<usize>>, w: Seq<(int, int)>| moves_ok(r_@, ig, dg, w, final(inserted_lines)@, final(deleted_lines)@, threshold as int),
{
    if threshold == 0 {
        //@ proof { lemma_moves_none(inserted_lines@, deleted_lines@, threshold as int); }
        return Vec::new();
    }

    //@ let ghost ins0 = inserted_lines@; let ghost del0 = deleted_lines@;
    //@ proof { assert(lines_bounded(ins0)); assert(lines_bounded(del0)); }
    sort_and_normalize(inserted_lines);
    sort_and_normalize(deleted_lines);
    //@ proof { lemma_bounded_kept(inserted_lines@, ins0); lemma_bounded_kept(deleted_lines@, del0); }

    let threshold = threshold.max(1);
    let inserted_groups = build_groups(inserted_lines, threshold);
    let deleted_groups = build_groups(deleted_lines, threshold);

    if inserted_groups.is_empty() || deleted_groups.is_empty() {
        //@ proof { lemma_moves_none(inserted_lines@, deleted_lines@, threshold as int); }
        return Vec::new();
    }

    let deletion_lookup = build_deletion_lookup(deleted_lines, &deleted_groups);
    let mut mappings = Vec::new();

    mappings = opq_match_loop(inserted_lines, deleted_lines, threshold, &inserted_groups, &deleted_groups, &deletion_lookup);

    //@ proof {
    //@     let w = choose|w: Seq<(int, int)>| maps_ok(mappings@, w, inserted_groups@, deleted_groups@, inserted_lines@, deleted_lines@, threshold as int);
    //@     assert(moves_ok(mappings@, inserted_groups@, deleted_groups@, w, inserted_lines@, deleted_lines@, threshold as int));
    //@ }
    mappings
}
//#end

// ---------------------------------------------------------------- C16 "conservative", user-level: what a caller can rely on
/// index (into the sorted inserted lines) of the k-th inserted line of mapping a / of its deleted partner
pub closed spec fn src_ins(r: Seq<MoveMapping>, w: Seq<(int, int)>, ig: Seq<Vec<usize>>, a: int, k: int) -> int { ig[r[a].insertion_group_index as int]@[w[a].0 + k] as int }
pub closed spec fn src_del(r: Seq<MoveMapping>, w: Seq<(int, int)>, dg: Seq<Vec<usize>>, a: int, k: int) -> int { dg[r[a].deletion_group_index as int]@[w[a].1 + k] as int }
proof fn lemma_pair(r: Seq<MoveMapping>, ig: Seq<Vec<usize>>, dg: Seq<Vec<usize>>, w: Seq<(int, int)>, ins: Seq<InsertedLine>, del: Seq<DeletedLine>, th: int, a: int, k: int)
    requires moves_ok(r, ig, dg, w, ins, del, th), 0 <= a < r.len(), 0 <= k < r[a].inserted@.len(),
    ensures
        r[a].deleted@.len() == r[a].inserted@.len() >= th, r[a].insertion_group_index < ig.len(), r[a].deletion_group_index < dg.len(),
        0 <= src_ins(r, w, ig, a, k) < ins.len(), 0 <= src_del(r, w, dg, a, k) < del.len(),
        iv(r[a].inserted@[k]) == iv(ins[src_ins(r, w, ig, a, k)]), dv(r[a].deleted@[k]) == dv(del[src_del(r, w, dg, a, k)]),
        r[a].inserted@[k].normalized_content@ == r[a].deleted@[k].normalized_content@, r[a].inserted@[k].normalized_content@.len() > 0,
        k + 1 < r[a].inserted@.len() ==> r[a].inserted@[k + 1].line_number == r[a].inserted@[k].line_number + 1 && r[a].deleted@[k + 1].line_number == r[a].deleted@[k].line_number + 1
            && src_ins(r, w, ig, a, k) < src_ins(r, w, ig, a, k + 1),
{
    reveal(maps_ok);
    let m = r[a]; let gi = m.insertion_group_index as int; let gd = m.deletion_group_index as int; let pi = w[a].0; let pd = w[a].1;
    assert(map_ok(m, pi, pd, ig, dg, ins, del, th));
    assert(run_ok(ig[gi]@, ins)); assert(run_ok(dg[gd]@, del));
    lemma_run_elem(ig[gi]@, ins, pi + k); lemma_run_elem(dg[gd]@, del, pd + k);
    assert(ig[gi]@[pi + k] < ins.len());
    assert(iv(m.inserted@[k]) == iv(ins[ig[gi]@[pi + k] as int]));
    assert(dv(m.deleted@[k]) == dv(del[dg[gd]@[pd + k] as int]));
    if k + 1 < m.inserted@.len() {
        lemma_run_step(ig[gi]@, ins, pi + k); lemma_run_step(dg[gd]@, del, pd + k);
        assert(iv(m.inserted@[k + 1]) == iv(ins[ig[gi]@[pi + (k + 1)] as int]));
        assert(dv(m.deleted@[k + 1]) == dv(del[dg[gd]@[pd + (k + 1)] as int]));
    }
}
/// no line of the inserted list is carried by two mappings (mapping a's stretch lies entirely before mapping b's, a < b)
proof fn lemma_disjoint(r: Seq<MoveMapping>, ig: Seq<Vec<usize>>, dg: Seq<Vec<usize>>, w: Seq<(int, int)>, ins: Seq<InsertedLine>, del: Seq<DeletedLine>, th: int, a: int, b: int, k: int, l: int)
    requires moves_ok(r, ig, dg, w, ins, del, th), 0 <= a < b < r.len(), 0 <= k < r[a].inserted@.len(), 0 <= l < r[b].inserted@.len(),
    ensures src_ins(r, w, ig, a, k) < src_ins(r, w, ig, b, l),
{
    reveal(maps_ok); reveal(groups_ordered);
    let ma = r[a]; let mb = r[b];
    assert(map_ok(ma, w[a].0, w[a].1, ig, dg, ins, del, th)); assert(map_ok(mb, w[b].0, w[b].1, ig, dg, ins, del, th));
    assert(before(ma, w[a].0, mb, w[b].0));
    let ga = ma.insertion_group_index as int; let gb = mb.insertion_group_index as int;
    if ga == gb { assert(run_ok(ig[ga]@, ins)); lemma_run_mono(ig[ga]@, ins, w[a].0 + k, w[b].0 + l); }
    else { assert(ig[ga]@[w[a].0 + k] < ig[gb]@[w[b].0 + l]); }
}
/// C16, the part of "conservative" the move detector is responsible for: every mapping pairs equally many (>= threshold, and none
/// when the threshold is 0) inserted and deleted lines; the k-th inserted and the k-th deleted line have EQUAL non-empty normalized
/// content (a move never carries an author onto text with different content); both sides are runs of consecutive line numbers;
/// every line of a mapping is a copy of a line of the list handed in; no inserted line occurs in two mappings.
proof fn theorem_moves_conservative(r: Seq<MoveMapping>, ig: Seq<Vec<usize>>, dg: Seq<Vec<usize>>, w: Seq<(int, int)>, ins: Seq<InsertedLine>, del: Seq<DeletedLine>, th: int)
    requires moves_ok(r, ig, dg, w, ins, del, th),
    ensures
        forall|a: int| 0 <= a < r.len() ==> (#[trigger] r[a]).deleted@.len() == r[a].inserted@.len() && r[a].inserted@.len() >= th
            && r[a].insertion_group_index < ig.len() && r[a].deletion_group_index < dg.len(),
        forall|a: int, k: int| 0 <= a < r.len() && 0 <= k < r[a].inserted@.len() ==>
            (#[trigger] r[a].inserted@[k]).normalized_content@ == r[a].deleted@[k].normalized_content@ && r[a].inserted@[k].normalized_content@.len() > 0
            && 0 <= src_ins(r, w, ig, a, k) < ins.len() && iv(r[a].inserted@[k]) == iv(ins[src_ins(r, w, ig, a, k)])
            && 0 <= src_del(r, w, dg, a, k) < del.len() && dv(r[a].deleted@[k]) == dv(del[src_del(r, w, dg, a, k)]),
        forall|a: int, k: int| 0 <= a < r.len() && 0 <= k && k + 1 < r[a].inserted@.len() ==>
            r[a].inserted@[k + 1].line_number == (#[trigger] r[a].inserted@[k]).line_number + 1 && r[a].deleted@[k + 1].line_number == r[a].deleted@[k].line_number + 1,
        forall|a: int, b: int, k: int, l: int| 0 <= a < b < r.len() && 0 <= k < r[a].inserted@.len() && 0 <= l < r[b].inserted@.len() ==>
            src_ins(r, w, ig, a, k) < src_ins(r, w, ig, b, l),
{
    assert forall|a: int| 0 <= a < r.len() implies (#[trigger] r[a]).deleted@.len() == r[a].inserted@.len() && r[a].inserted@.len() >= th
            && r[a].insertion_group_index < ig.len() && r[a].deletion_group_index < dg.len() by {
        reveal(maps_ok); assert(map_ok(r[a], w[a].0, w[a].1, ig, dg, ins, del, th));
    }
    assert forall|a: int, k: int| 0 <= a < r.len() && 0 <= k < r[a].inserted@.len() implies
            (#[trigger] r[a].inserted@[k]).normalized_content@ == r[a].deleted@[k].normalized_content@ && r[a].inserted@[k].normalized_content@.len() > 0
            && 0 <= src_ins(r, w, ig, a, k) < ins.len() && iv(r[a].inserted@[k]) == iv(ins[src_ins(r, w, ig, a, k)])
            && 0 <= src_del(r, w, dg, a, k) < del.len() && dv(r[a].deleted@[k]) == dv(del[src_del(r, w, dg, a, k)]) by { lemma_pair(r, ig, dg, w, ins, del, th, a, k); }
    assert forall|a: int, k: int| 0 <= a < r.len() && 0 <= k && k + 1 < r[a].inserted@.len() implies
            r[a].inserted@[k + 1].line_number == (#[trigger] r[a].inserted@[k]).line_number + 1 && r[a].deleted@[k + 1].line_number == r[a].deleted@[k].line_number + 1 by { lemma_pair(r, ig, dg, w, ins, del, th, a, k); }
    assert forall|a: int, b: int, k: int, l: int| 0 <= a < b < r.len() && 0 <= k < r[a].inserted@.len() && 0 <= l < r[b].inserted@.len() implies
            src_ins(r, w, ig, a, k) < src_ins(r, w, ig, b, l) by { lemma_disjoint(r, ig, dg, w, ins, del, th, a, b, k, l); }
}

} // verus!
fn main() {}
