// Replay driver for unit pchead: the ORIGINAL text of PromptStorageMode::from_str, Config::should_exclude_prompts,
// Config::effective_prompt_storage, region cfg_prompt_modes of build_config, regions pc_head / pc_scan of post_commit,
// batch_upsert_prompts_to_db and region cas_one of enqueue_prompt_messages_to_cas, against stand-ins for glob patterns, the
// repository's remotes, the private storage, the prompt database and the logs that answer from a PLAN, record every effect
// into a TRACE and fail where the plan says.  The oracles are written from the property statements (C08: conversation text may
// stay in a note only when the governing setting literally says `notes` and the repository is not excluded; C01/C04: the working
// log read is the one of the base handed in; C07: the prompt database is a cache - its failure is logged and changes nothing
// else), not by re-running the code's branches.
#![allow(dead_code, unused)]
use std::cell::{Cell, RefCell};
use std::collections::{BTreeMap, BTreeSet, HashMap, HashSet};
use std::panic::{catch_unwind, AssertUnwindSafe};
use crate::items::{Checkpoint, CheckpointKind, AgentId, CheckpointLineStats, PromptStorageMode};

#[derive(Debug, Clone, PartialEq)]
pub enum GitAiError { Generic(String) }
impl std::fmt::Display for GitAiError { fn fmt(&self, f: &mut std::fmt::Formatter<'_>) -> std::fmt::Result { write!(f, "{:?}", self) } }

// ---------------------------------------------------------------------------------------------- part A stand-ins
#[derive(Clone, Debug)]
pub struct Pattern(pub String);
impl Pattern {
    pub fn as_str(&self) -> &str { &self.0 }
    pub fn matches(&self, s: &str) -> bool { match self.0.strip_suffix('*') { Some(p) => s.starts_with(p), None => s == self.0 } }
}
#[derive(Clone, Debug)]
pub struct Repository { pub remotes: Option<Vec<(String, String)>>, pub storage: RepoStorage }
impl Repository { pub fn remotes_with_urls(&self) -> Result<Vec<(String, String)>, String> { self.remotes.clone().ok_or("git failed".to_string()) } }
pub struct Config {
    pub exclude_prompts_in_repositories: Vec<Pattern>,
    pub include_prompts_in_repositories: Vec<Pattern>,
    pub prompt_storage: String,
    pub default_prompt_storage: Option<String>,
}
pub struct FileConfig { pub prompt_storage: Option<String>, pub default_prompt_storage: Option<String> }

// ---------------------------------------------------------------------------------------------- the world of parts B .. E
#[derive(Debug, Clone, PartialEq)]
pub enum Ev {
    WlFor(String),
    Read(String),
    Db { stamps: Vec<u64>, commit: String, workdir: String },
    DbOpen,
    Warn(String),
    ErrLog,
    Write { base: String, marks: Vec<String> },
    Va { base: String, human: Option<String> },
    Cas(Vec<String>),
}
#[derive(Debug, Clone, Default)]
pub struct Plan { pub fail_read: bool, pub fail_db: u8 /* 0 none, 1 global(), 2 lock, 3 upsert */, pub fail_write: bool, pub fail_va: bool, pub fail_json: bool, pub fail_cas: bool }
thread_local! {
    static TRACE: RefCell<Vec<Ev>> = Default::default();
    static PLAN: RefCell<Plan> = Default::default();
    static STORE: RefCell<HashMap<String, Vec<Checkpoint>>> = Default::default();
}
fn plan() -> Plan { PLAN.with(|p| p.borrow().clone()) }
fn emit(e: Ev) { TRACE.with(|t| t.borrow_mut().push(e)); }
fn take_trace() -> Vec<Ev> { TRACE.with(|t| std::mem::take(&mut *t.borrow_mut())) }

#[derive(Debug, Clone, PartialEq)]
pub struct AiTranscript { pub tag: String }
#[derive(Debug, Clone, PartialEq)]
pub struct WorkingLogEntry { pub file: String, pub ai: bool }
#[derive(Debug, Clone, Default)]
pub struct RepoStorage { pub tag: String }
impl RepoStorage {
    pub fn working_log_for_base_commit(&self, sha: &str) -> crate::git::repo_storage::PersistedWorkingLog {
        emit(Ev::WlFor(sha.to_string()));
        crate::git::repo_storage::PersistedWorkingLog { base: sha.to_string(), repo_workdir: std::path::PathBuf::from("/work/tree") }
    }
}
pub mod git { pub mod repo_storage {
    use super::super::*;
    #[derive(Debug, Clone)]
    pub struct PersistedWorkingLog { pub base: String, pub repo_workdir: std::path::PathBuf }
    impl PersistedWorkingLog {
        pub fn read_all_checkpoints(&self) -> Result<Vec<Checkpoint>, GitAiError> {
            emit(Ev::Read(self.base.clone()));
            if plan().fail_read { return Err(GitAiError::Generic("injected: read".into())); }
            Ok(STORE.with(|s| s.borrow().get(&self.base).cloned().unwrap_or_default()))
        }
        pub fn write_all_checkpoints(&self, cs: &[Checkpoint]) -> Result<(), GitAiError> {
            emit(Ev::Write { base: self.base.clone(), marks: cs.iter().map(|c| c.api_version.clone()).collect() });
            if plan().fail_write { return Err(GitAiError::Generic("injected: write".into())); }
            Ok(())
        }
    }
} }
use crate::git::repo_storage::PersistedWorkingLog;
pub mod authorship { pub mod internal_db {
    use super::super::*;
    #[derive(Debug, Clone, PartialEq)]
    pub struct PromptDbRecord { pub stamp: u64, pub workdir: Option<String>, pub commit: Option<String> }
    impl PromptDbRecord {
        /// as documented: a record exists for a checkpoint with an agent id and a transcript
        pub fn from_checkpoint(c: &Checkpoint, workdir: Option<String>, commit_sha: Option<String>) -> Option<Self> {
            c.agent_id.as_ref()?; c.transcript.as_ref()?;
            Some(PromptDbRecord { stamp: c.timestamp, workdir, commit: commit_sha })
        }
    }
    pub struct Db;
    impl Db {
        pub fn batch_upsert_prompts(&mut self, recs: &[PromptDbRecord]) -> Result<(), GitAiError> {
            emit(Ev::Db { stamps: recs.iter().map(|r| r.stamp).collect(), commit: recs.iter().map(|r| r.commit.clone().unwrap_or("<none>".into())).collect::<BTreeSet<_>>().into_iter().collect::<Vec<_>>().join(","), workdir: recs.iter().map(|r| r.workdir.clone().unwrap_or("<none>".into())).collect::<BTreeSet<_>>().into_iter().collect::<Vec<_>>().join(",") });
            if plan().fail_db == 3 { return Err(GitAiError::Generic("injected: upsert".into())); }
            Ok(())
        }
        pub fn enqueue_cas_object(&mut self, v: &crate::serde_json::Value, meta: Option<&HashMap<String, String>>) -> Result<String, GitAiError> {
            if plan().fail_cas { return Err(GitAiError::Generic("injected: cas".into())); }
            emit(Ev::Cas(v.0.clone()));
            Ok(format!("h{}", v.0.len()))
        }
    }
    pub struct Handle;
    impl Handle { pub fn lock(&self) -> Result<Db, String> { if plan().fail_db == 2 { Err("poisoned".into()) } else { Ok(Db) } } }
    pub struct InternalDatabase;
    impl InternalDatabase {
        pub fn global() -> Result<Handle, GitAiError> { emit(Ev::DbOpen); if plan().fail_db == 1 { Err(GitAiError::Generic("injected: no database".into())) } else { Ok(Handle) } }
    }
} }
pub mod observability { use super::*; pub fn log_error(e: &GitAiError, ctx: Option<()>) { emit(Ev::ErrLog); } }
pub mod serde_json {
    use super::*;
    #[derive(Debug, Clone)] pub struct Value(pub Vec<String>);
    pub fn to_value(o: &crate::api::types::CasMessagesObject) -> Result<Value, String> { if plan().fail_json { Err("injected: json".into()) } else { Ok(Value(o.messages.clone())) } }
    macro_rules! json_ { ($($t:tt)*) => { () } }
    pub(crate) use json_ as json;
}
pub mod api { pub mod types { pub struct CasMessagesObject { pub messages: Vec<String> } } }
pub fn debug_log(s: &str) { emit(Ev::Warn(s.to_string())); }
#[derive(Debug, Clone, PartialEq)]
pub struct VirtualAttributions { pub base: String, pub human: Option<String> }
impl VirtualAttributions {
    pub fn from_just_working_log(repo: Repository, base: String, human: Option<String>) -> Result<Self, GitAiError> {
        emit(Ev::Va { base: base.clone(), human: human.clone() });
        if plan().fail_va { return Err(GitAiError::Generic("injected: va".into())); }
        Ok(VirtualAttributions { base, human })
    }
}
/// stand-in for update_prompts_to_latest (proved in unit pcflow): leaves a visible mark on every checkpoint it has seen
pub fn update_prompts_to_latest(cs: &mut [Checkpoint]) -> Result<(), GitAiError> { for c in cs.iter_mut() { c.api_version.push_str("+refreshed"); } Ok(()) }
/// stand-in for checkpoint_entry_requires_post_processing (proved in unit ckptentry): an AI checkpoint's entry or an entry marked AI
pub fn checkpoint_entry_requires_post_processing(c: &Checkpoint, e: &WorkingLogEntry) -> bool { c.kind != CheckpointKind::Human || e.ai }
#[derive(Debug, Clone, PartialEq)]
pub struct PromptRecord { pub messages: Vec<String>, pub messages_url: Option<String>, pub other: u32 }

pub mod items {
    use super::*;
    use crate::authorship::internal_db::Db;
    /// the original impl block is `impl std::str::FromStr for PromptStorageMode` (its `type Err = String;` line is not an item):
    /// a local `std::str::FromStr` carries the method, the real trait is implemented below by delegation
    mod std { pub use ::std::*; pub mod str { pub use ::std::str::*; pub trait ErrCarrier: Sized { type Err; } pub trait FromStr: ErrCarrier { fn from_str(input: &str) -> Result<Self, Self::Err>; } } }
    impl std::str::ErrCarrier for PromptStorageMode { type Err = String; }
    impl ::std::str::FromStr for PromptStorageMode { type Err = String; fn from_str(s: &str) -> Result<Self, String> { <Self as std::str::FromStr>::from_str(s) } }
    include!("@ITEMS@");
// (the rest of the driver lives inside `mod items` so that it can call the private original functions)

struct Ctx { evaluated: u64, failed: HashSet<String> }
impl Ctx {
    fn fail(&mut self, f: &str, clause: &str, input: String, observed: String, expected: String) {
        if self.failed.insert(format!("{}::{}", f, clause)) { println!("FAIL fn=[[{}]] clause=[[{}]] input=[[{}]] observed=[[{}]] expected=[[{}]]", f, clause, input, observed, expected); }
    }
}
fn guarded<T>(f: impl FnOnce() -> T) -> Result<T, String> {
    catch_unwind(AssertUnwindSafe(f)).map_err(|e| { let m = e.downcast_ref::<String>().cloned().or_else(|| e.downcast_ref::<&str>().map(|s| s.to_string())).unwrap_or_default(); format!("panic: {}", m) })
}
struct Rng(u64);
impl Rng { fn next(&mut self) -> u64 { self.0 ^= self.0 << 13; self.0 ^= self.0 >> 7; self.0 ^= self.0 << 17; self.0 } fn below(&mut self, n: u64) -> u64 { self.next() % n } }

// ============================================================================================== part A
const PATS: &[&str] = &["*", "https://github.com/acme/*", "git@corp:private.git", "https://mirror/*"];
const URLS: &[&str] = &["https://github.com/acme/app", "git@corp:private.git", "https://gitlab.com/me/x", "https://mirror/app"];
const WORDS: &[&str] = &["default", "notes", "local", "Notes", " notes ", "NOTES", "bogus", "", "note", "notes,local", "LOCAL", "n\u{00f8}tes"];
/// the setting text asks for notes: the word `notes`, give or take case and surrounding blanks
fn says_notes(s: &str) -> bool { s.trim().eq_ignore_ascii_case("notes") }
fn word_mode(s: &str) -> Option<PromptStorageMode> {
    let t = s.trim();
    if t.eq_ignore_ascii_case("default") { Some(PromptStorageMode::Default) } else if t.eq_ignore_ascii_case("notes") { Some(PromptStorageMode::Notes) } else if t.eq_ignore_ascii_case("local") { Some(PromptStorageMode::Local) } else { None }
}
fn mk_repo(repo: &str) -> (Option<Repository>, Option<Vec<(String, String)>>) {
    let urls: Option<Vec<(String, String)>> = match repo { "none" | "fail" => None, l => Some(l.split(',').filter(|x| !x.is_empty()).enumerate().map(|(k, i)| (format!("r{}", k), URLS[i.parse::<usize>().unwrap()].to_string())).collect()) };
    (if repo == "none" { None } else { Some(Repository { remotes: urls.clone(), storage: Default::default() }) }, urls)
}
fn pats(ix: &[usize]) -> Vec<Pattern> { ix.iter().map(|i| Pattern(PATS[*i].to_string())).collect() }
fn ixs(s: &str) -> Vec<usize> { s.split(',').filter(|x| !x.is_empty()).map(|x| x.parse().unwrap()).collect() }
fn join(v: &[usize]) -> String { v.iter().map(|i| i.to_string()).collect::<Vec<_>>().join(",") }
/// input: exclude pattern indices | include pattern indices | prompt_storage word index | default_prompt_storage word index or - | repo
fn chk_mode(c: &mut Ctx, ex: &[usize], inc: &[usize], ps: usize, dps: Option<usize>, repo: &str) {
    c.evaluated += 1;
    let input = format!("{}|{}|{}|{}|{}", join(ex), join(inc), ps, dps.map(|d| d.to_string()).unwrap_or("-".into()), repo);
    let cfg = Config { exclude_prompts_in_repositories: pats(ex), include_prompts_in_repositories: pats(inc), prompt_storage: WORDS[ps].to_string(), default_prompt_storage: dps.map(|d| WORDS[d].to_string()) };
    let (r, urls) = mk_repo(repo);
    let f = "Config::effective_prompt_storage";
    let got = match guarded(|| cfg.effective_prompt_storage(&r)) { Ok(g) => g, Err(p) => { c.fail(f, "safety", input, p, "no panic".into()); return; } };
    let any_match = |ps: &Vec<Pattern>| urls.as_ref().map(|u| u.iter().any(|(_, url)| ps.iter().any(|p| p.matches(url)))).unwrap_or(false);
    let star = |ix: &[usize]| ix.iter().any(|i| PATS[*i] == "*");
    let excluded = !ex.is_empty() && (star(ex) || any_match(&cfg.exclude_prompts_in_repositories));
    let has_remotes = urls.as_ref().map(|u| !u.is_empty()).unwrap_or(false);
    let included = if has_remotes { any_match(&cfg.include_prompts_in_repositories) } else { star(inc) };
    let governing: Option<&str> = if inc.is_empty() || included { Some(WORDS[ps]) } else { dps.map(|d| WORDS[d]) };
    // C08: conversation text may stay in notes only when not excluded and the governing setting says notes
    if got == PromptStorageMode::Notes && (excluded || !governing.map(says_notes).unwrap_or(false)) {
        c.fail(f, "ensures#1", input.clone(), format!("{:?}", got), format!("not Notes: excluded={} governing setting={:?}", excluded, governing));
    }
    // the documented resolution
    let want = if excluded { PromptStorageMode::Local } else if inc.is_empty() || included { word_mode(WORDS[ps]).unwrap_or(PromptStorageMode::Default) } else { dps.and_then(|d| word_mode(WORDS[d])).unwrap_or(PromptStorageMode::Local) };
    if got != want { c.fail(f, "ensures#0", input.clone(), format!("{:?}", got), format!("{:?}", want)); }
    let gx = cfg.should_exclude_prompts(&r);
    if gx != excluded { c.fail("Config::should_exclude_prompts", "ensures#0", input, format!("{}", gx), format!("{}", excluded)); }
}
fn chk_from_str(c: &mut Ctx, w: &str) {
    c.evaluated += 1;
    let f = "PromptStorageMode::from_str";
    let got = match guarded(|| w.parse::<PromptStorageMode>()) { Ok(g) => g, Err(p) => { c.fail(f, "safety", w.into(), p, "no panic".into()); return; } };
    let want = word_mode(w);
    if got.is_ok() != want.is_some() { c.fail(f, "ensures#0", w.into(), format!("{:?}", got), format!("{:?}", want)); }
    else if let (Ok(g), Some(x)) = (&got, &want) { if g != x { c.fail(f, "ensures#1", w.into(), format!("{:?}", g), format!("{:?}", x)); } }
    if got == Ok(PromptStorageMode::Notes) && !says_notes(w) { c.fail(f, "ensures#2", w.into(), "Notes".into(), "only the word notes means Notes".into()); }
}
/// input: file kind (n = no file) | prompt_storage word index or - | default_prompt_storage word index or -
fn chk_cfg(c: &mut Ctx, file: bool, ps: Option<usize>, dps: Option<usize>) {
    c.evaluated += 1;
    let input = format!("{}|{}|{}", if file { "f" } else { "n" }, ps.map(|d| d.to_string()).unwrap_or("-".into()), dps.map(|d| d.to_string()).unwrap_or("-".into()));
    let f = "region_cfg_prompt_modes";
    let fc = if file { Some(FileConfig { prompt_storage: ps.map(|i| WORDS[i].to_string()), default_prompt_storage: dps.map(|i| WORDS[i].to_string()) }) } else { None };
    let (gp, gd) = match guarded(|| region_cfg_prompt_modes(fc)) { Ok(g) => g, Err(p) => { c.fail(f, "safety", input, p, "no panic".into()); return; } };
    let exact = |w: &str| w == "default" || w == "notes" || w == "local";
    let fps = if file { ps.map(|i| WORDS[i]) } else { None };
    let fdps = if file { dps.map(|i| WORDS[i]) } else { None };
    let wp = match fps { Some(w) if exact(w) => w, _ => "default" };
    let wd = match fdps { Some(w) if exact(w) => Some(w.to_string()), _ => None };
    if gp != wp { c.fail(f, "ensures#0", input.clone(), gp.clone(), wp.into()); }
    if gd != wd { c.fail(f, "ensures#1", input.clone(), format!("{:?}", gd), format!("{:?}", wd)); }
    // end to end (theorem_notes_needs_the_word_in_the_file): a configuration built from this file keeps text in notes only if the file says so
    for inc in [vec![], vec![1usize]] {
        let cfg = Config { exclude_prompts_in_repositories: vec![], include_prompts_in_repositories: pats(&inc), prompt_storage: gp.clone(), default_prompt_storage: gd.clone() };
        for repo in ["none", "", "0", "2"] {
            let (r, _) = mk_repo(repo);
            if cfg.effective_prompt_storage(&r) == PromptStorageMode::Notes && !(fps.map(says_notes).unwrap_or(false) || fdps.map(says_notes).unwrap_or(false)) {
                c.fail(f, "theorem_notes_needs_the_word_in_the_file", format!("{}|inc={:?}|repo={}", input, inc, repo), "Notes".into(), "the file does not ask for notes".into());
            }
        }
    }
}

// ============================================================================================== parts B .. E
fn cp(stamp: u64, kind: u8, agent: Option<(&str, &str)>, transcript: bool, files: &[(&str, bool)]) -> Checkpoint {
    Checkpoint {
        kind: match kind { 0 => CheckpointKind::Human, 1 => CheckpointKind::AiAgent, _ => CheckpointKind::AiTab },
        diff: String::new(), author: "dev".into(),
        entries: files.iter().map(|(f, ai)| WorkingLogEntry { file: f.to_string(), ai: *ai }).collect(),
        timestamp: stamp, transcript: if transcript { Some(AiTranscript { tag: format!("t{}", stamp) }) } else { None },
        agent_id: agent.map(|(t, i)| AgentId { tool: t.into(), id: i.into(), model: "m".into() }),
        agent_metadata: None, line_stats: CheckpointLineStats { additions: 0, deletions: 0, additions_sloc: 0, deletions_sloc: 0 },
        api_version: format!("v{}", stamp), git_ai_version: None,
    }
}
const TOOLS: &[&str] = &["cursor", "claude"]; const IDS: &[&str] = &["s1", "s2"]; const FILES: &[&str] = &["a.rs", "b.rs", "c.rs"];
/// one checkpoint from a code: bits 0-1 kind, 2 agent present, 3 tool, 4 id, 5 transcript, 6-7 entry file, 8 entry ai, 9 second entry
fn cp_from(code: u64, stamp: u64) -> Checkpoint {
    let kind = (code & 3) as u8 % 3;
    let agent = if code & 4 != 0 { Some((TOOLS[((code >> 3) & 1) as usize], IDS[((code >> 4) & 1) as usize])) } else { None };
    let mut files = vec![(FILES[((code >> 6) % 3) as usize], code & 256 != 0)];
    if code & 512 != 0 { files.push((FILES[((code >> 7) % 3) as usize], code & 64 != 0)); }
    cp(stamp, kind, agent, code & 32 != 0, &files)
}
fn cps_from(codes: &[u64]) -> Vec<Checkpoint> { codes.iter().enumerate().map(|(i, c)| cp_from(*c, 100 + i as u64)).collect() }
fn codes_str(codes: &[u64]) -> String { codes.iter().map(|c| c.to_string()).collect::<Vec<_>>().join(",") }

/// input: base (- = root commit) | faults bits (1 read, 2 write, 4 va) + db fault *8 | codes of the checkpoints stored under the base
fn chk_head(c: &mut Ctx, base: Option<&str>, faults: u8, codes: &[u64]) {
    c.evaluated += 1;
    let input = format!("{}|{}|{}", base.unwrap_or("-"), faults, codes_str(codes));
    let f = "region_pc_head";
    let want_base = base.unwrap_or("initial").to_string();
    // the storage holds working logs for several bases: the commit's first parent (or `initial`), a second parent, the new commit
    let mine = cps_from(codes);
    STORE.with(|s| { let mut s = s.borrow_mut(); s.clear();
        s.insert(want_base.clone(), mine.clone());
        s.insert("second-parent".into(), vec![cp(900, 1, Some(("cursor", "other")), true, &[("zz.rs", true)])]);
        s.insert("newsha".into(), vec![cp(901, 1, Some(("cursor", "other2")), true, &[("yy.rs", true)])]);
        if want_base != "initial" { s.insert("initial".into(), vec![cp(902, 1, Some(("cursor", "other3")), true, &[("xx.rs", true)])]); } });
    PLAN.with(|p| *p.borrow_mut() = Plan { fail_read: faults & 1 != 0, fail_write: faults & 2 != 0, fail_va: faults & 4 != 0, fail_db: faults >> 3, ..Default::default() });
    take_trace();
    let repo = Repository { remotes: Some(vec![]), storage: RepoStorage { tag: "st".into() } };
    let r = guarded(|| region_pc_head(&repo, base.map(|b| b.to_string()), "newsha".to_string(), "Dev <dev@x>".to_string()));
    let t = take_trace();
    let r = match r { Ok(r) => r, Err(p) => { c.fail(f, "safety", input, p, "no panic".into()); return; } };
    // C01/C04: only the working log of the base handed in (or `initial`) is opened / read / written / used for attribution
    for e in &t {
        let b = match e { Ev::WlFor(b) | Ev::Read(b) => Some(b), Ev::Write { base, .. } => Some(base), Ev::Va { base, .. } => Some(base), _ => None };
        if let Some(b) = b { if *b != want_base { c.fail(f, "ensures#0", input.clone(), format!("{:?}", e), format!("only base {}", want_base)); } }
    }
    let ok_expected = faults & 7 == 0;
    // C07: the outcome does not depend on the prompt database
    if r.is_ok() != ok_expected { c.fail(f, "ensures#3", input.clone(), format!("ok={} ({:?})", r.is_ok(), r.as_ref().err()), format!("ok={} whatever the database does", ok_expected)); }
    let refreshed: Vec<String> = mine.iter().map(|c| format!("{}+refreshed", c.api_version)).collect();
    if let Ok((parent, wl, pwl, va)) = &r {
        if *parent != want_base || wl.base != want_base { c.fail(f, "ensures#0", input.clone(), format!("{} / {}", parent, wl.base), want_base.clone()); }
        if pwl.iter().map(|c| c.api_version.clone()).collect::<Vec<_>>() != refreshed { c.fail(f, "ensures#1", input.clone(), format!("{:?}", pwl.iter().map(|c| c.api_version.clone()).collect::<Vec<_>>()), format!("{:?}", refreshed)); }
        if *va != (VirtualAttributions { base: want_base.clone(), human: Some("Dev <dev@x>".into()) }) { c.fail(f, "ensures#2", input.clone(), format!("{:?}", va), "the base's log with the author handed in".into()); }
    }
    if faults & 1 != 0 && t.iter().any(|e| matches!(e, Ev::Db { .. } | Ev::DbOpen | Ev::Write { .. } | Ev::Cas(_))) { c.fail(f, "ensures#6", input.clone(), format!("{:?}", t), "nothing written when the working log cannot be read".into()); }
    if faults & 1 == 0 {
        // what is written back is the refreshed form of what was read, once, and the database (if asked) is asked for THIS commit
        let writes: Vec<&Ev> = t.iter().filter(|e| matches!(e, Ev::Write { .. })).collect();
        if writes.len() != 1 || *writes[0] != (Ev::Write { base: want_base.clone(), marks: refreshed.clone() }) { c.fail(f, "ensures#5", input.clone(), format!("{:?}", writes), "one write of the refreshed checkpoints to the same working log".into()); }
        for e in &t { if let Ev::Db { commit, .. } = e { if commit != "newsha" { c.fail(f, "ensures#5", input.clone(), format!("{:?}", e), "database rows for the new commit".into()); } } }
        let db_failed = faults >> 3 != 0 && t.iter().any(|e| matches!(e, Ev::DbOpen));
        let logged = t.iter().any(|e| matches!(e, Ev::Warn(_))) && t.iter().any(|e| matches!(e, Ev::ErrLog));
        if db_failed && !logged { c.fail(f, "ensures#4", input.clone(), format!("{:?}", t), "a database failure is logged (warning + error record)".into()); }
        if !db_failed && t.iter().any(|e| matches!(e, Ev::ErrLog)) { c.fail(f, "ensures#4", input.clone(), format!("{:?}", t), "no error record without a failure".into()); }
    }
}
/// input: db fault | codes
fn chk_upsert(c: &mut Ctx, fault: u8, codes: &[u64]) {
    c.evaluated += 1;
    let input = format!("{}|{}", fault, codes_str(codes));
    let f = "batch_upsert_prompts_to_db";
    let cs = cps_from(codes);
    PLAN.with(|p| *p.borrow_mut() = Plan { fail_db: fault, ..Default::default() });
    take_trace();
    let wl = PersistedWorkingLog { base: "p".into(), repo_workdir: std::path::PathBuf::from("/work/tree") };
    let r = guarded(|| batch_upsert_prompts_to_db(&cs, &wl, "newsha"));
    let t = take_trace();
    let r = match r { Ok(r) => r, Err(p) => { c.fail(f, "safety", input, p, "no panic".into()); return; } };
    // expected rows: per conversation (tool, id) of the AI checkpoints the LAST one, if it has a transcript
    let mut last: BTreeMap<(String, String), usize> = BTreeMap::new();
    for (i, k) in cs.iter().enumerate() { if k.kind != CheckpointKind::Human { if let Some(a) = &k.agent_id { last.insert((a.tool.clone(), a.id.clone()), i); } } }
    let want: BTreeSet<u64> = last.values().filter(|i| cs[**i].transcript.is_some()).map(|i| cs[*i].timestamp).collect();
    let dbs: Vec<&Ev> = t.iter().filter(|e| matches!(e, Ev::Db { .. })).collect();
    if want.is_empty() {
        if !t.is_empty() || r.is_err() { c.fail(f, "ensures#0", input.clone(), format!("{:?} {:?}", r, t), "nothing to store: Ok, database untouched".into()); }
        return;
    }
    if fault == 0 || fault == 3 {
        let ok = dbs.len() == 1 && match dbs[0] { Ev::Db { stamps, commit, workdir } => stamps.iter().cloned().collect::<BTreeSet<u64>>() == want && stamps.len() == want.len() && commit == "newsha" && workdir == "/work/tree", _ => false };
        if !ok { c.fail(f, "pre@opq_db_upsert#0", input.clone(), format!("{:?}", dbs), format!("one upsert of the latest AI checkpoint of each conversation {:?} for commit newsha", want)); }
    } else if !dbs.is_empty() { c.fail(f, "pre@opq_db_upsert#0", input.clone(), format!("{:?}", dbs), "no upsert without a database".into()); }
    if (fault == 0) != r.is_ok() { c.fail(f, "ensures#err", input.clone(), format!("{:?}", r), "Err exactly when the database fails (reported, not swallowed, not a panic)".into()); }
}
/// input: initial set (file indices) | codes
fn chk_scan(c: &mut Ctx, init: &[usize], codes: &[u64]) {
    c.evaluated += 1;
    let input = format!("{}|{}", join(init), codes_str(codes));
    let f = "region_pc_scan";
    let cs = cps_from(codes);
    let p0: HashSet<String> = init.iter().map(|i| FILES[*i].to_string()).collect();
    let got = match guarded(|| region_pc_scan(p0.clone(), cs.clone())) { Ok(g) => g, Err(p) => { c.fail(f, "safety", input, p, "no panic".into()); return; } };
    let mut want = p0.clone();
    for k in &cs { for e in &k.entries { if k.kind != CheckpointKind::Human || e.ai { want.insert(e.file.clone()); } } }
    if got != want { let mut g: Vec<_> = got.into_iter().collect(); g.sort(); let mut w: Vec<_> = want.into_iter().collect(); w.sort(); c.fail(f, "ensures#0", input, format!("{:?}", g), format!("{:?}", w)); }
}
/// input: number of messages | faults (1 json, 2 cas)
fn chk_cas(c: &mut Ctx, n: usize, faults: u8) {
    c.evaluated += 1;
    let input = format!("{}|{}", n, faults);
    let f = "region_cas_one";
    PLAN.with(|p| *p.borrow_mut() = Plan { fail_json: faults & 1 != 0, fail_cas: faults & 2 != 0, ..Default::default() });
    take_trace();
    let p0 = PromptRecord { messages: (0..n).map(|i| format!("secret talk {}", i)).collect(), messages_url: None, other: 7 };
    let mut p = p0.clone();
    let mut db = crate::authorship::internal_db::Db;
    let r = guarded(|| { let r = region_cas_one(&mut p, &mut db, HashMap::new(), "https://api"); (r, p) });
    let t = take_trace();
    let (r, p) = match r { Ok(x) => x, Err(e) => { c.fail(f, "safety", input, e, "no panic".into()); return; } };
    if n == 0 && (r.is_err() || p != p0 || !t.is_empty()) { c.fail(f, "ensures#0", input.clone(), format!("{:?} {:?} {:?}", r, p, t), "a record without text is left alone".into()); }
    if r.is_ok() && (!p.messages.is_empty() || p.other != p0.other) { c.fail(f, "ensures#1", input.clone(), format!("{:?}", p), "no text left after a successful upload".into()); }
    if r.is_ok() && n > 0 && (t != vec![Ev::Cas(p0.messages.clone())] || p.messages_url.is_none()) { c.fail(f, "ensures#2", input.clone(), format!("{:?} {:?}", t, p), "exactly this record's text queued, url set".into()); }
    if r.is_err() && (p != p0 || !t.is_empty()) { c.fail(f, "ensures#3", input.clone(), format!("{:?} {:?}", p, t), "on failure nothing queued, text kept".into()); }
    if (n > 0 && faults != 0) != r.is_err() { c.fail(f, "ensures#3", input.clone(), format!("{:?}", r), "Err exactly when serialisation or the queue fails".into()); }
}

fn opt_ix(s: &str) -> Option<usize> { if s == "-" { None } else { Some(s.parse().unwrap()) } }
fn codes_of(s: &str) -> Vec<u64> { s.split(',').filter(|x| !x.is_empty()).map(|x| x.parse().unwrap()).collect() }
pub fn main() {
    let a: Vec<String> = std::env::args().collect();
    let mut c = Ctx { evaluated: 0, failed: Default::default() };
    std::panic::set_hook(Box::new(|_| {}));
    if a[1] == "search" {
        let which = a.get(2).map(|s| s.as_str()).unwrap_or("*").to_string();
        let all = which == "*";
        let seed: u64 = a.get(3).and_then(|s| s.parse().ok()).unwrap_or(0);
        let mut rng = Rng(0x9E3779B97F4A7C15 ^ (seed.wrapping_mul(0x2545F4914F6CDD1D) | 1));
        // the axiom about the three words, checked
        for w in ["default", "notes", "local"] { if w.trim().to_lowercase() != w { c.fail("axiom_trim_lower_mode_words", "axiom", w.into(), w.trim().to_lowercase(), w.into()); } }
        if all || which.contains("from_str") { for w in WORDS { chk_from_str(&mut c, w); } }
        if all || which.contains("effective_prompt_storage") || which.contains("should_exclude") {
            let ex_sets: Vec<Vec<usize>> = vec![vec![], vec![0], vec![1], vec![2, 3]];
            let inc_sets: Vec<Vec<usize>> = vec![vec![], vec![0], vec![1], vec![3, 2]];
            let repos = ["none", "fail", "", "0", "2", "1,2", "2,3"];
            for ex in &ex_sets { for inc in &inc_sets { for ps in 0..WORDS.len() { for dps in [None, Some(0usize), Some(1), Some(2), Some(5), Some(6)] { for r in repos { chk_mode(&mut c, ex, inc, ps, dps, r); } } } } }
        }
        if all || which.contains("cfg_prompt_modes") {
            let opts: Vec<Option<usize>> = std::iter::once(None).chain((0..WORDS.len()).map(Some)).collect();
            for file in [false, true] { for ps in &opts { for dps in &opts { chk_cfg(&mut c, file, *ps, *dps); } } }
        }
        if all || which.contains("pc_head") {
            for base in [None, Some("p1")] { for faults in 0..32u8 { for codes in [vec![], vec![37u64], vec![37, 0, 293], vec![45, 37, 61, 4]] { chk_head(&mut c, base, faults, &codes); } } }
            for _ in 0..300 { let n = rng.below(5) as usize; let codes: Vec<u64> = (0..n).map(|_| rng.below(1024)).collect(); chk_head(&mut c, if rng.below(2) == 0 { None } else { Some("p1") }, rng.below(32) as u8, &codes); }
        }
        if all || which.contains("batch_upsert") {
            for fault in 0..4u8 { for codes in [vec![], vec![0u64], vec![37], vec![36], vec![37, 37], vec![37, 5], vec![37, 36], vec![36, 37], vec![37, 45, 37, 53, 61]] { chk_upsert(&mut c, fault, &codes); } }
            for _ in 0..3000 { let n = rng.below(7) as usize; let codes: Vec<u64> = (0..n).map(|_| rng.below(64)).collect(); chk_upsert(&mut c, rng.below(4) as u8, &codes); }
        }
        if all || which.contains("pc_scan") {
            for _ in 0..3000 { let n = rng.below(5) as usize; let codes: Vec<u64> = (0..n).map(|_| rng.below(1024)).collect(); let init: Vec<usize> = (0..3).filter(|_| rng.below(3) == 0).collect(); chk_scan(&mut c, &init, &codes); }
        }
        if all || which.contains("cas_one") { for n in 0..4 { for faults in 0..4u8 { chk_cas(&mut c, n, faults); } } }
    } else {
        let f = a[2].as_str(); let p: Vec<&str> = a[3].split('|').collect();
        if f.contains("from_str") { chk_from_str(&mut c, &a[3]); }
        else if f.contains("effective_prompt_storage") || f.contains("should_exclude") { chk_mode(&mut c, &ixs(p[0]), &ixs(p[1]), p[2].parse().unwrap(), opt_ix(p[3]), p[4]); }
        else if f.contains("cfg_prompt_modes") { chk_cfg(&mut c, p[0] == "f", opt_ix(p[1]), opt_ix(p[2])); }
        else if f.contains("pc_head") { chk_head(&mut c, if p[0] == "-" { None } else { Some(p[0]) }, p[1].parse().unwrap(), &codes_of(p[2])); }
        else if f.contains("batch_upsert") { chk_upsert(&mut c, p[0].parse().unwrap(), &codes_of(p[1])); }
        else if f.contains("pc_scan") { chk_scan(&mut c, &ixs(p[0]), &codes_of(p[1])); }
        else if f.contains("cas_one") { chk_cas(&mut c, p[0].parse().unwrap(), p[1].parse().unwrap()); }
    }
    println!("DONE evaluated={}", c.evaluated);
}
} // mod items
fn main() { items::main() }
