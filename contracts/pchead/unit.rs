// Unit pchead — properties C08 / C01 / C07: the HEAD of post_commit (everything before the three-way split) and the resolution of the
// EFFECTIVE prompt storage mode that decides whether conversation text may stay in the note.
//   A (config.rs) PromptStorageMode::from_str, Config::should_exclude_prompts, Config::effective_prompt_storage (whole functions) and
//     region cfg_prompt_modes of build_config: the mode is `notes` ONLY for a repository that is not excluded and whose governing
//     setting (prompt_storage, or default_prompt_storage outside the include list) says `notes`; unset / default / local / any other
//     text / an excluded repository never give `notes` (theorem_notes_only_when_opted_in); the file's words are taken literally
//     (theorem_notes_needs_the_word_in_the_file).  Unit pcflow proves that messages stay in the note only in mode `notes`.
//   B region pc_head of post_commit, on a ghost trace of local effects: the working log read / rewritten / used for attribution is
//     the one of the base handed in (the first parent) or of `initial`; the prompt refresh comes before every use; the prompt
//     database is a cache (its failure is logged twice and changes neither the result nor the other effects); unattributed lines
//     go to the author the caller resolved; nothing shared is written.
//   C batch_upsert_prompts_to_db (whole function): the database is asked to store exactly the records of the LATEST AI checkpoint
//     of each conversation, for THIS commit; with nothing to store it is not even opened; the index into the checkpoints is in range.
//   D region pc_scan: the files handed to the split because of checkpoints are exactly those named by an entry that counts.
//   E region cas_one (one round of enqueue_prompt_messages_to_cas): text is cleared only after exactly that text was queued.
use vstd::prelude::*;
use vstd::std_specs::iter::IteratorSpec;
verus! {

// ================================================================================================ part A: the effective storage mode
/// stand-ins: glob::Pattern, the repository handle, Config / FileConfig (only the fields the mode resolution reads).
/// Opaque stand-ins are ABSTRACT types (external_body): a struct with only a unit field would have exactly one value, every
/// uninterpreted function over it would be a constant and two stub calls with different arguments would be contradictory.
#[verifier::external_body] pub struct Pattern { _o: () }
#[verifier::external_body] pub struct Repository { _o: () }
pub struct Config {
    pub exclude_prompts_in_repositories: Vec<Pattern>,
    pub include_prompts_in_repositories: Vec<Pattern>,
    pub prompt_storage: String,
    pub default_prompt_storage: Option<String>,
}
pub struct FileConfig { pub prompt_storage: Option<String>, pub default_prompt_storage: Option<String> }
//#item file=src/config.rs kind=enum name=PromptStorageMode derive=Clone,Copy,PartialEq,Eq
//@ #[derive(Structural)]
#[derive(Clone, Copy, PartialEq, Eq)]
pub enum PromptStorageMode {
    Default,
    Notes,
    Local,
}
//#end

pub uninterp spec fn is_star(p: Pattern) -> bool;                              // pattern.as_str() == "*"
pub uninterp spec fn pat_matches(p: Pattern, url: Seq<char>) -> bool;          // pattern.matches(url)
pub uninterp spec fn remotes_of(r: Option<Repository>) -> Option<Seq<(String, String)>>;   // remotes_with_urls().ok(), None without a repository
pub open spec fn has_star(ps: Seq<Pattern>) -> bool { exists|j: int| 0 <= j < ps.len() && is_star(#[trigger] ps[j]) }
/// SOME remote matches SOME pattern
pub open spec fn some_remote_matches(rs: Seq<(String, String)>, ps: Seq<Pattern>) -> bool {
    exists|i: int, j: int| 0 <= i < rs.len() && 0 <= j < ps.len() && pat_matches(#[trigger] ps[j], (#[trigger] rs[i]).1@)
}
#[verifier::external_body]
fn opq_has_wildcard(ps: &Vec<Pattern>) -> (r: bool)
    ensures r == has_star(ps@),
{ unimplemented!() }
#[verifier::external_body]
fn opq_remotes(r: &Option<Repository>) -> (o: Option<Vec<(String, String)>>)
    ensures o is Some <==> remotes_of(*r) is Some, o is Some ==> o->Some_0@ == remotes_of(*r)->Some_0,
{ unimplemented!() }
/// `remotes.iter().any(|remote| patterns.iter().any(|pattern| pattern.matches(&remote.1)))` (documented behaviour of Iterator::any)
#[verifier::external_body]
fn opq_any_remote_matches(rs: &Vec<(String, String)>, ps: &Vec<Pattern>) -> (r: bool)
    ensures r == some_remote_matches(rs@, ps@),
{ unimplemented!() }

/// the text of a setting after `trim().to_lowercase()` (uninterpreted: Unicode whitespace / case tables)
pub uninterp spec fn trim_lower(s: Seq<char>) -> Seq<char>;
#[verifier::external_body]
fn opq_trim_lower(s: &str) -> (r: String)
    ensures r@ == trim_lower(s@),
{ unimplemented!() }
#[verifier::external_body]
fn opq_invalid_mode_message(other: &str) -> (r: String) { unimplemented!() }
/// what a setting text MEANS: one of the three mode words (after trimming / lower-casing), or nothing
pub open spec fn mode_of(s: Seq<char>) -> Option<PromptStorageMode> {
    let t = trim_lower(s);
    if t == "default"@ { Some(PromptStorageMode::Default) } else if t == "notes"@ { Some(PromptStorageMode::Notes) } else if t == "local"@ { Some(PromptStorageMode::Local) } else { None }
}
/// the setting text explicitly asks for the notes mode
pub open spec fn says_notes(s: Seq<char>) -> bool { trim_lower(s) == "notes"@ }
/// `s.parse::<PromptStorageMode>()` is `<PromptStorageMode as FromStr>::from_str(s)` (documented behaviour of str::parse)
#[verifier::external_body]
fn opq_parse_mode(s: &String) -> (r: Result<PromptStorageMode, String>)
    ensures r is Ok <==> mode_of(s@) is Some, r is Ok ==> r->Ok_0 == mode_of(s@)->Some_0,
{ unimplemented!() }

pub mod str_eq_axiom {
    use vstd::prelude::*;
    /// TRUSTED: a str is determined by its characters (Verus matches a str against a literal by equality of the strs, the
    /// specifications speak about the character sequences)
    pub broadcast axiom fn axiom_str_view_injective(a: &str, b: &str)
        ensures #[trigger] a@ == #[trigger] b@ ==> a == b;
}
broadcast use str_eq_axiom::axiom_str_view_injective;
/// documented behaviour of Result::unwrap_or
pub assume_specification<T, E>[Result::<T, E>::unwrap_or](r: Result<T, E>, d: T) -> (o: T)
    ensures o == (match r { Ok(t) => t, Err(_) => d });

pub trait FromStrStandIn: Sized { type Err; fn from_str(input: &str) -> Result<Self, Self::Err>; }
impl FromStrStandIn for PromptStorageMode {
    type Err = String;
//#item file=src/config.rs kind=fn name=from_str impl="std::str::FromStr for PromptStorageMode" opaque='[{"expr": "input.trim().to_lowercase()", "call": "opq_trim_lower(input)"}, {"expr": "format!(\"invalid prompt storage mode: \u0027{}\u0027\", other)", "call": "opq_invalid_mode_message(other)"}]'
    fn from_str(input: &str) -> (r_: Result<Self, Self::Err>)
    //@     ensures
    //@         // a text is a mode exactly when it is one of the three words; anything else is refused (never read as `notes`)
    //@         r_ is Ok <==> mode_of(input@) is Some,
    //@         r_ is Ok ==> r_->Ok_0 == mode_of(input@)->Some_0,
    //@         r_ is Ok && r_->Ok_0 == PromptStorageMode::Notes ==> says_notes(input@),
    {
        //@ proof { reveal_strlit("default"); reveal_strlit("notes"); reveal_strlit("local"); }
        match opq_trim_lower(input).as_str() {
            "default" => Ok(PromptStorageMode::Default),
            "notes" => Ok(PromptStorageMode::Notes),
            "local" => Ok(PromptStorageMode::Local),
            other => Err(opq_invalid_mode_message(other)),
        }
    }
//#end
}

/// the repository is on the exclusion list: the list has the wildcard or some remote matches some pattern
pub open spec fn excluded(c: Config, repo: Option<Repository>) -> bool {
    c.exclude_prompts_in_repositories@.len() > 0 && (has_star(c.exclude_prompts_in_repositories@)
        || (remotes_of(repo) is Some && some_remote_matches(remotes_of(repo)->Some_0, c.exclude_prompts_in_repositories@)))
}
/// the repository is on the include list: some remote matches, or - without (known) remotes - the list has the wildcard
pub open spec fn included(c: Config, repo: Option<Repository>) -> bool {
    if remotes_of(repo) is Some && remotes_of(repo)->Some_0.len() > 0 { some_remote_matches(remotes_of(repo)->Some_0, c.include_prompts_in_repositories@) }
    else { has_star(c.include_prompts_in_repositories@) }
}
/// the setting that GOVERNS a repository: `prompt_storage` without an include list or for an included repository, otherwise the
/// fallback `default_prompt_storage` (which may be unset)
pub open spec fn governing_setting(c: Config, repo: Option<Repository>) -> Option<Seq<char>> {
    if c.include_prompts_in_repositories@.len() == 0 || included(c, repo) { Some(c.prompt_storage@) }
    else { match c.default_prompt_storage { Some(s) => Some(s@), None => None } }
}
/// the documented resolution: exclusion wins (local); then the governing setting; an unreadable primary setting means `default`,
/// an unset or unreadable fallback means `local`
pub open spec fn effective_mode(c: Config, repo: Option<Repository>) -> PromptStorageMode {
    if excluded(c, repo) { PromptStorageMode::Local }
    else if c.include_prompts_in_repositories@.len() == 0 || included(c, repo) { match mode_of(c.prompt_storage@) { Some(m) => m, None => PromptStorageMode::Default } }
    else { match c.default_prompt_storage { Some(s) => match mode_of(s@) { Some(m) => m, None => PromptStorageMode::Local }, None => PromptStorageMode::Local } }
}
/// C08, clause 1, the decision: conversation text may stay in the note (mode `notes`) ONLY when the repository is not excluded
/// and the setting governing it explicitly says `notes`; unset, `default`, `local`, any other text: never
pub proof fn theorem_notes_only_when_opted_in(c: Config, repo: Option<Repository>)
    ensures
        effective_mode(c, repo) == PromptStorageMode::Notes ==> !excluded(c, repo) && governing_setting(c, repo) is Some && says_notes(governing_setting(c, repo)->Some_0),
        excluded(c, repo) ==> effective_mode(c, repo) == PromptStorageMode::Local,
        governing_setting(c, repo) is None ==> effective_mode(c, repo) == PromptStorageMode::Local,
        governing_setting(c, repo) is Some && !says_notes(governing_setting(c, repo)->Some_0) ==> effective_mode(c, repo) != PromptStorageMode::Notes,
{
}

/// the three mode words as they may stand in the configuration file
pub open spec fn is_mode_word(s: Seq<char>) -> bool { s == "default"@ || s == "notes"@ || s == "local"@ }
pub mod mode_word_axiom {
    use vstd::prelude::*;
    /// TRUSTED (documented behaviour of str::trim / str::to_lowercase): the three lower-case ASCII words are unchanged by them
    pub axiom fn axiom_trim_lower_mode_words()
        ensures super::trim_lower("default"@) == "default"@, super::trim_lower("notes"@) == "notes"@, super::trim_lower("local"@) == "local"@;
}
pub open spec fn opt_view(o: Option<String>) -> Option<Seq<char>> { match o { Some(s) => Some(s@), None => None } }
pub open spec fn file_ps(f: Option<FileConfig>) -> Option<Seq<char>> { match f { Some(c) => opt_view(c.prompt_storage), None => None } }
pub open spec fn file_dps(f: Option<FileConfig>) -> Option<Seq<char>> { match f { Some(c) => opt_view(c.default_prompt_storage), None => None } }
#[verifier::external_body]
fn opq_warn() { unimplemented!() }
/// `file_cfg.as_ref().and_then(|c| c.prompt_storage.clone())`: the field of the file configuration, if there is a file
#[verifier::external_body]
fn opq_file_prompt_storage(f: &Option<FileConfig>) -> (r: Option<String>)
    ensures opt_view(r) == file_ps(*f),
{ unimplemented!() }
#[verifier::external_body]
fn opq_file_default_prompt_storage(f: &Option<FileConfig>) -> (r: Option<String>)
    ensures opt_view(r) == file_dps(*f),
{ unimplemented!() }
#[verifier::external_body]
fn opq_default_word() -> (r: String) ensures r@ == "default"@, { unimplemented!() }
/// `matches!(s.as_str(), "default" | "notes" | "local")`
#[verifier::external_body]
fn opq_is_mode_word(s: &String) -> (r: bool) ensures r == is_mode_word(s@), { unimplemented!() }

//#item file=src/config.rs kind=region name=cfg_prompt_modes in=build_config from="let prompt_storage = file_cfg" to="let api_key = env::var" from_nth=0 to_nth=0 to_exclusive=yes opaque='[{"expr": "file_cfg .as_ref() .and_then(|c| c.prompt_storage.clone())", "call": "opq_file_prompt_storage(&file_cfg)"}, {"expr": "file_cfg .as_ref() .and_then(|c| c.default_prompt_storage.clone())", "call": "opq_file_default_prompt_storage(&file_cfg)"}, {"expr": "eprintln!( \"Warning: Invalid prompt_storage value \u0027{}\u0027, using \u0027default\u0027\", other )", "call": "opq_warn()"}, {"expr": "eprintln!( \"Warning: Invalid default_prompt_storage value \u0027{}\u0027, ignoring\", s )", "call": "opq_warn()"}, {"expr": "matches!(s.as_str(), \"default\" | \"notes\" | \"local\")", "call": "opq_is_mode_word(&s)"}]'
//@ fn region_cfg_prompt_modes(file_cfg: Option<FileConfig>) -> (r_: (String, Option<String>))
//@     ensures
//@         // the primary setting is the file's word when that is one of the three, otherwise (no file, unset, any other text) `default`
//@         r_.0@ == (if file_ps(file_cfg) is Some && is_mode_word(file_ps(file_cfg)->Some_0) { file_ps(file_cfg)->Some_0 } else { "default"@ }),
//@         // the fallback setting is the file's word when that is one of the three, otherwise unset
//@         opt_view(r_.1) == (if file_dps(file_cfg) is Some && is_mode_word(file_dps(file_cfg)->Some_0) { file_dps(file_cfg) } else { None }),
//@ {
//@     proof { reveal_strlit("default"); reveal_strlit("notes"); reveal_strlit("local"); }
    let prompt_storage = opq_file_prompt_storage(&file_cfg)
        .unwrap_or_else(|| /*@< -> (c_: String) ensures c_@ == "default"@ { >@*/"default".to_string()/*@< } >@*/);
    let prompt_storage = match prompt_storage.as_str() {
        "default" | "notes" | "local" => prompt_storage,
        other => {
            opq_warn();
            "default".to_string()
        }
    };

    // Get default_prompt_storage setting (fallback for repos not in include list)
    // Valid values: "default", "notes", "local", or None (defaults to "local")
    let default_prompt_storage = opq_file_default_prompt_storage(&file_cfg)
        .and_then(|s /*@< : String >@*/| /*@< -> (c_: Option<String>) ensures opt_view(c_) == (if is_mode_word(s@) { Some(s@) } else { None::<Seq<char>> }) >@*/ {
            if opq_is_mode_word(&s) {
                Some(s)
            } else {
                opq_warn();
                None
            }
        });

    // Get API key from env var or config file (env var takes precedence)
//@     (prompt_storage, default_prompt_storage)
//@ }
//#end

/// C08 end to end over the configuration: with the settings as build_config takes them from the file, the mode `notes` is
/// effective only if the repository is not excluded and the word `notes` literally stands in the setting governing it
pub proof fn theorem_notes_needs_the_word_in_the_file(c: Config, f: Option<FileConfig>, repo: Option<Repository>)
    requires
        c.prompt_storage@ == (if file_ps(f) is Some && is_mode_word(file_ps(f)->Some_0) { file_ps(f)->Some_0 } else { "default"@ }),
        opt_view(c.default_prompt_storage) == (if file_dps(f) is Some && is_mode_word(file_dps(f)->Some_0) { file_dps(f) } else { None }),
        effective_mode(c, repo) == PromptStorageMode::Notes,
    ensures
        !excluded(c, repo),
        file_ps(f) == Some("notes"@) || file_dps(f) == Some("notes"@),
        (c.include_prompts_in_repositories@.len() == 0 || included(c, repo)) ==> file_ps(f) == Some("notes"@),
        !(c.include_prompts_in_repositories@.len() == 0 || included(c, repo)) ==> file_dps(f) == Some("notes"@),
{
    mode_word_axiom::axiom_trim_lower_mode_words();
    reveal_strlit("default"); reveal_strlit("notes"); reveal_strlit("local");
}

impl Config {
//#item file=src/config.rs kind=fn name=should_exclude_prompts impl="Config" opaque='[{"expr": "self .exclude_prompts_in_repositories .iter() .any(|pattern| pattern.as_str() == \"*\")", "call": "opq_has_wildcard(&self.exclude_prompts_in_repositories)"}, {"expr": "repository .as_ref() .and_then(|repo| repo.remotes_with_urls().ok())", "call": "opq_remotes(repository)"}, {"expr": "remotes.iter().any(|remote| { self.exclude_prompts_in_repositories .iter() .any(|pattern| pattern.matches(&remote.1)) })", "call": "opq_any_remote_matches(&remotes, &self.exclude_prompts_in_repositories)"}]'
    pub fn should_exclude_prompts(&self, repository: &Option<Repository>) -> (r_: bool)
    //@     ensures r_ == excluded(*self, *repository),
    {
        // Empty exclusion list = never exclude
        if self.exclude_prompts_in_repositories.is_empty() {
            return false;
        }

        // Check for wildcard "*" pattern - excludes ALL repos including local
        let has_wildcard = opq_has_wildcard(&self.exclude_prompts_in_repositories);
        if has_wildcard {
            return true;
        }

        // Fetch remotes
        let remotes = opq_remotes(repository);

        match remotes {
            Some(remotes) => {
                if remotes.is_empty() {
                    // No remotes = local-only repo, not excluded (unless wildcard, handled above)
                    false
                } else {
                    // Has remotes - check if any match exclusion patterns
                    opq_any_remote_matches(&remotes, &self.exclude_prompts_in_repositories)
                }
            }
            None => false, // Can't get remotes = don't exclude
        }
    }
//#end
//#item file=src/config.rs kind=fn name=effective_prompt_storage impl="Config" opaque='[{"expr": "self .prompt_storage .parse::<PromptStorageMode>()", "call": "opq_parse_mode(&self.prompt_storage)"}, {"expr": "repository .as_ref() .and_then(|repo| repo.remotes_with_urls().ok())", "call": "opq_remotes(repository)"}, {"expr": "remotes.iter().any(|remote| { self.include_prompts_in_repositories .iter() .any(|pattern| pattern.matches(&remote.1)) })", "call": "opq_any_remote_matches(remotes, &self.include_prompts_in_repositories)"}, {"expr": "self.include_prompts_in_repositories .iter() .any(|pattern| pattern.as_str() == \"*\")", "call": "opq_has_wildcard(&self.include_prompts_in_repositories)"}, {"expr": "s.parse::<PromptStorageMode>()", "call": "opq_parse_mode(s)"}]'
    pub fn effective_prompt_storage(&self, repository: &Option<Repository>) -> (r_: PromptStorageMode)
    //@     ensures
    //@         r_ == effective_mode(*self, *repository),
    //@         // C08: `notes` only for a repository that is not excluded and whose governing setting explicitly says notes
    //@         r_ == PromptStorageMode::Notes ==> !excluded(*self, *repository) && governing_setting(*self, *repository) is Some && says_notes(governing_setting(*self, *repository)->Some_0),
    {
        // Step 1: Check exclusion list first (deny always wins)
        if self.should_exclude_prompts(repository) {
            return PromptStorageMode::Local;
        }

        // Step 2: If no include list, use the global prompt_storage (legacy behavior)
        if self.include_prompts_in_repositories.is_empty() {
            return opq_parse_mode(&self.prompt_storage)
                .unwrap_or(PromptStorageMode::Default);
        }

        // Step 3: Check if repo matches include list
        let remotes = opq_remotes(repository);

        let matches_include = match &remotes {
            Some(remotes) if !remotes.is_empty() => {
                // Has remotes - check if any match inclusion patterns
                opq_any_remote_matches(remotes, &self.include_prompts_in_repositories)
            }
            _ => {
                // No remotes or no repository - check for wildcard "*" in include patterns
                opq_has_wildcard(&self.include_prompts_in_repositories)
            }
        };

        if matches_include {
            // Step 3a: Repo is in include list → use primary prompt_storage
            opq_parse_mode(&self.prompt_storage)
                .unwrap_or(PromptStorageMode::Default)
        } else {
            // Step 4: Repo not in include list → use fallback
            self.default_prompt_storage
                .as_ref()
                .and_then(|s /*@< : &String >@*/| /*@< -> (c_: Option<PromptStorageMode>) ensures c_ == mode_of(s@) { >@*/opq_parse_mode(s).ok()/*@< } >@*/)
                .unwrap_or(PromptStorageMode::Local) // Safe default
        }
    }
//#end
}

// ================================================================================================ part B: the head of post_commit
#[verifier::external_body]
#[verifier::reject_recursive_types(K)]
#[verifier::reject_recursive_types(V)]
pub struct HashMap<K, V> { _p: core::marker::PhantomData<(K, V)> }
#[verifier::external_body] pub struct AiTranscript { _o: () }
/// stand-in: only the file name is read here (what makes an entry count is unit ckptentry)
#[verifier::external_body] pub struct EntryRest { _o: () }
pub struct WorkingLogEntry { pub file: String, pub rest: EntryRest }
pub enum GitAiError { Generic(String) }
//#item file=src/authorship/working_log.rs kind=struct name=AgentId
pub struct AgentId {
    pub tool: String, // e.g., "cursor", "windsurf"
    pub id: String,   // id in their domain
    pub model: String,
}
//#end
//#item file=src/authorship/working_log.rs kind=struct name=CheckpointLineStats
pub struct CheckpointLineStats {
    pub additions: u32,
    pub deletions: u32,
    pub additions_sloc: u32,
    pub deletions_sloc: u32,
}
//#end
//#item file=src/authorship/working_log.rs kind=enum name=CheckpointKind derive=Clone,Copy,PartialEq,Eq
//@ #[derive(Structural)]
#[derive(Clone, Copy, PartialEq, Eq)]
pub enum CheckpointKind {
    Human,
    AiAgent,
    AiTab,
}
//#end
//#item file=src/authorship/working_log.rs kind=struct name=Checkpoint
pub struct Checkpoint {
    pub kind: CheckpointKind,
    pub diff: String,
    pub author: String,
    pub entries: Vec<WorkingLogEntry>,
    pub timestamp: u64,
    pub transcript: Option<AiTranscript>,
    pub agent_id: Option<AgentId>,
    pub agent_metadata: Option<HashMap<String, String>>,
    pub line_stats: CheckpointLineStats,
    pub api_version: String,
    pub git_ai_version: Option<String>,
}
//#end
#[verifier::external_body] pub struct RepoStorage { _o: () }
/// Repository stand-in of the post_commit part (a second type: part A's Repository has no fields)
#[verifier::external_body] pub struct RepoRest { _o: () }
pub struct Repo { pub storage: RepoStorage, pub rest: RepoRest }
#[verifier::external_body] pub struct PersistedWorkingLog { _o: () }
#[verifier::external_body] pub struct VirtualAttributions { _o: () }

/// the local effects of the head, in order
pub enum HEvent {
    /// the local prompt database (sqlite cache) was asked to take the prompts of these checkpoints for this commit
    DbUpsert { checkpoints: Seq<Checkpoint>, log: PersistedWorkingLog, commit: Seq<char> },
    /// a warning went to the debug log / an error record to the observability log
    Warned,
    ErrorLogged { commit: Seq<char> },
    /// .git/ai/working_logs/<base>/checkpoints.jsonl rewritten with these checkpoints
    CheckpointsWritten { log: PersistedWorkingLog, checkpoints: Seq<Checkpoint> },
    /// (part E) one conversation handed to the upload queue of the local database
    CasEnqueued { messages: Seq<Message> },
}
#[verifier::external_body] pub struct Message { _o: () }
#[verifier::external_body] pub struct World { _o: () }
pub uninterp spec fn trace(w: World) -> Seq<HEvent>;

/// the working log directory of a base commit in a repository's private storage
pub uninterp spec fn wl_for(st: RepoStorage, base: Seq<char>) -> PersistedWorkingLog;
pub uninterp spec fn base_of(l: PersistedWorkingLog) -> Seq<char>;
/// what reading checkpoints.jsonl of a working log gives (unit storagefs / journal)
pub uninterp spec fn read_ok(l: PersistedWorkingLog) -> bool;
pub uninterp spec fn stored(l: PersistedWorkingLog) -> Seq<Checkpoint>;
pub uninterp spec fn write_ok(l: PersistedWorkingLog, cs: Seq<Checkpoint>) -> bool;
/// update_prompts_to_latest (unit pcflow: each session's latest checkpoint re-fetched, nothing else touched; always Ok)
pub uninterp spec fn refreshed_log(cs: Seq<Checkpoint>) -> Seq<Checkpoint>;
pub uninterp spec fn db_ok(cs: Seq<Checkpoint>, l: PersistedWorkingLog, commit: Seq<char>) -> bool;
pub uninterp spec fn va_ok(repo: Repo, base: Seq<char>, human: Option<Seq<char>>) -> bool;
pub uninterp spec fn va_of(repo: Repo, base: Seq<char>, human: Option<Seq<char>>) -> VirtualAttributions;

impl RepoStorage {
    #[verifier::external_body]
    pub fn working_log_for_base_commit(&self, sha: &String) -> (r: PersistedWorkingLog)
        ensures r == wl_for(*self, sha@), base_of(r) == sha@,
    { unimplemented!() }
}
/// PersistedWorkingLog::read_all_checkpoints (a read: no event)
#[verifier::external_body]
fn opq_read_checkpoints(log: &PersistedWorkingLog) -> (r: Result<Vec<Checkpoint>, GitAiError>)
    ensures r is Ok <==> read_ok(*log), r is Ok ==> r->Ok_0@ == stored(*log),
{ unimplemented!() }
#[verifier::external_body]
fn update_prompts_to_latest(cs: &mut Vec<Checkpoint>) -> (r: Result<(), GitAiError>)
    ensures r is Ok, final(cs)@ == refreshed_log(old(cs)@),
{ unimplemented!() }
/// batch_upsert_prompts_to_db as seen from post_commit (its inside is the whole-function item below)
#[verifier::external_body]
fn opq_batch_upsert(w: &mut World, cs: &Vec<Checkpoint>, log: &PersistedWorkingLog, commit: &String) -> (r: Result<(), GitAiError>)
    ensures
        trace(*final(w)) == trace(*old(w)).push(HEvent::DbUpsert { checkpoints: cs@, log: *log, commit: commit@ }),
        r is Ok <==> db_ok(cs@, *log, commit@),
{ unimplemented!() }
#[verifier::external_body]
fn opq_log_warning(w: &mut World, e: &GitAiError)
    ensures trace(*final(w)) == trace(*old(w)).push(HEvent::Warned),
{ unimplemented!() }
#[verifier::external_body]
fn opq_log_error(w: &mut World, e: &GitAiError, commit: &String)
    ensures trace(*final(w)) == trace(*old(w)).push(HEvent::ErrorLogged { commit: commit@ }),
{ unimplemented!() }
/// PersistedWorkingLog::write_all_checkpoints.  PRECONDITION: the log written is the one the checkpoints were read from, and what is
/// written is the refreshed form of what was read (nothing dropped, nothing from another base)
#[verifier::external_body]
fn opq_write_checkpoints(w: &mut World, log: &PersistedWorkingLog, cs: &Vec<Checkpoint>) -> (r: Result<(), GitAiError>)
    requires cs@ == refreshed_log(stored(*log)),
    ensures
        trace(*final(w)) == trace(*old(w)).push(HEvent::CheckpointsWritten { log: *log, checkpoints: cs@ }),
        r is Ok <==> write_ok(*log, cs@),
{ unimplemented!() }
#[verifier::external_body]
fn opq_repo_clone(repo: &Repo) -> (r: Repo) ensures r == *repo, { unimplemented!() }
impl VirtualAttributions {
    /// reads the (just rewritten) working log of `base`; unattributed lines go to `human` (a read: no event)
    #[verifier::external_body]
    pub fn from_just_working_log(repo: Repo, base: String, human: Option<String>) -> (r: Result<VirtualAttributions, GitAiError>)
        ensures r is Ok <==> va_ok(repo, base@, opt_view(human)), r is Ok ==> r->Ok_0 == va_of(repo, base@, opt_view(human)),
    { unimplemented!() }
}
/// the base whose working log belongs to a commit: the commit HEAD pointed to before it was made (its FIRST parent), or the
/// word `initial` for a root commit
pub open spec fn base_word(base_commit: Option<String>) -> Seq<char> { match base_commit { Some(s) => s@, None => "initial"@ } }
/// what the head writes when nothing fails: the database is asked, a database failure is logged twice, the refreshed checkpoints go back
pub open spec fn head_trace(log: PersistedWorkingLog, cs: Seq<Checkpoint>, commit: Seq<char>) -> Seq<HEvent> {
    seq![HEvent::DbUpsert { checkpoints: cs, log: log, commit: commit }]
        + (if db_ok(cs, log, commit) { Seq::<HEvent>::empty() } else { seq![HEvent::Warned, HEvent::ErrorLogged { commit: commit }] })
        + seq![HEvent::CheckpointsWritten { log: log, checkpoints: cs }]
}
pub open spec fn is_prefix(a: Seq<HEvent>, b: Seq<HEvent>) -> bool { a.len() <= b.len() && a =~= b.subrange(0, a.len() as int) }

//#item file=src/authorship/post_commit.rs kind=region name=pc_head in=post_commit from="let parent_sha = base_commit.unwrap_or_else" to="let mut pathspecs: HashSet<String> = HashSet::new();" from_nth=0 to_nth=0 to_exclusive=yes opaque='[{"expr": "working_log.read_all_checkpoints()", "call": "opq_read_checkpoints(&working_log)"}, {"expr": "batch_upsert_prompts_to_db(&parent_working_log, &working_log, &commit_sha)", "call": "opq_batch_upsert(w_, &parent_working_log, &working_log, &commit_sha)"}, {"expr": "debug_log(&format!( \"[Warning] Failed to batch upsert prompts to database: {}\", e ))", "call": "opq_log_warning(w_, &e)"}, {"expr": "crate::observability::log_error( &e, Some(serde_json::json!({ \"operation\": \"post_commit_batch_upsert\", \"commit_sha\": commit_sha })), )", "call": "opq_log_error(w_, &e, &commit_sha)"}, {"expr": "working_log.write_all_checkpoints(&parent_working_log)", "call": "opq_write_checkpoints(w_, &working_log, &parent_working_log)"}, {"expr": "repo.clone()", "call": "opq_repo_clone(repo)"}]'
//@ fn region_pc_head(w_: &mut World, repo: &Repo, base_commit: Option<String>, commit_sha: String, human_author: String) -> (r_: Result<(String, PersistedWorkingLog, Vec<Checkpoint>, VirtualAttributions), GitAiError>)
//@     requires trace(*old(w_)).len() == 0,
//@     ensures
//@         // C01 / C04: the working log read is the one of the base handed in (the commit's first parent) or of `initial` - no other
//@         r_ is Ok ==> r_->Ok_0.0@ == base_word(base_commit) && r_->Ok_0.1 == wl_for(repo.storage, base_word(base_commit)),
//@         // the checkpoints used from here on are the stored ones AFTER the prompt refresh
//@         r_ is Ok ==> r_->Ok_0.2@ == refreshed_log(stored(wl_for(repo.storage, base_word(base_commit)))),
//@         // C01: unattributed lines go to the author the caller resolved (handed in once), for the same base
//@         r_ is Ok ==> r_->Ok_0.3 == va_of(*repo, base_word(base_commit), Some(human_author@)),
//@         // C07: whether the head succeeds does not depend on the local prompt database (db_ok does not occur)
//@         r_ is Ok <==> read_ok(wl_for(repo.storage, base_word(base_commit)))
//@             && write_ok(wl_for(repo.storage, base_word(base_commit)), refreshed_log(stored(wl_for(repo.storage, base_word(base_commit)))))
//@             && va_ok(*repo, base_word(base_commit), Some(human_author@)),
//@         // the writes, in order: database asked with the REFRESHED checkpoints of this base for THIS commit, its failure logged
//@         // (warning + error record), the refreshed checkpoints written back to the SAME working log; nothing else, nothing shared
//@         r_ is Ok ==> trace(*final(w_)) == head_trace(wl_for(repo.storage, base_word(base_commit)), refreshed_log(stored(wl_for(repo.storage, base_word(base_commit)))), commit_sha@),
//@         is_prefix(trace(*final(w_)), head_trace(wl_for(repo.storage, base_word(base_commit)), refreshed_log(stored(wl_for(repo.storage, base_word(base_commit)))), commit_sha@)),
//@         // nothing is written when the working log cannot be read
//@         !read_ok(wl_for(repo.storage, base_word(base_commit))) ==> trace(*final(w_)).len() == 0,
//@ {
//@     proof { reveal_strlit("initial"); }
    let parent_sha = base_commit.unwrap_or_else(|| /*@< -> (c_: String) ensures c_@ == "initial"@ { >@*/"initial".to_string()/*@< } >@*/);

    // Initialize the new storage system
    let repo_storage = &repo.storage;
    let working_log = repo_storage.working_log_for_base_commit(&parent_sha);

    // Pull all working log entries from the parent commit

    let mut parent_working_log = opq_read_checkpoints(&working_log)?;

    // debug_log(&format!(
    //     "edited files: {:?}",
    //     parent_working_log.edited_files
    // ));

    // Update prompts/transcripts to their latest versions and persist to disk
    // Do this BEFORE filtering so that all checkpoints (including untracked files) are updated
    update_prompts_to_latest(&mut parent_working_log)?;

    // Batch upsert all prompts to database after refreshing (non-fatal if it fails)
    if let Err(e) = opq_batch_upsert(w_, &parent_working_log, &working_log, &commit_sha) {
        opq_log_warning(w_, &e);
        opq_log_error(w_, &e, &commit_sha);
    }

    //@ let ghost t1 = trace(*w_);
    opq_write_checkpoints(w_, &working_log, &parent_working_log)?;
    //@ proof { assert(trace(*w_) =~= head_trace(working_log, parent_working_log@, commit_sha@)); }

    // Create VirtualAttributions from working log (fast path - no blame)
    // We don't need to run blame because we only care about the working log data
    // that was accumulated since the parent commit
    let working_va = VirtualAttributions::from_just_working_log(
        opq_repo_clone(repo),
        parent_sha.clone(),
        Some(human_author.clone()),
    )?;

    // Build pathspecs from AI-relevant checkpoint entries only.
    // Human-only entries with no AI attribution do not affect authorship output and should not
    // trigger expensive post-commit diff work across large commits.
//@     Ok((parent_sha, working_log, parent_working_log, working_va))
//@ }
//#end

// ================================================================================================ part C: batch_upsert_prompts_to_db
#[verifier::external_body] pub struct PromptDbRecord { _o: () }
#[verifier::external_body] pub struct InternalDatabase { _o: () }
#[verifier::external_body] pub struct DbHandle { _o: () }
#[verifier::external_body] pub struct DbGuard { _o: () }
pub type PersistedWorkingLogT = PersistedWorkingLog;
pub uninterp spec fn session_key(tool: Seq<char>, id: Seq<char>) -> Seq<char>;
#[verifier::external_body]
fn opq_session_key(tool: &String, id: &String) -> (r: String)
    ensures r@ == session_key(tool@, id@),
{ unimplemented!() }
#[verifier::external_body]
fn opq_enumerate<'a>(v: &'a [Checkpoint]) -> (r: Vec<(usize, &'a Checkpoint)>)
    ensures v@.len() <= usize::MAX, r@.len() == v@.len(), forall|i: int| 0 <= i < v@.len() ==> (#[trigger] r@[i]).0 == i && *r@[i].1 == v@[i],
{ unimplemented!() }
pub uninterp spec fn last_of(m: HashMap<String, usize>, k: Seq<char>) -> Option<usize>;
impl HashMap<String, usize> {
    #[verifier::external_body]
    pub fn new() -> (r: Self)
        ensures forall|k: Seq<char>| (#[trigger] last_of(r, k)) is None,
    { unimplemented!() }
    #[verifier::external_body]
    pub fn insert(&mut self, key: String, idx: usize) -> (r: Option<usize>)
        ensures forall|k: Seq<char>| #[trigger] last_of(*final(self), k) == (if k == key@ { Some(idx) } else { last_of(*old(self), k) }),
    { unimplemented!() }
}
/// a listing of a map (HashMap iteration by value, in SOME order): every listed entry is the map's, no key twice, every key listed
pub open spec fn mlist(l: Seq<(String, usize)>, m: HashMap<String, usize>) -> bool {
    &&& forall|j: int| 0 <= j < l.len() ==> last_of(m, (#[trigger] l[j]).0@) == Some(l[j].1)
    &&& forall|i: int, j: int| 0 <= i < j < l.len() ==> (#[trigger] l[i]).0@ != (#[trigger] l[j]).0@
    &&& forall|k: Seq<char>| (#[trigger] last_of(m, k)) is Some ==> exists|j: int| 0 <= j < l.len() && (#[trigger] l[j]).0@ == k
}
#[verifier::external_body]
fn opq_entries(m: HashMap<String, usize>) -> (r: Vec<(String, usize)>)
    ensures mlist(r@, m),
{ unimplemented!() }
pub uninterp spec fn workdir_of(l: PersistedWorkingLog) -> Seq<char>;
#[verifier::external_body]
fn opq_workdir(l: &PersistedWorkingLog) -> (r: String) ensures r@ == workdir_of(*l), { unimplemented!() }
/// PromptDbRecord::from_checkpoint (uninterpreted: none without agent id or transcript)
pub uninterp spec fn db_record(c: Checkpoint, workdir: Option<Seq<char>>, commit: Option<Seq<char>>) -> Option<PromptDbRecord>;
impl PromptDbRecord {
    #[verifier::external_body]
    pub fn from_checkpoint(c: &Checkpoint, workdir: Option<String>, commit: Option<String>) -> (r: Option<PromptDbRecord>)
        ensures r == db_record(*c, opt_view(workdir), opt_view(commit)),
    { unimplemented!() }
}
impl InternalDatabase {
    #[verifier::external_body]
    pub fn global() -> (r: Result<DbHandle, GitAiError>) { unimplemented!() }
}
#[verifier::external_body]
fn opq_lock(db: &DbHandle) -> (r: Result<DbGuard, GitAiError>) { unimplemented!() }

/// the session a checkpoint contributes a prompt for: AI checkpoints with an agent id only
pub open spec fn nh_key(c: Checkpoint) -> Option<Seq<char>> {
    if c.kind != CheckpointKind::Human { match c.agent_id { Some(a) => Some(session_key(a.tool@, a.id@)), None => None } } else { None }
}
/// the index of the LAST AI checkpoint of session k among the first n
pub open spec fn last_idx(cs: Seq<Checkpoint>, k: Seq<char>, n: int) -> Option<usize>
    decreases n
{
    if n <= 0 { None } else if nh_key(cs[n - 1]) == Some(k) { Some((n - 1) as usize) } else { last_idx(cs, k, n - 1) }
}
proof fn lemma_last_idx(cs: Seq<Checkpoint>, k: Seq<char>, n: int)
    requires 0 <= n <= cs.len(), n <= usize::MAX,
    ensures
        last_idx(cs, k, n) is Some ==> ({ let l = last_idx(cs, k, n)->Some_0 as int; 0 <= l < n && nh_key(cs[l]) == Some(k) && forall|j: int| l < j < n ==> nh_key(#[trigger] cs[j]) != Some(k) }),
        last_idx(cs, k, n) is None ==> forall|j: int| 0 <= j < n ==> nh_key(#[trigger] cs[j]) != Some(k),
    decreases n
{
    if n > 0 { lemma_last_idx(cs, k, n - 1); }
}
pub open spec fn grouped(m: HashMap<String, usize>, cs: Seq<Checkpoint>, n: int) -> bool {
    forall|k: Seq<char>| #[trigger] last_of(m, k) == last_idx(cs, k, n)
}
/// checkpoint i is the LATEST AI checkpoint of its session
pub open spec fn is_latest_ai(cs: Seq<Checkpoint>, i: int) -> bool {
    0 <= i < cs.len() && nh_key(cs[i]) is Some && forall|j: int| i < j < cs.len() ==> nh_key(#[trigger] cs[j]) != nh_key(cs[i])
}
/// the records made from the first n listed sessions (a session whose latest checkpoint yields no record is skipped)
pub open spec fn recs_of(l: Seq<(String, usize)>, cs: Seq<Checkpoint>, wd: Seq<char>, commit: Seq<char>, n: int) -> Seq<PromptDbRecord>
    decreases n
{
    if n <= 0 { Seq::empty() } else {
        match db_record(cs[l[n - 1].1 as int], Some(wd), Some(commit)) { Some(r) => recs_of(l, cs, wd, commit, n - 1).push(r), None => recs_of(l, cs, wd, commit, n - 1) }
    }
}
/// a listing of the sessions: one entry per session that has an AI checkpoint, pointing at its LATEST AI checkpoint
pub open spec fn sessions_listed(l: Seq<(String, usize)>, cs: Seq<Checkpoint>) -> bool {
    &&& forall|j: int| 0 <= j < l.len() ==> is_latest_ai(cs, (#[trigger] l[j]).1 as int) && nh_key(cs[l[j].1 as int]) == Some(l[j].0@)
    &&& forall|i: int, j: int| 0 <= i < j < l.len() ==> (#[trigger] l[i]).0@ != (#[trigger] l[j]).0@
    &&& forall|i: int| is_latest_ai(cs, i) ==> exists|j: int| 0 <= j < l.len() && (#[trigger] l[j]).1 == i
}
/// what the prompt database may be asked to store: for SOME listing of the sessions, the records of their latest AI
/// checkpoints, made with this repository's work directory and THIS commit
pub open spec fn upsert_allowed(recs: Seq<PromptDbRecord>, cs: Seq<Checkpoint>, wd: Seq<char>, commit: Seq<char>, l: Seq<(String, usize)>) -> bool {
    sessions_listed(l, cs) && recs == recs_of(l, cs, wd, commit, l.len() as int) && recs.len() > 0
}
proof fn lemma_sessions_listed(l: Seq<(String, usize)>, m: HashMap<String, usize>, cs: Seq<Checkpoint>)
    requires mlist(l, m), grouped(m, cs, cs.len() as int), cs.len() <= usize::MAX,
    ensures sessions_listed(l, cs),
{
    let n = cs.len() as int;
    assert forall|j: int| 0 <= j < l.len() implies is_latest_ai(cs, (#[trigger] l[j]).1 as int) && nh_key(cs[l[j].1 as int]) == Some(l[j].0@) by {
        lemma_last_idx(cs, l[j].0@, n);
        assert(last_of(m, l[j].0@) == last_idx(cs, l[j].0@, n));
    }
    assert forall|i: int| is_latest_ai(cs, i) implies exists|j: int| 0 <= j < l.len() && (#[trigger] l[j]).1 == i by {
        let k = nh_key(cs[i])->Some_0;
        lemma_last_idx(cs, k, n);
        assert(last_of(m, k) == last_idx(cs, k, n));
        if last_idx(cs, k, n) is None { assert(nh_key(cs[i]) != Some(k)); }
        let li = last_idx(cs, k, n)->Some_0 as int;
        if li < i { assert(nh_key(cs[i]) != Some(k)); }
        if li > i { assert(nh_key(cs[li]) != nh_key(cs[i])); }
        let j = choose|j: int| 0 <= j < l.len() && (#[trigger] l[j]).0@ == k;
        assert(last_of(m, l[j].0@) == Some(l[j].1));
    }
}
/// the records were made from a complete listing of the map
pub open spec fn all_listed(recs: Seq<PromptDbRecord>, m: HashMap<String, usize>, cs: Seq<Checkpoint>, wd: Seq<char>, commit: Seq<char>) -> bool {
    exists|l: Seq<(String, usize)>| #[trigger] mlist(l, m) && recs == recs_of(l, cs, wd, commit, l.len() as int)
}
/// InternalDatabase::batch_upsert_prompts.  PRECONDITION = what is asked of the database
#[verifier::external_body]
fn opq_db_upsert(g: &mut DbGuard, recs: &Vec<PromptDbRecord>, Ghost(cs): Ghost<Seq<Checkpoint>>, Ghost(wd): Ghost<Seq<char>>, Ghost(commit): Ghost<Seq<char>>, Ghost(l): Ghost<Seq<(String, usize)>>) -> (r: Result<(), GitAiError>)
    requires upsert_allowed(recs@, cs, wd, commit, l),
{ unimplemented!() }
pub open spec fn enum_ok(e: Seq<(usize, &Checkpoint)>, cs: Seq<Checkpoint>) -> bool {
    e.len() == cs.len() && forall|i: int| 0 <= i < cs.len() ==> (#[trigger] e[i]).0 == i && *e[i].1 == cs[i]
}
/// no checkpoint contributes a record (no AI session, or none with a transcript)
pub open spec fn nothing_to_store(cs: Seq<Checkpoint>, wd: Seq<char>, commit: Seq<char>) -> bool {
    forall|i: int| is_latest_ai(cs, i) ==> db_record(#[trigger] cs[i], Some(wd), Some(commit)) is None
}
proof fn lemma_recs_empty(l: Seq<(String, usize)>, cs: Seq<Checkpoint>, wd: Seq<char>, commit: Seq<char>, n: int)
    requires sessions_listed(l, cs), 0 <= n <= l.len(),
    ensures
        nothing_to_store(cs, wd, commit) ==> recs_of(l, cs, wd, commit, n).len() == 0,
        (n == l.len() && recs_of(l, cs, wd, commit, n).len() == 0) ==> nothing_to_store(cs, wd, commit),
    decreases n
{
    if n > 0 {
        lemma_recs_empty(l, cs, wd, commit, n - 1);
        assert(is_latest_ai(cs, l[n - 1].1 as int));
    }
    if n == l.len() && recs_of(l, cs, wd, commit, n).len() == 0 {
        assert forall|i: int| is_latest_ai(cs, i) implies db_record(#[trigger] cs[i], Some(wd), Some(commit)) is None by {
            let j = choose|j: int| 0 <= j < l.len() && (#[trigger] l[j]).1 == i;
            lemma_recs_none(l, cs, wd, commit, n, j);
        }
    }
}
proof fn lemma_recs_none(l: Seq<(String, usize)>, cs: Seq<Checkpoint>, wd: Seq<char>, commit: Seq<char>, n: int, j: int)
    requires 0 <= j < n <= l.len(), recs_of(l, cs, wd, commit, n).len() == 0,
    ensures db_record(cs[l[j].1 as int], Some(wd), Some(commit)) is None,
    decreases n
{
    if j < n - 1 { lemma_recs_none(l, cs, wd, commit, n - 1, j); }
}

//#item file=src/authorship/post_commit.rs kind=fn name=batch_upsert_prompts_to_db opaque='[{"expr": "crate::git::repo_storage::PersistedWorkingLog", "call": "PersistedWorkingLogT"}, {"expr": "use crate::authorship::internal_db::{InternalDatabase, PromptDbRecord};", "call": "();"}, {"expr": "working_log.repo_workdir.to_string_lossy().to_string()", "call": "opq_workdir(working_log)"}, {"expr": "checkpoints.iter().enumerate()", "call": "opq_enumerate(checkpoints)"}, {"expr": "format!(\"{}:{}\", agent_id.tool, agent_id.id)", "call": "opq_session_key(&agent_id.tool, &agent_id.id)"}, {"expr": "in last_checkpoint_by_agent", "call": "in opq_entries(last_checkpoint_by_agent)"}, {"expr": "db .lock() .map_err(|e| GitAiError::Generic(format!(\"Failed to lock database: {}\", e)))", "call": "opq_lock(&db)"}, {"expr": "db_guard.batch_upsert_prompts(&records)", "call": "opq_db_upsert(&mut db_guard, &records, Ghost(cs0), Ghost(workdir@), Ghost(commit_sha@), Ghost(gl0))"}]'
fn batch_upsert_prompts_to_db(
    checkpoints: &[Checkpoint],
    working_log: &PersistedWorkingLogT,
    commit_sha: &str,
) -> (r_: Result<(), GitAiError>)
//@     ensures
//@         // a commit without any storable AI session never touches the database (and so cannot fail on a machine without one)
//@         nothing_to_store(checkpoints@, workdir_of(*working_log), commit_sha@) ==> r_ is Ok,
{
    ();

    let workdir = opq_workdir(working_log);

    // Group checkpoints by agent_id, keeping track of the LAST index for each.
    // This mirrors the logic in update_prompts_to_latest().
    let mut last_checkpoint_by_agent: HashMap<String, usize> = HashMap::new();
    //@ let ghost cs0 = checkpoints@;
    //@ proof { assert(grouped(last_checkpoint_by_agent, cs0, 0)); }

    for (idx, checkpoint) in it_0: opq_enumerate(checkpoints)
    //@     invariant
    //@         checkpoints@ == cs0, enum_ok(it_0.snapshot@.remaining(), cs0), cs0.len() <= usize::MAX,
    //@         grouped(last_checkpoint_by_agent, cs0, it_0.index@ as int),
    {
        //@ let ghost n0 = it_0.index@ as int;
        //@ proof { assert(idx == n0 && *checkpoint == cs0[n0]); }
        if !(checkpoint.kind == CheckpointKind::Human) {
        if let Some(agent_id) = &checkpoint.agent_id {
            let key = opq_session_key(&agent_id.tool, &agent_id.id);
            // Always update to the latest index (overwrites previous)
            last_checkpoint_by_agent.insert(key, idx);
        }
    }
        //@ proof { assert(grouped(last_checkpoint_by_agent, cs0, n0 + 1)); }
    }

    // Only create records for the LAST checkpoint of each agent_id
    // Note: from_checkpoint now uses message timestamps for created_at/updated_at
    let mut records = Vec::new();
    //@ let ghost m0 = last_checkpoint_by_agent;
    for (_agent_key, idx) in it_1: opq_entries(last_checkpoint_by_agent)
    //@     invariant
    //@         checkpoints@ == cs0, cs0.len() <= usize::MAX, mlist(it_1.snapshot@.remaining(), m0), grouped(m0, cs0, cs0.len() as int),
    //@         records@ == recs_of(it_1.snapshot@.remaining(), cs0, workdir@, commit_sha@, it_1.index@ as int),
    //@         it_1.index@ == it_1.snapshot@.remaining().len() ==> all_listed(records@, m0, cs0, workdir@, commit_sha@),
    {
        //@ let ghost gl = it_1.snapshot@.remaining();
        //@ proof { lemma_sessions_listed(gl, m0, cs0); assert(is_latest_ai(cs0, gl[it_1.index@ as int].1 as int)); }
        let checkpoint = &checkpoints[idx];
        if let Some(record) = PromptDbRecord::from_checkpoint(
            checkpoint,
            Some(workdir.clone()),
            Some(commit_sha.to_string()),
        ) {
            records.push(record);
        }
        //@ proof { assert(records@ == recs_of(gl, cs0, workdir@, commit_sha@, it_1.index@ as int + 1)); }
    }
    //@ let ghost gl0 = choose|l: Seq<(String, usize)>| #[trigger] mlist(l, m0) && records@ == recs_of(l, cs0, workdir@, commit_sha@, l.len() as int);
    //@ proof { lemma_sessions_listed(gl0, m0, cs0); lemma_recs_empty(gl0, cs0, workdir@, commit_sha@, gl0.len() as int); }

    if records.is_empty() {
        return Ok(());
    }

    let db = InternalDatabase::global()?;
    let mut db_guard = opq_lock(&db)?;

    opq_db_upsert(&mut db_guard, &records, Ghost(cs0), Ghost(workdir@), Ghost(commit_sha@), Ghost(gl0))?;

    Ok(())
}
//#end

// ================================================================================================ part D: which checkpoint entries select a file
#[verifier::external_body]
#[verifier::reject_recursive_types(K)]
pub struct HashSet<K> { _p: core::marker::PhantomData<K> }
pub uninterp spec fn set_has(s: HashSet<String>, f: Seq<char>) -> bool;
impl HashSet<String> {
    #[verifier::external_body]
    pub fn insert(&mut self, k: String) -> (r: bool)
        ensures forall|g: Seq<char>| #[trigger] set_has(*final(self), g) == (g == k@ || set_has(*old(self), g)),
    { unimplemented!() }
}
/// checkpoint_entry_requires_post_processing (proved in unit ckptentry: an AI checkpoint's entry, or an entry with a non-human
/// attribution / an override)
pub uninterp spec fn counts(c: Checkpoint, e: WorkingLogEntry) -> bool;
#[verifier::external_body]
fn checkpoint_entry_requires_post_processing(c: &Checkpoint, e: &WorkingLogEntry) -> (r: bool)
    ensures r == counts(*c, *e),
{ unimplemented!() }
/// file f is named by one of the first m entries of checkpoint c that count
pub open spec fn entry_selects(c: Checkpoint, f: Seq<char>, m: int) -> bool {
    exists|j: int| 0 <= j < m && j < c.entries@.len() && counts(c, #[trigger] c.entries@[j]) && c.entries@[j].file@ == f
}
/// file f is named by a counting entry of one of the first n checkpoints
pub open spec fn scan_selects(cs: Seq<Checkpoint>, f: Seq<char>, n: int) -> bool {
    exists|i: int| 0 <= i < n && i < cs.len() && entry_selects(#[trigger] cs[i], f, cs[i].entries@.len() as int)
}
pub open spec fn scan_state(p: HashSet<String>, p0: HashSet<String>, cs: Seq<Checkpoint>, n: int) -> bool {
    forall|f: Seq<char>| #[trigger] set_has(p, f) == (set_has(p0, f) || scan_selects(cs, f, n))
}
pub open spec fn scan_state_in(p: HashSet<String>, p0: HashSet<String>, cs: Seq<Checkpoint>, n: int, m: int) -> bool {
    forall|f: Seq<char>| #[trigger] set_has(p, f) == (set_has(p0, f) || scan_selects(cs, f, n) || entry_selects(cs[n], f, m))
}
pub open spec fn refs_rem<T>(r: Seq<&T>, v: Seq<T>) -> bool { r.len() == v.len() && forall|i: int| 0 <= i < v.len() ==> *(#[trigger] r[i]) == v[i] }
proof fn lemma_scan_step(p: HashSet<String>, p0: HashSet<String>, cs: Seq<Checkpoint>, n: int)
    requires 0 <= n < cs.len(), scan_state_in(p, p0, cs, n, cs[n].entries@.len() as int),
    ensures scan_state(p, p0, cs, n + 1),
{
    assert forall|f: Seq<char>| #[trigger] set_has(p, f) == (set_has(p0, f) || scan_selects(cs, f, n + 1)) by {
        if scan_selects(cs, f, n + 1) { let i = choose|i: int| 0 <= i < n + 1 && i < cs.len() && entry_selects(#[trigger] cs[i], f, cs[i].entries@.len() as int); if i < n { assert(scan_selects(cs, f, n)); } }
        if scan_selects(cs, f, n) { let i = choose|i: int| 0 <= i < n && i < cs.len() && entry_selects(#[trigger] cs[i], f, cs[i].entries@.len() as int); assert(scan_selects(cs, f, n + 1)); }
        if entry_selects(cs[n], f, cs[n].entries@.len() as int) { assert(scan_selects(cs, f, n + 1)); }
    }
}
proof fn lemma_entry_step(p1: HashSet<String>, p: HashSet<String>, p0: HashSet<String>, cs: Seq<Checkpoint>, n: int, m: int)
    requires
        0 <= n < cs.len(), 0 <= m < cs[n].entries@.len(), scan_state_in(p1, p0, cs, n, m),
        forall|g: Seq<char>| #[trigger] set_has(p, g) == ((counts(cs[n], cs[n].entries@[m]) && g == cs[n].entries@[m].file@) || set_has(p1, g)),
    ensures scan_state_in(p, p0, cs, n, m + 1),
{
    let c = cs[n];
    assert forall|f: Seq<char>| #[trigger] set_has(p, f) == (set_has(p0, f) || scan_selects(cs, f, n) || entry_selects(c, f, m + 1)) by {
        if entry_selects(c, f, m + 1) { let j = choose|j: int| 0 <= j < m + 1 && j < c.entries@.len() && counts(c, #[trigger] c.entries@[j]) && c.entries@[j].file@ == f; if j < m { assert(entry_selects(c, f, m)); } }
        if entry_selects(c, f, m) { let j = choose|j: int| 0 <= j < m && j < c.entries@.len() && counts(c, #[trigger] c.entries@[j]) && c.entries@[j].file@ == f; assert(entry_selects(c, f, m + 1)); }
        if counts(c, c.entries@[m]) && f == c.entries@[m].file@ { assert(entry_selects(c, f, m + 1)); }
    }
}
//#item file=src/authorship/post_commit.rs kind=region name=pc_scan in=post_commit from="for checkpoint in &parent_working_log {" to="}" from_nth=0 to_nth=2
//@ fn region_pc_scan(mut pathspecs: HashSet<String>, parent_working_log: Vec<Checkpoint>) -> (r_: HashSet<String>)
//@     ensures
//@         // the files handed to the split because of checkpoints are EXACTLY the files named by an entry that counts, of ANY
//@         // checkpoint of the working log (nothing else is added, nothing that was in the set is removed)
//@         forall|f: Seq<char>| #[trigger] set_has(r_, f) == (set_has(pathspecs, f) || scan_selects(parent_working_log@, f, parent_working_log@.len() as int)),
//@ {
//@     let ghost p0 = pathspecs; let ghost cs = parent_working_log@;
//@     proof { assert(scan_state(pathspecs, p0, cs, 0)); }
    for checkpoint in it_0: &parent_working_log
    //@     invariant cs == parent_working_log@, refs_rem(it_0.snapshot@.remaining(), cs), scan_state(pathspecs, p0, cs, it_0.index@ as int),
    {
        //@ let ghost n = it_0.index@ as int;
        //@ proof { assert(*checkpoint == cs[n]); assert(scan_state_in(pathspecs, p0, cs, n, 0)); }
        for entry in it_1: &checkpoint.entries
        //@     invariant 0 <= n < cs.len(), *checkpoint == cs[n], refs_rem(it_1.snapshot@.remaining(), cs[n].entries@), scan_state_in(pathspecs, p0, cs, n, it_1.index@ as int),
        {
            //@ let ghost m = it_1.index@ as int; let ghost p1 = pathspecs;
            //@ proof { assert(*entry == cs[n].entries@[m]); }
            if checkpoint_entry_requires_post_processing(checkpoint, entry) {
                pathspecs.insert(entry.file.clone());
            }
            //@ proof { lemma_entry_step(p1, pathspecs, p0, cs, n, m); }
        }
        //@ proof { lemma_scan_step(pathspecs, p0, cs, n); }
    }
//@     proof { assert(scan_state(pathspecs, p0, cs, cs.len() as int)); }
//@     pathspecs
//@ }
//#end

// ================================================================================================ part E: one round of enqueue_prompt_messages_to_cas
/// stand-in for authorship_log::PromptRecord: the two fields the upload touches; everything else in `rest`
pub struct PromptRecord { pub messages: Vec<Message>, pub messages_url: Option<String>, pub rest: PromptRest }
#[verifier::external_body] pub struct PromptRest { _o: () }
#[verifier::external_body] pub struct CasMessagesObject { _o: () }
#[verifier::external_body] pub struct JsonValue { _o: () }
pub uninterp spec fn obj_msgs(o: CasMessagesObject) -> Seq<Message>;
pub uninterp spec fn json_msgs(j: JsonValue) -> Seq<Message>;
pub uninterp spec fn cas_url(base: Seq<char>, hash: Seq<char>) -> Seq<char>;
/// `CasMessagesObject { messages: prompt.messages.clone() }`
#[verifier::external_body]
fn opq_cas_object(m: &Vec<Message>) -> (r: CasMessagesObject) ensures obj_msgs(r) == m@, { unimplemented!() }
#[verifier::external_body]
fn opq_to_json(o: &CasMessagesObject) -> (r: Result<JsonValue, GitAiError>) ensures r is Ok ==> json_msgs(r->Ok_0) == obj_msgs(*o), { unimplemented!() }
/// InternalDatabase::enqueue_cas_object: the object goes to the upload queue (an event), the answer is its hash
#[verifier::external_body]
fn opq_enqueue_cas_object(w: &mut World, g: &mut DbGuard, j: &JsonValue, meta: &HashMap<String, String>) -> (r: Result<String, GitAiError>)
    ensures
        r is Ok ==> trace(*final(w)) == trace(*old(w)).push(HEvent::CasEnqueued { messages: json_msgs(*j) }),
        r is Err ==> trace(*final(w)) == trace(*old(w)),
{ unimplemented!() }
#[verifier::external_body]
fn opq_cas_url(base: &str, hash: &String) -> (r: String) ensures r@ == cas_url(base@, hash@), { unimplemented!() }

//#item file=src/authorship/post_commit.rs kind=region name=cas_one in=enqueue_prompt_messages_to_cas from="if !prompt.messages.is_empty() {" to="$block_end" from_nth=0 to_nth=0 opaque='[{"expr": "crate::api::types::CasMessagesObject { messages: prompt.messages.clone(), }", "call": "opq_cas_object(&prompt.messages)"}, {"expr": "serde_json::to_value(&messages_obj) .map_err(|e| GitAiError::Generic(format!(\"Failed to serialize messages: {}\", e)))", "call": "opq_to_json(&messages_obj)"}, {"expr": "db_lock.enqueue_cas_object(&messages_json, Some(&metadata))", "call": "opq_enqueue_cas_object(w_, db_lock, &messages_json, &metadata)"}, {"expr": "format!(\"{}/cas/{}\", api_base_url, hash)", "call": "opq_cas_url(api_base_url, &hash)"}]'
//@ fn region_cas_one(w_: &mut World, prompt: &mut PromptRecord, db_lock: &mut DbGuard, metadata: HashMap<String, String>, api_base_url: &str) -> (r_: Result<(), GitAiError>)
//@     ensures
//@         // a record without conversation text is left alone, nothing is queued
//@         old(prompt).messages@.len() == 0 ==> r_ is Ok && *final(prompt) == *old(prompt) && trace(*final(w_)) == trace(*old(w_)),
//@         // success: the record carries no conversation text any more (what unit pcflow assumes of the whole function) ...
//@         r_ is Ok ==> final(prompt).messages@.len() == 0 && final(prompt).rest == old(prompt).rest,
//@         // ... because exactly ITS text went to the upload queue, and it now points at the queued object
//@         r_ is Ok && old(prompt).messages@.len() > 0 ==> trace(*final(w_)) == trace(*old(w_)).push(HEvent::CasEnqueued { messages: old(prompt).messages@ })
//@             && final(prompt).messages_url is Some,
//@         // failure: nothing was queued and the record still has its text (text is never dropped without having been queued)
//@         r_ is Err ==> *final(prompt) == *old(prompt) && trace(*final(w_)) == trace(*old(w_)),
//@ {
        if !prompt.messages.is_empty() {
            // Wrap messages in CasMessagesObject and serialize to JSON
            let messages_obj = opq_cas_object(&prompt.messages);
            let messages_json = opq_to_json(&messages_obj)?;

            // Enqueue to CAS (returns hash)
            let hash = opq_enqueue_cas_object(w_, db_lock, &messages_json, &metadata)?;

            // Set full URL and clear messages
            prompt.messages_url = Some(opq_cas_url(api_base_url, &hash));
            prompt.messages.clear();
        }
//@     Ok(())
//@ }
//#end

} // verus!
fn main() {}
