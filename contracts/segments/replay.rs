// Replay driver for unit segments: ORIGINAL append_range_diffs.
#![allow(dead_code, unused)]
include!("@ITEMS@");
use std::panic::{catch_unwind, AssertUnwindSafe};
struct Ctx { evaluated: u64, failed: std::collections::HashSet<String> }
impl Ctx {
    fn fail(&mut self, f: &str, clause: &str, input: String, observed: String, expected: String) {
        if self.failed.insert(f.to_string()) { println!("FAIL fn=[[{}]] clause=[[{}]] input=[[{}]] observed=[[{}]] expected=[[{}]]", f, clause, input, observed, expected); }
    }
}
fn guarded<T>(f: impl FnOnce() -> T) -> Result<T, String> {
    catch_unwind(AssertUnwindSafe(f)).map_err(|e| { let m = e.downcast_ref::<String>().cloned().or_else(|| e.downcast_ref::<&str>().map(|s| s.to_string())).unwrap_or_default(); format!("panic: {}", m) })
}
fn hex(s: &str) -> String { s.bytes().map(|b| format!("{:02x}", b)).collect() }
fn unhex(h: &str) -> String { String::from_utf8((0..h.len() / 2).map(|i| u8::from_str_radix(&h[2 * i..2 * i + 2], 16).unwrap()).collect()).unwrap() }
fn chk(c: &mut Ctx, old: &str, new: &str, o: (usize, usize), n: (usize, usize), force: bool) {
    if !(o.0 <= o.1 && o.1 <= old.len() && n.0 <= n.1 && n.1 <= new.len() && old.is_char_boundary(o.0) && old.is_char_boundary(o.1) && new.is_char_boundary(n.0) && new.is_char_boundary(n.1)) { return; }
    c.evaluated += 1;
    let input = format!("{};{};{}-{};{}-{};{}", hex(old), hex(new), o.0, o.1, n.0, n.1, force as u8);
    let pre = vec![ByteDiff::new(ByteDiffOp::Equal, b"zz")];
    let mut diffs: Vec<ByteDiff> = vec![ByteDiff::new(ByteDiffOp::Equal, b"zz")];
    match guarded(|| { append_range_diffs(&mut diffs, old, new, o, n, force); }) {
        Ok(()) => {
            if diffs.len() < 1 || diffs[0].data() != b"zz" { c.fail("append_range_diffs", "ensures#1", input, "existing segments changed".into(), "prefix kept".into()); return; }
            let mut os: Vec<u8> = vec![]; let mut ns: Vec<u8> = vec![];
            for d in &diffs[1..] { if d.data().is_empty() { c.fail("append_range_diffs", "ensures#4", input.clone(), "empty segment".into(), "no empty segment".into()); return; } match d.op() { ByteDiffOp::Equal => { os.extend(d.data()); ns.extend(d.data()); } ByteDiffOp::Delete => os.extend(d.data()), ByteDiffOp::Insert => ns.extend(d.data()) } }
            if os != old.as_bytes()[o.0..o.1] { c.fail("append_range_diffs", "ensures#2", input.clone(), format!("{:?}", String::from_utf8_lossy(&os)), format!("old side re-concatenates to {:?}", &old[o.0..o.1])); return; }
            if ns != new.as_bytes()[n.0..n.1] { c.fail("append_range_diffs", "ensures#3", input, format!("{:?}", String::from_utf8_lossy(&ns)), format!("new side re-concatenates to {:?}", &new[n.0..n.1])); }
        }
        Err(p) => c.fail("append_range_diffs", "safety", input, p, "no panic".into()),
    }
}
fn main() {
    std::panic::set_hook(Box::new(|_| {}));
    let a: Vec<String> = std::env::args().collect();
    let mut c = Ctx { evaluated: 0, failed: Default::default() };
    if a[1] == "search" {
        let texts = ["", "a", "ab\n", "é\nx", "日本", "ab\ncd\n", "🙂 "];
        for o in texts { for n in texts { for o0 in 0..=o.len() { for o1 in o0..=o.len() { for n0 in 0..=n.len() { for n1 in n0..=n.len() { chk(&mut c, o, n, (o0, o1), (n0, n1), false); chk(&mut c, o, n, (o0, o1), (n0, n1), true); } } } } } }
    } else {
        let p: Vec<&str> = a[3].split(';').collect();
        let r = |s: &str| { let q: Vec<usize> = s.split('-').map(|x| x.parse().unwrap()).collect(); (q[0], q[1]) };
        chk(&mut c, &unhex(p[0]), &unhex(p[1]), r(p[2]), r(p[3]), p[4] == "1");
    }
    println!("DONE evaluated={}", c.evaluated);
}
