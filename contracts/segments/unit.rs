// Unit segments — property C16: append_range_diffs, the step that turns one (old range, new range) pair into
// Equal / Delete / Insert byte segments.  C16's mechanism requires that the segments re-concatenate to the two
// inputs; this is that statement for one pair of ranges.
use vstd::prelude::*;
use vstd::utf8::*;
use vstd::string::StringSliceAdditionalSpecFns;
verus! {

//#include ../_shared/str_axioms.inc.rs
//#use-contract catalog ../_shared/bytediff.inc.rs

//#include ../_shared/append_range_diffs.inc.rs

} // verus!
fn main() {}
