// Replay driver for unit projection: ORIGINAL attributions_to_line_attributions (public char -> line projection) and,
// for the round trip C16 states, line_attributions_to_attributions.
#![allow(dead_code, unused)]
include!("@ITEMS@");
use std::panic::{catch_unwind, AssertUnwindSafe};

struct Ctx { evaluated: u64, failed: std::collections::HashSet<String> }
impl Ctx {
    fn fail(&mut self, f: &str, clause: &str, input: String, observed: String, expected: String) {
        if self.failed.insert(format!("{}::{}", f, clause)) {
            println!("FAIL fn=[[{}]] clause=[[{}]] input=[[{}]] observed=[[{}]] expected=[[{}]]", f, clause, input, observed, expected);
        }
    }
}
fn guarded<T>(f: impl FnOnce() -> T) -> Result<T, String> {
    catch_unwind(AssertUnwindSafe(f)).map_err(|e| {
        let m = e.downcast_ref::<String>().cloned().or_else(|| e.downcast_ref::<&str>().map(|s| s.to_string())).unwrap_or_default();
        format!("panic: {}", m)
    })
}
struct Rng(u64);
impl Rng {
    fn next(&mut self) -> u64 { self.0 ^= self.0 << 13; self.0 ^= self.0 >> 7; self.0 ^= self.0 << 17; self.0 }
    fn below(&mut self, n: u64) -> u64 { self.next() % n }
}
fn hex(s: &str) -> String { s.bytes().map(|b| format!("{:02x}", b)).collect() }
fn unhex(h: &str) -> String { String::from_utf8((0..h.len() / 2).map(|i| u8::from_str_radix(&h[2 * i..2 * i + 2], 16).unwrap()).collect()).unwrap() }
fn line_count(s: &str) -> u32 { let b = s.as_bytes(); let mut n = 0; let mut st = 0; for i in 0..b.len() { if b[i] == b'\n' { n += 1; st = i + 1; } } if st < b.len() { n += 1; } n }

// arbitrary attribution sets: totality
fn chk_total(c: &mut Ctx, content: &str, attrs: &[(usize, usize, String, u128)]) {
    c.evaluated += 1;
    let input = format!("T;{};{}", hex(content), attrs.iter().map(|a| format!("{}-{}-{}-{}", a.0, a.1, a.2, a.3)).collect::<Vec<_>>().join(" "));
    let av: Vec<Attribution> = attrs.iter().map(|a| Attribution::new(a.0, a.1, a.2.clone(), a.3)).collect();
    let n = line_count(content);
    match guarded(|| attributions_to_line_attributions(&av, content)) {
        Ok(las) => {
            for la in &las {
                if !(1 <= la.start_line && la.start_line <= la.end_line && la.end_line <= n) { c.fail("attributions_to_line_attributions", "range", input.clone(), format!("{}..{}", la.start_line, la.end_line), format!("lines inside 1..={}", n)); return; }
                if !(la.author_id == "human" || attrs.iter().any(|a| a.2 == la.author_id)) { c.fail("attributions_to_line_attributions", "author", input.clone(), la.author_id.clone(), "an author of the input".into()); return; }
            }
        }
        Err(p) => c.fail("attributions_to_line_attributions", "safety", input, p, "no panic for any attribution set".into()),
    }
}
// round trip: line -> char -> line returns the same AI lines
fn chk_round(c: &mut Ctx, content: &str, las: &[(u32, u32, String)]) {
    c.evaluated += 1;
    let input = format!("R;{};{}", hex(content), las.iter().map(|a| format!("{}-{}-{}", a.0, a.1, a.2)).collect::<Vec<_>>().join(" "));
    let lv: Vec<LineAttribution> = las.iter().map(|a| LineAttribution::new(a.0, a.1, a.2.clone(), None)).collect();
    let res = guarded(|| { let attrs = line_attributions_to_attributions(&lv, content, 7); attributions_to_line_attributions(&attrs, content) });
    match res {
        Ok(back) => {
            let mut want: Vec<(u32, String)> = vec![]; for a in las { for l in a.0..=a.1 { want.push((l, a.2.clone())); } }
            let mut got: Vec<(u32, String)> = vec![]; for a in &back { for l in a.start_line..=a.end_line { got.push((l, a.author_id.clone())); } }
            want.sort(); got.sort();
            if want != got { c.fail("attributions_to_line_attributions", "round_trip", input, format!("{:?}", got), format!("{:?}", want)); }
        }
        Err(p) => c.fail("attributions_to_line_attributions", "safety", input, p, "no panic".into()),
    }
}
fn main() {
    std::panic::set_hook(Box::new(|_| {}));
    let a: Vec<String> = std::env::args().collect();
    let mut c = Ctx { evaluated: 0, failed: Default::default() };
    if a[1] == "search" {
        let texts = ["é\n", "日本語\nx\n", "a🙂b\n🙂\n", "ab\ncd", "\n\n", "é", "x\r\né\r\n", "a\n\nb\n", "  \nx\n"];
        for t in texts {
            for s in 0..=t.len() + 1 { for e in s..=t.len() + 1 {
                chk_total(&mut c, t, &[(s, e, "ai".into(), 5)]);
                chk_total(&mut c, t, &[(0, t.len(), "human".into(), 9), (s, e, "ai".into(), 5)]);
            } }
            let n = line_count(t);
            for s in 1..=n { for e in s..=n { chk_round(&mut c, t, &[(s, e, "ai1".into())]); for s2 in e + 1..=n { for e2 in s2..=n { chk_round(&mut c, t, &[(s, e, "ai1".into()), (s2, e2, "ai2".into())]); } } } }
        }
        let mut g = Rng(a[3].parse::<u64>().unwrap_or(0).wrapping_mul(0x9E3779B97F4A7C15) ^ 0x94d049bb133111eb);
        let atoms = ["a", "é", "日", "🙂", "\n", " ", "\r\n", "xy", "\t"];
        for _ in 0..15000 {
            let n = 1 + g.below(9); let mut s = String::new(); for _ in 0..n { s.push_str(atoms[g.below(9) as usize]); }
            let k = g.below(5) as usize;
            let attrs: Vec<(usize, usize, String, u128)> = (0..k).map(|i| { let st = g.below(s.len() as u64 + 2) as usize; (st, st + g.below(7) as usize, if g.below(3) == 0 { "human".to_string() } else { format!("ai{}", i % 2) }, g.below(4) as u128) }).collect();
            chk_total(&mut c, &s, &attrs);
            let lc = line_count(&s); if lc == 0 { continue; }
            let mut las = vec![]; let mut l = 1u32;
            while l <= lc { if g.below(2) == 0 { let e = (l + g.below(2) as u32).min(lc); las.push((l, e, format!("ai{}", g.below(2)))); l = e + 1 + g.below(2) as u32; } else { l += 1; } }
            if !las.is_empty() { chk_round(&mut c, &s, &las); }
        }
    } else {
        let p: Vec<&str> = a[3].split(';').collect();
        let content = unhex(p[1]);
        if p[0] == "T" {
            let attrs: Vec<(usize, usize, String, u128)> = p[2].split_whitespace().map(|t| { let q: Vec<&str> = t.split('-').collect(); (q[0].parse().unwrap(), q[1].parse().unwrap(), q[2].to_string(), q[3].parse().unwrap()) }).collect();
            chk_total(&mut c, &content, &attrs);
        } else {
            let las: Vec<(u32, u32, String)> = p[2].split_whitespace().map(|t| { let q: Vec<&str> = t.split('-').collect(); (q[0].parse().unwrap(), q[1].parse().unwrap(), q[2].to_string()) }).collect();
            chk_round(&mut c, &content, &las);
        }
    }
    println!("DONE evaluated={}", c.evaluated);
}
