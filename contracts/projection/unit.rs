// Unit projection — property C16: attributions_to_line_attributions, the public char -> line projection.
// Proved: TOTAL for every attribution set and every text - no index out of range, no slice off a char boundary,
// the preconditions of find_dominant_author_for_line_candidates hold at its call site - given the trusted line
// partition and the O1 abstractions below (std sort/retain and two char predicates).
use vstd::prelude::*;
use vstd::utf8::*;
use vstd::string::StringSliceAdditionalSpecFns;
use vstd::std_specs::iter::IteratorSpec;
use vstd::std_specs::cmp::OrdSpec;
use core::cmp::Ordering;
verus! {

//#include ../_shared/str_axioms.inc.rs
//#include ../_shared/attr_specs.inc.rs
//#use-contract tracker_geom ../_shared/attribution.inc.rs
//#use-contract boundaries ../_shared/line_boundaries.inc.rs
//#use-contract dominant ../_shared/checkpoint_kind.inc.rs
//#use-contract dominant ../_shared/dominant_fn.inc.rs

pub open spec fn all_valid_idx(v: Seq<usize>, n: int) -> bool { forall|i: int| 0 <= i < v.len() ==> (#[trigger] v[i]) < n }

// ---------------------------------------------------------------- O1 abstractions (trusted std behaviour)
/// `sorted_indices.sort_by_key(|&idx| (attributions[idx].start, attributions[idx].end, idx))`: the key closure indexes
/// `attributions` with every element (hence the precondition); the result is a permutation, so all elements stay valid.
#[verifier::external_body]
fn opq_sort_indices(v: &mut Vec<usize>, attributions: &[Attribution])
    requires all_valid_idx(old(v)@, attributions@.len() as int),
    ensures final(v)@.len() == old(v)@.len(), all_valid_idx(final(v)@, attributions@.len() as int),
{ unimplemented!() }
/// `active_indices.retain(|&attr_idx| { let attr = &attributions[attr_idx]; attr.start < line_end && attr.end > line_start })`:
/// the predicate indexes `attributions` with every element (precondition); retain keeps a sub-sequence.
#[verifier::external_body]
fn opq_retain_overlapping(v: &mut Vec<usize>, attributions: &[Attribution], line_start: usize, line_end: usize)
    requires all_valid_idx(old(v)@, attributions@.len() as int),
    ensures all_valid_idx(final(v)@, attributions@.len() as int),
{ unimplemented!() }
/// `line_content.chars().all(|c| c.is_whitespace())`: pure, total
#[verifier::external_body]
fn opq_all_whitespace(s: &str) -> (r: bool)
{ unimplemented!() }
/// `merged_line_authors.retain(|line_attr| line_attr.author_id != CheckpointKind::Human.to_str() || line_attr.overrode.is_some())`
#[verifier::external_body]
fn opq_retain_ai_or_override(v: &mut Vec<LineAttribution>)
{ unimplemented!() }

//#item file=src/authorship/attribution_tracker.rs kind=struct name=LineAttribution derive=PartialEq,Eq
#[derive(PartialEq, Eq)]
pub struct LineAttribution {
    pub start_line: u32,
    pub end_line: u32,
    pub author_id: String,
    pub overrode: Option<String>,
}
//#end
//#item file=src/authorship/attribution_tracker.rs kind=fn name=merge_consecutive_line_attributions body=opaque
//@ #[verifier::external_body]
fn merge_consecutive_line_attributions(
    line_authorship: Vec<Option<(String, Option<String>)>>,
) -> (r_: Vec<LineAttribution>)
{
    let mut result = Vec::new();
    let line_count = line_authorship.len();

    let mut current_authorship: Option<(String, Option<String>)> = None;
    let mut current_start: u32 = 0;

    for (idx, authorship) in line_authorship.into_iter().enumerate() {
        let line_num = (idx + 1) as u32;

        match (&current_authorship, authorship) {
            (None, None) => {
                // No attribution for this line, continue
            }
            (None, Some(new_author)) => {
                // Start a new line attribution
                current_authorship = Some(new_author);
                current_start = line_num;
            }
            (Some(_), None) => {
                // End current attribution
                if let Some(authorship) = current_authorship.take() {
                    result.push(LineAttribution::new(
                        current_start,
                        line_num - 1,
                        authorship.0,
                        authorship.1,
                    ));
                }
            }
            (Some(curr), Some(new_authorship)) => {
                if curr == &new_authorship {
                    // Continue current attribution
                } else {
                    // End current, start new
                    result.push(LineAttribution::new(
                        current_start,
                        line_num - 1,
                        curr.0.clone(),
                        curr.1.clone(),
                    ));
                    current_authorship = Some(new_authorship);
                    current_start = line_num;
                }
            }
        }
    }

    // Close final attribution if any
    if let Some(authorship) = current_authorship {
        result.push(LineAttribution::new(
            current_start,
            line_count as u32,
            authorship.0,
            authorship.1,
        ));
    }

    result
}
//#end
//#item file=src/authorship/attribution_tracker.rs kind=fn name=attributions_to_line_attributions opaque='[{"expr": "sorted_indices.sort_by_key(|&idx| (attributions[idx].start, attributions[idx].end, idx))", "call": "opq_sort_indices(&mut sorted_indices, attributions)"}, {"expr": "active_indices.retain(|&attr_idx| {\n let attr = &attributions[attr_idx];\n attr.start < line_end && attr.end > line_start\n })", "call": "opq_retain_overlapping(&mut active_indices, attributions, line_start, line_end)"}, {"expr": "line_content.chars().all(|c| c.is_whitespace())", "call": "opq_all_whitespace(line_content)"}, {"expr": "merged_line_authors.retain(|line_attr| {\n line_attr.author_id != CheckpointKind::Human.to_str() || line_attr.overrode.is_some()\n })", "call": "opq_retain_ai_or_override(&mut merged_line_authors)"}]'
pub fn attributions_to_line_attributions(
    attributions: &[Attribution],
    content: &str,
) -> (r_: Vec<LineAttribution>)
//@     // total: no precondition at all on the attribution set (overlapping, unsorted, out of range, zero-length) or the text
//@     ensures true,
{
    if content.is_empty() || attributions.is_empty() {
        return Vec::new();
    }

    let boundaries = LineBoundaries::new(content);
    let line_count = boundaries.line_count();

    if line_count == 0 {
        return Vec::new();
    }

    let mut sorted_indices: Vec<usize> = (0..attributions.len()).collect();
    opq_sort_indices(&mut sorted_indices, attributions);

    //@ let ghost bytes = content.spec_bytes();
    let mut next_idx = 0usize;
    let mut active_indices: Vec<usize> = Vec::new();

    // For each line, determine the dominant author using a sweep over overlapping ranges.
    let mut line_authors: Vec<Option<(String, Option<String>)>> =
        Vec::with_capacity(line_count as usize);

    for line_num in it_0: 1..=line_count
    //@     invariant
    //@         bytes == content.spec_bytes(),
    //@         boundaries.line_ranges@ == line_table(bytes), partition_wf(boundaries.line_ranges@, bytes),
    //@         next_idx <= sorted_indices@.len(),
    //@         all_valid_idx(sorted_indices@, attributions@.len() as int),
    //@         all_valid_idx(active_indices@, attributions@.len() as int),
    {
        if let Some((line_start, line_end)) = boundaries.get_line_range(line_num) {

        while next_idx < sorted_indices.len()
            && attributions[sorted_indices[next_idx]].start < line_end
            //@     invariant
            //@         next_idx <= sorted_indices@.len(),
            //@         all_valid_idx(sorted_indices@, attributions@.len() as int),
            //@         all_valid_idx(active_indices@, attributions@.len() as int),
            //@     decreases sorted_indices@.len() - next_idx,
        {
            //@ let ghost before = active_indices@;
            active_indices.push(sorted_indices[next_idx]);
            //@ proof { assert(active_indices@ =~= before.push(sorted_indices@[next_idx as int])); }
            next_idx += 1;
        }

        opq_retain_overlapping(&mut active_indices, attributions, line_start, line_end);

        //@ proof {
        //@     let n = line_num as int;
        //@     assert((line_start, line_end) == boundaries.line_ranges@[n - 1]);
        //@ }
        let line_content = &content[line_start..line_end];
        let is_line_empty =
            line_content.is_empty() || opq_all_whitespace(line_content);
        let (author, overrode) = find_dominant_author_for_line_candidates(
            line_start,
            line_end,
            is_line_empty,
            &active_indices,
            attributions,
            content,
        );
        line_authors.push(Some((author, overrode)));
    } else { line_authors.push(Some((CheckpointKind::Human.to_str(), None))); }
    }

    // Merge consecutive lines with the same author
    let mut merged_line_authors = merge_consecutive_line_attributions(line_authors);

    // Strip away all human lines (only AI lines need to be retained)
    opq_retain_ai_or_override(&mut merged_line_authors);
    merged_line_authors
}
//#end

} // verus!
fn main() {}
