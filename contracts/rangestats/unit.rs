// Unit rangestats — property C19: where the numbers of `git-ai stats` come from.
// Unit `stats` proves the arithmetic of stats_from_authorship_log / accepted_lines_from_attestations and the numstat loop in
// isolation.  This unit puts the CALLERS under contract: which git command lines produce the inputs (stubs whose precondition
// states the command line and the pinned profile, whose result is an uninterpreted function of the command line), that ONE
// ignore predicate - ignored(the caller's patterns, REAL path name) - filters the numstat totals, the added-line sets and (through the
// lookup) the note's files, that the added-line numbers matched against the note are the NEW-side lines of the commit's own
// diff against its first parent (the empty tree for a root commit, nothing for a merge), and for a commit range that all
// four sub-computations receive the same (start, end, patterns) and the commit list `start..end`.
use vstd::prelude::*;
use vstd::std_specs::cmp::OrdSpec;
use core::cmp::Ordering;
use std::collections::BTreeMap;
use std::collections::HashMap;
use std::collections::HashSet;
use vstd::std_specs::iter::IteratorSpec;
verus! {

pub open spec fn views(v: Seq<String>) -> Seq<Seq<char>> { Seq::new(v.len(), |i: int| v[i]@) }

// ---------------------------------------------------------------- stand-ins for crate types the verified text only passes around
pub enum GitAiError { Generic(String) }
/// stand-in for std::process::Output (only stdout is read)
pub struct Output { pub stdout: Vec<u8> }
/// stand-in for crate::git::repository::Repository
#[verifier::external_body] pub struct Repository { _o: () }
//#item file=src/git/repository.rs kind=enum name=InternalGitProfile derive=PartialEq,Eq,Clone,Copy
//@ #[derive(Structural)]
#[derive(PartialEq, Eq, Clone, Copy)]
pub enum InternalGitProfile {
    General,
    PatchParse,
    NumstatParse,
    RawDiffParse,
}
//#end

// ---------------------------------------------------------------- the ignore predicate
/// THE ignore predicate of C19 ("minus ignored files"): whether the pattern list matches a path (glob matching: uninterpreted)
pub uninterp spec fn ignored(pats: Seq<Seq<char>>, path: Seq<char>) -> bool;
pub mod authorship { pub mod transcript { pub use crate::transcript_types::{AiTranscript, Message}; } pub mod ignore {
    use super::super::*;
    /// stand-in for crate::authorship::ignore::IgnoreMatcher (compiled glob patterns)
    #[verifier::external_body] pub struct IgnoreMatcher { _o: () }
    pub uninterp spec fn pats_of(m: IgnoreMatcher) -> Seq<Seq<char>>;
    impl IgnoreMatcher {
        /// compiles exactly the patterns handed in
        #[verifier::external_body]
        pub fn new(patterns: &[String]) -> (r: Self)
            ensures pats_of(r) == views(patterns@),
        { unimplemented!() }
        #[verifier::external_body]
        pub fn is_ignored(&self, path: &str) -> (r: bool)
            ensures r == ignored(pats_of(*self), path@),
        { unimplemented!() }
    }
//#item file=src/authorship/ignore.rs kind=fn name=build_ignore_matcher
pub fn build_ignore_matcher(patterns: &[String]) -> (r_: IgnoreMatcher)
//@     ensures pats_of(r_) == views(patterns@),
{
    IgnoreMatcher::new(patterns)
}
//#end
//#item file=src/authorship/ignore.rs kind=fn name=should_ignore_file_with_matcher
pub fn should_ignore_file_with_matcher(path: &str, matcher: &IgnoreMatcher) -> (r_: bool)
//@     ensures r_ == ignored(pats_of(*matcher), path@),
{
    matcher.is_ignored(path)
}
//#end
    /// crate::authorship::ignore::should_ignore_file: `should_ignore_file_with_matcher(path, &build_ignore_matcher(patterns))`
    #[verifier::external_body]
    pub fn should_ignore_file(path: &str, patterns: &[String]) -> (r: bool)
        ensures r == ignored(views(patterns@), path@),
    { unimplemented!() }
} }
use crate::authorship::ignore::{IgnoreMatcher, pats_of, build_ignore_matcher, should_ignore_file_with_matcher};

//#item file=src/authorship/range_authorship.rs kind=fn name=should_ignore_file
pub fn should_ignore_file(path: &str, ignore_patterns: &[String]) -> (r_: bool)
//@     ensures r_ == ignored(views(ignore_patterns@), path@),
{
    crate::authorship::ignore::should_ignore_file(path, ignore_patterns)
}
//#end

// ---------------------------------------------------------------- what git is asked, and what it is ASSUMED to answer
pub uninterp spec fn global_args() -> Seq<Seq<char>>;      // repo.global_args_for_exec()
/// what git prints for a command line run under an internal profile (uninterpreted: ANY change of the command line or of
/// the profile changes the term the postconditions speak about)
pub uninterp spec fn git_stdout(cmd: Seq<Seq<char>>, profile: InternalGitProfile) -> Seq<u8>;
pub uninterp spec fn lossy(b: Seq<u8>) -> Seq<char>;        // String::from_utf8_lossy
/// `git show --numstat --format= <commit>`: git's own numstat of one commit
pub open spec fn show_numstat_cmd(sha: Seq<char>) -> Seq<Seq<char>> { global_args() + seq!["show"@, "--numstat"@, "--format="@, sha] }
/// `git diff --numstat <start>..<end>`: git's own numstat of a commit range
pub open spec fn diff_numstat_cmd(a: Seq<char>, b: Seq<char>) -> Seq<Seq<char>> { global_args() + seq!["diff"@, "--numstat"@, a + ".."@ + b] }
/// the two numstat requests this unit may issue (shape only; the exact revision is fixed by the postconditions)
pub open spec fn is_numstat_request(cmd: Seq<Seq<char>>) -> bool {
    let g = global_args().len() as int;
    &&& cmd.len() >= g + 3
    &&& cmd.subrange(0, g) == global_args()
    &&& ((cmd[g] == "show"@ && cmd[g + 1] == "--numstat"@ && cmd[g + 2] == "--format="@ && cmd.len() == g + 4)
         || (cmd[g] == "diff"@ && cmd[g + 1] == "--numstat"@ && cmd.len() == g + 3))
}
impl Repository {
    #[verifier::external_body]
    pub fn global_args_for_exec(&self) -> (r: Vec<String>)
        ensures views(r@) == global_args(),
    { unimplemented!() }
}
/// the git subprocess.  PRECONDITION = what may be run here: a numstat request under the NumstatParse profile (which unit
/// gitprofile proves to pin --no-renames --no-ext-diff --no-textconv --no-color --no-relative).  Result: assumed to be what
/// git prints for exactly that command line.
#[verifier::external_body]
pub fn exec_git_with_profile(args: &Vec<String>, profile: InternalGitProfile) -> (r: Result<Output, GitAiError>)
    requires
        profile == InternalGitProfile::NumstatParse,
        is_numstat_request(views(args@)),
    ensures
        r is Ok ==> r->Ok_0.stdout@ == git_stdout(views(args@), profile),
{ unimplemented!() }
pub mod utils {
    use super::*;
    /// crate::utils::unescape_git_path (body outside the Verus subset: chars().peekable(), from_str_radix, from_utf8):
    /// the real name a printed path denotes
    #[verifier::external_body]
    pub fn unescape_git_path(path: &str) -> (r: String)
        ensures r@ == unquoted(path@),
    { unimplemented!() }
}
#[verifier::external_body]
fn opq_lossy(b: &Vec<u8>) -> (r: String)
    ensures r@ == lossy(b@),
{ unimplemented!() }
#[verifier::external_body]
fn opq_fmt_range(a: &str, b: &str) -> (r: String)
    ensures r@ == a@ + ".."@ + b@,
{ unimplemented!() }

// ---------------------------------------------------------------- numstat totals (same reading of a record as unit stats, with the patterns explicit)
pub uninterp spec fn lines_of(s: Seq<char>) -> Seq<Seq<char>>;
pub uninterp spec fn is_blank(l: Seq<char>) -> bool;
pub uninterp spec fn starts_digit(l: Seq<char>) -> bool;
pub uninterp spec fn tab_fields(l: Seq<char>) -> Seq<Seq<char>>;
pub uninterp spec fn parse_u32(f: Seq<char>) -> Option<u32>;
/// the REAL file name that git's spelling of a path in numstat output denotes: git C-quotes a name with non-ASCII bytes,
/// double quotes, backslashes or control characters (`"caf\\303\\251.lock"`, core.quotePath); an ordinary name denotes itself.
/// (crate::utils::unescape_git_path: bounded sweep of the real function in unit diffparse and in this unit's driver)
pub uninterp spec fn unquoted(printed: Seq<char>) -> Seq<char>;
/// the file a numstat record is about, under the name the added-line sets (git_added) and the note use for it
pub open spec fn rec_path(l: Seq<char>) -> Seq<char> { unquoted(tab_fields(l)[2]) }
/// a numstat record that counts: `added \t deleted \t path` of a file whose REAL name the patterns do not match
pub open spec fn counted(l: Seq<char>, need_digit: bool, pats: Seq<Seq<char>>) -> bool {
    !is_blank(l) && (need_digit ==> starts_digit(l)) && tab_fields(l).len() >= 3 && !ignored(pats, rec_path(l))
}
pub open spec fn rec_added(l: Seq<char>, nd: bool, pats: Seq<Seq<char>>) -> int {
    if counted(l, nd, pats) { match parse_u32(tab_fields(l)[0]) { Some(a) => a as int, None => 0 } } else { 0 }
}
pub open spec fn rec_deleted(l: Seq<char>, nd: bool, pats: Seq<Seq<char>>) -> int {
    if counted(l, nd, pats) && tab_fields(l)[1] != "-"@ { match parse_u32(tab_fields(l)[1]) { Some(d) => d as int, None => 0 } } else { 0 }
}
pub open spec fn sum_added(ls: Seq<Seq<char>>, n: int, nd: bool, pats: Seq<Seq<char>>) -> int decreases n { if n <= 0 { 0 } else { sum_added(ls, n - 1, nd, pats) + rec_added(ls[n - 1], nd, pats) } }
pub open spec fn sum_deleted(ls: Seq<Seq<char>>, n: int, nd: bool, pats: Seq<Seq<char>>) -> int decreases n { if n <= 0 { 0 } else { sum_deleted(ls, n - 1, nd, pats) + rec_deleted(ls[n - 1], nd, pats) } }
/// git's numstat totals of a text minus the records of ignored files
pub open spec fn numstat_added(text: Seq<char>, nd: bool, pats: Seq<Seq<char>>) -> int { sum_added(lines_of(text), lines_of(text).len() as int, nd, pats) }
pub open spec fn numstat_deleted(text: Seq<char>, nd: bool, pats: Seq<Seq<char>>) -> int { sum_deleted(lines_of(text), lines_of(text).len() as int, nd, pats) }
pub open spec fn numstat_fits(text: Seq<char>, nd: bool, pats: Seq<Seq<char>>) -> bool { numstat_added(text, nd, pats) <= u32::MAX && numstat_deleted(text, nd, pats) <= u32::MAX }
/// the text git prints for one commit / for a range
pub open spec fn show_text(sha: Seq<char>) -> Seq<char> { lossy(git_stdout(show_numstat_cmd(sha), InternalGitProfile::NumstatParse)) }
pub open spec fn range_text(a: Seq<char>, b: Seq<char>) -> Seq<char> { lossy(git_stdout(diff_numstat_cmd(a, b), InternalGitProfile::NumstatParse)) }
proof fn lemma_sums_mono(ls: Seq<Seq<char>>, k: int, n: int, nd: bool, pats: Seq<Seq<char>>)
    requires k <= n
    ensures 0 <= sum_added(ls, k, nd, pats) <= sum_added(ls, n, nd, pats), 0 <= sum_deleted(ls, k, nd, pats) <= sum_deleted(ls, n, nd, pats)
    decreases n
{
    if n > 0 { if k < n { lemma_sums_mono(ls, k, n - 1, nd, pats); } else { lemma_sums_mono(ls, k - 1, n - 1, nd, pats); } }
}
pub open spec fn strs_match(v: Seq<&str>, ls: Seq<Seq<char>>) -> bool {
    &&& v.len() == ls.len()
    &&& forall|k: int| 0 <= k < ls.len() ==> (#[trigger] v[k])@ == ls[k]
}
#[verifier::external_body]
fn opq_lines<'a>(s: &'a String) -> (r: Vec<&'a str>)
    ensures strs_match(r@, lines_of(s@)),
{ unimplemented!() }
#[verifier::external_body]
fn opq_blank(l: &str) -> (r: bool)
    ensures r == is_blank(l@),
{ unimplemented!() }
#[verifier::external_body]
fn opq_starts_digit(l: &str) -> (r: bool)
    ensures r == starts_digit(l@),
{ unimplemented!() }
#[verifier::external_body]
fn opq_split_tab<'a>(l: &'a str) -> (r: Vec<&'a str>)
    ensures strs_match(r@, tab_fields(l@)),
{ unimplemented!() }
#[verifier::external_body]
fn opq_parse_u32(f: &str) -> (r: Result<u32, ()>)
    ensures match r { Ok(v) => parse_u32(f@) == Some(v), Err(_) => parse_u32(f@) is None },
{ unimplemented!() }
#[verifier::external_body]
fn opq_str_ne(a: &str, b: &str) -> (r: bool)
    ensures r == (a@ != b@),
{ unimplemented!() }

//#item file=src/authorship/stats.rs kind=fn name=get_git_diff_stats opaque='[{"expr": "String::from_utf8_lossy(&output.stdout)", "call": "opq_lossy(&output.stdout)"}, {"expr": "stdout.lines()", "call": "opq_lines(&stdout)"}, {"expr": "line.trim().is_empty()", "call": "opq_blank(line)"}, {"expr": "line.chars().next().is_some_and(|c| c.is_ascii_digit())", "call": "opq_starts_digit(line)"}, {"expr": "line.split(\u0027\\t\u0027).collect()", "call": "opq_split_tab(line)"}, {"expr": "parts[0].parse::<u32>()", "call": "opq_parse_u32(parts[0])"}, {"expr": "parts[1] != \"-\"", "call": "opq_str_ne(parts[1], \"-\")"}, {"expr": "parts[1].parse::<u32>()", "call": "opq_parse_u32(parts[1])"}]'
pub fn get_git_diff_stats(
    repo: &Repository,
    commit_sha: &str,
    ignore_patterns: &[String],
) -> (r_: Result<(u32, u32), GitAiError>)
//@     requires
//@         // machine arithmetic: the totals of one commit fit a u32 (plain `+=`)
//@         numstat_fits(show_text(commit_sha@), true, views(ignore_patterns@)),
//@     ensures
//@         // added / deleted = git's own numstat of THIS commit (`git show --numstat --format= <commit>` under the pinned
//@         // NumstatParse profile) minus the records whose path - its REAL name, unquoted, the name the added-line sets and the
//@         // note use - the CALLER'S patterns match; nothing else is dropped or added
//@         r_ is Ok ==> r_->Ok_0.0 as int == numstat_added(show_text(commit_sha@), true, views(ignore_patterns@)),
//@         r_ is Ok ==> r_->Ok_0.1 as int == numstat_deleted(show_text(commit_sha@), true, views(ignore_patterns@)),
{
    // Use git show --numstat to get diff statistics
    let mut args = repo.global_args_for_exec();
    args.push("show".to_string());
    args.push("--numstat".to_string());
    args.push("--format=".to_string()); // No format, just the numstat
    args.push(commit_sha.to_string());
    //@ proof { assert(views(args@) =~= show_numstat_cmd(commit_sha@)); assert(views(args@).subrange(0, global_args().len() as int) =~= global_args()); }

    let output = exec_git_with_profile(&args, InternalGitProfile::NumstatParse)?;
    let stdout = opq_lossy(&output.stdout);

    let mut added_lines = 0u32;
    let mut deleted_lines = 0u32;
    let ignore_matcher = build_ignore_matcher(ignore_patterns);
    //@ let ghost ls = lines_of(stdout@); let ghost pats = views(ignore_patterns@);
    //@ proof { assert(stdout@ == show_text(commit_sha@)); }

    // Parse numstat output
    for line in it_0: opq_lines(&stdout)
    //@     invariant
    //@         ls == lines_of(stdout@), strs_match(it_0.snapshot@.remaining(), ls), pats == pats_of(ignore_matcher),
    //@         sum_added(ls, ls.len() as int, true, pats) <= u32::MAX, sum_deleted(ls, ls.len() as int, true, pats) <= u32::MAX,
    //@         added_lines == sum_added(ls, it_0.index@, true, pats),
    //@         deleted_lines == sum_deleted(ls, it_0.index@, true, pats),
    {
        //@ let ghost li = it_0.index@;
        //@ proof { assert(line@ == ls[li]); lemma_sums_mono(ls, li + 1, ls.len() as int, true, pats); lemma_sums_mono(ls, 0, li, true, pats); }
        if !(opq_blank(line)) {

        // Skip the commit message lines (they don't start with numbers)
        if !(!opq_starts_digit(line)) {

        // Parse numstat format: "added\tdeleted\tfilename"
        let parts: Vec<&str> = opq_split_tab(line);
        if parts.len() >= 3 {
            // Check if this file should be ignored
            // git C-quotes unusual file names in numstat output (core.quotePath); match the real name
            let filename = crate::utils::unescape_git_path(parts[2]);
            if !(should_ignore_file_with_matcher(&filename, &ignore_matcher)) {

            // Parse added lines
            if let Ok(added) = opq_parse_u32(parts[0]) {
                added_lines += added;
            }

            // Parse deleted lines (handle "-" for binary files)
            if opq_str_ne(parts[1], "-") { if let Ok(deleted) = opq_parse_u32(parts[1])
            {
                deleted_lines += deleted;
            } }
        } }
    } }
    }

    Ok((added_lines, deleted_lines))
}
//#end

//#item file=src/authorship/range_authorship.rs kind=fn name=get_git_diff_stats_for_range opaque='[{"expr": "format!(\"{}..{}\", start_sha, end_sha)", "call": "opq_fmt_range(start_sha, end_sha)"}, {"expr": "String::from_utf8_lossy(&output.stdout)", "call": "opq_lossy(&output.stdout)"}, {"expr": "stdout.lines()", "call": "opq_lines(&stdout)"}, {"expr": "line.trim().is_empty()", "call": "opq_blank(line)"}, {"expr": "line.split(\u0027\\t\u0027).collect()", "call": "opq_split_tab(line)"}, {"expr": "parts[0].parse::<u32>()", "call": "opq_parse_u32(parts[0])"}, {"expr": "parts[1] != \"-\"", "call": "opq_str_ne(parts[1], \"-\")"}, {"expr": "parts[1].parse::<u32>()", "call": "opq_parse_u32(parts[1])"}]'
fn get_git_diff_stats_for_range(
    repo: &Repository,
    start_sha: &str,
    end_sha: &str,
    ignore_patterns: &[String],
) -> (r_: Result<(u32, u32), GitAiError>)
//@     requires
//@         numstat_fits(range_text(start_sha@, end_sha@), false, views(ignore_patterns@)),
//@     ensures
//@         // the same statement for a commit RANGE: git's own `git diff --numstat <start>..<end>` (start first, end second)
//@         // minus the records whose path (REAL name, unquoted) the caller's patterns match
//@         r_ is Ok ==> r_->Ok_0.0 as int == numstat_added(range_text(start_sha@, end_sha@), false, views(ignore_patterns@)),
//@         r_ is Ok ==> r_->Ok_0.1 as int == numstat_deleted(range_text(start_sha@, end_sha@), false, views(ignore_patterns@)),
{
    // Use git diff --numstat to get diff statistics for the range
    let mut args = repo.global_args_for_exec();
    args.push("diff".to_string());
    args.push("--numstat".to_string());
    args.push(opq_fmt_range(start_sha, end_sha));
    //@ proof { assert(views(args@) =~= diff_numstat_cmd(start_sha@, end_sha@)); assert(views(args@).subrange(0, global_args().len() as int) =~= global_args()); }

    let output = exec_git_with_profile(&args, InternalGitProfile::NumstatParse)?;
    let stdout = opq_lossy(&output.stdout);

    let mut added_lines = 0u32;
    let mut deleted_lines = 0u32;
    let ignore_matcher = build_ignore_matcher(ignore_patterns);
    //@ let ghost ls = lines_of(stdout@); let ghost pats = views(ignore_patterns@);
    //@ proof { assert(stdout@ == range_text(start_sha@, end_sha@)); }

    // Parse numstat output
    for line in it_0: opq_lines(&stdout)
    //@     invariant
    //@         ls == lines_of(stdout@), strs_match(it_0.snapshot@.remaining(), ls), pats == pats_of(ignore_matcher),
    //@         sum_added(ls, ls.len() as int, false, pats) <= u32::MAX, sum_deleted(ls, ls.len() as int, false, pats) <= u32::MAX,
    //@         added_lines == sum_added(ls, it_0.index@, false, pats),
    //@         deleted_lines == sum_deleted(ls, it_0.index@, false, pats),
    {
        //@ let ghost li = it_0.index@;
        //@ proof { assert(line@ == ls[li]); lemma_sums_mono(ls, li + 1, ls.len() as int, false, pats); lemma_sums_mono(ls, 0, li, false, pats); }
        if !(opq_blank(line)) {

        // Parse numstat format: "added\tdeleted\tfilename"
        let parts: Vec<&str> = opq_split_tab(line);
        if parts.len() >= 3 {
            // Check if this file should be ignored and skip it
            // git C-quotes unusual file names in numstat output (core.quotePath); match the real name
            let filename = crate::utils::unescape_git_path(parts[2]);
            if !(should_ignore_file_with_matcher(&filename, &ignore_matcher)) {

            // Parse added lines
            if let Ok(added) = opq_parse_u32(parts[0]) {
                added_lines += added;
            }

            // Parse deleted lines (handle "-" for binary files)
            if opq_str_ne(parts[1], "-") { if let Ok(deleted) = opq_parse_u32(parts[1])
            {
                deleted_lines += deleted;
            } }
        } }
    }
    }

    Ok((added_lines, deleted_lines))
}
//#end

// ---------------------------------------------------------------- the note and the headline numbers (types as in unit stats)
//#include ../_shared/linerange_type.inc.rs
/// the note's types.  AuthorshipMetadata is a stand-in: the verified text never inspects it
#[verifier::external_body] pub struct AuthorshipMetadata { _o: () }
//#item file=src/authorship/authorship_log_serialization.rs kind=struct name=AttestationEntry
pub struct AttestationEntry {
    pub hash: String,
    pub line_ranges: Vec<LineRange>,
}
//#end
//#item file=src/authorship/authorship_log_serialization.rs kind=struct name=FileAttestation
pub struct FileAttestation {
    pub file_path: String,
    pub entries: Vec<AttestationEntry>,
}
//#end
//#item file=src/authorship/authorship_log_serialization.rs kind=struct name=AuthorshipLog
pub struct AuthorshipLog {
    pub attestations: Vec<FileAttestation>,
    pub metadata: AuthorshipMetadata,
}
//#end
//#item file=src/authorship/stats.rs kind=struct name=ToolModelHeadlineStats
pub struct ToolModelHeadlineStats {
    pub ai_additions: u32, // Number of lines committed with AI attribution (full and/or mixed)
    pub mixed_additions: u32, // Number of AI-generated lines that were edited by humans before being committed
    pub ai_accepted: u32, // Number of AI-generated lines that were accepted by the user without any human edits
    pub total_ai_additions: u32, // Number of lines that were generated by AI while working on this commit
    pub total_ai_deletions: u32, // Number of lines that were deleted by AI while working on this commit
    pub time_waiting_for_ai: u64,
}
//#end
//#item file=src/authorship/stats.rs kind=struct name=CommitStats
pub struct CommitStats {
    pub human_additions: u32, // Number of lines committed with human attribution (full and/or mixed)
    pub mixed_additions: u32, // Number of AI-generated lines that were edited by humans before being committed
    pub ai_additions: u32, // Number of lines committed with AI attribution (full and/or mixed)
    pub ai_accepted: u32, // Number of AI-generated lines that were accepted by the user without any human edits
    pub total_ai_additions: u32, // Number of lines that were generated by AI while working on this commit
    pub total_ai_deletions: u32, // Number of lines that were deleted by AI while working on this commit
    pub time_waiting_for_ai: u64, // seconds
    pub git_diff_deleted_lines: u32,
    pub git_diff_added_lines: u32,
    pub tool_model_breakdown: BTreeMap<String, ToolModelHeadlineStats>,
}
//#end

// ---------------------------------------------------------------- accepted lines (spec functions as in unit stats)
pub open spec fn lr_lo(r: LineRange) -> int { match r { LineRange::Single(l) => l as int, LineRange::Range(s, _) => s as int } }
pub open spec fn lr_hi(r: LineRange) -> int { match r { LineRange::Single(l) => l as int, LineRange::Range(_, e) => e as int } }
pub open spec fn strictly_inc(s: Seq<u32>) -> bool { forall|i: int, j: int| 0 <= i < j < s.len() ==> s[i] < s[j] }
pub open spec fn seq_has(s: Seq<u32>, x: int) -> bool { exists|i: int| 0 <= i < s.len() && #[trigger] s[i] as int == x }
/// number of entries among the first n of s inside [lo, hi]
pub open spec fn count_in(s: Seq<u32>, n: int, lo: int, hi: int) -> int
    decreases n
{
    if n <= 0 { 0 } else { count_in(s, n - 1, lo, hi) + (if lo <= s[n - 1] <= hi { 1int } else { 0int }) }
}
/// the added lines of a file as the HashMap holds them (uninterpreted view of HashMap::get)
pub uninterp spec fn added_of(m: HashMap<String, Vec<u32>>, k: String) -> Option<Seq<u32>>;
pub open spec fn added_ok(m: HashMap<String, Vec<u32>>) -> bool {
    forall|k: String| #![trigger added_of(m, k)] match added_of(m, k) { Some(v) => strictly_inc(v) && v.len() <= u32::MAX, None => true }
}
pub open spec fn ranges_sum(rs: Seq<LineRange>, n: int, added: Seq<u32>) -> int
    decreases n
{
    if n <= 0 { 0 } else { ranges_sum(rs, n - 1, added) + count_in(added, added.len() as int, lr_lo(rs[n - 1]), lr_hi(rs[n - 1])) }
}
pub open spec fn entries_sum(es: Seq<AttestationEntry>, n: int, added: Seq<u32>) -> int
    decreases n
{
    if n <= 0 { 0 } else { entries_sum(es, n - 1, added) + ranges_sum(es[n - 1].line_ranges@, es[n - 1].line_ranges@.len() as int, added) }
}
/// the note's AI ranges intersected with the added lines held in the map; files without an entry contribute nothing
pub open spec fn files_sum(fs: Seq<FileAttestation>, n: int, m: HashMap<String, Vec<u32>>) -> int
    decreases n
{
    if n <= 0 { 0 } else {
        files_sum(fs, n - 1, m) + (match added_of(m, fs[n - 1].file_path) { Some(v) => entries_sum(fs[n - 1].entries@, fs[n - 1].entries@.len() as int, v), None => 0 })
    }
}
/// the same sum over a mathematical "added lines of a path" function
pub open spec fn g_files_sum(fs: Seq<FileAttestation>, n: int, f: spec_fn(Seq<char>) -> Option<Seq<u32>>) -> int
    decreases n
{
    if n <= 0 { 0 } else {
        g_files_sum(fs, n - 1, f) + (match f(fs[n - 1].file_path@) { Some(v) => entries_sum(fs[n - 1].entries@, fs[n - 1].entries@.len() as int, v), None => 0 })
    }
}
pub open spec fn map_is(m: HashMap<String, Vec<u32>>, f: spec_fn(Seq<char>) -> Option<Seq<u32>>) -> bool {
    forall|k: String| #![trigger added_of(m, k)] added_of(m, k) == f(k@)
}
proof fn lemma_files_sum_model(fs: Seq<FileAttestation>, n: int, m: HashMap<String, Vec<u32>>, f: spec_fn(Seq<char>) -> Option<Seq<u32>>)
    requires map_is(m, f),
    ensures files_sum(fs, n, m) == g_files_sum(fs, n, f),
    decreases n
{
    if n > 0 { lemma_files_sum_model(fs, n - 1, m, f); assert(added_of(m, fs[n - 1].file_path) == f(fs[n - 1].file_path@)); }
}
proof fn lemma_g_files_sum_none(fs: Seq<FileAttestation>, n: int, f: spec_fn(Seq<char>) -> Option<Seq<u32>>)
    requires forall|p: Seq<char>| (#[trigger] f(p)) is None,
    ensures g_files_sum(fs, n, f) == 0,
    decreases n
{
    if n > 0 { lemma_g_files_sum_none(fs, n - 1, f); assert(f(fs[n - 1].file_path@) is None); }
}

// ---------------------------------------------------------------- the repository as the commit statistics see it (uninterpreted model)
pub uninterp spec fn resolve(spec: Seq<char>) -> Seq<char>;                 // git rev-parse <spec>
pub uninterp spec fn peel(oid: Seq<char>) -> Seq<char>;                     // git rev-parse --verify <oid>^{commit}
pub uninterp spec fn n_parents(commit: Seq<char>) -> int;                   // number of parents of a commit
pub uninterp spec fn parent_of(commit: Seq<char>, i: int) -> Seq<char>;     // its i-th parent
/// NEW-side line numbers of the lines `git diff -U0 <from> <to>` reports as added, per path (Repository::diff_added_lines:
/// command line in unit diffargs, hunk parser in unit diffparse)
pub uninterp spec fn git_added(from: Seq<char>, to: Seq<char>) -> Map<Seq<char>, Seq<u32>>;
/// the authorship note of a commit (git notes, parsed: units serial / catfile)
pub uninterp spec fn note_of(sha: Seq<char>) -> Option<AuthorshipLog>;
/// sort_unstable + dedup of a list (documented behaviour, stated in opq_sort_dedup_all)
pub uninterp spec fn sort_dedup(v: Seq<u32>) -> Seq<u32>;
pub open spec fn same_lines(a: Seq<u32>, b: Seq<u32>) -> bool { forall|x: int| seq_has(a, x) <==> seq_has(b, x) }
pub open spec fn empty_tree() -> Seq<char> { "4b825dc642cb6eb9a060e54bf8d69288fbee4904"@ }
/// the commit the statistics are about, and the left side of "the commit's own diff": its FIRST parent, the empty tree for a root commit
pub open spec fn the_commit(sha: Seq<char>) -> Seq<char> { peel(resolve(sha)) }
pub open spec fn is_merge(sha: Seq<char>) -> bool { n_parents(the_commit(sha)) > 1 }
pub open spec fn own_from(sha: Seq<char>) -> Seq<char> { if n_parents(the_commit(sha)) == 0 { empty_tree() } else { parent_of(the_commit(sha), 0) } }
/// the added lines of a path that take part in the statistics: the new-side lines of the commit's own diff, sorted, each
/// once - and NONE for a path the patterns match (the same predicate as in the numstat totals) or for a merge commit
pub open spec fn stat_added(sha: Seq<char>, pats: Seq<Seq<char>>) -> spec_fn(Seq<char>) -> Option<Seq<u32>> {
    |p: Seq<char>| if !is_merge(sha) && git_added(own_from(sha), sha).dom().contains(p) && !ignored(pats, p) { Some(sort_dedup(git_added(own_from(sha), sha)[p])) } else { None }
}
/// number of lines the commit added that its note attributes to AI
pub open spec fn note_accepted(sha: Seq<char>, pats: Seq<Seq<char>>) -> int {
    match note_of(sha) { Some(log) => g_files_sum(log.attestations@, log.attestations@.len() as int, stat_added(sha, pats)), None => 0 }
}
pub struct Object { pub oid: String }
pub struct Commit { pub oid: String }
impl Repository {
    #[verifier::external_body]
    pub fn revparse_single(&self, spec: &str) -> (r: Result<Object, GitAiError>)
        ensures r is Ok ==> r->Ok_0.oid@ == resolve(spec@),
    { unimplemented!() }
    /// `git diff -U0 .. <from> <to>` parsed.  PRECONDITION: no pathspec filter (the whole diff).  Result: assumed to be git's
    /// added NEW-side line numbers for exactly these two revisions, fewer than 2^32 per file
    #[verifier::external_body]
    pub fn diff_added_lines(&self, from_ref: &str, to_ref: &str, pathspecs: Option<&HashSet<String>>) -> (r: Result<HashMap<String, Vec<u32>>, GitAiError>)
        requires pathspecs is None,
        ensures r is Ok ==> forall|k: String| #![trigger added_of(r->Ok_0, k)] added_of(r->Ok_0, k) == (if git_added(from_ref@, to_ref@).dom().contains(k@) { Some(git_added(from_ref@, to_ref@)[k@]) } else { None })
            && (git_added(from_ref@, to_ref@).dom().contains(k@) ==> git_added(from_ref@, to_ref@)[k@].len() <= u32::MAX),
    { unimplemented!() }
}
impl Object {
    #[verifier::external_body]
    pub fn peel_to_commit(&self) -> (r: Result<Commit, GitAiError>)
        ensures r is Ok ==> r->Ok_0.oid@ == peel(self.oid@),
    { unimplemented!() }
}
impl Commit {
    #[verifier::external_body]
    pub fn parent_count(&self) -> (r: Result<usize, GitAiError>)
        ensures r is Ok ==> r->Ok_0 as int == n_parents(self.oid@),
    { unimplemented!() }
    #[verifier::external_body]
    pub fn parent(&self, i: usize) -> (r: Result<Commit, GitAiError>)
        ensures r is Ok ==> r->Ok_0.oid@ == parent_of(self.oid@, i as int),
    { unimplemented!() }
    #[verifier::external_body]
    pub fn id(&self) -> (r: String)
        ensures r@ == self.oid@,
    { unimplemented!() }
}
#[verifier::external_body]
pub fn get_authorship(repo: &Repository, commit_sha: &str) -> (r: Option<AuthorshipLog>)
    ensures r == note_of(commit_sha@),
{ unimplemented!() }
/// O1 stub for `HashMap::new()`
#[verifier::external_body]
fn opq_map_new() -> (r: HashMap<String, Vec<u32>>)
    ensures forall|k: String| (#[trigger] added_of(r, k)) is None,
{ unimplemented!() }
/// O1 stub for `added_lines_by_file.retain(|file_path, _| !should_ignore_file_with_matcher(file_path, &ignore_matcher))`:
/// HashMap::retain keeps exactly the entries for which the closure is true; the closure is the negation of the verified
/// should_ignore_file_with_matcher on the KEY with the matcher in scope
#[verifier::external_body]
fn opq_retain_not_ignored(m: &mut HashMap<String, Vec<u32>>, matcher: &IgnoreMatcher)
    ensures forall|k: String| #![trigger added_of(*final(m), k)] added_of(*final(m), k) == (if ignored(pats_of(*matcher), k@) { None } else { added_of(*old(m), k) }),
{ unimplemented!() }
/// O1 stub for `for lines in added_lines_by_file.values_mut() { lines.sort_unstable(); lines.dedup(); }`: every list is
/// replaced by its sorted duplicate-free version (strictly increasing, the same set of line numbers, not longer)
#[verifier::external_body]
fn opq_sort_dedup_all(m: &mut HashMap<String, Vec<u32>>)
    ensures
        forall|k: String| #![trigger added_of(*final(m), k)] added_of(*final(m), k) == (match added_of(*old(m), k) { Some(v) => Some(sort_dedup(v)), None => None }),
        forall|v: Seq<u32>| #![trigger sort_dedup(v)] strictly_inc(sort_dedup(v)) && same_lines(sort_dedup(v), v) && sort_dedup(v).len() <= v.len(),
{ unimplemented!() }
/// contract PROVED in unit stats (accepted_lines_from_attestations), repeated here for the caller
#[verifier::external_body]
fn accepted_lines_from_attestations(
    authorship_log: Option<&AuthorshipLog>,
    added_lines_by_file: &HashMap<String, Vec<u32>>,
    is_merge_commit: bool,
) -> (r_: (u32, BTreeMap<String, u32>))
    requires
        added_ok(*added_lines_by_file),
        match authorship_log { Some(log) => files_sum(log.attestations@, log.attestations@.len() as int, *added_lines_by_file) <= u32::MAX, None => true },
    ensures
        r_.0 as int == (match authorship_log {
            Some(log) => if is_merge_commit { 0 } else { files_sum(log.attestations@, log.attestations@.len() as int, *added_lines_by_file) },
            None => 0,
        }),
{ unimplemented!() }
/// the note handed to stats_from_authorship_log (ghost: which log the prompt totals / mixed lines are read from)
pub uninterp spec fn stats_log(cs: CommitStats) -> Option<AuthorshipLog>;
/// contract PROVED in unit stats (stats_from_authorship_log), repeated here for the caller
#[verifier::external_body]
pub fn stats_from_authorship_log(
    authorship_log: Option<&AuthorshipLog>,
    git_diff_added_lines: u32,
    git_diff_deleted_lines: u32,
    ai_accepted: u32,
    ai_accepted_by_tool: &BTreeMap<String, u32>,
) -> (r_: CommitStats)
    ensures
        r_.git_diff_added_lines == git_diff_added_lines, r_.git_diff_deleted_lines == git_diff_deleted_lines, r_.ai_accepted == ai_accepted,
        r_.ai_additions as int == r_.mixed_additions + r_.ai_accepted,
        r_.mixed_additions as int <= (if git_diff_added_lines >= ai_accepted { git_diff_added_lines - ai_accepted } else { 0 }),
        r_.human_additions as int == (if git_diff_added_lines >= ai_accepted { git_diff_added_lines - ai_accepted } else { 0 }),
        ai_accepted <= git_diff_added_lines ==> (r_.human_additions + r_.ai_accepted == git_diff_added_lines && r_.ai_additions <= git_diff_added_lines),
        // (not part of the proved contract: a ghost label naming the log the prompt totals / mixed lines were read from)
        stats_log(r_) == (match authorship_log { Some(l) => Some(*l), None => None }),
{ unimplemented!() }
/// C19 for one CommitStats value, as far as the headline numbers go
pub open spec fn headline_ok(r: CommitStats) -> bool {
    &&& r.ai_additions as int == r.mixed_additions + r.ai_accepted
    &&& r.human_additions as int == (if r.git_diff_added_lines >= r.ai_accepted { r.git_diff_added_lines - r.ai_accepted } else { 0 })
    &&& r.mixed_additions as int <= (if r.git_diff_added_lines >= r.ai_accepted { r.git_diff_added_lines - r.ai_accepted } else { 0 })
    &&& (r.ai_accepted <= r.git_diff_added_lines ==> (r.human_additions + r.ai_accepted == r.git_diff_added_lines && r.ai_additions <= r.git_diff_added_lines))
}
/// what stats_for_commit_stats reports for a commit (C19, per commit)
pub open spec fn commit_stats_ok(r: CommitStats, sha: Seq<char>, pats: Seq<Seq<char>>) -> bool {
    // added / deleted: git's own numstat for the commit minus ignored files
    &&& r.git_diff_added_lines as int == numstat_added(show_text(sha), true, pats)
    &&& r.git_diff_deleted_lines as int == numstat_deleted(show_text(sha), true, pats)
    // accepted: the lines the commit added (own diff against the first parent, same ignore predicate) that its note attributes to AI
    &&& r.ai_accepted as int == note_accepted(sha, pats)
    // prompt totals / mixed lines are read from the commit's own note
    &&& stats_log(r) == note_of(sha)
    &&& headline_ok(r)
}
/// caller-side premises of stats_for_commit_stats (machine arithmetic)
pub open spec fn commit_stats_pre(sha: Seq<char>, pats: Seq<Seq<char>>) -> bool {
    &&& numstat_fits(show_text(sha), true, pats)
    &&& note_accepted(sha, pats) <= u32::MAX
}

//#item file=src/authorship/stats.rs kind=fn name=stats_for_commit_stats opaque='[{"expr": "HashMap::new()", "call": "opq_map_new()"}, {"expr": "added_lines_by_file\n.retain(|file_path, _| !should_ignore_file_with_matcher(file_path, &ignore_matcher))", "call": "opq_retain_not_ignored(&mut added_lines_by_file, &ignore_matcher)"}, {"stmt_from": "for lines in added_lines_by_file.values_mut() {", "call": "opq_sort_dedup_all(&mut added_lines_by_file);"}]'
pub fn stats_for_commit_stats(
    repo: &Repository,
    commit_sha: &str,
    ignore_patterns: &[String],
) -> (r_: Result<CommitStats, GitAiError>)
//@     requires commit_stats_pre(commit_sha@, views(ignore_patterns@)),
//@     ensures r_ is Ok ==> commit_stats_ok(r_->Ok_0, commit_sha@, views(ignore_patterns@)),
{
    let commit_obj = repo.revparse_single(commit_sha)?.peel_to_commit()?;
    //@ let ghost sha = commit_sha@; let ghost pats = views(ignore_patterns@);

    // Step 1: get the diff between this commit and its parent ON refname (if more than one parent)
    // If initial than everything is additions
    // We want the count here git shows +111 -55
    let (git_diff_added_lines, git_diff_deleted_lines) =
        get_git_diff_stats(repo, commit_sha, ignore_patterns)?;

    // Step 2: get the authorship log for this commit
    let authorship_log = get_authorship(repo, commit_sha);

    // Step 3: get line numbers added by this specific commit, then intersect with attestations.
    // This keeps accepted stats scoped to the target commit while avoiding expensive blame traversal.
    let parent_count = commit_obj.parent_count()?;
    let is_merge_commit = parent_count > 1;
    let mut added_lines_by_file: HashMap<String, Vec<u32>> = if is_merge_commit {
        opq_map_new()
    } else {
        let from_ref = if parent_count == 0 {
            "4b825dc642cb6eb9a060e54bf8d69288fbee4904".to_string()
        } else {
            commit_obj.parent(0)?.id()
        };
        repo.diff_added_lines(&from_ref, commit_sha, None)?
    };
    //@ let ghost m0 = added_lines_by_file;
    let ignore_matcher = build_ignore_matcher(ignore_patterns);
    opq_retain_not_ignored(&mut added_lines_by_file, &ignore_matcher);
    opq_sort_dedup_all(&mut added_lines_by_file);
    //@ proof {
    //@     assert(map_is(added_lines_by_file, stat_added(sha, pats))) by {
    //@         assert forall|k: String| #![trigger added_of(added_lines_by_file, k)] added_of(added_lines_by_file, k) == stat_added(sha, pats)(k@) by { let _ = added_of(m0, k); }
    //@     }
    //@     assert(added_ok(added_lines_by_file)) by {
    //@         assert forall|k: String| #![trigger added_of(added_lines_by_file, k)] (match added_of(added_lines_by_file, k) { Some(v) => strictly_inc(v) && v.len() <= u32::MAX, None => true }) by { let _ = added_of(m0, k); }
    //@     }
    //@     if note_of(sha) is Some { let fs = note_of(sha)->Some_0.attestations@; lemma_files_sum_model(fs, fs.len() as int, added_lines_by_file, stat_added(sha, pats)); }
    //@ }

    // Step 4: derive accepted lines directly from note attestations for lines added in this commit.
    let (ai_accepted, ai_accepted_by_tool) = accepted_lines_from_attestations(
        authorship_log.as_ref(),
        &added_lines_by_file,
        is_merge_commit,
    );
    //@ proof { if is_merge_commit && note_of(sha) is Some { let fs = note_of(sha)->Some_0.attestations@; lemma_g_files_sum_none(fs, fs.len() as int, stat_added(sha, pats)); } }

    // Step 5: Calculate stats from authorship log
    Ok(stats_from_authorship_log(
        authorship_log.as_ref(),
        git_diff_added_lines,
        git_diff_deleted_lines,
        ai_accepted,
        &ai_accepted_by_tool,
    ))
}
//#end

// ---------------------------------------------------------------- a commit range
/// stand-in for crate::git::repository::CommitRange (same public fields; the repository handle is left out)
pub struct CommitRange { pub start_oid: String, pub end_oid: String, pub refname: String }
//#item file=src/authorship/diff_ai_accepted.rs kind=struct name=DiffAiAcceptedStats
pub struct DiffAiAcceptedStats {
    pub total_ai_accepted: u32,
    pub per_tool_model: BTreeMap<String, u32>,
    pub per_prompt: BTreeMap<String, u32>,
}
//#end
/// `git rev-list <start>..<end>`: the commits of the range (start excluded, end included)
pub uninterp spec fn rev_list(start: Seq<char>, end: Seq<char>) -> Seq<Seq<char>>;
/// diff_ai_accepted_stats: the lines `git diff <start> <end>` adds in files the patterns do not match that blame (down to
/// the range) attributes to an AI session (body outside this unit: blame; its lines_to_ranges is in unit stats)
pub uninterp spec fn range_accepted(start: Seq<char>, end: Seq<char>, pats: Seq<Seq<char>>) -> int;
/// create_authorship_log_for_range: the in-memory squash note of the range (body outside this unit: VirtualAttributions)
pub uninterp spec fn range_log(start: Seq<char>, end: Seq<char>, commits: Seq<Seq<char>>, pats: Seq<Seq<char>>) -> AuthorshipLog;
#[verifier::external_body]
fn opq_string_eq(a: &String, b: &String) -> (r: bool)
    ensures r == (a@ == b@),
{ unimplemented!() }
/// O1 stub for `commit_range.clone().all_commits()`
#[verifier::external_body]
fn opq_all_commits(cr: &CommitRange) -> (r: Vec<String>)
    ensures views(r@) == rev_list(cr.start_oid@, cr.end_oid@),
{ unimplemented!() }
/// PRECONDITION: no lower blame bound (`oldest_commit` None)
#[verifier::external_body]
pub fn diff_ai_accepted_stats(repo: &Repository, from_ref: &str, to_ref: &str, oldest_commit: Option<&str>, ignore_patterns: &[String]) -> (r: Result<DiffAiAcceptedStats, GitAiError>)
    requires oldest_commit is None,
    ensures r is Ok ==> r->Ok_0.total_ai_accepted as int == range_accepted(from_ref@, to_ref@, views(ignore_patterns@)),
{ unimplemented!() }
#[verifier::external_body]
fn create_authorship_log_for_range(repo: &Repository, start_sha: &str, end_sha: &str, commit_shas: &[String], ignore_patterns: &[String]) -> (r: Result<AuthorshipLog, GitAiError>)
    ensures r is Ok ==> r->Ok_0 == range_log(start_sha@, end_sha@, views(commit_shas@), views(ignore_patterns@)),
{ unimplemented!() }
/// what `git-ai stats <start>..<end>` reports
pub open spec fn range_stats_ok(r: CommitStats, start: Seq<char>, end: Seq<char>, pats: Seq<Seq<char>>) -> bool {
    if start == end {
        // the range `X..X` is the single commit X: exactly the per-commit statistics of the END commit, counted once
        commit_stats_ok(r, end, pats)
    } else {
        // added / deleted: git's own numstat of the range minus ignored files
        &&& r.git_diff_added_lines as int == numstat_added(range_text(start, end), false, pats)
        &&& r.git_diff_deleted_lines as int == numstat_deleted(range_text(start, end), false, pats)
        // accepted: computed for the SAME two revisions in the same order with the SAME patterns
        &&& r.ai_accepted as int == range_accepted(start, end, pats)
        // prompt totals / mixed lines: the squash note of the same range over exactly the commits of `git rev-list start..end`
        &&& stats_log(r) == Some(range_log(start, end, rev_list(start, end), pats))
        &&& headline_ok(r)
    }
}
pub open spec fn range_stats_pre(start: Seq<char>, end: Seq<char>, pats: Seq<Seq<char>>) -> bool {
    if start == end { commit_stats_pre(end, pats) } else { numstat_fits(range_text(start, end), false, pats) }
}

//#item file=src/authorship/range_authorship.rs kind=fn name=calculate_range_stats_direct opaque='[{"expr": "start_sha == end_sha", "call": "opq_string_eq(&start_sha, &end_sha)"}, {"expr": "commit_range.clone().all_commits()", "call": "opq_all_commits(&commit_range)"}]'
fn calculate_range_stats_direct(
    repo: &Repository,
    commit_range: CommitRange,
    ignore_patterns: &[String],
) -> (r_: Result<CommitStats, GitAiError>)
//@     requires range_stats_pre(commit_range.start_oid@, commit_range.end_oid@, views(ignore_patterns@)),
//@     ensures r_ is Ok ==> range_stats_ok(r_->Ok_0, commit_range.start_oid@, commit_range.end_oid@, views(ignore_patterns@)),
{
    let start_sha = commit_range.start_oid.clone();
    let end_sha = commit_range.end_oid.clone();
    // Special case: single commit range (start == end)
    if opq_string_eq(&start_sha, &end_sha) {
        return stats_for_commit_stats(repo, &end_sha, ignore_patterns);
    }

    // Step 1: Get git diff stats between start and end
    let (git_diff_added_lines, git_diff_deleted_lines) =
        get_git_diff_stats_for_range(repo, &start_sha, &end_sha, ignore_patterns)?;

    let diff_ai_stats = diff_ai_accepted_stats(repo, &start_sha, &end_sha, None, ignore_patterns)?;

    // Step 2: Create in-memory authorship log for the range, filtered to only commits in the range
    let commit_shas = opq_all_commits(&commit_range);
    let authorship_log =
        create_authorship_log_for_range(repo, &start_sha, &end_sha, &commit_shas, ignore_patterns)?;

    // Step 3: Calculate stats from the authorship log
    let stats = stats_from_authorship_log(
        Some(&authorship_log),
        git_diff_added_lines,
        git_diff_deleted_lines,
        diff_ai_stats.total_ai_accepted,
        &diff_ai_stats.per_tool_model,
    );

    Ok(stats)
}
//#end

// ---------------------------------------------------------------- time waiting for AI (totality only: C19 does not speak about it)
pub mod serde_json { #[verifier::external_body] pub struct Value { _o: () } }
pub mod transcript_types {
    use super::*;
//#item file=src/authorship/transcript.rs kind=enum name=Message
pub enum Message {
    User {
        text: String,
        timestamp: Option<String>,
    },
    Assistant {
        text: String,
        timestamp: Option<String>,
    },
    Thinking {
        text: String,
        timestamp: Option<String>,
    },
    Plan {
        text: String,
        timestamp: Option<String>,
    },
    ToolUse {
        name: String,
        input: serde_json::Value,
        timestamp: Option<String>,
    },
}
//#end
//#item file=src/authorship/transcript.rs kind=struct name=AiTranscript
pub struct AiTranscript {
    pub messages: Vec<Message>,
}
//#end
impl AiTranscript {
//#item file=src/authorship/transcript.rs kind=fn name=messages impl="AiTranscript"
    pub fn messages(&self) -> (r_: &[Message])
    //@     ensures r_@ == self.messages@,
    {
        &self.messages
    }
//#end
}
}
use crate::transcript_types::Message;
/// O1 stub for `matches!(messages.last(), Some(Message::User { .. }))`
#[verifier::external_body]
fn opq_last_is_user(messages: &[Message]) -> (r: bool)
    ensures r == (messages@.len() > 0 && messages@[messages@.len() - 1] is User),
{ unimplemented!() }
/// O1 stub for the chrono statement `if let (Ok(user_time), Ok(ai_time)) = (parse_from_rfc3339(user_ts), parse_from_rfc3339(ai_ts)) {
/// .. total_waiting_time += duration.num_seconds() as u64 }`: assumed total (an overflow of the u64 sum would need more
/// than 10^5 message pairs each 500 000 years apart); only the running total changes
#[verifier::external_body]
fn opq_add_wait(total: &mut u64, user_ts: &String, ai_ts: &String)
{ unimplemented!() }

//#item file=src/authorship/stats.rs kind=fn name=calculate_waiting_time opaque='[{"expr": "matches!(messages.last(), Some(Message::User { .. }))", "call": "opq_last_is_user(messages)"}, {"stmt_from": "if let (Ok(user_time), Ok(ai_time)) = (\nchrono::DateTime::parse_from_rfc3339(user_ts),\nchrono::DateTime::parse_from_rfc3339(ai_ts),\n) {", "call": "opq_add_wait(&mut total_waiting_time, user_ts, ai_ts);"}]'
fn calculate_waiting_time(transcript: &crate::authorship::transcript::AiTranscript) -> (r_: u64)
//@     ensures
//@         // total for every transcript (no index out of range, no underflow of len - 1, the scan terminates); nothing is
//@         // counted for fewer than two messages or when a person spoke last
//@         (transcript.messages@.len() <= 1 || transcript.messages@[transcript.messages@.len() - 1] is User) ==> r_ == 0,
{
    let mut total_waiting_time = 0u64;
    let messages = transcript.messages();

    if messages.len() <= 1 {
        return 0;
    }

    // Check if last message is from human (don't count time if so)
    let last_message_is_human = opq_last_is_user(messages);
    if last_message_is_human {
        return 0;
    }

    // Sum time between user and AI messages
    let mut i = 0;
    while i < messages.len() - 1
    //@     invariant messages@.len() > 1, i <= messages@.len(),
    //@     decreases messages@.len() - i,
    {
        if let (
            Message::User {
                timestamp: Some(user_ts),
                ..
            },
            Message::Assistant {
                timestamp: Some(ai_ts),
                ..
            }
            | Message::Thinking {
                timestamp: Some(ai_ts),
                ..
            }
            | Message::Plan {
                timestamp: Some(ai_ts),
                ..
            },
        ) = (&messages[i], &messages[i + 1])
        {
            // Parse timestamps and calculate difference
            opq_add_wait(&mut total_waiting_time, user_ts, ai_ts);

            i += 2; // Skip to next user message
        } else {
            i += 1;
        }
    }

    total_waiting_time
}
//#end

} // verus!
fn main() {}
