#!/bin/bash
# End-to-end demonstration of the defect `ignored_file_with_quoted_numstat_path` (repaired in /repo c045cb68) with a built binary:
# a binary built BEFORE the repair prints 4, one built after it prints 1 in all three runs.
# usage: demo_quoted_path.sh <scratch dir>      (creates <scratch dir>/home and <scratch dir>/r)
set -e
D=${1:?scratch dir}; BIN=${GIT_AI_BIN:-/repo/target/debug/git-ai}
mkdir -p "$D/home"; export HOME="$D/home" GIT_CONFIG_NOSYSTEM=1
git config --global user.email a@b.c; git config --global user.name T; git config --global init.defaultBranch main
rm -rf "$D/r"; mkdir "$D/r"; cd "$D/r"; git init -q
echo base > a.txt; git add .; git commit -qm init
printf 'x\ny\nz\n' > 'café.lock'; printf 'l1\nl2\n' > plain.lock; printf 'base\nnew\n' > a.txt
git add .; git commit -qm second
echo "# git show --numstat --format= HEAD:"; git show --numstat --format= HEAD
echo "# git-ai stats --json (default patterns contain *.lock; expected git_diff_added_lines=1, human_additions=1):"
"$BIN" stats --json 2>/dev/null | tail -1
echo "# git-ai stats HEAD~1..HEAD~0 range form, same commit through calculate_range_stats_direct (expected 1):"
"$BIN" stats "HEAD~1..HEAD" --json 2>/dev/null | tail -1
echo "# the same with core.quotePath=false in the repository (the answer depends on the user's configuration):"
git config core.quotePath false; "$BIN" stats --json 2>/dev/null | tail -1
