// Replay driver for unit rangestats: the ORIGINAL text of stats_for_commit_stats, get_git_diff_stats,
// get_git_diff_stats_for_range, calculate_range_stats_direct, should_ignore_file (range_authorship.rs), build_ignore_matcher,
// should_ignore_file_with_matcher and (replay_items) accepted_lines_from_attestations, line_range_overlap_len,
// stats_from_authorship_log, calculate_waiting_time (with Message / AiTranscript; chrono is a stand-in), compiled against a FAKE GIT: a small linear history held in a table.  The fake answers like
// git does: `git show --numstat` / `git diff --numstat` print `added<TAB>deleted<TAB>path` with the path C-QUOTED when it
// contains non-ASCII bytes, a double quote, a backslash or a control character (core.quotePath default), `-` for binary files;
// diff_added_lines returns NEW-side line numbers keyed by the REAL path (its parser unquotes: unit diffparse).
// The oracle is written from the statement of C19 over the table (real paths, sets of line numbers), not from the code.
#![allow(dead_code, unused)]
use std::collections::{BTreeMap, BTreeSet, HashMap, HashSet};
use std::cell::RefCell;
pub mod authorship {
    pub mod authorship_log_serialization { pub use crate::{AuthorshipLog, FileAttestation, AttestationEntry, AuthorshipMetadata}; }
    pub mod transcript { pub use crate::{Message, AiTranscript}; }
    pub mod ignore { pub fn should_ignore_file(path: &str, patterns: &[String]) -> bool { crate::should_ignore_file_with_matcher(path, &crate::build_ignore_matcher(patterns)) } }
}
#[derive(Clone, Debug, PartialEq)] pub struct AuthorshipMetadata { pub prompts: BTreeMap<String, PromptRecord> }
#[derive(Clone, Debug, PartialEq)] pub struct AgentId { pub tool: String, pub id: String, pub model: String }
#[derive(Clone, Debug, PartialEq)] pub struct PromptRecord { pub agent_id: AgentId, pub messages: Vec<authorship::transcript::Message>, pub total_additions: u32, pub total_deletions: u32, pub accepted_lines: u32, pub overriden_lines: u32 }
pub mod utils { pub use crate::unescape_git_path; }
pub mod serde_json { #[derive(Debug, Clone, PartialEq)] pub struct Value; }
/// stand-in for chrono: a timestamp is written `T<seconds>`; anything else does not parse
pub mod chrono {
    pub struct DateTime(pub i64);
    pub struct Duration(pub i64);
    impl DateTime {
        pub fn parse_from_rfc3339(s: &str) -> Result<DateTime, ()> { s.strip_prefix('T').and_then(|x| x.parse::<i64>().ok()).map(DateTime).ok_or(()) }
        pub fn signed_duration_since(&self, o: DateTime) -> Duration { Duration(self.0 - o.0) }
    }
    impl Duration { pub fn num_seconds(&self) -> i64 { self.0 } }
}
#[derive(Debug)] pub enum GitAiError { Generic(String) }
pub struct Output { pub stdout: Vec<u8> }

/// stand-in for the crate's glob matcher: `*` matches any run of characters; a pattern matches the whole path or the file name
#[derive(Clone, Debug)] pub struct IgnoreMatcher { pats: Vec<String> }
fn glob(p: &[char], s: &[char]) -> bool {
    if p.is_empty() { return s.is_empty(); }
    if p[0] == '*' { (0..=s.len()).any(|k| glob(&p[1..], &s[k..])) } else { !s.is_empty() && s[0] == p[0] && glob(&p[1..], &s[1..]) }
}
impl IgnoreMatcher {
    pub fn new(patterns: &[String]) -> Self { IgnoreMatcher { pats: patterns.to_vec() } }
    pub fn is_ignored(&self, path: &str) -> bool {
        let name = path.rsplit('/').next().unwrap_or("");
        let (pc, nc): (Vec<char>, Vec<char>) = (path.chars().collect(), name.chars().collect());
        self.pats.iter().any(|p| { let q: Vec<char> = p.chars().collect(); glob(&q, &pc) || glob(&q, &nc) })
    }
}

// ------------------------------------------------------------------------------------------------ the fake repository
#[derive(Clone, Debug)] struct FileChange { path: String, added: Vec<u32>, deleted: u32, binary: bool }
#[derive(Clone, Debug)] struct NoteFile { path: String, entries: Vec<(String, Vec<(u32, Option<u32>)>)> }
#[derive(Clone, Debug)] struct CommitRec { sha: String, parents: Vec<String>, files: Vec<FileChange>, note: Option<(Vec<NoteFile>, Vec<(String, String, String, u32)>)> }
#[derive(Clone, Debug, Default)] struct World { commits: Vec<CommitRec>, range_numstat: Vec<FileChange>, range_accepted: u32 }
#[derive(Clone, Debug, PartialEq)] enum Call { Exec(Vec<String>, String), DiffAdded(String, String, bool), DiffAi(String, String, bool, Vec<String>), RangeLog(String, String, Vec<String>, Vec<String>), AllCommits }
thread_local! { static WORLD: RefCell<World> = RefCell::new(World::default()); static CALLS: RefCell<Vec<Call>> = RefCell::new(vec![]); }
const EMPTY_TREE: &str = "4b825dc642cb6eb9a060e54bf8d69288fbee4904";
fn c_quote(p: &str) -> String {
    let needs = p.bytes().any(|b| b < 0x20 || b == 0x7f || b >= 0x80 || b == b'"' || b == b'\\');
    if !needs { return p.to_string(); }
    let mut o = String::from("\"");
    for b in p.bytes() { match b { b'"' => o.push_str("\\\""), b'\\' => o.push_str("\\\\"), b'\t' => o.push_str("\\t"), b'\n' => o.push_str("\\n"), x if x < 0x20 || x >= 0x7f => o.push_str(&format!("\\{:03o}", x)), x => o.push(x as char) } }
    o.push('"'); o
}
fn distinct(v: &[u32]) -> BTreeSet<u32> { v.iter().cloned().collect() }
fn numstat_text(files: &[FileChange]) -> String {
    files.iter().map(|f| if f.binary { format!("-\t-\t{}\n", c_quote(&f.path)) } else { format!("{}\t{}\t{}\n", distinct(&f.added).len(), f.deleted, c_quote(&f.path)) }).collect()
}
#[derive(Clone)] pub struct Repository;
pub struct Object { oid: String }
pub struct Commit { oid: String }
impl Repository {
    pub fn global_args_for_exec(&self) -> Vec<String> { vec!["-C".to_string(), "/w".to_string(), "--no-pager".to_string()] }
    pub fn revparse_single(&self, spec: &str) -> Result<Object, GitAiError> {
        WORLD.with(|w| if w.borrow().commits.iter().any(|c| c.sha == spec) { Ok(Object { oid: spec.to_string() }) } else { Err(GitAiError::Generic("bad revision".into())) })
    }
    pub fn diff_added_lines(&self, from_ref: &str, to_ref: &str, pathspecs: Option<&HashSet<String>>) -> Result<HashMap<String, Vec<u32>>, GitAiError> {
        CALLS.with(|c| c.borrow_mut().push(Call::DiffAdded(from_ref.to_string(), to_ref.to_string(), pathspecs.is_some())));
        WORLD.with(|w| {
            let w = w.borrow();
            let Some(c) = w.commits.iter().find(|c| c.sha == to_ref) else { return Err(GitAiError::Generic("bad revision".into())); };
            let own = c.parents.first().map(|s| s.as_str()).unwrap_or(EMPTY_TREE);
            // any other pair of revisions is some other diff: answer with line numbers that belong to no commit of the table
            if from_ref != own { return Ok(c.files.iter().map(|f| (f.path.clone(), vec![900, 901, 902])).collect()); }
            Ok(c.files.iter().filter(|f| !f.binary && !f.added.is_empty()).map(|f| (f.path.clone(), f.added.clone())).collect())
        })
    }
}
impl Object { pub fn peel_to_commit(&self) -> Result<Commit, GitAiError> { Ok(Commit { oid: self.oid.clone() }) } }
impl Commit {
    pub fn parent_count(&self) -> Result<usize, GitAiError> { WORLD.with(|w| Ok(w.borrow().commits.iter().find(|c| c.sha == self.oid).unwrap().parents.len())) }
    pub fn parent(&self, i: usize) -> Result<Commit, GitAiError> { WORLD.with(|w| w.borrow().commits.iter().find(|c| c.sha == self.oid).unwrap().parents.get(i).map(|p| Commit { oid: p.clone() }).ok_or(GitAiError::Generic("no parent".into()))) }
    pub fn id(&self) -> String { self.oid.clone() }
}
pub fn exec_git_with_profile(args: &[String], profile: InternalGitProfile) -> Result<Output, GitAiError> {
    CALLS.with(|c| c.borrow_mut().push(Call::Exec(args.to_vec(), format!("{:?}", profile))));
    let g = Repository.global_args_for_exec().len();
    let rest: Vec<&str> = args.iter().skip(g).map(|s| s.as_str()).collect();
    WORLD.with(|w| {
        let w = w.borrow();
        if rest.len() >= 2 && rest[0] == "show" {
            let sha = rest[rest.len() - 1];
            let Some(c) = w.commits.iter().find(|c| c.sha == sha) else { return Err(GitAiError::Generic("bad revision".into())); };
            // without `--format=` git prints the commit header first; without --numstat it prints a patch
            let mut out = String::new();
            if !rest.contains(&"--format=") { out.push_str(&format!("commit {}\nAuthor: T <t@e>\n\n    1 message\n\n", sha)); }
            if rest.contains(&"--numstat") { out.push_str(&numstat_text(&c.files)); } else { out.push_str("diff --git a/x b/x\n"); }
            return Ok(Output { stdout: out.into_bytes() });
        }
        if rest.len() >= 2 && rest[0] == "diff" {
            let spec = rest[rest.len() - 1];
            let (Some(a), Some(b)) = (w.commits.first(), w.commits.last()) else { return Err(GitAiError::Generic("empty".into())); };
            // only the range the case is about is known; the reversed range prints the reversed counts
            let text = if spec == format!("{}..{}", RANGE.with(|r| r.borrow().0.clone()), RANGE.with(|r| r.borrow().1.clone())) { numstat_text(&w.range_numstat) }
                else { numstat_text(&w.range_numstat.iter().map(|f| FileChange { path: f.path.clone(), added: (0..f.deleted + 50).collect(), deleted: distinct(&f.added).len() as u32 + 50, binary: f.binary }).collect::<Vec<_>>()) };
            return Ok(Output { stdout: if rest.contains(&"--numstat") { text.into_bytes() } else { b"diff --git a/x b/x\n".to_vec() } });
        }
        Err(GitAiError::Generic("unknown git command".into()))
    })
}
thread_local! { static RANGE: RefCell<(String, String)> = RefCell::new((String::new(), String::new())); }
fn mk_log(files: &[NoteFile], prompts: &[(String, String, String, u32)]) -> AuthorshipLog {
    let mut pm = BTreeMap::new();
    for (h, t, m, ov) in prompts { pm.insert(h.clone(), PromptRecord { agent_id: AgentId { tool: t.clone(), id: "x".into(), model: m.clone() }, messages: vec![], total_additions: 3, total_deletions: 1, accepted_lines: 0, overriden_lines: *ov }); }
    AuthorshipLog {
        attestations: files.iter().map(|f| FileAttestation { file_path: f.path.clone(), entries: f.entries.iter().map(|(h, rs)| AttestationEntry { hash: h.clone(), line_ranges: rs.iter().map(|r| match r.1 { None => LineRange::Single(r.0), Some(e) => LineRange::Range(r.0, e) }).collect() }).collect() }).collect(),
        metadata: AuthorshipMetadata { prompts: pm },
    }
}
pub fn get_authorship(_repo: &Repository, sha: &str) -> Option<AuthorshipLog> {
    WORLD.with(|w| w.borrow().commits.iter().find(|c| c.sha == sha).and_then(|c| c.note.as_ref().map(|(f, p)| mk_log(f, p))))
}
#[derive(Clone)] pub struct CommitRange { pub start_oid: String, pub end_oid: String, pub refname: String }
impl CommitRange {
    pub fn all_commits(&self) -> Vec<String> {
        CALLS.with(|c| c.borrow_mut().push(Call::AllCommits));
        if self.start_oid == self.end_oid { return vec![self.end_oid.clone()]; }
        WORLD.with(|w| { let w = w.borrow(); let i = w.commits.iter().position(|c| c.sha == self.start_oid); let j = w.commits.iter().position(|c| c.sha == self.end_oid);
            match (i, j) { (Some(i), Some(j)) if i < j => w.commits[i + 1..=j].iter().rev().map(|c| c.sha.clone()).collect(), _ => vec![] } })
    }
}
pub fn diff_ai_accepted_stats(_repo: &Repository, from_ref: &str, to_ref: &str, oldest: Option<&str>, pats: &[String]) -> Result<DiffAiAcceptedStats, GitAiError> {
    CALLS.with(|c| c.borrow_mut().push(Call::DiffAi(from_ref.to_string(), to_ref.to_string(), oldest.is_some(), pats.to_vec())));
    let n = WORLD.with(|w| w.borrow().range_accepted);
    let mut per_tool = BTreeMap::new(); if n > 0 { per_tool.insert("cursor::m1".to_string(), n); }
    Ok(DiffAiAcceptedStats { total_ai_accepted: n, per_tool_model: per_tool, per_prompt: BTreeMap::new() })
}
fn create_authorship_log_for_range(_repo: &Repository, start: &str, end: &str, commits: &[String], pats: &[String]) -> Result<AuthorshipLog, GitAiError> {
    CALLS.with(|c| c.borrow_mut().push(Call::RangeLog(start.to_string(), end.to_string(), commits.to_vec(), pats.to_vec())));
    Ok(mk_log(&[], &[("h1".to_string(), "cursor".to_string(), "m1".to_string(), 0)]))
}
include!("@ITEMS@");
use std::panic::{catch_unwind, AssertUnwindSafe};

struct Ctx { evaluated: u64, failed: HashSet<String> }
impl Ctx {
    fn fail(&mut self, f: &str, clause: &str, input: String, observed: String, expected: String) {
        if self.failed.insert(format!("{}::{}", f, clause)) { println!("FAIL fn=[[{}]] clause=[[{}]] input=[[{}]] observed=[[{}]] expected=[[{}]]", f, clause, input, observed, expected); }
    }
}
fn guarded<T>(f: impl FnOnce() -> T) -> Result<T, String> {
    catch_unwind(AssertUnwindSafe(f)).map_err(|e| { let m = e.downcast_ref::<String>().cloned().or_else(|| e.downcast_ref::<&str>().map(|s| s.to_string())).unwrap_or_default(); format!("panic: {}", m) })
}
struct Rng(u64);
impl Rng { fn next(&mut self) -> u64 { self.0 ^= self.0 << 13; self.0 ^= self.0 >> 7; self.0 ^= self.0 << 17; self.0 } fn below(&mut self, n: u64) -> u64 { self.next() % n } }

const PATHS: [&str; 9] = ["a.rs", "Cargo.lock", "dir/x.lock", "caf\u{e9}.lock", "sp ace.txt", "q\"uote.lock", "na\u{ef}ve.rs", "web/\u{65e5}\u{672c}.min.js", "lock.rs"];
const PATSETS: [&[&str]; 4] = [&[], &["*.lock"], &["*.lock", "*.min.js"], &["Cargo.lock"]];
fn gen_files(g: &mut Rng, plain_only: bool) -> Vec<FileChange> {
    let mut files = vec![]; let mut used = HashSet::new();
    for _ in 0..(1 + g.below(4)) {
        let p = if plain_only { ["a.rs", "Cargo.lock", "dir/x.lock", "sp ace.txt", "lock.rs"][g.below(5) as usize] } else { PATHS[g.below(9) as usize] };
        if !used.insert(p) { continue; }
        let binary = g.below(12) == 0;
        // new-side line numbers as a diff parser may deliver them: mostly ascending, sometimes out of order / repeated
        let mut added: Vec<u32> = (1..=10u32).filter(|_| g.below(2) == 0).collect();
        if g.below(4) == 0 && added.len() > 1 { let k = g.below(added.len() as u64) as usize; let x = added[k]; added.push(x); added.swap(0, k); }
        files.push(FileChange { path: p.to_string(), added: if binary { vec![] } else { added }, deleted: if binary { 0 } else { g.below(4) as u32 }, binary });
    }
    files
}
fn gen_note(g: &mut Rng, files: &[FileChange]) -> Option<(Vec<NoteFile>, Vec<(String, String, String, u32)>)> {
    if g.below(5) == 0 { return None; }
    let hashes = ["h1", "h2"];
    let mut nf = vec![];
    let mut cand: Vec<String> = files.iter().map(|f| f.path.clone()).collect();
    if g.below(3) == 0 { cand.push("elsewhere.rs".to_string()); }
    for p in cand {
        if g.below(4) == 0 { continue; }
        let ns = 1 + g.below(2) as usize; let mut es: Vec<(String, Vec<(u32, Option<u32>)>)> = (0..ns).map(|k| (hashes[k].to_string(), vec![])).collect();
        let mut cur = 1u32;
        while cur <= 11 { let len = g.below(4) as u32; let k = g.below(ns as u64 + 1) as usize; if k < ns { es[k].1.push(if len == 0 { (cur, None) } else { (cur, Some(cur + len)) }); } cur += len + 1 + g.below(2) as u32; }
        nf.push(NoteFile { path: p, entries: es });
    }
    // mixed (overridden) lines stay 0 here: the per-tool cap of a capped total is the recorded finding of unit stats
    let prompts = vec![("h1".to_string(), "cursor".to_string(), "m1".to_string(), 0u32), ("h2".to_string(), "claude".to_string(), "m2".to_string(), 0u32)];
    Some((nf, prompts))
}
/// a linear history c0 <- c1 <- c2 <- c3 (c0 is a root commit), optionally with a merge commit m on top (parents c3, c1)
fn gen_world(seed: u64) -> (World, Vec<String>) {
    let mut g = Rng(seed.wrapping_mul(0x9E3779B97F4A7C15) ^ 0x2545F4914F6CDD1D); g.next();
    let plain = g.below(3) == 0;
    let mut w = World::default();
    for i in 0..4 { let files = gen_files(&mut g, plain); let note = gen_note(&mut g, &files); w.commits.push(CommitRec { sha: format!("c{}c{}", i, "0".repeat(37)), parents: if i == 0 { vec![] } else { vec![format!("c{}c{}", i - 1, "0".repeat(37))] }, files, note }); }
    if g.below(3) == 0 { let files = gen_files(&mut g, plain); let note = gen_note(&mut g, &files); w.commits.push(CommitRec { sha: format!("mmc{}", "0".repeat(37)), parents: vec![w.commits[3].sha.clone(), w.commits[1].sha.clone()], files, note }); }
    w.range_numstat = gen_files(&mut g, plain);
    w.range_accepted = g.below(6) as u32;
    let pats: Vec<String> = PATSETS[g.below(4) as usize].iter().map(|s| s.to_string()).collect();
    (w, pats)
}
fn show_world(w: &World, pats: &[String]) -> String {
    format!("patterns={:?} commits=[{}] range_numstat=[{}]", pats, w.commits.iter().map(|c| format!("{} parents={} files=[{}] note={}", &c.sha[..3], c.parents.len(),
        c.files.iter().map(|f| format!("{:?}:+{:?}-{}{}", f.path, f.added, f.deleted, if f.binary { " bin" } else { "" })).collect::<Vec<_>>().join(" "),
        match &c.note { None => "none".to_string(), Some((nf, _)) => nf.iter().map(|f| format!("{:?}>{}", f.path, f.entries.iter().map(|(h, rs)| format!("{}:{:?}", h, rs)).collect::<Vec<_>>().join("/"))).collect::<Vec<_>>().join("|") })).collect::<Vec<_>>().join("; "),
        w.range_numstat.iter().map(|f| format!("{:?}:+{}-{}", f.path, distinct(&f.added).len(), f.deleted)).collect::<Vec<_>>().join(" "))
}
fn show_stats(s: &CommitStats) -> String {
    format!("added={} deleted={} accepted={} human={} mixed={} ai_additions={} per-tool: {}", s.git_diff_added_lines, s.git_diff_deleted_lines, s.ai_accepted, s.human_additions, s.mixed_additions, s.ai_additions,
        s.tool_model_breakdown.iter().map(|(k, v)| format!("{}(acc={} mixed={} ai={})", k, v.ai_accepted, v.mixed_additions, v.ai_additions)).collect::<Vec<_>>().join(" "))
}
/// C19 over the table: totals of the files the patterns do not match (by their REAL path)
fn want_totals(files: &[FileChange], m: &IgnoreMatcher) -> (u64, u64) {
    let mut a = 0u64; let mut d = 0u64;
    for f in files { if m.is_ignored(&f.path) || f.binary { continue; } a += distinct(&f.added).len() as u64; d += f.deleted as u64; }
    (a, d)
}
/// the totals when the patterns are matched against the spelling git PRINTS (the defect repaired in /repo c045cb68: clause
/// ignored_file_with_quoted_numstat_path stays in the standing sweep as a regression check)
fn printed_totals(files: &[FileChange], m: &IgnoreMatcher) -> (u64, u64) {
    let mut a = 0u64; let mut d = 0u64;
    for f in files { if m.is_ignored(&c_quote(&f.path)) || f.binary { continue; } a += distinct(&f.added).len() as u64; d += f.deleted as u64; }
    (a, d)
}
fn headline(c: &mut Ctx, f: &str, input: &str, s: &CommitStats) {
    let show = show_stats(s);
    if s.ai_additions as u64 != s.mixed_additions as u64 + s.ai_accepted as u64 { c.fail(f, "ensures#0", input.to_string(), show.clone(), "ai_additions == accepted + mixed".into()); }
    if s.ai_accepted <= s.git_diff_added_lines && (s.human_additions as u64 + s.ai_accepted as u64 != s.git_diff_added_lines as u64 || s.ai_additions > s.git_diff_added_lines) { c.fail(f, "ensures#0", input.to_string(), show.clone(), "human + accepted == added and ai_additions <= added".into()); }
    let sum_acc: u64 = s.tool_model_breakdown.values().map(|t| t.ai_accepted as u64).sum();
    if sum_acc != s.ai_accepted as u64 { c.fail(f, "per_tool_accepted", input.to_string(), show, "per-tool accepted sums to the total".into()); }
}
fn check_exec_call(c: &mut Ctx, f: &str, input: &str, want_tail: &[String]) {
    let calls = CALLS.with(|c| c.borrow().clone());
    let mut want = Repository.global_args_for_exec(); want.extend(want_tail.iter().cloned());
    let execs: Vec<&Call> = calls.iter().filter(|k| matches!(k, Call::Exec(..))).collect();
    if execs.len() != 1 || *execs[0] != Call::Exec(want.clone(), "NumstatParse".to_string()) { c.fail(f, "pre@exec_git_with_profile", input.to_string(), format!("{:?}", execs), format!("one call: {:?} under NumstatParse", want)); }
}
// stats_for_commit_stats.  input: W<seed>:<commit index>
fn chk_commit(c: &mut Ctx, seed: u64, idx: usize) {
    let (w, pats) = gen_world(seed);
    if idx >= w.commits.len() { return; }
    c.evaluated += 1;
    let input = format!("W{}:{}", seed, idx);
    let rec = w.commits[idx].clone();
    let desc = show_world(&World { commits: vec![rec.clone()], ..Default::default() }, &pats);
    WORLD.with(|x| *x.borrow_mut() = w.clone()); CALLS.with(|x| x.borrow_mut().clear());
    let m = IgnoreMatcher::new(&pats);
    let (wa, wd) = want_totals(&rec.files, &m);
    // accepted: lines the commit added (own diff against the first parent; none for a merge) in files the patterns do not match, that the note attributes to AI
    let mut wacc = 0u64;
    if rec.parents.len() <= 1 { if let Some((nf, _)) = &rec.note { for f in nf { if m.is_ignored(&f.path) { continue; } if let Some(fc) = rec.files.iter().find(|x| x.path == f.path && !x.binary) {
        let set = distinct(&fc.added);
        for (_, rs) in &f.entries { for r in rs { let (lo, hi) = (r.0, r.1.unwrap_or(r.0)); wacc += set.iter().filter(|&&x| lo <= x && x <= hi).count() as u64; } }
    } } } }
    match guarded(|| stats_for_commit_stats(&Repository, &rec.sha, &pats)) {
        Ok(Ok(s)) => {
            let show = format!("{} || {}", show_stats(&s), desc);
            if (s.git_diff_added_lines as u64, s.git_diff_deleted_lines as u64) != (wa, wd) {
                let quoted = (s.git_diff_added_lines as u64, s.git_diff_deleted_lines as u64) == printed_totals(&rec.files, &m);
                c.fail("stats_for_commit_stats", if quoted { "ignored_file_with_quoted_numstat_path" } else { "ensures#0" }, input.clone(), show.clone(), format!("added={} deleted={} (git's numstat minus ignored files)", wa, wd));
            }
            if s.ai_accepted as u64 != wacc { c.fail("stats_for_commit_stats", "ensures#0", input.clone(), show.clone(), format!("accepted={} (lines the commit added that its note attributes to AI)", wacc)); }
            headline(c, "stats_for_commit_stats", &input, &s);
            check_exec_call(c, "get_git_diff_stats", &input, &["show".to_string(), "--numstat".to_string(), "--format=".to_string(), rec.sha.clone()]);
            let calls = CALLS.with(|c| c.borrow().clone());
            let diffs: Vec<&Call> = calls.iter().filter(|k| matches!(k, Call::DiffAdded(..))).collect();
            let own = rec.parents.first().cloned().unwrap_or(EMPTY_TREE.to_string());
            let ok = if rec.parents.len() > 1 { diffs.iter().all(|d| **d == Call::DiffAdded(own.clone(), rec.sha.clone(), false)) } else { diffs.len() == 1 && *diffs[0] == Call::DiffAdded(own.clone(), rec.sha.clone(), false) };
            if !ok { c.fail("stats_for_commit_stats", "pre@diff_added_lines", input.clone(), format!("{:?}", diffs), format!("the commit's own diff: {} -> {} without pathspecs", own, rec.sha)); }
        }
        Ok(Err(e)) => c.fail("stats_for_commit_stats", "ensures#0", input, format!("Err({:?}) || {}", e, desc), "statistics for an existing commit".into()),
        Err(p) => c.fail("stats_for_commit_stats", "safety", input, format!("{} || {}", p, desc), "no panic".into()),
    }
}
// calculate_range_stats_direct.  input: R<seed>:<start index or E for the empty tree>:<end index>
fn chk_range(c: &mut Ctx, seed: u64, si: Option<usize>, ei: usize) {
    let (w, pats) = gen_world(seed);
    let lin = 4usize; // the linear part
    if ei >= lin || si.map_or(false, |s| s > ei) { return; }
    c.evaluated += 1;
    let input = format!("R{}:{}:{}", seed, si.map_or("E".to_string(), |s| s.to_string()), ei);
    let start = si.map_or(EMPTY_TREE.to_string(), |s| w.commits[s].sha.clone()); let end = w.commits[ei].sha.clone();
    WORLD.with(|x| *x.borrow_mut() = w.clone()); CALLS.with(|x| x.borrow_mut().clear()); RANGE.with(|r| *r.borrow_mut() = (start.clone(), end.clone()));
    let m = IgnoreMatcher::new(&pats);
    let desc = show_world(&w, &pats);
    let got = guarded(|| calculate_range_stats_direct(&Repository, CommitRange { start_oid: start.clone(), end_oid: end.clone(), refname: "HEAD".into() }, &pats));
    if start == end {
        // the range X..X is the one commit X: the same numbers as the per-commit statistics of X (checked by chk_commit)
        let calls_range = CALLS.with(|c| c.borrow().clone());
        WORLD.with(|x| *x.borrow_mut() = w.clone()); CALLS.with(|x| x.borrow_mut().clear());
        let single = guarded(|| stats_for_commit_stats(&Repository, &end, &pats));
        match (got, single) {
            (Ok(Ok(a)), Ok(Ok(b))) => { if show_stats(&a) != show_stats(&b) { c.fail("calculate_range_stats_direct", "ensures#0", input.clone(), format!("{} || {}", show_stats(&a), desc), format!("the statistics of the single commit: {}", show_stats(&b))); }
                if calls_range.iter().any(|k| matches!(k, Call::DiffAi(..) | Call::RangeLog(..))) { c.fail("calculate_range_stats_direct", "ensures#0", input, format!("{:?}", calls_range), "a single commit is not treated as a range".into()); } }
            (Err(p), _) => c.fail("calculate_range_stats_direct", "safety", input, p, "no panic".into()),
            (a, b) => { if a.as_ref().map(|x| x.is_ok()).unwrap_or(false) != b.as_ref().map(|x| x.is_ok()).unwrap_or(false) { c.fail("calculate_range_stats_direct", "ensures#0", input, "one fails, one succeeds".into(), "same outcome as the single commit".into()); } }
        }
        return;
    }
    match got {
        Ok(Ok(s)) => {
            let show = format!("{} || {}", show_stats(&s), desc);
            let (wa, wd) = want_totals(&w.range_numstat, &m);
            if (s.git_diff_added_lines as u64, s.git_diff_deleted_lines as u64) != (wa, wd) {
                let quoted = (s.git_diff_added_lines as u64, s.git_diff_deleted_lines as u64) == printed_totals(&w.range_numstat, &m);
                c.fail(if quoted { "get_git_diff_stats_for_range" } else { "calculate_range_stats_direct" }, if quoted { "ignored_file_with_quoted_numstat_path" } else { "ensures#0" }, input.clone(), show.clone(), format!("added={} deleted={} (git's numstat of the range minus ignored files)", wa, wd));
            }
            if s.ai_accepted != w.range_accepted { c.fail("calculate_range_stats_direct", "ensures#0", input.clone(), show.clone(), format!("accepted={}", w.range_accepted)); }
            headline(c, "calculate_range_stats_direct", &input, &s);
            check_exec_call(c, "get_git_diff_stats_for_range", &input, &["diff".to_string(), "--numstat".to_string(), format!("{}..{}", start, end)]);
            let calls = CALLS.with(|c| c.borrow().clone());
            // every commit of the range once, the start commit excluded, the end commit included
            let want_commits: BTreeSet<String> = w.commits[si.map_or(0, |s| s + 1)..=ei].iter().map(|c| c.sha.clone()).collect();
            let ok_ai = calls.iter().filter(|k| matches!(k, Call::DiffAi(..))).collect::<Vec<_>>() == vec![&Call::DiffAi(start.clone(), end.clone(), false, pats.clone())];
            let ok_log = calls.iter().any(|k| match k { Call::RangeLog(a, b, cs, p) => a == &start && b == &end && p == &pats && cs.len() == want_commits.len() && cs.iter().cloned().collect::<BTreeSet<_>>() == want_commits, _ => false });
            if !ok_ai { c.fail("calculate_range_stats_direct", "pre@diff_ai_accepted_stats", input.clone(), format!("{:?}", calls), format!("accepted lines computed for {} -> {} with the caller's patterns, no lower bound", start, end)); }
            if !ok_log && si.is_some() { c.fail("calculate_range_stats_direct", "pre@create_authorship_log_for_range", input.clone(), format!("{:?}", calls), format!("squash note for {} -> {} over exactly {:?}", start, end, want_commits)); }
        }
        Ok(Err(e)) => c.fail("calculate_range_stats_direct", "ensures#0", input, format!("Err({:?})", e), "statistics for an existing range".into()),
        Err(p) => c.fail("calculate_range_stats_direct", "safety", input, p, "no panic".into()),
    }
}
// should_ignore_file (range_authorship.rs).  input: I<pattern set>:<path index>
fn chk_ignore(c: &mut Ctx, ps: usize, pi: usize) {
    c.evaluated += 1;
    let pats: Vec<String> = PATSETS[ps].iter().map(|s| s.to_string()).collect();
    let want = IgnoreMatcher::new(&pats).is_ignored(PATHS[pi]);
    match guarded(|| should_ignore_file(PATHS[pi], &pats)) {
        Ok(g) => if g != want { c.fail("should_ignore_file", "ensures#0", format!("I{}:{}", ps, pi), g.to_string(), format!("{} (the patterns {:?} against {:?})", want, pats, PATHS[pi])); },
        Err(p) => c.fail("should_ignore_file", "safety", format!("I{}:{}", ps, pi), p, "no panic".into()),
    }
}
// calculate_waiting_time.  input: T<kinds>:<ts,ts,..>  kinds over U A T P X (tool use); ts = seconds, `-` (none) or `b` (unparsable)
fn chk_wait(c: &mut Ctx, kinds: &str, ts: &[String]) {
    c.evaluated += 1;
    let input = format!("T{}:{}", kinds, ts.join(","));
    let stamp = |i: usize| match ts[i].as_str() { "-" => None, "b" => Some("yesterday".to_string()), x => Some(format!("T{}", x)) };
    let msgs: Vec<Message> = kinds.chars().enumerate().map(|(i, k)| match k { 'U' => Message::User { text: "q".into(), timestamp: stamp(i) }, 'A' => Message::Assistant { text: "a".into(), timestamp: stamp(i) }, 'T' => Message::Thinking { text: "t".into(), timestamp: stamp(i) }, 'P' => Message::Plan { text: "p".into(), timestamp: stamp(i) }, _ => Message::ToolUse { name: "n".into(), input: serde_json::Value, timestamp: stamp(i) } }).collect();
    let n = msgs.len(); let ks: Vec<char> = kinds.chars().collect();
    let num = |i: usize| ts[i].parse::<i64>().ok();
    // every user message directly followed by an AI message: an upper bound; all of them when the transcript strictly alternates U A U A ..
    let mut upper = 0u64; for i in 0..n.saturating_sub(1) { if ks[i] == 'U' && "ATP".contains(ks[i + 1]) { if let (Some(a), Some(b)) = (num(i), num(i + 1)) { if b > a { upper += (b - a) as u64; } } } }
    let alternating = n % 2 == 0 && (0..n).all(|i| if i % 2 == 0 { ks[i] == 'U' } else { "ATP".contains(ks[i]) });
    match guarded(|| calculate_waiting_time(&AiTranscript { messages: msgs })) {
        Ok(r) => {
            if (n <= 1 || ks[n - 1] == 'U') && r != 0 { c.fail("calculate_waiting_time", "ensures#0", input.clone(), r.to_string(), "0 (fewer than two messages, or a person spoke last)".into()); }
            if r > upper || (alternating && n >= 2 && r != upper) { c.fail("calculate_waiting_time", "waiting_time_bound", input, r.to_string(), format!("{} {}", if alternating { "exactly" } else { "at most" }, upper)); }
        }
        Err(p) => c.fail("calculate_waiting_time", "safety", input, p, "no panic".into()),
    }
}
fn main() {
    std::panic::set_hook(Box::new(|_| {}));
    let a: Vec<String> = std::env::args().collect();
    let mut c = Ctx { evaluated: 0, failed: Default::default() };
    if a[1] == "search" {
        let base = a[3].parse::<u64>().unwrap_or(0).wrapping_mul(1_000_003);
        for ps in 0..4 { for pi in 0..9 { chk_ignore(&mut c, ps, pi); } }
        // every transcript of up to 5 messages over the five kinds, with three timestamp layouts
        let kinds = ['U', 'A', 'T', 'P', 'X'];
        for n in 0..=5usize { for code in 0..5usize.pow(n as u32) {
            let mut k = String::new(); let mut x = code; for _ in 0..n { k.push(kinds[x % 5]); x /= 5; }
            let asc: Vec<String> = (0..n).map(|i| (10 * i + 3).to_string()).collect();
            let mixed: Vec<String> = (0..n).map(|i| match (i + code) % 4 { 0 => "-".to_string(), 1 => "b".to_string(), 2 => (100 - 7 * i as i64).to_string(), _ => (5 * i).to_string() }).collect();
            let desc: Vec<String> = (0..n).map(|i| (1000 - 10 * i as i64).to_string()).collect();
            chk_wait(&mut c, &k, &asc); chk_wait(&mut c, &k, &mixed); chk_wait(&mut c, &k, &desc);
        } }
        for k in 0..1500u64 {
            let seed = base + k;
            for idx in 0..5 { chk_commit(&mut c, seed, idx); }
            for ei in 0..4 { chk_range(&mut c, seed, None, ei); for si in 0..=ei { chk_range(&mut c, seed, Some(si), ei); } }
        }
    } else {
        let s = a[3].as_str();
        let p: Vec<&str> = s[1..].split(':').collect();
        match &s[..1] {
            "W" => chk_commit(&mut c, p[0].parse().unwrap(), p[1].parse().unwrap()),
            "R" => chk_range(&mut c, p[0].parse().unwrap(), if p[1] == "E" { None } else { Some(p[1].parse().unwrap()) }, p[2].parse().unwrap()),
            "I" => chk_ignore(&mut c, p[0].parse().unwrap(), p[1].parse().unwrap()),
            "T" => chk_wait(&mut c, p[0], &p.get(1).unwrap_or(&"").split(',').filter(|x| !x.is_empty()).map(|x| x.to_string()).collect::<Vec<_>>()),
            _ => {}
        }
    }
    println!("DONE evaluated={}", c.evaluated);
}
