// Replay driver for unit split: the two statement regions of to_authorship_log_and_initial_working_log,
// ORIGINAL text wrapped in the plain-Rust headers given in unit.json (replay_wrappers).
#![allow(dead_code, unused)]
pub mod authorship { pub mod authorship_log { pub use crate::LineRange; } }
use std::collections::HashMap as StdHashMap;
use std::collections::{HashSet, BTreeSet};
include!("@ITEMS@");
use std::panic::{catch_unwind, AssertUnwindSafe};

struct Ctx { evaluated: u64, failed: std::collections::HashSet<String> }
impl Ctx {
    fn fail(&mut self, f: &str, clause: &str, input: String, observed: String, expected: String) {
        if self.failed.insert(format!("{}::{}", f, clause)) {
            println!("FAIL fn=[[{}]] clause=[[{}]] input=[[{}]] observed=[[{}]] expected=[[{}]]", f, clause, input, observed, expected);
        }
    }
}
fn guarded<T>(f: impl FnOnce() -> T) -> Result<T, String> {
    catch_unwind(AssertUnwindSafe(f)).map_err(|e| {
        let m = e.downcast_ref::<String>().cloned().or_else(|| e.downcast_ref::<&str>().map(|s| s.to_string())).unwrap_or_default();
        format!("panic: {}", m)
    })
}
struct Rng(u64);
impl Rng {
    fn next(&mut self) -> u64 { self.0 ^= self.0 << 13; self.0 ^= self.0 >> 7; self.0 ^= self.0 << 17; self.0 }
    fn below(&mut self, n: u64) -> u64 { self.next() % n }
}
fn lo(r: &LineRange) -> i128 { match r { LineRange::Single(l) => *l as i128, LineRange::Range(s, _) => *s as i128 } }
fn hi(r: &LineRange) -> i128 { match r { LineRange::Single(l) => *l as i128, LineRange::Range(_, e) => *e as i128 } }
fn enc_v(v: &[u32]) -> String { v.iter().map(|x| x.to_string()).collect::<Vec<_>>().join(",") }
fn dec_v(s: &str) -> Vec<u32> { if s.is_empty() { vec![] } else { s.split(',').map(|x| x.parse().unwrap()).collect() } }

fn chk(c: &mut Ctx, lines: &[u32]) {
    if lines.is_empty() || !lines.windows(2).all(|w| w[0] < w[1]) { return; }
    c.evaluated += 1;
    let input = enc_v(lines);
    let mut pts: Vec<i128> = vec![]; for &l in lines { for d in -1..=1 { pts.push(l as i128 + d); } }
    match guarded(|| region_split_committed_ranges(lines.to_vec())) {
        Ok(out) => {
            let show = out.iter().map(|r| format!("{}..{}", lo(r), hi(r))).collect::<Vec<_>>().join(" ");
            let wf = out.iter().all(|r| match r { LineRange::Single(_) => true, LineRange::Range(s, e) => s < e }) && (0..out.len()).all(|i| (i + 1..out.len()).all(|j| hi(&out[i]) + 1 < lo(&out[j])));
            if !wf { c.fail("region_split_committed_ranges", "ensures#0", input.clone(), show, "canonical ranges".into()); }
            else { for &x in &pts { let want = lines.iter().any(|&l| l as i128 == x); if out.iter().any(|r| lo(r) <= x && x <= hi(r)) != want { c.fail("region_split_committed_ranges", "ensures#1", input.clone(), format!("{} (line {} {})", show, x, if want { "lost" } else { "invented" }), "exactly the committed lines".into()); break; } } }
        }
        Err(p) => c.fail("region_split_committed_ranges", "safety", input.clone(), p, "no panic".into()),
    }
    let pre = vec![LineAttribution { start_line: 900, end_line: 901, author_id: "other".into(), overrode: None }];
    match guarded(|| region_split_uncommitted_ranges(lines.to_vec(), "sess".to_string(), pre.clone())) {
        Ok(out) => {
            let app = &out[pre.len().min(out.len())..];
            let show = app.iter().map(|r| format!("{}..{}", r.start_line, r.end_line)).collect::<Vec<_>>().join(" ");
            if out.len() < pre.len() || out[..pre.len()] != pre[..] { c.fail("region_split_uncommitted_ranges", "ensures#0", input.clone(), "existing entries changed".into(), "prefix kept".into()); return; }
            let wf = app.iter().all(|r| r.start_line <= r.end_line && r.author_id == "sess" && r.overrode.is_none()) && (0..app.len()).all(|i| (i + 1..app.len()).all(|j| (app[i].end_line as i128) + 1 < app[j].start_line as i128));
            if !wf { c.fail("region_split_uncommitted_ranges", "ensures#1", input.clone(), show, "forward, sorted, separated ranges for the session".into()); return; }
            for &x in &pts { let want = lines.iter().any(|&l| l as i128 == x); if app.iter().any(|r| r.start_line as i128 <= x && x <= r.end_line as i128) != want { c.fail("region_split_uncommitted_ranges", "ensures#2", input.clone(), format!("{} (line {} {})", show, x, if want { "forgotten" } else { "invented" }), "exactly the uncommitted lines".into()); break; } }
        }
        Err(p) => c.fail("region_split_uncommitted_ranges", "safety", input, p, "no panic".into()),
    }
}
// the three-way split: region split_classify on small line attribution sets
fn chk_classify(c: &mut Ctx, las: &[(u32, u32, String)], unstaged: &[u32], hunks: Option<&[(u32, u32)]>) {
    if !unstaged.windows(2).all(|w| w[0] < w[1]) || !las.iter().all(|l| l.0 <= l.1) { return; }
    c.evaluated += 1;
    let input = format!("C;{};{};{}", las.iter().map(|l| format!("{}-{}-{}", l.0, l.1, l.2)).collect::<Vec<_>>().join(" "), enc_v(unstaged),
        match hunks { Some(h) => h.iter().map(|r| format!("{}-{}", r.0, r.1)).collect::<Vec<_>>().join(" "), None => "none".into() });
    let lav: Vec<LineAttribution> = las.iter().map(|l| LineAttribution { start_line: l.0, end_line: l.1, author_id: l.2.clone(), overrode: None }).collect();
    let mut ch: StdHashMap<String, Vec<LineRange>> = StdHashMap::new();
    if let Some(h) = hunks { ch.insert("f".to_string(), h.iter().map(|r| if r.0 == r.1 { LineRange::Single(r.0) } else { LineRange::Range(r.0, r.1) }).collect()); }
    let fp = "f".to_string();
    let mut want_c: BTreeSet<(String, u32)> = BTreeSet::new(); let mut want_u: BTreeSet<(String, u32)> = BTreeSet::new();
    for l in las { for w in l.0..=l.1 {
        if unstaged.contains(&w) { want_u.insert((l.2.clone(), w)); }
        else { let cl = w as i64 - unstaged.iter().filter(|&&u| u < w).count() as i64; if cl >= 0 { if let Some(h) = hunks { if h.iter().any(|r| r.0 as i64 <= cl && cl <= r.1 as i64) { want_c.insert((l.2.clone(), cl as u32)); } } } }
    } }
    match guarded(|| region_split_classify(&lav, unstaged.to_vec(), &ch, &fp, HashSet::new())) {
        Ok((cm, um)) => {
            let flat = |m: &StdHashMap<String, Vec<u32>>| -> BTreeSet<(String, u32)> { m.iter().flat_map(|(k, v)| v.iter().map(move |x| (k.clone(), *x))).collect() };
            if flat(&cm) != want_c { c.fail("region_split_classify", "ensures#0", input.clone(), format!("committed {:?}", flat(&cm)), format!("committed {:?} (w not unstaged, c = w - #unstaged below w, c in the commit's added lines)", want_c)); return; }
            if flat(&um) != want_u { c.fail("region_split_classify", "ensures#0", input, format!("carried over {:?}", flat(&um)), format!("carried over {:?} (the unstaged lines)", want_u)); }
        }
        Err(p) => c.fail("region_split_classify", "safety", input, p, "no panic (commit line = working-tree line - unstaged lines above it)".into()),
    }
}
// ---------------------------------------------------------------- whole-scenario oracle for the split
// A synthetic commit + unstaged edits, described the way `git diff -U0` would report them; the ORIGINAL filter statements
// (region_filter_unstaged, replay only) and the ORIGINAL region split_classify are run on it.
// input: S;<commit file over H (old line) / A (AI line added by this commit)>;<one token per commit line + one for the end>
//   token = [i|j]* then k|m|d ; i = a hand-typed line inserted before (unstaged), j = an AI line inserted before (unstaged),
//   k keep, m modify in place (unstaged, H only), d delete (unstaged, H only); the last token has inserts only (or "-")
#[derive(Clone)] struct WL { origin: Option<u32>, ai: Option<&'static str>, un: u8 }
fn chk_scenario(c: &mut Ctx, file: &str, edits: &[String]) {
    let n = file.len();
    if edits.len() != n + 1 { return; }
    let fb = file.as_bytes();
    let mut wl: Vec<WL> = vec![]; let mut has_md = false;
    // edit sites must be separated by a kept line (otherwise git would merge them into one hunk and the model below is wrong)
    let site = |t: &str| t != "k" && t != "-";
    for i in 0..n { if site(&edits[i]) && i + 1 <= n && site(&edits[i + 1]) { return; } }
    for (i, t) in edits.iter().enumerate() {
        for ch in t.chars() {
            match ch {
                'i' => wl.push(WL { origin: None, ai: None, un: 1 }),
                'j' => wl.push(WL { origin: None, ai: Some("ai2"), un: 1 }),
                'k' => wl.push(WL { origin: Some(i as u32 + 1), ai: if fb[i] == b'A' { Some("ai1") } else { None }, un: 0 }),
                'm' => { if i >= n || fb[i] != b'H' { return; } has_md = true; wl.push(WL { origin: None, ai: None, un: 2 }) }
                'd' => { if i >= n || fb[i] != b'H' { return; } has_md = true; }
                '-' => {}
                _ => return,
            }
        }
        if i < n && !t.ends_with(['k', 'm', 'd']) { return; }
        if i == n && t.contains(['k', 'm', 'd']) { return; }
    }
    c.evaluated += 1;
    let input = format!("S;{};{}", file, edits.join(" "));
    let fp = "f".to_string();
    let cl: Vec<u32> = (0..n).filter(|&i| fb[i] == b'A').map(|i| i as u32 + 1).collect();
    let ul: Vec<u32> = (0..wl.len()).filter(|&w| wl[w].un != 0).map(|w| w as u32 + 1).collect();
    let pl: Vec<u32> = (0..wl.len()).filter(|&w| wl[w].un == 1).map(|w| w as u32 + 1).collect();
    let mut ch: StdHashMap<String, Vec<LineRange>> = StdHashMap::new(); let mut uh = ch.clone(); let mut ph = ch.clone();
    if !cl.is_empty() { ch.insert(fp.clone(), LineRange::compress_lines(&cl)); }
    if !ul.is_empty() { uh.insert(fp.clone(), LineRange::compress_lines(&ul)); }
    if !pl.is_empty() { ph.insert(fp.clone(), LineRange::compress_lines(&pl)); }
    // line attributions of the working tree: runs of equal AI author
    let mut lav: Vec<LineAttribution> = vec![];
    for (w, l) in wl.iter().enumerate() { if let Some(a) = l.ai { let ln = w as u32 + 1; match lav.last_mut() { Some(x) if x.author_id == a && x.end_line + 1 == ln => x.end_line = ln, _ => lav.push(LineAttribution { start_line: ln, end_line: ln, author_id: a.to_string(), overrode: None }) } } }
    let mut want_c: BTreeSet<(String, u32)> = BTreeSet::new(); let mut want_u: BTreeSet<(String, u32)> = BTreeSet::new();
    for (w, l) in wl.iter().enumerate() { match (l.origin, l.ai) { (Some(o), Some(a)) => { want_c.insert((a.to_string(), o)); } (None, Some(a)) => { want_u.insert((a.to_string(), w as u32 + 1)); } _ => {} } }
    let clause = if has_md { "translation_with_unstaged_modification_or_deletion" } else { "scenario" };
    let res = guarded(|| {
        let uh2 = region_filter_unstaged(ch.clone(), uh.clone(), ph.clone());
        let mut unstaged: Vec<u32> = uh2.get(&fp).map(|v| v.iter().flat_map(|r| r.expand()).collect()).unwrap_or_default(); unstaged.sort_unstable();
        region_split_classify(&lav, unstaged, &ch, &fp, HashSet::new())
    });
    match res {
        Ok((cm, um)) => {
            let flat = |m: &StdHashMap<String, Vec<u32>>| -> BTreeSet<(String, u32)> { m.iter().flat_map(|(k, v)| v.iter().map(move |x| (k.clone(), *x))).collect() };
            if flat(&cm) != want_c { c.fail("region_split_classify", clause, input.clone(), format!("recorded for the commit {:?}", flat(&cm)), format!("{:?} (every AI line the commit added, at its line number in the commit)", want_c)); }
            else if flat(&um) != want_u { c.fail("region_split_classify", clause, input, format!("carried over {:?}", flat(&um)), format!("{:?} (the unstaged AI lines)", want_u)); }
        }
        Err(p) => c.fail("region_split_classify", if has_md { clause } else { "safety" }, input, p, "no panic".into()),
    }
}
fn gen_scenarios(c: &mut Ctx, g: &mut Rng) {
    let files = ["HHHAAA", "AAAHHH", "HHAAHH", "HAHAHH", "HHHHAAAAA", "AHHHA"];
    let toks = ["k", "k", "k", "m", "d", "ik", "jk", "iik", "jjk"];
    for _ in 0..30000 {
        let f = files[g.below(6) as usize];
        let mut e: Vec<String> = (0..f.len()).map(|_| toks[g.below(9) as usize].to_string()).collect();
        e.push(["-", "-", "i", "j"][g.below(4) as usize].to_string());
        chk_scenario(c, f, &e);
    }
}
/// the unstaged lines of a file as the split receives them: from a canonical hunk list (what compress_lines builds)
fn chk_unstaged(c: &mut Ctx, lines: &[u32], present: bool) {
    c.evaluated += 1;
    let input = format!("U;{};{}", lines.iter().map(|x| x.to_string()).collect::<Vec<_>>().join(","), present as u8);
    let mut m: StdHashMap<String, Vec<LineRange>> = StdHashMap::new();
    if present { m.insert("f.rs".to_string(), LineRange::compress_lines(lines)); }
    m.insert("other.rs".to_string(), vec![LineRange::Single(77)]);
    let key = "f.rs".to_string();
    match guarded(move || region_split_unstaged_lines(m, &key)) {
        Err(p) => c.fail("region_split_unstaged_lines", "safety", input, p, "no panic".into()),
        Ok(got) => { let want: Vec<u32> = if present { lines.to_vec() } else { vec![] }; if got != want { c.fail("region_split_unstaged_lines", "ensures#1", input, format!("{:?}", got), format!("{:?} (strictly increasing, exactly the lines of the file's unstaged hunks)", want)); } }
    }
}
fn main() {
    std::panic::set_hook(Box::new(|_| {}));
    let a: Vec<String> = std::env::args().collect();
    let mut c = Ctx { evaluated: 0, failed: Default::default() };
    if a[1] == "search" {
        let vals: [u32; 12] = [0, 1, 2, 3, 5, 6, 8, 9, 10, u32::MAX - 2, u32::MAX - 1, u32::MAX];
        for mask in 1u32..(1 << 12) { let v: Vec<u32> = (0..12).filter(|i| mask >> i & 1 == 1).map(|i| vals[i]).collect(); chk(&mut c, &v); }
        let mut g = Rng(a[3].parse::<u64>().unwrap_or(0).wrapping_mul(0x9E3779B97F4A7C15) ^ 0x94d049bb133111eb);
        // classification: line attributions over lines 1..8, unstaged subsets, one hunk list
        for mask in 0u32..(1 << 6) {
            let un: Vec<u32> = (0..6).filter(|i| mask >> i & 1 == 1).map(|i| i as u32 + 1).collect();
            for s1 in 1u32..6 { for e1 in s1..7 { chk_classify(&mut c, &[(s1, e1, "ai1".into())], &un, Some(&[(1, 2), (4, 4)])); chk_classify(&mut c, &[(s1, e1, "ai1".into()), (e1 + 1, e1 + 2, "ai2".into())], &un, Some(&[(2, 5)])); } }
            chk_classify(&mut c, &[(1, 6, "ai1".into())], &un, None);
        }
        for mask in 0u32..(1 << 10) { let v: Vec<u32> = (0..10).filter(|i| mask >> i & 1 == 1).map(|i| [1u32, 2, 3, 5, 6, 9, 10, 11, 40, u32::MAX][i]).collect(); chk_unstaged(&mut c, &v, true); }
        chk_unstaged(&mut c, &[1, 2], false);
        // the untracked-file shape: one range Range(1, n), also for n == 1
        for n in 1u32..5 { let mut m: StdHashMap<String, Vec<LineRange>> = StdHashMap::new(); m.insert("f.rs".to_string(), vec![LineRange::Range(1, n)]); let key = "f.rs".to_string(); c.evaluated += 1; let got = region_split_unstaged_lines(m, &key); let want: Vec<u32> = (1..=n).collect(); if got != want { c.fail("region_split_unstaged_lines", "ensures#1", format!("U;range-1-{};1", n), format!("{:?}", got), format!("{:?}", want)); } }
        gen_scenarios(&mut c, &mut g);
        for _ in 0..20000 { let base = if g.below(4) == 0 { u32::MAX - 40 } else { g.below(50) as u32 }; let n = 1 + g.below(14) as usize; let mut v = vec![]; let mut cur = base; for _ in 0..n { let step = 1 + if g.below(2) == 0 { 0 } else { g.below(4) as u32 }; match cur.checked_add(step) { Some(nx) => { cur = nx; v.push(cur); } None => break } } chk(&mut c, &v); }
    } else if a[3].starts_with("S;") {
        let p: Vec<&str> = a[3].split(';').collect();
        let e: Vec<String> = p[2].split(' ').map(|x| x.to_string()).collect();
        chk_scenario(&mut c, p[1], &e);
    } else if a[3].starts_with("U;") {
        let p: Vec<&str> = a[3].split(';').collect();
        chk_unstaged(&mut c, &dec_v(p[1]), p[2] == "1");
    } else if a[3].starts_with("C;") {
        let p: Vec<&str> = a[3].split(';').collect();
        let las: Vec<(u32, u32, String)> = p[1].split_whitespace().map(|t| { let q: Vec<&str> = t.split('-').collect(); (q[0].parse().unwrap(), q[1].parse().unwrap(), q[2].to_string()) }).collect();
        let hs: Vec<(u32, u32)> = if p[3] == "none" { vec![] } else { p[3].split_whitespace().map(|t| { let q: Vec<u32> = t.split('-').map(|y| y.parse().unwrap()).collect(); (q[0], q[1]) }).collect() };
        chk_classify(&mut c, &las, &dec_v(p[2]), if p[3] == "none" { None } else { Some(&hs) });
    } else { chk(&mut c, &dec_v(&a[3])); }
    println!("DONE evaluated={}", c.evaluated);
}
