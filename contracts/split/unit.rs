// Unit split — property C04: the two inline range-building loops of
// VirtualAttributions::to_authorship_log_and_initial_working_log (committed lines -> note ranges,
// uncommitted lines -> INITIAL line attributions).  Extracted as statement regions (rule R1).
use vstd::prelude::*;
use vstd::std_specs::iter::IteratorSpec;
verus! {

//#include ../_shared/linerange_type.inc.rs
//#include ../_shared/linerange_specs.inc.rs
// the region names the type by its crate path
pub mod authorship { pub mod authorship_log { pub use crate::LineRange; } }

// ---------------------------------------------------------------- vocabulary for the INITIAL side
/// x is a line of some LineAttribution appended at or after index n0
pub open spec fn las_have(v: Seq<LineAttribution>, n0: int, x: int) -> bool { exists|i: int| n0 <= i < v.len() && (#[trigger] v[i]).start_line <= x <= v[i].end_line }
/// appended entries are forward ranges, sorted, disjoint and non-adjacent, all for `author`, none marked as override
pub open spec fn las_canonical(v: Seq<LineAttribution>, n0: int, author: Seq<char>) -> bool {
    &&& forall|i: int| n0 <= i < v.len() ==> (#[trigger] v[i]).start_line <= v[i].end_line && v[i].author_id@ == author && v[i].overrode is None
    &&& forall|i: int, j: int| n0 <= i < j < v.len() ==> (#[trigger] v[i]).end_line + 1 < (#[trigger] v[j]).start_line
}
pub open spec fn las_all_below(v: Seq<LineAttribution>, n0: int, b: int) -> bool { forall|k: int| n0 <= k < v.len() ==> (#[trigger] v[k]).end_line + 1 < b }
/// x is covered by an appended entry or by the running range [cs, ce]
pub open spec fn las_covered(v: Seq<LineAttribution>, n0: int, cs: int, ce: int, x: int) -> bool { las_have(v, n0, x) || cs <= x <= ce }
pub open spec fn las_cover_inv(v: Seq<LineAttribution>, n0: int, cs: int, ce: int, lines: Seq<u32>, n: int) -> bool {
    forall|x: int| #![trigger las_covered(v, n0, cs, ce, x)] #![trigger prefix_has(lines, n, x)] las_covered(v, n0, cs, ce, x) <==> prefix_has(lines, n, x)
}
pub open spec fn las_prefix_kept(out: Seq<LineAttribution>, inp: Seq<LineAttribution>) -> bool { out.len() >= inp.len() && out.subrange(0, inp.len() as int) =~= inp }
proof fn lemma_las_push_has(v: Seq<LineAttribution>, n0: int, r: LineAttribution, x: int)
    requires 0 <= n0 <= v.len()
    ensures las_have(v.push(r), n0, x) <==> (las_have(v, n0, x) || r.start_line <= x <= r.end_line)
{
    let w = v.push(r);
    if las_have(w, n0, x) {
        let i = choose|i: int| n0 <= i < w.len() && (#[trigger] w[i]).start_line <= x <= w[i].end_line;
        if i < v.len() { assert(w[i] == v[i]); assert(n0 <= i < v.len() && v[i].start_line <= x <= v[i].end_line); } else { assert(w[i] == r); }
    }
    if las_have(v, n0, x) {
        let i = choose|i: int| n0 <= i < v.len() && (#[trigger] v[i]).start_line <= x <= v[i].end_line;
        assert(w[i] == v[i]); assert(n0 <= i < w.len() && w[i].start_line <= x <= w[i].end_line);
    }
    if r.start_line <= x <= r.end_line { let i = v.len() as int; assert(w[i] == r); assert(n0 <= i < w.len() && w[i].start_line <= x <= w[i].end_line); }
}

//#item file=src/authorship/attribution_tracker.rs kind=struct name=LineAttribution derive=PartialEq,Eq
#[derive(PartialEq, Eq)]
pub struct LineAttribution {
    pub start_line: u32,
    pub end_line: u32,
    pub author_id: String,
    pub overrode: Option<String>,
}
//#end
// not used by the current text of the regions (they build the struct literally); present so that the equivalent
// spelling LineAttribution::new(..) stays verifiable
impl LineAttribution {
//#item file=src/authorship/attribution_tracker.rs kind=fn name=new impl="LineAttribution"
    pub fn new(
        start_line: u32,
        end_line: u32,
        author_id: String,
        overrode: Option<String>,
    ) -> (r_: Self)
    //@     ensures r_.start_line == start_line, r_.end_line == end_line, r_.author_id == author_id, r_.overrode == overrode,
    {
        LineAttribution {
            start_line,
            end_line,
            author_id,
            overrode,
        }
    }
//#end
}
//#item file=src/authorship/virtual_attribution.rs kind=region name=split_committed_ranges in=to_authorship_log_and_initial_working_log from="let mut ranges = Vec::new();" to="let entry =" from_nth=0 to_nth=0 impl="VirtualAttributions" to_exclusive=yes
//@ fn region_split_committed_ranges(lines: Vec<u32>) -> (r_: Vec<LineRange>)
//@     requires strictly_inc(lines@), lines@.len() > 0,
//@     ensures
//@         ranges_canonical(r_@),
//@         forall|x: int| ranges_have(r_@, x) <==> seq_has(lines@, x),
//@ {
                    let mut ranges = Vec::new();
                    let mut range_start = lines[0];
                    let mut range_end = lines[0];
                    //@ proof {
                    //@     assert forall|x: int| covered(ranges@, range_start as int, range_end as int, x) <==> prefix_has(lines@, 1, x) by {
                    //@         if prefix_has(lines@, 1, x) { }
                    //@         if range_start <= x <= range_end { assert(lines@[0] as int == x); }
                    //@     }
                    //@ }
                    //@ let ghost mut n: int = 1;

                    for vr_0 in it_0: &lines[1..]
                    //@     invariant
                    //@         strictly_inc(lines@),
                    //@         lines@.len() >= 1,
                    //@         tail_matches(it_0.snapshot@.remaining(), lines@),
                    //@         range_start <= range_end,
                    //@         range_end == lines@[it_0.index@],
                    //@         ranges_canonical(ranges@),
                    //@         all_below(ranges@, range_start as int),
                    //@         n == it_0.index@ + 1,
                    //@         cover_inv(ranges@, range_start as int, range_end as int, lines@, n),
                    {
                        let line = *vr_0;
                        //@ let ghost idx = it_0.index@;
                        //@ let ghost old_ranges = ranges@;
                        //@ proof { assert(line == lines@[idx + 1]); assert(lines@[idx] < lines@[idx + 1]); }
                        if line == range_end + 1 {
                            range_end = line;
                        } else {
                            if range_start == range_end {
                                ranges.push(crate::authorship::authorship_log::LineRange::Single(
                                    range_start,
                                ));
                            } else {
                                ranges.push(crate::authorship::authorship_log::LineRange::Range(
                                    range_start,
                                    range_end,
                                ));
                            }
                            range_start = line;
                            range_end = line;
                        }
                        //@ proof {
                        //@     assert forall|x: int| covered(ranges@, range_start as int, range_end as int, x) <==> prefix_has(lines@, n + 1, x) by {
                        //@         lemma_prefix_step(lines@, n, x);
                        //@         if ranges@.len() > old_ranges.len() {
                        //@             lemma_push_has(old_ranges, ranges@[old_ranges.len() as int], x);
                        //@             assert(ranges@ =~= old_ranges.push(ranges@[old_ranges.len() as int]));
                        //@         }
                        //@     }
                        //@     n = n + 1;
                        //@     assert(cover_inv(ranges@, range_start as int, range_end as int, lines@, n));
                        //@ }
                    }

                    // Add the last range
                    //@ let ghost pre_ranges = ranges@;
                    //@ assert(n == lines@.len());
                    if range_start == range_end {
                        ranges.push(crate::authorship::authorship_log::LineRange::Single(
                            range_start,
                        ));
                    } else {
                        ranges.push(crate::authorship::authorship_log::LineRange::Range(
                            range_start,
                            range_end,
                        ));
                    }
//@     proof {
//@         assert forall|x: int| ranges_have(ranges@, x) <==> seq_has(lines@, x) by {
//@             lemma_push_has(pre_ranges, ranges@[pre_ranges.len() as int], x);
//@             assert(ranges@ =~= pre_ranges.push(ranges@[pre_ranges.len() as int]));
//@         }
//@     }
//@     ranges
//@ }
//#end
//#item file=src/authorship/virtual_attribution.rs kind=region name=split_uncommitted_ranges in=to_authorship_log_and_initial_working_log from="// Create ranges from individual lines" to="$block_end" impl="VirtualAttributions"
//@ fn region_split_uncommitted_ranges(lines: Vec<u32>, author_id: String, mut uncommitted_line_attrs: Vec<LineAttribution>) -> (r_: Vec<LineAttribution>)
//@     requires strictly_inc(lines@), lines@.len() > 0,
//@     ensures
//@         las_prefix_kept(r_@, uncommitted_line_attrs@),
//@         las_canonical(r_@, uncommitted_line_attrs@.len() as int, author_id@),
//@         forall|x: int| las_have(r_@, uncommitted_line_attrs@.len() as int, x) <==> seq_has(lines@, x),
//@ {
//@     let ghost inp = uncommitted_line_attrs@;
//@     let ghost n0 = uncommitted_line_attrs@.len() as int;
                    // Create ranges from individual lines
                    let mut range_start = lines[0];
                    let mut range_end = lines[0];
                    //@ proof {
                    //@     assert forall|x: int| las_covered(uncommitted_line_attrs@, n0, range_start as int, range_end as int, x) <==> prefix_has(lines@, 1, x) by {
                    //@         if prefix_has(lines@, 1, x) { }
                    //@         if range_start <= x <= range_end { assert(lines@[0] as int == x); }
                    //@     }
                    //@ }
                    //@ let ghost mut n: int = 1;

                    for vr_0 in it_0: &lines[1..]
                    //@     invariant
                    //@         strictly_inc(lines@),
                    //@         lines@.len() >= 1, n0 == inp.len(),
                    //@         tail_matches(it_0.snapshot@.remaining(), lines@),
                    //@         range_start <= range_end,
                    //@         range_end == lines@[it_0.index@],
                    //@         las_prefix_kept(uncommitted_line_attrs@, inp),
                    //@         las_canonical(uncommitted_line_attrs@, n0, author_id@),
                    //@         las_all_below(uncommitted_line_attrs@, n0, range_start as int),
                    //@         n == it_0.index@ + 1,
                    //@         las_cover_inv(uncommitted_line_attrs@, n0, range_start as int, range_end as int, lines@, n),
                    {
                        let line = *vr_0;
                        //@ let ghost idx = it_0.index@;
                        //@ let ghost old_v = uncommitted_line_attrs@;
                        //@ let ghost old_cs = range_start; let ghost old_ce = range_end;
                        //@ proof { assert(line == lines@[idx + 1]); assert(lines@[idx] < lines@[idx + 1]); }
                        if line == range_end + 1 {
                            range_end = line;
                        } else {
                            // End current range and start new one
                            uncommitted_line_attrs.push(LineAttribution {
                                start_line: range_start,
                                end_line: range_end,
                                author_id: author_id.clone(),
                                overrode: None,
                            });
                            range_start = line;
                            range_end = line;
                        }
                        //@ proof {
                        //@     if uncommitted_line_attrs@.len() > old_v.len() {
                        //@         let r = uncommitted_line_attrs@[old_v.len() as int];
                        //@         assert(uncommitted_line_attrs@ =~= old_v.push(r));
                        //@         assert(uncommitted_line_attrs@.subrange(0, inp.len() as int) =~= old_v.subrange(0, inp.len() as int));
                        //@     }
                        //@     assert forall|x: int| las_covered(uncommitted_line_attrs@, n0, range_start as int, range_end as int, x) <==> prefix_has(lines@, n + 1, x) by {
                        //@         lemma_prefix_step(lines@, n, x);
                        //@         assert(las_covered(old_v, n0, old_cs as int, old_ce as int, x) <==> prefix_has(lines@, n, x));
                        //@         if uncommitted_line_attrs@.len() > old_v.len() {
                        //@             let r = uncommitted_line_attrs@[old_v.len() as int];
                        //@             lemma_las_push_has(old_v, n0, r, x);
                        //@             assert(r.start_line == old_cs && r.end_line == old_ce);
                        //@         }
                        //@     }
                        //@     n = n + 1;
                        //@     assert(las_cover_inv(uncommitted_line_attrs@, n0, range_start as int, range_end as int, lines@, n));
                        //@ }
                    }

                    // Add the last range
                    //@ let ghost pre = uncommitted_line_attrs@;
                    //@ assert(n == lines@.len());
                    uncommitted_line_attrs.push(LineAttribution {
                        start_line: range_start,
                        end_line: range_end,
                        author_id: author_id.clone(),
                        overrode: None,
                    });
//@     proof {
//@         let last = uncommitted_line_attrs@[pre.len() as int];
//@         assert(uncommitted_line_attrs@ =~= pre.push(last));
//@         assert forall|x: int| las_have(uncommitted_line_attrs@, n0, x) <==> seq_has(lines@, x) by {
//@             lemma_las_push_has(pre, n0, last, x);
//@             assert(las_covered(pre, n0, range_start as int, range_end as int, x) <==> prefix_has(lines@, n, x));
//@         }
//@         assert(uncommitted_line_attrs@.subrange(0, inp.len() as int) =~= pre.subrange(0, inp.len() as int));
//@     }
//@     uncommitted_line_attrs
//@ }
//#end

} // verus!
fn main() {}
