// Unit split — property C04: the two inline range-building loops of
// VirtualAttributions::to_authorship_log_and_initial_working_log (committed lines -> note ranges,
// uncommitted lines -> INITIAL line attributions).  Extracted as statement regions (rule R1).
use vstd::prelude::*;
use vstd::std_specs::iter::IteratorSpec;
use std::collections::HashMap as StdHashMap;
use std::collections::HashSet;
verus! {

//#include ../_shared/linerange_type.inc.rs
//#include ../_shared/linerange_specs.inc.rs
//#use-contract linerange ../_shared/linerange_expand.inc.rs
// the region names the type by its crate path
pub mod authorship { pub mod authorship_log { pub use crate::LineRange; } }

// ---------------------------------------------------------------- vocabulary for the INITIAL side
/// x is a line of some LineAttribution appended at or after index n0
pub open spec fn las_have(v: Seq<LineAttribution>, n0: int, x: int) -> bool { exists|i: int| n0 <= i < v.len() && (#[trigger] v[i]).start_line <= x <= v[i].end_line }
/// appended entries are forward ranges, sorted, disjoint and non-adjacent, all for `author`, none marked as override
pub open spec fn las_canonical(v: Seq<LineAttribution>, n0: int, author: Seq<char>) -> bool {
    &&& forall|i: int| n0 <= i < v.len() ==> (#[trigger] v[i]).start_line <= v[i].end_line && v[i].author_id@ == author && v[i].overrode is None
    &&& forall|i: int, j: int| n0 <= i < j < v.len() ==> (#[trigger] v[i]).end_line + 1 < (#[trigger] v[j]).start_line
}
pub open spec fn las_all_below(v: Seq<LineAttribution>, n0: int, b: int) -> bool { forall|k: int| n0 <= k < v.len() ==> (#[trigger] v[k]).end_line + 1 < b }
/// x is covered by an appended entry or by the running range [cs, ce]
pub open spec fn las_covered(v: Seq<LineAttribution>, n0: int, cs: int, ce: int, x: int) -> bool { las_have(v, n0, x) || cs <= x <= ce }
pub open spec fn las_cover_inv(v: Seq<LineAttribution>, n0: int, cs: int, ce: int, lines: Seq<u32>, n: int) -> bool {
    forall|x: int| #![trigger las_covered(v, n0, cs, ce, x)] #![trigger prefix_has(lines, n, x)] las_covered(v, n0, cs, ce, x) <==> prefix_has(lines, n, x)
}
pub open spec fn las_prefix_kept(out: Seq<LineAttribution>, inp: Seq<LineAttribution>) -> bool { out.len() >= inp.len() && out.subrange(0, inp.len() as int) =~= inp }
proof fn lemma_las_push_has(v: Seq<LineAttribution>, n0: int, r: LineAttribution, x: int)
    requires 0 <= n0 <= v.len()
    ensures las_have(v.push(r), n0, x) <==> (las_have(v, n0, x) || r.start_line <= x <= r.end_line)
{
    let w = v.push(r);
    if las_have(w, n0, x) {
        let i = choose|i: int| n0 <= i < w.len() && (#[trigger] w[i]).start_line <= x <= w[i].end_line;
        if i < v.len() { assert(w[i] == v[i]); assert(n0 <= i < v.len() && v[i].start_line <= x <= v[i].end_line); } else { assert(w[i] == r); }
    }
    if las_have(v, n0, x) {
        let i = choose|i: int| n0 <= i < v.len() && (#[trigger] v[i]).start_line <= x <= v[i].end_line;
        assert(w[i] == v[i]); assert(n0 <= i < w.len() && w[i].start_line <= x <= w[i].end_line);
    }
    if r.start_line <= x <= r.end_line { let i = v.len() as int; assert(w[i] == r); assert(n0 <= i < w.len() && w[i].start_line <= x <= w[i].end_line); }
}

//#item file=src/authorship/attribution_tracker.rs kind=struct name=LineAttribution derive=PartialEq,Eq
#[derive(PartialEq, Eq)]
pub struct LineAttribution {
    pub start_line: u32,
    pub end_line: u32,
    pub author_id: String,
    pub overrode: Option<String>,
}
//#end
// not used by the current text of the regions (they build the struct literally); present so that the equivalent
// spelling LineAttribution::new(..) stays verifiable
impl LineAttribution {
//#item file=src/authorship/attribution_tracker.rs kind=fn name=new impl="LineAttribution"
    pub fn new(
        start_line: u32,
        end_line: u32,
        author_id: String,
        overrode: Option<String>,
    ) -> (r_: Self)
    //@     ensures r_.start_line == start_line, r_.end_line == end_line, r_.author_id == author_id, r_.overrode == overrode,
    {
        LineAttribution {
            start_line,
            end_line,
            author_id,
            overrode,
        }
    }
//#end
}
//#item file=src/authorship/virtual_attribution.rs kind=region name=split_committed_ranges in=to_authorship_log_and_initial_working_log from="let mut ranges = Vec::new();" to="let entry =" from_nth=0 to_nth=0 impl="VirtualAttributions" to_exclusive=yes
//@ fn region_split_committed_ranges(lines: Vec<u32>) -> (r_: Vec<LineRange>)
//@     requires strictly_inc(lines@), lines@.len() > 0,
//@     ensures
//@         ranges_canonical(r_@),
//@         forall|x: int| ranges_have(r_@, x) <==> seq_has(lines@, x),
//@ {
                    let mut ranges = Vec::new();
                    let mut range_start = lines[0];
                    let mut range_end = lines[0];
                    //@ proof {
                    //@     assert forall|x: int| covered(ranges@, range_start as int, range_end as int, x) <==> prefix_has(lines@, 1, x) by {
                    //@         if prefix_has(lines@, 1, x) { }
                    //@         if range_start <= x <= range_end { assert(lines@[0] as int == x); }
                    //@     }
                    //@ }
                    //@ let ghost mut n: int = 1;

                    for vr_0 in it_0: &lines[1..]
                    //@     invariant
                    //@         strictly_inc(lines@),
                    //@         lines@.len() >= 1,
                    //@         tail_matches(it_0.snapshot@.remaining(), lines@),
                    //@         range_start <= range_end,
                    //@         range_end == lines@[it_0.index@],
                    //@         ranges_canonical(ranges@),
                    //@         all_below(ranges@, range_start as int),
                    //@         n == it_0.index@ + 1,
                    //@         cover_inv(ranges@, range_start as int, range_end as int, lines@, n),
                    {
                        let line = *vr_0;
                        //@ let ghost idx = it_0.index@;
                        //@ let ghost old_ranges = ranges@;
                        //@ proof { assert(line == lines@[idx + 1]); assert(lines@[idx] < lines@[idx + 1]); }
                        if line == range_end + 1 {
                            range_end = line;
                        } else {
                            if range_start == range_end {
                                ranges.push(crate::authorship::authorship_log::LineRange::Single(
                                    range_start,
                                ));
                            } else {
                                ranges.push(crate::authorship::authorship_log::LineRange::Range(
                                    range_start,
                                    range_end,
                                ));
                            }
                            range_start = line;
                            range_end = line;
                        }
                        //@ proof {
                        //@     assert forall|x: int| covered(ranges@, range_start as int, range_end as int, x) <==> prefix_has(lines@, n + 1, x) by {
                        //@         lemma_prefix_step(lines@, n, x);
                        //@         if ranges@.len() > old_ranges.len() {
                        //@             lemma_push_has(old_ranges, ranges@[old_ranges.len() as int], x);
                        //@             assert(ranges@ =~= old_ranges.push(ranges@[old_ranges.len() as int]));
                        //@         }
                        //@     }
                        //@     n = n + 1;
                        //@     assert(cover_inv(ranges@, range_start as int, range_end as int, lines@, n));
                        //@ }
                    }

                    // Add the last range
                    //@ let ghost pre_ranges = ranges@;
                    //@ assert(n == lines@.len());
                    if range_start == range_end {
                        ranges.push(crate::authorship::authorship_log::LineRange::Single(
                            range_start,
                        ));
                    } else {
                        ranges.push(crate::authorship::authorship_log::LineRange::Range(
                            range_start,
                            range_end,
                        ));
                    }
//@     proof {
//@         assert forall|x: int| ranges_have(ranges@, x) <==> seq_has(lines@, x) by {
//@             lemma_push_has(pre_ranges, ranges@[pre_ranges.len() as int], x);
//@             assert(ranges@ =~= pre_ranges.push(ranges@[pre_ranges.len() as int]));
//@         }
//@     }
//@     ranges
//@ }
//#end
//#item file=src/authorship/virtual_attribution.rs kind=region name=split_uncommitted_ranges in=to_authorship_log_and_initial_working_log from="// Create ranges from individual lines" to="$block_end" impl="VirtualAttributions"
//@ fn region_split_uncommitted_ranges(lines: Vec<u32>, author_id: String, mut uncommitted_line_attrs: Vec<LineAttribution>) -> (r_: Vec<LineAttribution>)
//@     requires strictly_inc(lines@), lines@.len() > 0,
//@     ensures
//@         las_prefix_kept(r_@, uncommitted_line_attrs@),
//@         las_canonical(r_@, uncommitted_line_attrs@.len() as int, author_id@),
//@         forall|x: int| las_have(r_@, uncommitted_line_attrs@.len() as int, x) <==> seq_has(lines@, x),
//@ {
//@     let ghost inp = uncommitted_line_attrs@;
//@     let ghost n0 = uncommitted_line_attrs@.len() as int;
                    // Create ranges from individual lines
                    let mut range_start = lines[0];
                    let mut range_end = lines[0];
                    //@ proof {
                    //@     assert forall|x: int| las_covered(uncommitted_line_attrs@, n0, range_start as int, range_end as int, x) <==> prefix_has(lines@, 1, x) by {
                    //@         if prefix_has(lines@, 1, x) { }
                    //@         if range_start <= x <= range_end { assert(lines@[0] as int == x); }
                    //@     }
                    //@ }
                    //@ let ghost mut n: int = 1;

                    for vr_0 in it_0: &lines[1..]
                    //@     invariant
                    //@         strictly_inc(lines@),
                    //@         lines@.len() >= 1, n0 == inp.len(),
                    //@         tail_matches(it_0.snapshot@.remaining(), lines@),
                    //@         range_start <= range_end,
                    //@         range_end == lines@[it_0.index@],
                    //@         las_prefix_kept(uncommitted_line_attrs@, inp),
                    //@         las_canonical(uncommitted_line_attrs@, n0, author_id@),
                    //@         las_all_below(uncommitted_line_attrs@, n0, range_start as int),
                    //@         n == it_0.index@ + 1,
                    //@         las_cover_inv(uncommitted_line_attrs@, n0, range_start as int, range_end as int, lines@, n),
                    {
                        let line = *vr_0;
                        //@ let ghost idx = it_0.index@;
                        //@ let ghost old_v = uncommitted_line_attrs@;
                        //@ let ghost old_cs = range_start; let ghost old_ce = range_end;
                        //@ proof { assert(line == lines@[idx + 1]); assert(lines@[idx] < lines@[idx + 1]); }
                        if line == range_end + 1 {
                            range_end = line;
                        } else {
                            // End current range and start new one
                            uncommitted_line_attrs.push(LineAttribution {
                                start_line: range_start,
                                end_line: range_end,
                                author_id: author_id.clone(),
                                overrode: None,
                            });
                            range_start = line;
                            range_end = line;
                        }
                        //@ proof {
                        //@     if uncommitted_line_attrs@.len() > old_v.len() {
                        //@         let r = uncommitted_line_attrs@[old_v.len() as int];
                        //@         assert(uncommitted_line_attrs@ =~= old_v.push(r));
                        //@         assert(uncommitted_line_attrs@.subrange(0, inp.len() as int) =~= old_v.subrange(0, inp.len() as int));
                        //@     }
                        //@     assert forall|x: int| las_covered(uncommitted_line_attrs@, n0, range_start as int, range_end as int, x) <==> prefix_has(lines@, n + 1, x) by {
                        //@         lemma_prefix_step(lines@, n, x);
                        //@         assert(las_covered(old_v, n0, old_cs as int, old_ce as int, x) <==> prefix_has(lines@, n, x));
                        //@         if uncommitted_line_attrs@.len() > old_v.len() {
                        //@             let r = uncommitted_line_attrs@[old_v.len() as int];
                        //@             lemma_las_push_has(old_v, n0, r, x);
                        //@             assert(r.start_line == old_cs && r.end_line == old_ce);
                        //@         }
                        //@     }
                        //@     n = n + 1;
                        //@     assert(las_cover_inv(uncommitted_line_attrs@, n0, range_start as int, range_end as int, lines@, n));
                        //@ }
                    }

                    // Add the last range
                    //@ let ghost pre = uncommitted_line_attrs@;
                    //@ assert(n == lines@.len());
                    uncommitted_line_attrs.push(LineAttribution {
                        start_line: range_start,
                        end_line: range_end,
                        author_id: author_id.clone(),
                        overrode: None,
                    });
//@     proof {
//@         let last = uncommitted_line_attrs@[pre.len() as int];
//@         assert(uncommitted_line_attrs@ =~= pre.push(last));
//@         assert forall|x: int| las_have(uncommitted_line_attrs@, n0, x) <==> seq_has(lines@, x) by {
//@             lemma_las_push_has(pre, n0, last, x);
//@             assert(las_covered(pre, n0, range_start as int, range_end as int, x) <==> prefix_has(lines@, n, x));
//@         }
//@         assert(uncommitted_line_attrs@.subrange(0, inp.len() as int) =~= pre.subrange(0, inp.len() as int));
//@     }
//@     uncommitted_line_attrs
//@ }
//#end

// ---------------------------------------------------------------- vocabulary for the three-way split (region split_classify)
/// (a, v) is recorded in the per-author map
pub open spec fn map_mem(m: StdHashMap<String, Vec<u32>>, a: String, v: u32) -> bool { m@.contains_key(a) && m@[a]@.contains(v) }
//#include ../_shared/count_below.inc.rs
/// number of unstaged lines strictly above working-tree line w: what is subtracted to obtain the commit line number
pub open spec fn below(us: Seq<u32>, w: int) -> int { cb(us, us.len() as int, w) }
pub open spec fn in_hunks(h: Option<&Vec<LineRange>>, c: int) -> bool { h is Some && ranges_have(h.unwrap()@, c) }
/// line w of line attribution j has been processed when the first k attributions are done and attribution k is done up to (excluding) cur
pub open spec fn line_seen(la: Seq<LineAttribution>, k: int, cur: int, j: int, w: int) -> bool {
    (0 <= j < k && j < la.len() && la[j].start_line <= w <= la[j].end_line) || (j == k && 0 <= k < la.len() && la[k].start_line <= w < cur && w <= la[k].end_line)
}
/// what must have been carried over so far: (a, x) for every processed unstaged line x of an attribution of author a
pub open spec fn unc_want(la: Seq<LineAttribution>, k: int, cur: int, us: Seq<u32>, a: String, x: u32) -> bool {
    exists|j: int| #[trigger] line_seen(la, k, cur, j, x as int) && la[j].author_id == a && seq_has(us, x as int)
}
/// what must have been recorded for the commit so far: (a, c) for every processed line w that is not unstaged, whose
/// commit line number c = w - below(w) is a line the commit added
pub open spec fn com_want(la: Seq<LineAttribution>, k: int, cur: int, us: Seq<u32>, h: Option<&Vec<LineRange>>, a: String, c: u32) -> bool {
    exists|j: int, w: int| #[trigger] line_seen(la, k, cur, j, w) && la[j].author_id == a && !seq_has(us, w) && c as int == w - below(us, w) && in_hunks(h, c as int)
}
pub open spec fn maps_inv(cm: StdHashMap<String, Vec<u32>>, um: StdHashMap<String, Vec<u32>>, la: Seq<LineAttribution>, k: int, cur: int, us: Seq<u32>, h: Option<&Vec<LineRange>>) -> bool {
    &&& forall|a: String, c: u32| #![trigger map_mem(cm, a, c)] #![trigger com_want(la, k, cur, us, h, a, c)] map_mem(cm, a, c) <==> com_want(la, k, cur, us, h, a, c)
    &&& forall|a: String, x: u32| #![trigger map_mem(um, a, x)] #![trigger unc_want(la, k, cur, us, a, x)] map_mem(um, a, x) <==> unc_want(la, k, cur, us, a, x)
}
/// every line attribution is a forward range (vstd specifies `a..=b` only for a <= b; in Rust an inverted range is simply empty)
pub open spec fn attrs_forward(la: Seq<LineAttribution>) -> bool { forall|j: int| 0 <= j < la.len() ==> (#[trigger] la[j]).start_line <= la[j].end_line }
/// the values a `start..=end` loop still has to produce
pub open spec fn range_rem(rem: Seq<u32>, start: int, end: int) -> bool {
    &&& rem.len() == (if start <= end { end - start + 1 } else { 0 })
    &&& forall|i: int| 0 <= i < rem.len() ==> (#[trigger] rem[i]) == start + i
}
/// the subtraction `workdir_line_num - adjustment` cannot underflow: among strictly increasing u32 values fewer than w+1 are below w
proof fn lemma_cb_bound(s: Seq<u32>, n: int, w: int)
    requires strictly_inc(s), 0 <= n <= s.len(), 0 <= w,
    ensures 0 <= cb(s, n, w) <= w, (n > 0 && s[n - 1] < w) ==> cb(s, n, w) <= s[n - 1] + 1,
    decreases n,
{
    if n > 0 {
        lemma_cb_bound(s, n - 1, w);
        if s[n - 1] < w && n - 1 > 0 { assert(s[n - 2] < s[n - 1]); }
    }
}
proof fn lemma_seen_step(la: Seq<LineAttribution>, k: int, cur: int, j: int, w: int)
    requires 0 <= k < la.len(), la[k].start_line <= cur <= la[k].end_line,
    ensures line_seen(la, k, cur + 1, j, w) <==> (line_seen(la, k, cur, j, w) || (j == k && w == cur)),
{
}
proof fn lemma_unc_step(la: Seq<LineAttribution>, k: int, cur: int, us: Seq<u32>, a: String, x: u32)
    requires 0 <= k < la.len(), la[k].start_line <= cur <= la[k].end_line,
    ensures unc_want(la, k, cur + 1, us, a, x) <==> (unc_want(la, k, cur, us, a, x) || (la[k].author_id == a && x as int == cur && seq_has(us, cur))),
{
    if unc_want(la, k, cur + 1, us, a, x) {
        let j = choose|j: int| #[trigger] line_seen(la, k, cur + 1, j, x as int) && la[j].author_id == a && seq_has(us, x as int);
        lemma_seen_step(la, k, cur, j, x as int);
        if line_seen(la, k, cur, j, x as int) { assert(line_seen(la, k, cur, j, x as int) && la[j].author_id == a && seq_has(us, x as int)); }
    }
    if unc_want(la, k, cur, us, a, x) {
        let j = choose|j: int| #[trigger] line_seen(la, k, cur, j, x as int) && la[j].author_id == a && seq_has(us, x as int);
        lemma_seen_step(la, k, cur, j, x as int);
        assert(line_seen(la, k, cur + 1, j, x as int) && la[j].author_id == a && seq_has(us, x as int));
    }
    if la[k].author_id == a && x as int == cur && seq_has(us, cur) {
        lemma_seen_step(la, k, cur, k, cur);
        assert(line_seen(la, k, cur + 1, k, x as int) && la[k].author_id == a && seq_has(us, x as int));
    }
}
proof fn lemma_com_step(la: Seq<LineAttribution>, k: int, cur: int, us: Seq<u32>, h: Option<&Vec<LineRange>>, a: String, c: u32)
    requires 0 <= k < la.len(), la[k].start_line <= cur <= la[k].end_line,
    ensures com_want(la, k, cur + 1, us, h, a, c) <==> (com_want(la, k, cur, us, h, a, c) || (la[k].author_id == a && !seq_has(us, cur) && c as int == cur - below(us, cur) && in_hunks(h, c as int))),
{
    if com_want(la, k, cur + 1, us, h, a, c) {
        let (j, w) = choose|j: int, w: int| #[trigger] line_seen(la, k, cur + 1, j, w) && la[j].author_id == a && !seq_has(us, w) && c as int == w - below(us, w) && in_hunks(h, c as int);
        lemma_seen_step(la, k, cur, j, w);
        if line_seen(la, k, cur, j, w) { assert(line_seen(la, k, cur, j, w) && la[j].author_id == a && !seq_has(us, w) && c as int == w - below(us, w) && in_hunks(h, c as int)); }
    }
    if com_want(la, k, cur, us, h, a, c) {
        let (j, w) = choose|j: int, w: int| #[trigger] line_seen(la, k, cur, j, w) && la[j].author_id == a && !seq_has(us, w) && c as int == w - below(us, w) && in_hunks(h, c as int);
        lemma_seen_step(la, k, cur, j, w);
        assert(line_seen(la, k, cur + 1, j, w) && la[j].author_id == a && !seq_has(us, w) && c as int == w - below(us, w) && in_hunks(h, c as int));
    }
    if la[k].author_id == a && !seq_has(us, cur) && c as int == cur - below(us, cur) && in_hunks(h, c as int) {
        lemma_seen_step(la, k, cur, k, cur);
        assert(line_seen(la, k, cur + 1, k, cur) && la[k].author_id == a && !seq_has(us, cur) && c as int == cur - below(us, cur) && in_hunks(h, c as int));
    }
}
/// entering attribution k: nothing of it has been seen, whether the cursor is written as 0 or as its first line
proof fn lemma_enter(la: Seq<LineAttribution>, k: int, us: Seq<u32>, h: Option<&Vec<LineRange>>, a: String, x: u32)
    requires 0 <= k < la.len(),
    ensures
        unc_want(la, k, 0, us, a, x) <==> unc_want(la, k, la[k].start_line as int, us, a, x),
        com_want(la, k, 0, us, h, a, x) <==> com_want(la, k, la[k].start_line as int, us, h, a, x),
{
    let s = la[k].start_line as int;
    assert forall|j: int, w: int| line_seen(la, k, 0, j, w) <==> line_seen(la, k, s, j, w) by { }
    if unc_want(la, k, 0, us, a, x) { let j = choose|j: int| #[trigger] line_seen(la, k, 0, j, x as int) && la[j].author_id == a && seq_has(us, x as int); assert(line_seen(la, k, s, j, x as int)); }
    if unc_want(la, k, s, us, a, x) { let j = choose|j: int| #[trigger] line_seen(la, k, s, j, x as int) && la[j].author_id == a && seq_has(us, x as int); assert(line_seen(la, k, 0, j, x as int)); }
    if com_want(la, k, 0, us, h, a, x) { let (j, w) = choose|j: int, w: int| #[trigger] line_seen(la, k, 0, j, w) && la[j].author_id == a && !seq_has(us, w) && x as int == w - below(us, w) && in_hunks(h, x as int); assert(line_seen(la, k, s, j, w)); }
    if com_want(la, k, s, us, h, a, x) { let (j, w) = choose|j: int, w: int| #[trigger] line_seen(la, k, s, j, w) && la[j].author_id == a && !seq_has(us, w) && x as int == w - below(us, w) && in_hunks(h, x as int); assert(line_seen(la, k, 0, j, w)); }
}
/// leaving attribution k with all of its lines processed is the state "k + 1 attributions done"
proof fn lemma_leave(la: Seq<LineAttribution>, k: int, cur: int, us: Seq<u32>, h: Option<&Vec<LineRange>>, a: String, x: u32)
    requires 0 <= k < la.len(), cur == (if la[k].start_line <= la[k].end_line { la[k].end_line + 1 } else { la[k].start_line as int }),
    ensures
        unc_want(la, k, cur, us, a, x) <==> unc_want(la, k + 1, 0, us, a, x),
        com_want(la, k, cur, us, h, a, x) <==> com_want(la, k + 1, 0, us, h, a, x),
{
    assert forall|j: int, w: int| line_seen(la, k, cur, j, w) <==> line_seen(la, k + 1, 0, j, w) by { }
    if unc_want(la, k, cur, us, a, x) { let j = choose|j: int| #[trigger] line_seen(la, k, cur, j, x as int) && la[j].author_id == a && seq_has(us, x as int); assert(line_seen(la, k + 1, 0, j, x as int)); }
    if unc_want(la, k + 1, 0, us, a, x) { let j = choose|j: int| #[trigger] line_seen(la, k + 1, 0, j, x as int) && la[j].author_id == a && seq_has(us, x as int); assert(line_seen(la, k, cur, j, x as int)); }
    if com_want(la, k, cur, us, h, a, x) { let (j, w) = choose|j: int, w: int| #[trigger] line_seen(la, k, cur, j, w) && la[j].author_id == a && !seq_has(us, w) && x as int == w - below(us, w) && in_hunks(h, x as int); assert(line_seen(la, k + 1, 0, j, w)); }
    if com_want(la, k + 1, 0, us, h, a, x) { let (j, w) = choose|j: int, w: int| #[trigger] line_seen(la, k + 1, 0, j, w) && la[j].author_id == a && !seq_has(us, w) && x as int == w - below(us, w) && in_hunks(h, x as int); assert(line_seen(la, k, cur, j, w)); }
}

// ---------------------------------------------------------------- O1 stubs of region split_classify (trusted std behaviour)
/// `committed_hunks.get(file_path)`: some entry of the map or None (which one is irrelevant to the split)
#[verifier::external_body]
fn opq_hunks_of<'a>(m: &'a StdHashMap<String, Vec<LineRange>>, k: &String) -> (r: Option<&'a Vec<LineRange>>)
{ unimplemented!() }
/// `unstaged_lines.binary_search(&w).is_ok()` on a sorted slice: whether w occurs
#[verifier::external_body]
fn opq_contains_sorted(v: &Vec<u32>, w: u32) -> (r: bool)
    requires strictly_inc(v@),
    ensures r == seq_has(v@, w as int),
{ unimplemented!() }
/// `unstaged_lines.iter().filter(|&&l| l < w).count() as u32`: the number of entries below w
#[verifier::external_body]
fn opq_count_below(v: &Vec<u32>, w: u32) -> (r: u32)
    requires v@.len() <= u32::MAX,
    ensures r as int == below(v@, w as int),
{ unimplemented!() }
/// `hunks.iter().any(|hunk| hunk.contains(c))`: LineRange::contains is proved in unit linerange (c is a line of the range)
#[verifier::external_body]
fn opq_any_contains(hunks: &Vec<LineRange>, c: u32) -> (r: bool)
    ensures r == ranges_have(hunks@, c as int),
{ unimplemented!() }
/// `map.entry(key.clone()).or_default().push(v)`: afterwards exactly (key, v) has been added to what the map records
#[verifier::external_body]
fn opq_map_push(m: &mut StdHashMap<String, Vec<u32>>, key: &String, v: u32)
    ensures forall|a: String, x: u32| #![trigger map_mem(*final(m), a, x)] map_mem(*final(m), a, x) <==> (map_mem(*old(m), a, x) || (a == *key && x == v)),
{ unimplemented!() }
/// `referenced_prompts.insert(key.clone())`
#[verifier::external_body]
fn opq_set_insert(s: &mut HashSet<String>, key: &String)
{ unimplemented!() }

//#item file=src/authorship/virtual_attribution.rs kind=region name=split_classify in=to_authorship_log_and_initial_working_log impl="VirtualAttributions" from="let mut committed_lines_map: StdHashMap<String, Vec<u32>> = StdHashMap::new();" to="// Add committed attributions to authorship log" to_exclusive=yes opaque='[{"expr": "committed_hunks.get(file_path)", "call": "opq_hunks_of(committed_hunks, file_path)"}, {"expr": "unstaged_lines.binary_search(&workdir_line_num).is_ok()", "call": "opq_contains_sorted(&unstaged_lines, workdir_line_num)"}, {"expr": "uncommitted_lines_map\n.entry(line_attr.author_id.clone())\n.or_default()\n.push(workdir_line_num)", "call": "opq_map_push(&mut uncommitted_lines_map, &line_attr.author_id, workdir_line_num)"}, {"expr": "referenced_prompts.insert(line_attr.author_id.clone())", "call": "opq_set_insert(&mut referenced_prompts, &line_attr.author_id)"}, {"expr": "unstaged_lines\n.iter()\n.filter(|&&l| l < workdir_line_num)\n.count() as u32", "call": "opq_count_below(&unstaged_lines, workdir_line_num)"}, {"expr": "hunks.iter().any(|hunk| hunk.contains(commit_line_num))", "call": "opq_any_contains(hunks, commit_line_num)"}, {"expr": "committed_lines_map\n.entry(line_attr.author_id.clone())\n.or_default()\n.push(commit_line_num)", "call": "opq_map_push(&mut committed_lines_map, &line_attr.author_id, commit_line_num)"}]'
//@ fn region_split_classify<'a>(line_attrs: &Vec<LineAttribution>, unstaged_lines: Vec<u32>, committed_hunks: &'a StdHashMap<String, Vec<LineRange>>, file_path: &String, mut referenced_prompts: HashSet<String>) -> (r_: (StdHashMap<String, Vec<u32>>, StdHashMap<String, Vec<u32>>, Option<&'a Vec<LineRange>>, HashSet<String>))
//@     requires strictly_inc(unstaged_lines@), unstaged_lines@.len() <= u32::MAX, attrs_forward(line_attrs@),
//@     ensures
//@         // r_ = (committed_lines_map, uncommitted_lines_map, file_committed_hunks, referenced_prompts)
//@         // The three-way split of every attributed working-tree line w of every line attribution (author a):
//@         // (The translation w -> w - #unstaged-below is the CODE's; it is the commit line only if every unstaged change above w
//@         //  is a pure insertion.  With an unstaged modification or deletion of an older line above, the caller hands this
//@         //  region line sets for which that is not the commit line: recorded finding C04 / split, found by the scenario oracle.)
//@         //   w is an unstaged line                      -> (a, w) is carried over (uncommitted), in working-tree coordinates
//@         //   otherwise c = w - #(unstaged lines below w) -> (a, c) is recorded for the commit iff c is a line the commit added
//@         //   otherwise                                  -> dropped (pre-existing line)
//@         // and nothing else is recorded on either side.
//@         maps_inv(r_.0, r_.1, line_attrs@, line_attrs@.len() as int, 0, unstaged_lines@, r_.2),
//@ {
//@     let ghost la = line_attrs@; let ghost us = unstaged_lines@;
            let mut committed_lines_map: StdHashMap<String, Vec<u32>> = StdHashMap::new();
            let mut uncommitted_lines_map: StdHashMap<String, Vec<u32>> = StdHashMap::new();

            // Get the committed hunks for this file (if any) - these are in commit coordinates
            let file_committed_hunks = opq_hunks_of(committed_hunks, file_path);

            for line_attr in it_0: line_attrs
            //@     invariant
            //@         la == line_attrs@, us == unstaged_lines@, strictly_inc(us), us.len() <= u32::MAX, attrs_forward(la),
            //@         it_0.snapshot@.remaining().len() == la.len(),
            //@         forall|i: int| 0 <= i < la.len() ==> *(#[trigger] it_0.snapshot@.remaining()[i]) == la[i],
            //@         maps_inv(committed_lines_map, uncommitted_lines_map, la, it_0.index@, 0, us, file_committed_hunks),
            {
                //@ let ghost k = it_0.index@;
                //@ proof {
                //@     assert(*line_attr == la[k]);
                //@     assert forall|a: String, x: u32| #![trigger map_mem(uncommitted_lines_map, a, x)] #![trigger unc_want(la, k, la[k].start_line as int, us, a, x)] map_mem(uncommitted_lines_map, a, x) <==> unc_want(la, k, la[k].start_line as int, us, a, x) by { lemma_enter(la, k, us, file_committed_hunks, a, x); }
                //@     assert forall|a: String, c: u32| #![trigger map_mem(committed_lines_map, a, c)] #![trigger com_want(la, k, la[k].start_line as int, us, file_committed_hunks, a, c)] map_mem(committed_lines_map, a, c) <==> com_want(la, k, la[k].start_line as int, us, file_committed_hunks, a, c) by { lemma_enter(la, k, us, file_committed_hunks, a, c); }
                //@ }
                //@ let ghost mut cur: int = la[k].start_line as int;
                // Check each line individually
                for workdir_line_num in it_1: line_attr.start_line..=line_attr.end_line
                //@     invariant
                //@         la == line_attrs@, us == unstaged_lines@, strictly_inc(us), us.len() <= u32::MAX, attrs_forward(la), 0 <= k < la.len(), *line_attr == la[k],
                //@         range_rem(it_1.snapshot@.remaining(), la[k].start_line as int, la[k].end_line as int),
                //@         cur == la[k].start_line + it_1.index@,
                //@         maps_inv(committed_lines_map, uncommitted_lines_map, la, k, cur, us, file_committed_hunks),
                {
                    //@ let ghost w = workdir_line_num as int;
                    //@ let ghost cm0 = committed_lines_map; let ghost um0 = uncommitted_lines_map;
                    //@ proof { assert(w == cur); assert(la[k].start_line <= w <= la[k].end_line); lemma_cb_bound(us, us.len() as int, w); }
                    // Check if this line is unstaged (in working directory but not in commit)
                    let is_unstaged = opq_contains_sorted(&unstaged_lines, workdir_line_num);

                    if is_unstaged {
                        // Line is unstaged, mark as uncommitted
                        opq_map_push(&mut uncommitted_lines_map, &line_attr.author_id, workdir_line_num);
                        opq_set_insert(&mut referenced_prompts, &line_attr.author_id);
                    } else {
                        // Convert working directory line number to commit line number
                        // by subtracting the count of unstaged lines before this line
                        let adjustment = opq_count_below(&unstaged_lines, workdir_line_num);
                        let commit_line_num = workdir_line_num - adjustment;

                        // Check if this commit line number is in any committed hunk
                        let is_committed = if let Some(hunks) = file_committed_hunks {
                            opq_any_contains(hunks, commit_line_num)
                        } else {
                            false
                        };

                        if is_committed {
                            // Line was committed in this commit (use commit coordinates)
                            opq_map_push(&mut committed_lines_map, &line_attr.author_id, commit_line_num);
                        }
                        // Note: Lines that are neither unstaged nor in committed_hunks are lines that
                        // already existed in the parent commit. They are discarded (not added to uncommitted).
                    }
                    //@ proof {
                    //@     assert forall|a: String, x: u32| #![trigger map_mem(uncommitted_lines_map, a, x)] #![trigger unc_want(la, k, w + 1, us, a, x)] map_mem(uncommitted_lines_map, a, x) <==> unc_want(la, k, w + 1, us, a, x) by {
                    //@         lemma_unc_step(la, k, w, us, a, x);
                    //@         assert(map_mem(um0, a, x) <==> unc_want(la, k, w, us, a, x));
                    //@     }
                    //@     assert forall|a: String, c: u32| #![trigger map_mem(committed_lines_map, a, c)] #![trigger com_want(la, k, w + 1, us, file_committed_hunks, a, c)] map_mem(committed_lines_map, a, c) <==> com_want(la, k, w + 1, us, file_committed_hunks, a, c) by {
                    //@         lemma_com_step(la, k, w, us, file_committed_hunks, a, c);
                    //@         assert(map_mem(cm0, a, c) <==> com_want(la, k, w, us, file_committed_hunks, a, c));
                    //@     }
                    //@     cur = cur + 1;
                    //@ }
                }
                //@ proof {
                //@     assert forall|a: String, x: u32| #![trigger map_mem(uncommitted_lines_map, a, x)] #![trigger unc_want(la, k + 1, 0, us, a, x)] map_mem(uncommitted_lines_map, a, x) <==> unc_want(la, k + 1, 0, us, a, x) by { lemma_leave(la, k, cur, us, file_committed_hunks, a, x); }
                //@     assert forall|a: String, c: u32| #![trigger map_mem(committed_lines_map, a, c)] #![trigger com_want(la, k + 1, 0, us, file_committed_hunks, a, c)] map_mem(committed_lines_map, a, c) <==> com_want(la, k + 1, 0, us, file_committed_hunks, a, c) by { lemma_leave(la, k, cur, us, file_committed_hunks, a, c); }
                //@ }
            }
//@     (committed_lines_map, uncommitted_lines_map, file_committed_hunks, referenced_prompts)
//@ }
//#end

// ---------------------------------------------------------------- the unstaged lines of a file, as the split receives them
/// stand-in for HashMap<String, Vec<LineRange>> (the per-file hunk lists); `uh_get` is its lookup
#[verifier::external_body]
pub struct HunkMap { _o: () }
pub uninterp spec fn uh_get(m: HunkMap, k: Seq<char>) -> Option<Vec<LineRange>>;
#[verifier::external_body]
fn opq_hunks_get<'a>(m: &'a HunkMap, k: &String) -> (r: Option<&'a Vec<LineRange>>)
    ensures r is Some <==> uh_get(*m, k@) is Some, r is Some ==> *r->Some_0 == uh_get(*m, k@)->Some_0,
{ unimplemented!() }
/// `v.extend(lines)` (appends, in order)
#[verifier::external_body]
fn opq_extend_lines(v: &mut Vec<u32>, lines: Vec<u32>)
    ensures final(v)@ == old(v)@ + lines@,
{ unimplemented!() }
pub open spec fn sorted_nd(s: Seq<u32>) -> bool { forall|i: int, j: int| 0 <= i <= j < s.len() ==> s[i] <= s[j] }
/// `v.sort_unstable()` (documented: a sorted permutation; the sorted permutation of a sorted sequence is that sequence)
#[verifier::external_body]
fn opq_sort_unstable(v: &mut Vec<u32>)
    ensures sorted_nd(final(v)@), final(v)@.to_multiset() == old(v)@.to_multiset(), sorted_nd(old(v)@) ==> final(v)@ == old(v)@,
{ unimplemented!() }
/// the ranges come one after the other without touching (what compress_lines produces - canonical lists are ascending -
/// and what the untracked-file case builds directly: the single range `Range(1, n)`, n >= 1, which is NOT canonical for n == 1)
pub open spec fn ranges_ascending(v: Seq<LineRange>) -> bool { forall|i: int, j: int| 0 <= i < j < v.len() ==> lr_hi(#[trigger] v[i]) < lr_lo(#[trigger] v[j]) }
/// every range denotes at least one line (`expand` needs it)
pub open spec fn ranges_nonempty(v: Seq<LineRange>) -> bool { forall|i: int| 0 <= i < v.len() ==> lr_nonempty(#[trigger] v[i]) }
/// x is a line of one of the first n ranges
pub open spec fn ranges_have_upto(v: Seq<LineRange>, n: int, x: int) -> bool { exists|i: int| 0 <= i < n && lr_has(#[trigger] v[i], x) }
//#item file=src/authorship/virtual_attribution.rs kind=region name=split_unstaged_lines in=to_authorship_log_and_initial_working_log from="let mut unstaged_lines: Vec<u32> = Vec::new();" to="// Split line attributions into committed and uncommitted" from_nth=0 to_nth=0 impl="VirtualAttributions" to_exclusive=yes opaque='[{"expr": "unstaged_hunks.get(file_path)", "call": "opq_hunks_get(&unstaged_hunks, file_path)"}, {"expr": "unstaged_lines.extend(range.expand())", "call": "opq_extend_lines(&mut unstaged_lines, range.expand())"}, {"expr": "unstaged_lines.sort_unstable()", "call": "opq_sort_unstable(&mut unstaged_lines)"}]'
//@ fn region_split_unstaged_lines(unstaged_hunks: HunkMap, file_path: &String) -> (unstaged_lines: Vec<u32>)
//@     requires
//@         // the per-file hunk lists are ascending lists of non-empty ranges: compress_lines' output (proved canonical there) or the
//@         // single `Range(1, line_count)` of an untracked file
//@         uh_get(unstaged_hunks, file_path@) is Some ==> ranges_ascending(uh_get(unstaged_hunks, file_path@)->Some_0@) && ranges_nonempty(uh_get(unstaged_hunks, file_path@)->Some_0@),
//@     ensures
//@         // the list handed to the split is STRICTLY INCREASING (the split's precondition) and holds exactly the lines of the
//@         // file's unstaged hunks - nothing for a file without unstaged hunks
//@         strictly_inc(unstaged_lines@),
//@         forall|x: int| seq_has(unstaged_lines@, x) <==> (uh_get(unstaged_hunks, file_path@) is Some && ranges_have(uh_get(unstaged_hunks, file_path@)->Some_0@, x)),
//@ {
            let mut unstaged_lines: Vec<u32> = Vec::new();
            if let Some(unstaged_ranges) = opq_hunks_get(&unstaged_hunks, file_path) {
                //@ let ghost rs = unstaged_ranges@;
                for range in it_0: unstaged_ranges
                //@     invariant
                //@         rs == unstaged_ranges@, ranges_ascending(rs), ranges_nonempty(rs), it_0.snapshot@.remaining().len() == rs.len(),
                //@         forall|i: int| 0 <= i < rs.len() ==> *(#[trigger] it_0.snapshot@.remaining()[i]) == rs[i],
                //@         strictly_inc(unstaged_lines@),
                //@         forall|x: int| seq_has(unstaged_lines@, x) <==> ranges_have_upto(rs, it_0.index@, x),
                //@         it_0.index@ > 0 ==> forall|t: int| 0 <= t < unstaged_lines@.len() ==> (#[trigger] unstaged_lines@[t]) <= lr_hi(rs[it_0.index@ - 1]),
                //@         it_0.index@ == 0 ==> unstaged_lines@.len() == 0,
                {
                    //@ let ghost k = it_0.index@;
                    //@ let ghost u0 = unstaged_lines@;
                    //@ proof { assert(*range == rs[k]); assert(lr_nonempty(rs[k])); if k > 0 { assert(lr_hi(rs[k - 1]) < lr_lo(rs[k])); } }
                    opq_extend_lines(&mut unstaged_lines, range.expand());
                    //@ proof {
                    //@     let u1 = unstaged_lines@;
                    //@     let n0 = u0.len() as int;
                    //@     assert forall|t: int| n0 <= t < u1.len() implies (#[trigger] u1[t]) == lr_lo(rs[k]) + (t - n0) by { }
                    //@     assert forall|i: int, j: int| 0 <= i < j < u1.len() implies u1[i] < u1[j] by {
                    //@         if j < n0 { assert(u1[i] == u0[i] && u1[j] == u0[j]); }
                    //@         else if i < n0 { assert(u1[i] == u0[i]); assert(u0[i] <= lr_hi(rs[k - 1])); }
                    //@     }
                    //@     assert forall|x: int| seq_has(u1, x) <==> ranges_have_upto(rs, k + 1, x) by {
                    //@         if seq_has(u1, x) { let t = choose|t: int| 0 <= t < u1.len() && #[trigger] u1[t] as int == x; if t < n0 { assert(u0[t] as int == x); assert(seq_has(u0, x)); let i = choose|i: int| 0 <= i < k && lr_has(#[trigger] rs[i], x); assert(0 <= i < k + 1 && lr_has(rs[i], x)); } else { assert(lr_has(rs[k], x)); assert(0 <= k < k + 1 && lr_has(rs[k], x)); } }
                    //@         if ranges_have_upto(rs, k + 1, x) { let i = choose|i: int| 0 <= i < k + 1 && lr_has(#[trigger] rs[i], x); if i < k { assert(ranges_have_upto(rs, k, x)); assert(seq_has(u0, x)); let t = choose|t: int| 0 <= t < u0.len() && #[trigger] u0[t] as int == x; assert(u1[t] == u0[t]); assert(0 <= t < u1.len() && u1[t] as int == x); } else { let t = n0 + (x - lr_lo(rs[k])); assert(0 <= t < u1.len() && u1[t] as int == x); } }
                    //@     }
                    //@     assert forall|t: int| 0 <= t < u1.len() implies (#[trigger] u1[t]) <= lr_hi(rs[k]) by { if t < n0 { assert(u1[t] == u0[t]); if k > 0 { assert(u0[t] <= lr_hi(rs[k - 1])); } } }
                    //@ }
                }
                //@ proof { assert forall|i: int, j: int| 0 <= i <= j < unstaged_lines@.len() implies unstaged_lines@[i] <= unstaged_lines@[j] by { if i < j { } } }
                opq_sort_unstable(&mut unstaged_lines);
                //@ proof { assert forall|x: int| ranges_have_upto(rs, rs.len() as int, x) <==> ranges_have(rs, x) by { } }
            }
//@     unstaged_lines
//@ }
//#end

} // verus!
fn main() {}
