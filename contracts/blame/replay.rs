// Replay driver for unit blame: the ORIGINAL AuthorshipLog::get_line_attribution (whole function) and the ORIGINAL region text
// of overlay_ai_authorship's per-hunk step between a plain-Rust wrapper, against an independent oracle.  The note's own prompt
// table is a real BTreeMap; the foreign lookup (git grep) never runs because every session hash used here has a local record
// or is deliberately absent from both (then the stand-in `git::refs` functions report nothing).
#![allow(dead_code, unused)]
use std::collections::{BTreeMap, HashMap, HashSet};
#[derive(Clone, PartialEq, Debug, Default)]
pub struct Message { pub _opaque: () }
#[derive(Clone, PartialEq, Debug, Default)]
pub struct AuthorshipMetadata { pub prompts: BTreeMap<String, PromptRecord> }
pub struct Repository { pub _opaque: () }
#[derive(Clone, Debug)]
pub struct DateTime<T> { _p: std::marker::PhantomData<T> }
#[derive(Clone, Debug)]
pub struct FixedOffset;
impl<T> DateTime<T> { pub fn to_rfc3339(&self) -> String { "2024-01-02T03:04:05+00:00".to_string() } }
impl Repository { pub fn global_args_for_exec(&self) -> Vec<String> { vec!["-C".to_string(), "/work tree".to_string()] } }
pub mod git { pub mod refs {
    use super::super::*;
    pub fn grep_ai_notes(_r: &Repository, _p: &str) -> Result<Vec<String>, String> { Ok(vec![]) }
    pub fn get_authorship(_r: &Repository, _sha: &str) -> Option<AuthorshipLog> { None }
} }
include!("@ITEMS@");
use std::panic::{catch_unwind, AssertUnwindSafe};
struct Ctx { evaluated: u64, failed: std::collections::HashSet<String> }
impl Ctx {
    fn fail(&mut self, f: &str, clause: &str, input: String, observed: String, expected: String) {
        if self.failed.insert(format!("{}::{}", f, clause)) { println!("FAIL fn=[[{}]] clause=[[{}]] input=[[{}]] observed=[[{}]] expected=[[{}]]", f, clause, input, observed, expected); }
    }
}
fn guarded<T>(f: impl FnOnce() -> T) -> Result<T, String> {
    catch_unwind(AssertUnwindSafe(f)).map_err(|e| { let m = e.downcast_ref::<String>().cloned().or_else(|| e.downcast_ref::<&str>().map(|s| s.to_string())).unwrap_or_default(); format!("panic: {}", m) })
}
struct Rng(u64);
impl Rng { fn next(&mut self) -> u64 { self.0 ^= self.0 << 13; self.0 ^= self.0 >> 7; self.0 ^= self.0 << 17; self.0 } fn below(&mut self, n: u64) -> u64 { self.next() % n } }

/// a note: files -> entries (session hash, inclusive ranges); sessions "s1","s2" have a prompt record (tools "tool1","tool2"), "sx" has none
type Note = Vec<(String, Vec<(String, Vec<(u32, u32)>)>)>;
fn mk_log(n: &Note) -> AuthorshipLog {
    let mut prompts = BTreeMap::new();
    for (h, tool) in [("s1", "tool1"), ("s2", "tool2")] {
        prompts.insert(h.to_string(), PromptRecord { agent_id: AgentId { tool: tool.into(), id: "id".into(), model: "m".into() }, human_author: None, messages: vec![], total_additions: 0, total_deletions: 0, accepted_lines: 0, overriden_lines: 0, messages_url: None });
    }
    AuthorshipLog {
        attestations: n.iter().map(|(f, es)| FileAttestation { file_path: f.clone(), entries: es.iter().map(|(h, rs)| AttestationEntry { hash: h.clone(), line_ranges: rs.iter().map(|(a, b)| if a == b { LineRange::Single(*a) } else { LineRange::Range(*a, *b) }).collect() }).collect() }).collect(),
        metadata: AuthorshipMetadata { prompts },
    }
}
fn show_note(n: &Note) -> String { n.iter().map(|(f, es)| format!("{}:{}", f, es.iter().map(|(h, rs)| format!("{}={}", h, rs.iter().map(|(a, b)| format!("{}-{}", a, b)).collect::<Vec<_>>().join(","))).collect::<Vec<_>>().join(";"))).collect::<Vec<_>>().join("|") }
fn parse_note(s: &str) -> Note {
    s.split('|').filter(|x| !x.is_empty()).map(|fe| { let (f, es) = fe.split_once(':').unwrap(); (f.to_string(), es.split(';').filter(|x| !x.is_empty()).map(|e| { let (h, rs) = e.split_once('=').unwrap(); (h.to_string(), rs.split(',').filter(|x| !x.is_empty()).map(|r| { let (a, b) = r.split_once('-').unwrap(); (a.parse().unwrap(), b.parse().unwrap()) }).collect()) }).collect()) }).collect()
}
/// oracle: the session of `line` of `file` per the note: first attestation of the path, LAST entry listing the line that has a prompt record
fn o_session(n: &Note, file: &str, line: u32) -> Option<String> {
    let (_, es) = n.iter().find(|(f, _)| f == file)?;
    es.iter().rev().find(|(h, rs)| (h == "s1" || h == "s2") && rs.iter().any(|(a, b)| *a <= line && line <= *b)).map(|(h, _)| h.clone())
}
fn tool_of(h: &str) -> &'static str { if h == "s1" { "tool1" } else { "tool2" } }
fn chk_lookup(c: &mut Ctx, n: &Note, file: &str, line: u32) {
    c.evaluated += 1;
    let input = format!("{} @ {} {}", show_note(n), file, line);
    let log = mk_log(n);
    let repo = Repository { _opaque: () };
    let mut cache = HashMap::new();
    match guarded(|| log.get_line_attribution(&repo, file, line, &mut cache)) {
        Ok(r) => {
            let want = o_session(n, file, line);
            let got = r.as_ref().and_then(|t| t.1.clone());
            if got != want { c.fail("AuthorshipLog::get_line_attribution", "ensures#0", input, format!("{:?}", got), format!("{:?}", want)); return; }
            if let (Some(t), Some(h)) = (r, want) { if t.0.username != tool_of(&h) || t.2.map(|p| p.agent_id.tool) != Some(tool_of(&h).to_string()) { c.fail("AuthorshipLog::get_line_attribution", "ensures#0", input, "wrong tool / prompt record".into(), tool_of(&h).into()); } }
        }
        Err(p) => c.fail("AuthorshipLog::get_line_attribution", "safety", input, p, "no panic".into()),
    }
}
fn mk_opts(hashes: bool, human: bool, unknown: bool) -> GitAiBlameOptions {
    GitAiBlameOptions { line_ranges: vec![], newest_commit: None, oldest_commit: None, oldest_date: None, porcelain: false, line_porcelain: false, incremental: false, show_name: false, show_number: false, show_email: false, suppress_author: false, show_stats: false, long_rev: false, raw_timestamp: false, abbrev: None, blank_boundary: false, show_root: false, detect_moves: false, detect_copies: 0, move_threshold: None, ignore_revs: vec![], ignore_revs_file: None, no_ignore_revs_file: false, color_lines: false, color_by_age: false, progress: false, date_format: None, contents_file: None, reverse: None, first_parent: false, encoding: None, contents_data: None, use_prompt_hashes_as_names: hashes, return_human_authors_as_human: human, no_output: false, ignore_whitespace: false, json: false, mark_unknown: unknown, show_prompt: false, split_hunks_by_ai_author: true }
}
fn mk_hunk(r: (u32, u32), o: u32) -> BlameHunk {
    BlameHunk { range: r, orig_range: (o, o + (r.1 - r.0)), commit_sha: "c0ffee".into(), abbrev_sha: "c0ffee".into(), original_author: "alice".into(), author_email: "a@x".into(), author_time: 0, author_tz: "+0000".into(), ai_human_author: None, committer: "alice".into(), committer_email: "a@x".into(), committer_time: 0, committer_tz: "+0000".into(), is_boundary: false, filename: String::new() }
}
/// `hpath`: the path git reports for the hunk (the `filename` line of the blame group), "" when none - the note must be searched
/// under THAT path (the path the file had in the originating commit), under the command-line path `file` only when it is empty
fn chk_overlay(c: &mut Ctx, n: Option<&Note>, file: &str, hpath: &str, range: (u32, u32), orig0: u32, flags: (bool, bool, bool)) {
    c.evaluated += 1;
    let input = format!("{} @ {} range {}-{} orig {} flags {}{}{}", n.map(show_note).unwrap_or("NONE".into()), file, range.0, range.1, orig0, flags.0 as u8, flags.1 as u8, flags.2 as u8) + &format!(" path {}", if hpath.is_empty() { "-" } else { hpath });
    let mut hunk = mk_hunk(range, orig0); hunk.filename = hpath.to_string();
    let note_path = if hpath.is_empty() { file } else { hpath };
    let opts = mk_opts(flags.0, flags.1, flags.2);
    let repo = Repository { _opaque: () };
    let mut before: HashMap<u32, String> = HashMap::new();
    before.insert(range.0.wrapping_sub(1), "keep-lo".into()); before.insert(range.1 + 1, "keep-hi".into());
    let log = n.map(mk_log);
    let b2 = before.clone();
    match guarded(move || region_ov_hunk(log, &hunk, &repo, file, &opts, b2)) {
        Ok(m) => {
            for (k, v) in &before { if *k < range.0 || *k > range.1 { if m.get(k) != Some(v) { c.fail("region_ov_hunk", "ensures#0", input, format!("line {} -> {:?}", k, m.get(k)), "lines outside the hunk untouched".into()); return; } } }
            if m.keys().any(|k| (*k < range.0 || *k > range.1) && !before.contains_key(k)) { c.fail("region_ov_hunk", "ensures#0", input, "a line outside the hunk was written".into(), "only the hunk's lines".into()); return; }
            for l in range.0..=range.1 {
                let want = match n {
                    None => if flags.2 { "Unknown".to_string() } else if flags.1 { "human".to_string() } else { "alice".to_string() },
                    Some(n) => match o_session(n, note_path, orig0 + (l - range.0)) {
                        Some(h) => if flags.0 { h } else { tool_of(&h).to_string() },
                        None => if flags.1 { "human".to_string() } else { "alice".to_string() },
                    },
                };
                if m.get(&l) != Some(&want) { c.fail("region_ov_hunk", if n.is_some() { "ensures#1" } else { "ensures#2" }, input, format!("line {} -> {:?}", l, m.get(&l)), format!("{} (original line {})", want, orig0 + (l - range.0))); return; }
            }
        }
        Err(p) => c.fail("region_ov_hunk", "safety", input, p, "no panic".into()),
    }
}
fn gen_note(g: &mut Rng) -> Note {
    let nf = 1 + g.below(3) as usize;
    (0..nf).map(|_| {
        let f = ["a.rs", "b.rs", "a.rs"][g.below(3) as usize].to_string();   // a path may occur twice: the first attestation answers
        let ne = g.below(4) as usize;
        (f, (0..ne).map(|_| { let h = ["s1", "s2", "sx"][g.below(3) as usize].to_string(); let nr = 1 + g.below(2) as usize; (h, (0..nr).map(|_| { let a = 1 + g.below(8) as u32; (a, a + g.below(3) as u32) }).collect()) }).collect())
    }).collect()
}
// ---------------------------------------------------------------- the git blame command line
/// input: w | revs (comma) | revs file or - | ranges a-b (comma) | since 0/1 | oldest or - | newest or - | contents 0/1 | path
fn chk_args(c: &mut Ctx, w: bool, revs: &[String], file: Option<String>, ranges: &[(u32, u32)], since: bool, oldest: Option<String>, newest: Option<String>, contents: bool, path: &str) {
    c.evaluated += 1;
    let o = |x: &Option<String>| x.clone().unwrap_or("-".into());
    let input = format!("ARGS|{}|{}|{}|{}|{}|{}|{}|{}|{}", w as u8, revs.join(","), o(&file), ranges.iter().map(|(a, b)| format!("{}-{}", a, b)).collect::<Vec<_>>().join(","), since as u8, o(&oldest), o(&newest), contents as u8, path);
    let mut opts = mk_opts(false, false, false);
    opts.ignore_whitespace = w; opts.ignore_revs = revs.to_vec(); opts.ignore_revs_file = file.clone();
    opts.oldest_date = if since { Some(DateTime { _p: std::marker::PhantomData }) } else { None };
    opts.oldest_commit = oldest.clone(); opts.newest_commit = newest.clone(); opts.contents_data = if contents { Some(b"x\n".to_vec()) } else { None };
    // what `git blame` must be told, option by option (independent of the code under test)
    let mut want: Vec<String> = vec!["-C".into(), "/work tree".into(), "blame".into(), "--line-porcelain".into()];
    if w { want.push("-w".into()); }
    for r in revs { want.push("--ignore-rev".into()); want.push(r.clone()); }
    if let Some(f) = &file { want.push("--ignore-revs-file".into()); want.push(f.clone()); }
    for (a, b) in ranges { want.push("-L".into()); want.push(format!("{},{}", a, b)); }
    if since { want.push("--since".into()); want.push("2024-01-02T03:04:05+00:00".into()); }
    match (&oldest, &newest) { (Some(a), Some(b)) => want.push(format!("{}..{}", a, b)), (None, Some(b)) => want.push(b.clone()), _ => {} }
    if contents { want.push("--contents".into()); want.push("-".into()); }
    want.push("--".into()); want.push(path.to_string());
    let repo = Repository { _opaque: () };
    let (rs, p2) = (ranges.to_vec(), path.to_string());
    match guarded(move || repo.region_bh_args(&p2, &rs, &opts)) {
        Err(p) => c.fail("region_bh_args", "safety", input, p, "no panic".into()),
        Ok(got) => if got != want { c.fail("region_bh_args", "ensures#0", input, format!("{:?}", got), format!("{:?}", want)); },
    }
}
fn main() {
    std::panic::set_hook(Box::new(|_| {}));
    let a: Vec<String> = std::env::args().collect();
    let mut c = Ctx { evaluated: 0, failed: Default::default() };
    let want = |f: &str| a[2] == "*" || a[2] == f;
    if a[1] == "search" {
        let mut g = Rng(a[3].parse::<u64>().unwrap_or(0).wrapping_mul(0x9E3779B97F4A7C15) ^ 0x6a09e667f3bcc909);
        if want("region_bh_args") {
            let opt = |g: &mut Rng, v: &str| if g.below(2) == 0 { Some(v.to_string()) } else { None };
            for _ in 0..3000 {
                let revs: Vec<String> = (0..g.below(3)).map(|i| format!("rev{}", i)).collect();
                let ranges: Vec<(u32, u32)> = (0..1 + g.below(3)).map(|i| (1 + 10 * i as u32, 5 + 10 * i as u32)).collect();
                let (file, oldest, newest) = (opt(&mut g, ".git-blame-ignore-revs"), opt(&mut g, "abc123"), opt(&mut g, "def456"));
                chk_args(&mut c, g.below(2) == 0, &revs, file, &ranges, g.below(2) == 0, oldest, newest, g.below(2) == 0, ["src/a.rs", "a b.txt", "-L"][g.below(3) as usize]);
            }
        }
        for _ in 0..4000 {
            let n = gen_note(&mut g);
            if want("AuthorshipLog::get_line_attribution") { for line in 0..12u32 { chk_lookup(&mut c, &n, ["a.rs", "b.rs", "c.rs"][g.below(3) as usize], line); } }
            if want("region_ov_hunk") {
                let lo = 1 + g.below(6) as u32; let range = (lo, lo + g.below(4) as u32); let orig0 = 1 + g.below(8) as u32;
                let flags = (g.below(2) == 0, g.below(2) == 0, g.below(2) == 0);
                let hpath = ["", "a.rs", "b.rs", "c.rs"][g.below(4) as usize];
                chk_overlay(&mut c, Some(&n), ["a.rs", "b.rs", "c.rs"][g.below(3) as usize], hpath, range, orig0, flags);
                if g.below(4) == 0 { chk_overlay(&mut c, None, "a.rs", hpath, range, orig0, flags); }
            }
        }
    } else {
        // "<note> @ <file> <line>"  or  "<note|NONE> @ <file> range a-b orig o flags xyz"
        if let Some(t) = a[3].strip_prefix("ARGS|") {
            let q: Vec<&str> = t.split('|').collect();
            let o = |x: &str| if x == "-" { None } else { Some(x.to_string()) };
            let revs: Vec<String> = q[1].split(',').filter(|x| !x.is_empty()).map(|x| x.to_string()).collect();
            let ranges: Vec<(u32, u32)> = q[3].split(',').filter(|x| !x.is_empty()).map(|x| { let (a, b) = x.split_once('-').unwrap(); (a.parse().unwrap(), b.parse().unwrap()) }).collect();
            chk_args(&mut c, q[0] == "1", &revs, o(q[2]), &ranges, q[4] == "1", o(q[5]), o(q[6]), q[7] == "1", q[8]);
            println!("DONE evaluated={}", c.evaluated);
            return;
        }
        let (note_s, rest) = a[3].split_once(" @ ").unwrap();
        let w: Vec<&str> = rest.split_whitespace().collect();
        if w.len() == 2 { chk_lookup(&mut c, &parse_note(note_s), w[0], w[1].parse().unwrap()); }
        else {
            let (ra, rb) = w[2].split_once('-').unwrap(); let fl: Vec<bool> = w[6].chars().map(|ch| ch == '1').collect();
            let note = if note_s == "NONE" { None } else { Some(parse_note(note_s)) };
            let hpath = if w.len() > 8 && w[8] != "-" { w[8] } else { "" };   // optional trailing `path <hunk path|->`
            chk_overlay(&mut c, note.as_ref(), w[0], hpath, (ra.parse().unwrap(), rb.parse().unwrap()), w[4].parse().unwrap(), (fl[0], fl[1], fl[2]));
        }
    }
    println!("DONE evaluated={}", c.evaluated);
}
