// Unit blame — property C09: the overlay that turns git-blame hunks plus the originating commits' notes into per-line
// authors.  (1) AuthorshipLog::get_line_attribution: a line of a file is attributed to session S exactly when S's entry is
// the LAST entry of that file's attestation that lists the line and has a resolvable prompt record.  (2) the per-hunk loop
// of overlay_ai_authorship: every current line of a hunk is looked up at its ORIGINAL line number in the originating commit.
use vstd::prelude::*;
use std::collections::HashMap;
use vstd::std_specs::iter::IteratorSpec;
use vstd::std_specs::hash::*;
verus! {

broadcast use vstd::std_specs::hash::group_hash_axioms;

//#include ../_shared/linerange_type.inc.rs
//#include ../_shared/linerange_specs.inc.rs
//#include ../_shared/checkpoint_kind.inc.rs

// stand-ins: never inspected by the verified text
#[verifier::external_body] pub struct Repository { _o: () }
#[verifier::external_body] pub struct Message { _o: () }
#[verifier::external_body] pub struct AuthorshipMetadata { _o: () }

//#item file=src/authorship/authorship_log.rs kind=struct name=Author
pub struct Author {
    pub username: String,
    pub email: String,
}
//#end
//#item file=src/authorship/working_log.rs kind=struct name=AgentId
pub struct AgentId {
    pub tool: String, // e.g., "cursor", "windsurf"
    pub id: String,   // id in their domain
    pub model: String,
}
//#end
//#item file=src/authorship/authorship_log.rs kind=struct name=PromptRecord
pub struct PromptRecord {
    pub agent_id: AgentId,
    pub human_author: Option<String>,
    pub messages: Vec<Message>,
    pub total_additions: u32,
    pub total_deletions: u32,
    pub accepted_lines: u32,
    pub overriden_lines: u32,
    /// Full URL to CAS-stored messages (format: {api_base_url}/cas/{hash})
    pub messages_url: Option<String>,
}
//#end
//#item file=src/authorship/authorship_log_serialization.rs kind=struct name=AttestationEntry
pub struct AttestationEntry {
    pub hash: String,
    pub line_ranges: Vec<LineRange>,
}
//#end
//#item file=src/authorship/authorship_log_serialization.rs kind=struct name=FileAttestation
pub struct FileAttestation {
    pub file_path: String,
    pub entries: Vec<AttestationEntry>,
}
//#end
//#item file=src/authorship/authorship_log_serialization.rs kind=struct name=AuthorshipLog
pub struct AuthorshipLog {
    pub attestations: Vec<FileAttestation>,
    pub metadata: AuthorshipMetadata,
}
//#end

// ---------------------------------------------------------------- vocabulary
/// the prompt record the note itself holds for a session hash (`metadata.prompts.get(hash)`), and the one found in
/// other notes (`git grep` over refs/notes/ai, cached): both outside the verifier's reach, uninterpreted
pub uninterp spec fn local_prompt(md: AuthorshipMetadata, hash: Seq<char>) -> Option<PromptRecord>;
pub uninterp spec fn foreign_prompt(hash: Seq<char>) -> Option<PromptRecord>;
pub open spec fn resolvable(md: AuthorshipMetadata, e: AttestationEntry) -> bool { local_prompt(md, e.hash@) is Some || foreign_prompt(e.hash@) is Some }
pub open spec fn resolved(md: AuthorshipMetadata, e: AttestationEntry) -> PromptRecord { if local_prompt(md, e.hash@) is Some { local_prompt(md, e.hash@).unwrap() } else { foreign_prompt(e.hash@).unwrap() } }
/// entry e lists the line and its session has a prompt record
pub open spec fn hit(md: AuthorshipMetadata, e: AttestationEntry, line: u32) -> bool { ranges_have(e.line_ranges@, line as int) && resolvable(md, e) }
/// what a lookup in one file's entries must return: the LAST hit wins
pub open spec fn lookup_post(es: Seq<AttestationEntry>, md: AuthorshipMetadata, line: u32, r: Option<(Author, Option<String>, Option<PromptRecord>)>) -> bool {
    &&& r is None <==> (forall|k: int| 0 <= k < es.len() ==> !hit(md, #[trigger] es[k], line))
    &&& r is Some ==> exists|k: int| 0 <= k < es.len() && hit(md, #[trigger] es[k], line) && (forall|m: int| k < m < es.len() ==> !hit(md, #[trigger] es[m], line))
            && r.unwrap().1 is Some && r.unwrap().1.unwrap()@ == es[k].hash@
            && r.unwrap().2 == Some(resolved(md, es[k]))
            && r.unwrap().0.username@ == resolved(md, es[k]).agent_id.tool@ && r.unwrap().0.email@.len() == 0
}
pub open spec fn no_file(atts: Seq<FileAttestation>, file: Seq<char>) -> bool { forall|j: int| 0 <= j < atts.len() ==> (#[trigger] atts[j]).file_path@ != file }
pub open spec fn first_file_at(atts: Seq<FileAttestation>, file: Seq<char>, i: int) -> bool { 0 <= i < atts.len() && atts[i].file_path@ == file && no_file(atts.subrange(0, i), file) }
/// the whole contract of get_line_attribution as one predicate, so that callers (region ov_hunk) can name "a lookup result
/// for this line": a file the note does not name has no AI line; otherwise the answer comes from the FIRST attestation of
/// that path and, within it, the LAST entry that lists the line wins
pub open spec fn gla_post(log: AuthorshipLog, file: Seq<char>, line: u32, r: Option<(Author, Option<String>, Option<PromptRecord>)>) -> bool {
    &&& no_file(log.attestations@, file) ==> r is None
    &&& forall|i: int| first_file_at(log.attestations@, file, i) ==> lookup_post((#[trigger] log.attestations@[i]).entries@, log.metadata, line, r)
}

// ---------------------------------------------------------------- O1 stubs (documented behaviour of the std calls)
/// `self.attestations.iter().find(|f| f.file_path == file)`: the first attestation of that path
#[verifier::external_body]
fn opq_find_file<'a>(atts: &'a Vec<FileAttestation>, file: &str) -> (r: Option<&'a FileAttestation>)
    ensures
        r is None ==> no_file(atts@, file@),
        r is Some ==> exists|i: int| first_file_at(atts@, file@, i) && *r.unwrap() == atts@[i],
{ unimplemented!() }
/// `entry.line_ranges.iter().any(|range| range.contains(line))` (LineRange::contains is proved under C04)
#[verifier::external_body]
fn opq_any_contains(ranges: &Vec<LineRange>, line: u32) -> (r: bool)
    ensures r == ranges_have(ranges@, line as int),
{ unimplemented!() }
/// `self.metadata.prompts.get(&entry.hash)`
#[verifier::external_body]
fn opq_local_prompt<'a>(md: &'a AuthorshipMetadata, hash: &String) -> (r: Option<&'a PromptRecord>)
    ensures r is Some <==> local_prompt(*md, hash@) is Some, r is Some ==> *r.unwrap() == local_prompt(*md, hash@).unwrap(),
{ unimplemented!() }
/// the cache lookup / `git grep` over the other notes for a session hash this note has no record for
#[verifier::external_body]
fn opq_foreign_prompt(repo: &Repository, hash: &String, cache: &mut HashMap<String, Option<PromptRecord>>) -> (r: Option<PromptRecord>)
    ensures r == foreign_prompt(hash@),
{ unimplemented!() }
#[verifier::external_body]
fn opq_clone_prompt(p: &PromptRecord) -> (r: PromptRecord)
    ensures r == *p,
{ unimplemented!() }

impl AuthorshipLog {
//#item file=src/authorship/authorship_log_serialization.rs kind=fn name=get_line_attribution impl="AuthorshipLog" opaque='[{"expr": "self.attestations.iter().find(|f| f.file_path == file)", "call": "opq_find_file(&self.attestations, file)"}, {"expr": "entry.line_ranges.iter().any(|range| range.contains(line))", "call": "opq_any_contains(&entry.line_ranges, line)"}, {"expr": "self.metadata.prompts.get(&entry.hash)", "call": "opq_local_prompt(&self.metadata, &entry.hash)"}, {"expr": "if let Some(cached_result) =\n                        foreign_prompts_cache.get(&entry.hash)\n                    {\n                        cached_result.clone()\n                    } else {\n                        // Try to find prompt record using git grep\n                        let shas =\n                            crate::git::refs::grep_ai_notes(repo, &format!(\"\\\"{}\\\"\", &entry.hash))\n                                .unwrap_or_default();\n                        let result = if let Some(latest_sha) = shas.first() {\n                            if let Some(authorship_log) =\n                                crate::git::refs::get_authorship(repo, latest_sha)\n                            {\n                                authorship_log.metadata.prompts.get(&entry.hash).cloned()\n                            } else {\n                                None\n                            }\n                        } else {\n                            None\n                        };\n                        // Cache the result (even if None) to avoid repeated grepping\n                        foreign_prompts_cache.insert(entry.hash.clone(), result.clone());\n                        result\n                    }", "call": "opq_foreign_prompt(repo, &entry.hash, foreign_prompts_cache)"}, {"expr": "prompt_record.clone()", "call": "opq_clone_prompt(prompt_record)"}]'
    pub fn get_line_attribution(
        &self,
        repo: &Repository,
        file: &str,
        line: u32,
        foreign_prompts_cache: &mut HashMap<String, Option<PromptRecord>>,
    ) -> (r_: Option<(Author, Option<String>, Option<PromptRecord>)>)
    //@     ensures
    //@         // a file the note does not name has no AI line; otherwise the FIRST attestation of that path answers, and within
    //@         // it the LAST entry that lists the line (and has a resolvable prompt record) wins
    //@         gla_post(*self, file@, line, r_),
    {
        // Find the file attestation
        let file_attestation = opq_find_file(&self.attestations, file)?;
        //@ let ghost es = file_attestation.entries@;
        //@ let ghost n = es.len() as int;
        //@ let ghost md = self.metadata;
        //@ proof {
        //@     let i0 = choose|i: int| first_file_at(self.attestations@, file@, i) && *file_attestation == self.attestations@[i];
        //@     assert forall|i: int| first_file_at(self.attestations@, file@, i) implies i == i0 by {
        //@         if i < i0 { assert(self.attestations@.subrange(0, i0)[i] == self.attestations@[i]); }
        //@         if i0 < i { assert(self.attestations@.subrange(0, i)[i0] == self.attestations@[i0]); }
        //@     }
        //@     assert(!no_file(self.attestations@, file@)) by { assert(self.attestations@[i0].file_path@ == file@); }
        //@     assert forall|i: int| first_file_at(self.attestations@, file@, i) implies (#[trigger] self.attestations@[i]).entries@ == es by { assert(i == i0); }
        //@ }

        // Check entries in reverse order (latest wins)
        for entry in it_0: file_attestation.entries.iter().rev()
        //@     invariant
        //@         es == file_attestation.entries@, n == es.len(), md == self.metadata,
        //@         !no_file(self.attestations@, file@),
        //@         forall|i: int| first_file_at(self.attestations@, file@, i) ==> (#[trigger] self.attestations@[i]).entries@ == es,
        //@         it_0.snapshot@.remaining().len() == n,
        //@         forall|j: int| 0 <= j < n ==> *(#[trigger] it_0.snapshot@.remaining()[j]) == es[n - 1 - j],
        //@         forall|m: int| n - it_0.index@ <= m < n ==> !hit(md, #[trigger] es[m], line),
        {
            //@ let ghost k = n - 1 - it_0.index@;
            //@ proof { assert(*entry == es[k]); }
            // Check if this line is covered by any of the line ranges
            let contains = opq_any_contains(&entry.line_ranges, line);
            if contains {
                // The hash corresponds to a prompt session short hash
                if let Some(prompt_record) = opq_local_prompt(&self.metadata, &entry.hash) {
                    // Create author info from the prompt record
                    let author = Author {
                        username: prompt_record.agent_id.tool.clone(),
                        email: String::new(), // AI agents don't have email
                    };
                    //@ proof { assert(hit(md, es[k], line)); }

                    // Return author and prompt info
                    return Some((
                        author,
                        Some(entry.hash.clone()),
                        Some(opq_clone_prompt(prompt_record)),
                    ));
                } else {
                    // Check cache first before grepping
                    let prompt_record = opq_foreign_prompt(repo, &entry.hash, foreign_prompts_cache);

                    if let Some(prompt_record) = prompt_record {
                        let author = Author {
                            username: prompt_record.agent_id.tool.clone(),
                            email: String::new(), // AI agents don't have email
                        };
                        //@ proof { assert(hit(md, es[k], line)); }
                        return Some((author, Some(entry.hash.clone()), Some(prompt_record)));
                    }
                }
            }
        }
        None
    }
//#end
}

// ---------------------------------------------------------------- overlay_ai_authorship: one blame hunk
// stand-ins for chrono types named by GitAiBlameOptions (never inspected)
#[verifier::external_body]
#[verifier::reject_recursive_types(T)]
pub struct DateTime<T> { _p: core::marker::PhantomData<T> }
#[verifier::external_body] pub struct FixedOffset { _o: () }
//#item file=src/commands/blame.rs kind=struct name=BlameHunk
pub struct BlameHunk {
    pub range: (u32, u32),
    pub orig_range: (u32, u32),
    pub commit_sha: String,
    pub abbrev_sha: String,
    pub original_author: String,
    pub author_email: String,
    pub author_time: i64,
    pub author_tz: String,
    pub ai_human_author: Option<String>,
    pub committer: String,
    pub committer_email: String,
    pub committer_time: i64,
    pub committer_tz: String,
    pub is_boundary: bool,
    pub filename: String,
}
//#end
//#item file=src/commands/blame.rs kind=struct name=GitAiBlameOptions
pub struct GitAiBlameOptions {
    // Line range options
    pub line_ranges: Vec<(u32, u32)>,

    pub newest_commit: Option<String>,
    pub oldest_commit: Option<String>,
    pub oldest_date: Option<DateTime<FixedOffset>>,

    // Output format options
    pub porcelain: bool,
    pub line_porcelain: bool,
    pub incremental: bool,
    pub show_name: bool,
    pub show_number: bool,
    pub show_email: bool,
    pub suppress_author: bool,
    pub show_stats: bool,

    // Commit display options
    pub long_rev: bool,
    pub raw_timestamp: bool,
    pub abbrev: Option<u32>,

    // Boundary options
    pub blank_boundary: bool,
    pub show_root: bool,

    // Movement detection options
    pub detect_moves: bool,
    pub detect_copies: u32, // Number of -C flags (0-3)
    pub move_threshold: Option<u32>,

    // Ignore options
    pub ignore_revs: Vec<String>,
    pub ignore_revs_file: Option<String>,
    pub no_ignore_revs_file: bool,

    // Color options
    pub color_lines: bool,
    pub color_by_age: bool,

    // Progress options
    pub progress: bool,

    // Date format
    pub date_format: Option<String>,

    // Content options
    pub contents_file: Option<String>,

    // Revision options
    pub reverse: Option<String>,
    pub first_parent: bool,

    // Encoding
    pub encoding: Option<String>,

    // Pre-read contents data (from --contents flag, either from stdin or file)
    // This is populated during argument parsing and used by blame
    pub contents_data: Option<Vec<u8>>,

    // Use prompt hashes as name instead of author names
    pub use_prompt_hashes_as_names: bool,

    // Return all human authors as CheckpointKind::Human
    pub return_human_authors_as_human: bool,

    // No output
    pub no_output: bool,

    // Ignore whitespace
    pub ignore_whitespace: bool,

    // JSON output format
    pub json: bool,

    // Mark lines from commits without authorship logs as "Unknown"
    pub mark_unknown: bool,

    // Show prompt hashes inline and dump prompts when piped
    pub show_prompt: bool,

    // Split hunks when lines have different AI human authors
    // When true, a single git blame hunk may be split into multiple hunks
    // if different lines were authored by different humans working with AI
    pub split_hunks_by_ai_author: bool,
}
//#end

/// the name shown for a line, given what the note says about its original line
pub open spec fn shown(r: Option<(Author, Option<String>, Option<PromptRecord>)>, o: GitAiBlameOptions, h: BlameHunk) -> Seq<char> {
    match r {
        Some(t) => match t.2 {
            Some(p) => if o.use_prompt_hashes_as_names { t.1.unwrap()@ } else { p.agent_id.tool@ },
            None => if o.return_human_authors_as_human { human_str() } else { t.0.username@ },
        },
        None => if o.return_human_authors_as_human { human_str() } else { h.original_author@ },
    }
}
/// the name shown for every line of a hunk whose commit has no note
pub open spec fn no_note_name(o: GitAiBlameOptions, h: BlameHunk) -> Seq<char> {
    if o.mark_unknown { "Unknown"@ } else if o.return_human_authors_as_human { human_str() } else { h.original_author@ }
}
/// what the unverified porcelain parser is ASSUMED to hand over: a forward hunk whose original range is as long
pub open spec fn hunk_wf(h: BlameHunk) -> bool {
    h.range.0 <= h.range.1 && h.range.1 - h.range.0 < u32::MAX && h.orig_range.0 + (h.range.1 - h.range.0) <= u32::MAX
}
/// the ORIGINAL line number (in the originating commit) of current line l of the hunk
pub open spec fn orig_of(h: BlameHunk, l: u32) -> u32 { (h.orig_range.0 + (l - h.range.0)) as u32 }
/// current line l shows what the originating commit's note says about its ORIGINAL line
pub open spec fn line_ok(m: Map<u32, String>, log: AuthorshipLog, file: Seq<char>, o: GitAiBlameOptions, h: BlameHunk, l: u32) -> bool {
    m.contains_key(l) && exists|r: Option<(Author, Option<String>, Option<PromptRecord>)>| #[trigger] gla_post(log, file, orig_of(h, l), r) && m[l]@ == shown(r, o, h)
}
/// keys outside [lo, hi_excl) are untouched
pub open spec fn kept_outside(m: Map<u32, String>, m0: Map<u32, String>, lo: u32, hi_excl: int) -> bool {
    forall|l: u32| !(lo <= l && (l as int) < hi_excl) ==> (#[trigger] m.contains_key(l) <==> m0.contains_key(l)) && (m.contains_key(l) ==> m[l] == m0[l])
}
pub open spec fn range_rem(rem: Seq<u32>, start: int, end: int) -> bool {
    &&& rem.len() == (if start <= end { end - start + 1 } else { 0 })
    &&& forall|i: int| 0 <= i < rem.len() ==> (#[trigger] rem[i]) == start + i
}
/// the path the originating commit's note is searched for: the path git reports for the hunk (`filename <path>` of the blame
/// group, kept by the porcelain parser - unit porcelain), the path given on the command line only when git reported none
pub open spec fn note_path_of(h: BlameHunk, file: Seq<char>) -> Seq<char> { if h.filename@.len() == 0 { file } else { h.filename@ } }
/// `String::is_empty`
#[verifier::external_body]
fn opq_is_empty(s: &String) -> (r: bool)
    ensures r == (s@.len() == 0),
{ unimplemented!() }
/// O1 stubs: `.to_string()` on an owned String; `"Unknown".to_string()`; the two bookkeeping maps (frame only: they do not
/// touch `line_authors`, which they do not receive)
#[verifier::external_body]
fn opq_owned(s: String) -> (r: String)
    ensures r@ == s@,
{ unimplemented!() }
#[verifier::external_body]
fn opq_unknown_name() -> (r: String)
    ensures r@ == "Unknown"@,
{ unimplemented!() }
#[verifier::external_body]
fn opq_note_commit(m: &mut HashMap<String, std::collections::HashSet<String>>, hash: &String, sha: &String)
{ unimplemented!() }
#[verifier::external_body]
fn opq_record_prompt(m: &mut HashMap<String, PromptRecord>, hash: String, p: &PromptRecord)
{ unimplemented!() }
/// a note that names the file has a first attestation of it
proof fn lemma_first_file_exists(atts: Seq<FileAttestation>, file: Seq<char>, j: int)
    requires 0 <= j < atts.len(), atts[j].file_path@ == file,
    ensures exists|i: int| first_file_at(atts, file, i),
    decreases j
{
    if no_file(atts.subrange(0, j), file) { assert(first_file_at(atts, file, j)); }
    else {
        let pre = atts.subrange(0, j);
        let k = choose|k: int| 0 <= k < pre.len() && (#[trigger] pre[k]).file_path@ == file;
        assert(pre[k] == atts[k]);
        lemma_first_file_exists(atts, file, k);
    }
}
/// a lookup that found something names the session hash (so `prompt_hash.unwrap()` in the overlay cannot panic)
proof fn lemma_found_has_hash(log: AuthorshipLog, file: Seq<char>, line: u32, r: Option<(Author, Option<String>, Option<PromptRecord>)>)
    requires gla_post(log, file, line, r), r is Some,
    ensures r.unwrap().1 is Some, r.unwrap().2 is Some,
{
    assert(!no_file(log.attestations@, file));
    let j = choose|j: int| 0 <= j < log.attestations@.len() && (#[trigger] log.attestations@[j]).file_path@ == file;
    lemma_first_file_exists(log.attestations@, file, j);
    let i = choose|i: int| first_file_at(log.attestations@, file, i);
    assert(lookup_post(log.attestations@[i].entries@, log.metadata, line, r));
}

//#item file=src/commands/blame.rs kind=region name=ov_hunk in=overlay_ai_authorship from="if let Some(authorship_log) = authorship_log {" to="$block_end" from_nth=0 to_nth=0 opaque='[{"expr": "prompt_commits.entry(prompt_hash.clone()).or_default().insert(hunk.commit_sha.clone())", "call": "opq_note_commit(&mut prompt_commits, &prompt_hash, &hunk.commit_sha)"}, {"expr": "prompt_records.insert(prompt_hash, prompt_record.clone())", "call": "opq_record_prompt(&mut prompt_records, prompt_hash, &prompt_record)"}, {"expr": "CheckpointKind::Human.to_str().to_string()", "call": "opq_owned(CheckpointKind::Human.to_str())"}, {"expr": "\"Unknown\".to_string()", "call": "opq_unknown_name()"}, {"expr": "hunk.filename.is_empty()", "call": "opq_is_empty(&hunk.filename)"}]'
//@ fn region_ov_hunk(authorship_log: Option<AuthorshipLog>, hunk: &BlameHunk, repo: &Repository, file_path: &str, options: &GitAiBlameOptions, line_authors0: HashMap<u32, String>, prompt_records0: HashMap<String, PromptRecord>, prompt_commits0: HashMap<String, std::collections::HashSet<String>>, foreign_prompts_cache0: HashMap<String, Option<PromptRecord>>) -> (r_: HashMap<u32, String>)
//@     requires hunk_wf(*hunk),
//@     ensures
//@         // lines outside the hunk keep what they had
//@         kept_outside(r_@, line_authors0@, hunk.range.0, hunk.range.1 + 1),
//@         // with a note: every current line of the hunk shows what the note says about its ORIGINAL line number, searched under
//@         // the path the file had in the ORIGINATING commit (note_path_of: the hunk's `filename`; the command-line path only when git reported none)
//@         authorship_log is Some ==> forall|l: u32| hunk.range.0 <= l <= hunk.range.1 ==> line_ok(r_@, authorship_log.unwrap(), note_path_of(*hunk, file_path@), *options, *hunk, l),
//@         // without a note: every line of the hunk gets the no-note name
//@         authorship_log is None ==> forall|l: u32| hunk.range.0 <= l <= hunk.range.1 ==> r_@.contains_key(l) && r_@[l]@ == no_note_name(*options, *hunk),
//@ {
//@     let mut line_authors = line_authors0; let mut prompt_records = prompt_records0; let mut prompt_commits = prompt_commits0; let mut foreign_prompts_cache = foreign_prompts_cache0;
//@     let ghost m0 = line_authors0@; let ghost h = *hunk; let ghost o = *options; let ghost fp = note_path_of(*hunk, file_path@);
        if let Some(authorship_log) = authorship_log {
            //@ let ghost log = authorship_log;
            // The note of the originating commit lists the file under the path it had in THAT commit
            let note_path = if opq_is_empty(&hunk.filename) {
                file_path
            } else {
                hunk.filename.as_str()
            };
            //@ proof { assert(note_path@ == fp); }
            // Check each line in this hunk for AI authorship using compact schema
            // IMPORTANT: Use the original line numbers from the commit, not the current line numbers
            let num_lines = hunk.range.1 - hunk.range.0 + 1;
            for i in it_0: 0..num_lines
            //@     invariant
            //@         hunk_wf(h), h == *hunk, o == *options, fp == note_path_of(h, file_path@), note_path@ == fp, log == authorship_log, m0 == line_authors0@,
            //@         num_lines == h.range.1 - h.range.0 + 1,
            //@         kept_outside(line_authors@, m0, h.range.0, h.range.0 + it_0.index@),
            //@         forall|l: u32| h.range.0 <= l && (l as int) < h.range.0 + it_0.index@ ==> line_ok(line_authors@, log, fp, o, h, l),
            {
                //@ let ghost k = it_0.index@;
                //@ let ghost ma = line_authors@;
                //@ proof { assert(i == k); }
                let current_line_num = hunk.range.0 + i;
                let orig_line_num = hunk.orig_range.0 + i;
                //@ proof { assert(orig_line_num == orig_of(h, current_line_num)); }
                //@ let ghost mut rw: Option<(Author, Option<String>, Option<PromptRecord>)> = None;

                if let Some((author, prompt_hash, prompt)) = authorship_log.get_line_attribution(
                    repo,
                    note_path,
                    orig_line_num,
                    &mut foreign_prompts_cache,
                ) {
                    //@ proof { rw = Some((author, prompt_hash, prompt)); assert(gla_post(log, fp, orig_line_num, rw)); lemma_found_has_hash(log, fp, orig_line_num, rw); }
                    // If this line is AI-assisted, display the tool name; otherwise the human username
                    if let Some(prompt_record) = prompt {
                        let prompt_hash = prompt_hash.unwrap();
                        // Track that this prompt hash appears in this commit
                        opq_note_commit(&mut prompt_commits, &prompt_hash, &hunk.commit_sha);
                        if options.use_prompt_hashes_as_names {
                            line_authors.insert(current_line_num, prompt_hash.clone());
                        } else {
                            line_authors
                                .insert(current_line_num, prompt_record.agent_id.tool.clone());
                        }
                        opq_record_prompt(&mut prompt_records, prompt_hash, &prompt_record);
                    } else {
                        // Has authorship log but line not AI = human-authored
                        if options.return_human_authors_as_human {
                            line_authors.insert(
                                current_line_num,
                                opq_owned(CheckpointKind::Human.to_str()),
                            );
                        } else {
                            line_authors.insert(current_line_num, author.username.clone());
                        }
                    }
                } else {
                    //@ proof { rw = None; assert(gla_post(log, fp, orig_line_num, rw)); }
                    // Has authorship log but no attribution found = human-authored
                    if options.return_human_authors_as_human {
                        line_authors
                            .insert(current_line_num, opq_owned(CheckpointKind::Human.to_str()));
                    } else {
                        line_authors.insert(current_line_num, hunk.original_author.clone());
                    }
                }
                //@ proof {
                //@     assert(line_authors@.contains_key(current_line_num) && line_authors@[current_line_num]@ == shown(rw, o, h));
                //@     assert(gla_post(log, fp, orig_of(h, current_line_num), rw));
                //@     assert forall|l: u32| h.range.0 <= l && (l as int) < h.range.0 + k + 1 implies line_ok(line_authors@, log, fp, o, h, l) by {
                //@         if l != current_line_num {
                //@             assert(line_ok(ma, log, fp, o, h, l));
                //@             let r = choose|r: Option<(Author, Option<String>, Option<PromptRecord>)>| #[trigger] gla_post(log, fp, orig_of(h, l), r) && ma[l]@ == shown(r, o, h);
                //@             assert(gla_post(log, fp, orig_of(h, l), r) && line_authors@[l]@ == shown(r, o, h));
                //@         }
                //@     }
                //@ }
            }
        } else {
            // No authorship log for this commit
            for line_num in it_1: hunk.range.0..=hunk.range.1
            //@     invariant
            //@         hunk_wf(h), h == *hunk, o == *options, m0 == line_authors0@,
            //@         range_rem(it_1.snapshot@.remaining(), h.range.0 as int, h.range.1 as int),
            //@         kept_outside(line_authors@, m0, h.range.0, h.range.0 + it_1.index@),
            //@         forall|l: u32| h.range.0 <= l && (l as int) < h.range.0 + it_1.index@ ==> line_authors@.contains_key(l) && line_authors@[l]@ == no_note_name(o, h),
            {
                //@ proof { assert(line_num == h.range.0 + it_1.index@); }
                if options.mark_unknown {
                    // User wants explicit distinction - mark as Unknown
                    line_authors.insert(line_num, opq_unknown_name());
                } else if options.return_human_authors_as_human {
                    line_authors.insert(line_num, opq_owned(CheckpointKind::Human.to_str()));
                } else {
                    line_authors.insert(line_num, hunk.original_author.clone());
                }
            }
        }
//@     line_authors
//@ }
//#end

// ---------------------------------------------------------------- blame_hunks_for_ranges: the git blame command line
/// the argument vector as plain values
pub open spec fn views(v: Seq<String>) -> Seq<Seq<char>> { Seq::new(v.len(), |i: int| v[i]@) }
pub uninterp spec fn global_args() -> Seq<Seq<char>>;                        // repo.global_args_for_exec()
pub uninterp spec fn fmt_range(s: u32, e: u32) -> Seq<char>;                 // format!("{},{}", s, e)
pub uninterp spec fn fmt_date(d: DateTime<FixedOffset>) -> Seq<char>;        // to_rfc3339()
pub uninterp spec fn fmt_commit_range(a: Seq<char>, b: Seq<char>) -> Seq<char>;   // format!("{}..{}", a, b)
#[verifier::external_body]
fn opq_global_args() -> (r: Vec<String>)
    ensures views(r@) == global_args(),
{ unimplemented!() }
#[verifier::external_body]
fn opq_fmt_range(s: u32, e: u32) -> (r: String)
    ensures r@ == fmt_range(s, e),
{ unimplemented!() }
#[verifier::external_body]
fn opq_rfc3339(d: &DateTime<FixedOffset>) -> (r: String)
    ensures r@ == fmt_date(*d),
{ unimplemented!() }
#[verifier::external_body]
fn opq_fmt_commit_range(a: &String, b: &String) -> (r: String)
    ensures r@ == fmt_commit_range(a@, b@),
{ unimplemented!() }
/// `--ignore-rev <rev>` for each of the first n revisions, in order
pub open spec fn ign_revs(revs: Seq<String>, n: int) -> Seq<Seq<char>>
    decreases n
{
    if n <= 0 { Seq::<Seq<char>>::empty() } else { ign_revs(revs, n - 1) + seq!["--ignore-rev"@, revs[n - 1]@] }
}
/// `-L <start>,<end>` for each of the first n ranges, in order
pub open spec fn l_flags(rs: Seq<(u32, u32)>, n: int) -> Seq<Seq<char>>
    decreases n
{
    if n <= 0 { Seq::<Seq<char>>::empty() } else { l_flags(rs, n - 1) + seq!["-L"@, fmt_range(rs[n - 1].0, rs[n - 1].1)] }
}
pub open spec fn part_w(o: GitAiBlameOptions) -> Seq<Seq<char>> { if o.ignore_whitespace { seq!["-w"@] } else { Seq::<Seq<char>>::empty() } }
pub open spec fn part_file(o: GitAiBlameOptions) -> Seq<Seq<char>> { match o.ignore_revs_file { Some(f) => seq!["--ignore-revs-file"@, f@], None => Seq::<Seq<char>>::empty() } }
pub open spec fn part_since(o: GitAiBlameOptions) -> Seq<Seq<char>> { match o.oldest_date { Some(d) => seq!["--since"@, fmt_date(d)], None => Seq::<Seq<char>>::empty() } }
pub open spec fn part_commit(o: GitAiBlameOptions) -> Seq<Seq<char>> {
    match (o.oldest_commit, o.newest_commit) { (Some(a), Some(b)) => seq![fmt_commit_range(a@, b@)], (None, Some(b)) => seq![b@], _ => Seq::<Seq<char>>::empty() }
}
pub open spec fn part_contents(o: GitAiBlameOptions) -> Seq<Seq<char>> { if o.contents_data is Some { seq!["--contents"@, "-"@] } else { Seq::<Seq<char>>::empty() } }
/// the command line git blame must be given for these options: EVERY option the caller set is passed, none is dropped
pub open spec fn blame_cmdline(o: GitAiBlameOptions, ranges: Seq<(u32, u32)>, path: Seq<char>) -> Seq<Seq<char>> {
    global_args() + seq!["blame"@, "--line-porcelain"@] + part_w(o) + ign_revs(o.ignore_revs@, o.ignore_revs@.len() as int) + part_file(o)
    + l_flags(ranges, ranges.len() as int) + part_since(o) + part_commit(o) + part_contents(o) + seq!["--"@, path]
}
//#item file=src/commands/blame.rs kind=region name=bh_args in=blame_hunks_for_ranges from="let mut args = self.global_args_for_exec();" to="args.push(file_path.to_string());" from_nth=0 to_nth=0 impl="Repository" opaque='[{"expr": "self.global_args_for_exec()", "call": "opq_global_args()"}, {"expr": "format!(\"{},{}\", start_line, end_line)", "call": "opq_fmt_range(*start_line, *end_line)"}, {"expr": "date.to_rfc3339()", "call": "opq_rfc3339(date)"}, {"expr": "format!(\"{}..{}\", oldest, newest)", "call": "opq_fmt_commit_range(oldest, newest)"}]'
//@ fn region_bh_args(file_path: &str, line_ranges: &[(u32, u32)], options: &GitAiBlameOptions) -> (args: Vec<String>)
//@     ensures
//@         // option pass-through: git blame is started with exactly this command line - -w, EVERY --ignore-rev AND the
//@         // ignore-revs file, every -L range, --since, the commit (range), --contents, then `--` and the path
//@         views(args@) == blame_cmdline(*options, line_ranges@, file_path@),
//@ {
        let mut args = opq_global_args();
        args.push("blame".to_string());
        args.push("--line-porcelain".to_string());
        //@ let ghost a0 = global_args() + seq!["blame"@, "--line-porcelain"@];
        //@ proof { assert(views(args@) =~= a0); }

        // Ignore whitespace option
        if options.ignore_whitespace {
            args.push("-w".to_string());
        }
        //@ let ghost a1 = a0 + part_w(*options);
        //@ proof { assert(views(args@) =~= a1); }

        // Respect ignore options in use
        for rev in it_0: &options.ignore_revs
        //@     invariant
        //@         it_0.snapshot@.remaining().len() == options.ignore_revs@.len(),
        //@         forall|i: int| 0 <= i < options.ignore_revs@.len() ==> *(#[trigger] it_0.snapshot@.remaining()[i]) == options.ignore_revs@[i],
        //@         views(args@) == a1 + ign_revs(options.ignore_revs@, it_0.index@),
        {
            //@ let ghost k = it_0.index@;
            //@ let ghost v0 = views(args@);
            //@ proof { assert(*rev == options.ignore_revs@[k]); }
            args.push("--ignore-rev".to_string());
            args.push(rev.clone());
            //@ proof { assert(views(args@) =~= v0 + seq!["--ignore-rev"@, rev@]); assert(ign_revs(options.ignore_revs@, k + 1) == ign_revs(options.ignore_revs@, k) + seq!["--ignore-rev"@, options.ignore_revs@[k]@]);
            //@     assert(views(args@) =~= a1 + ign_revs(options.ignore_revs@, k + 1)); }
        }
        //@ let ghost a2 = a1 + ign_revs(options.ignore_revs@, options.ignore_revs@.len() as int);
        if let Some(file) = &options.ignore_revs_file {
            args.push("--ignore-revs-file".to_string());
            args.push(file.clone());
        }
        //@ let ghost a3 = a2 + part_file(*options);
        //@ proof { assert(views(args@) =~= a3); }

        // Limit to the specified ranges (git blame supports multiple -L flags).
        for (start_line, end_line) in it_1: line_ranges
        //@     invariant
        //@         it_1.snapshot@.remaining().len() == line_ranges@.len(),
        //@         forall|i: int| 0 <= i < line_ranges@.len() ==> *(#[trigger] it_1.snapshot@.remaining()[i]) == line_ranges@[i],
        //@         views(args@) == a3 + l_flags(line_ranges@, it_1.index@),
        {
            //@ let ghost k = it_1.index@;
            //@ let ghost v0 = views(args@);
            //@ proof { assert((*start_line, *end_line) == line_ranges@[k]); }
            args.push("-L".to_string());
            args.push(opq_fmt_range(*start_line, *end_line));
            //@ proof { assert(views(args@) =~= v0 + seq!["-L"@, fmt_range(*start_line, *end_line)]); assert(l_flags(line_ranges@, k + 1) == l_flags(line_ranges@, k) + seq!["-L"@, fmt_range(line_ranges@[k].0, line_ranges@[k].1)]);
            //@     assert(views(args@) =~= a3 + l_flags(line_ranges@, k + 1)); }
        }
        //@ let ghost a4 = a3 + l_flags(line_ranges@, line_ranges@.len() as int);

        // Add --since flag if oldest_date is specified
        // This controls the absolute lower bound of how far back to look
        if let Some(ref date) = options.oldest_date {
            args.push("--since".to_string());
            args.push(opq_rfc3339(date));
        }
        //@ let ghost a5 = a4 + part_since(*options);
        //@ proof { assert(views(args@) =~= a5); }

        // Support newest_commit option (equivalent to libgit2's newest_commit)
        // This limits blame to only consider commits up to and including the specified commit
        // When oldest_commit is also set, we use a range: oldest_commit..newest_commit
        match (&options.oldest_commit, &options.newest_commit) {
            (Some(oldest), Some(newest)) => {
                // Use range format: git blame START_COMMIT..END_COMMIT -- file.txt
                args.push(opq_fmt_commit_range(oldest, newest));
            }
            (None, Some(newest)) => {
                // Only newest_commit set, use it as the commit to blame at
                args.push(newest.clone());
            }
            (Some(_oldest), None) => {
                // oldest_commit without newest_commit doesn't make sense for blame
                // Just ignore oldest_commit in this case
            }
            (None, None) => {
                // No commit specified, blame at HEAD (default)
            }
        }
        //@ let ghost a6 = a5 + part_commit(*options);
        //@ proof { assert(views(args@) =~= a6); }

        // Add --contents flag if we have content data to pass via stdin
        if options.contents_data.is_some() {
            args.push("--contents".to_string());
            args.push("-".to_string());
        }
        //@ let ghost a7 = a6 + part_contents(*options);
        //@ proof { assert(views(args@) =~= a7); }

        args.push("--".to_string());
        args.push(file_path.to_string());
        //@ proof { assert(views(args@) =~= a7 + seq!["--"@, file_path@]); }
//@     args
//@ }
//#end

} // verus!
fn main() {}
