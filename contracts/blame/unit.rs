// Unit blame — property C09: the overlay that turns git-blame hunks plus the originating commits' notes into per-line
// authors.  (1) AuthorshipLog::get_line_attribution: a line of a file is attributed to session S exactly when S's entry is
// the LAST entry of that file's attestation that lists the line and has a resolvable prompt record.  (2) the per-hunk loop
// of overlay_ai_authorship: every current line of a hunk is looked up at its ORIGINAL line number in the originating commit.
use vstd::prelude::*;
use std::collections::HashMap;
use vstd::std_specs::iter::IteratorSpec;
verus! {

//#include ../_shared/linerange_type.inc.rs
//#include ../_shared/linerange_specs.inc.rs

// stand-ins: never inspected by the verified text
pub struct Repository { pub _opaque: () }
pub struct Message { pub _opaque: () }
pub struct AuthorshipMetadata { pub _opaque: () }

//#item file=src/authorship/authorship_log.rs kind=struct name=Author
pub struct Author {
    pub username: String,
    pub email: String,
}
//#end
//#item file=src/authorship/working_log.rs kind=struct name=AgentId
pub struct AgentId {
    pub tool: String, // e.g., "cursor", "windsurf"
    pub id: String,   // id in their domain
    pub model: String,
}
//#end
//#item file=src/authorship/authorship_log.rs kind=struct name=PromptRecord
pub struct PromptRecord {
    pub agent_id: AgentId,
    pub human_author: Option<String>,
    pub messages: Vec<Message>,
    pub total_additions: u32,
    pub total_deletions: u32,
    pub accepted_lines: u32,
    pub overriden_lines: u32,
    /// Full URL to CAS-stored messages (format: {api_base_url}/cas/{hash})
    pub messages_url: Option<String>,
}
//#end
//#item file=src/authorship/authorship_log_serialization.rs kind=struct name=AttestationEntry
pub struct AttestationEntry {
    pub hash: String,
    pub line_ranges: Vec<LineRange>,
}
//#end
//#item file=src/authorship/authorship_log_serialization.rs kind=struct name=FileAttestation
pub struct FileAttestation {
    pub file_path: String,
    pub entries: Vec<AttestationEntry>,
}
//#end
//#item file=src/authorship/authorship_log_serialization.rs kind=struct name=AuthorshipLog
pub struct AuthorshipLog {
    pub attestations: Vec<FileAttestation>,
    pub metadata: AuthorshipMetadata,
}
//#end

// ---------------------------------------------------------------- vocabulary
/// the prompt record the note itself holds for a session hash (`metadata.prompts.get(hash)`), and the one found in
/// other notes (`git grep` over refs/notes/ai, cached): both outside the verifier's reach, uninterpreted
pub uninterp spec fn local_prompt(md: AuthorshipMetadata, hash: Seq<char>) -> Option<PromptRecord>;
pub uninterp spec fn foreign_prompt(hash: Seq<char>) -> Option<PromptRecord>;
pub open spec fn resolvable(md: AuthorshipMetadata, e: AttestationEntry) -> bool { local_prompt(md, e.hash@) is Some || foreign_prompt(e.hash@) is Some }
pub open spec fn resolved(md: AuthorshipMetadata, e: AttestationEntry) -> PromptRecord { if local_prompt(md, e.hash@) is Some { local_prompt(md, e.hash@).unwrap() } else { foreign_prompt(e.hash@).unwrap() } }
/// entry e lists the line and its session has a prompt record
pub open spec fn hit(md: AuthorshipMetadata, e: AttestationEntry, line: u32) -> bool { ranges_have(e.line_ranges@, line as int) && resolvable(md, e) }
/// what a lookup in one file's entries must return: the LAST hit wins
pub open spec fn lookup_post(es: Seq<AttestationEntry>, md: AuthorshipMetadata, line: u32, r: Option<(Author, Option<String>, Option<PromptRecord>)>) -> bool {
    &&& r is None <==> (forall|k: int| 0 <= k < es.len() ==> !hit(md, #[trigger] es[k], line))
    &&& r is Some ==> exists|k: int| 0 <= k < es.len() && hit(md, #[trigger] es[k], line) && (forall|m: int| k < m < es.len() ==> !hit(md, #[trigger] es[m], line))
            && r.unwrap().1 is Some && r.unwrap().1.unwrap()@ == es[k].hash@
            && r.unwrap().2 == Some(resolved(md, es[k]))
            && r.unwrap().0.username@ == resolved(md, es[k]).agent_id.tool@ && r.unwrap().0.email@.len() == 0
}
pub open spec fn no_file(atts: Seq<FileAttestation>, file: Seq<char>) -> bool { forall|j: int| 0 <= j < atts.len() ==> (#[trigger] atts[j]).file_path@ != file }
pub open spec fn first_file_at(atts: Seq<FileAttestation>, file: Seq<char>, i: int) -> bool { 0 <= i < atts.len() && atts[i].file_path@ == file && no_file(atts.subrange(0, i), file) }

// ---------------------------------------------------------------- O1 stubs (documented behaviour of the std calls)
/// `self.attestations.iter().find(|f| f.file_path == file)`: the first attestation of that path
#[verifier::external_body]
fn opq_find_file<'a>(atts: &'a Vec<FileAttestation>, file: &str) -> (r: Option<&'a FileAttestation>)
    ensures
        r is None ==> no_file(atts@, file@),
        r is Some ==> exists|i: int| first_file_at(atts@, file@, i) && *r.unwrap() == atts@[i],
{ unimplemented!() }
/// `entry.line_ranges.iter().any(|range| range.contains(line))` (LineRange::contains is proved under C04)
#[verifier::external_body]
fn opq_any_contains(ranges: &Vec<LineRange>, line: u32) -> (r: bool)
    ensures r == ranges_have(ranges@, line as int),
{ unimplemented!() }
/// `self.metadata.prompts.get(&entry.hash)`
#[verifier::external_body]
fn opq_local_prompt<'a>(md: &'a AuthorshipMetadata, hash: &String) -> (r: Option<&'a PromptRecord>)
    ensures r is Some <==> local_prompt(*md, hash@) is Some, r is Some ==> *r.unwrap() == local_prompt(*md, hash@).unwrap(),
{ unimplemented!() }
/// the cache lookup / `git grep` over the other notes for a session hash this note has no record for
#[verifier::external_body]
fn opq_foreign_prompt(repo: &Repository, hash: &String, cache: &mut HashMap<String, Option<PromptRecord>>) -> (r: Option<PromptRecord>)
    ensures r == foreign_prompt(hash@),
{ unimplemented!() }
#[verifier::external_body]
fn opq_clone_prompt(p: &PromptRecord) -> (r: PromptRecord)
    ensures r == *p,
{ unimplemented!() }

impl AuthorshipLog {
//#item file=src/authorship/authorship_log_serialization.rs kind=fn name=get_line_attribution impl="AuthorshipLog" opaque='[{"expr": "self.attestations.iter().find(|f| f.file_path == file)", "call": "opq_find_file(&self.attestations, file)"}, {"expr": "entry.line_ranges.iter().any(|range| range.contains(line))", "call": "opq_any_contains(&entry.line_ranges, line)"}, {"expr": "self.metadata.prompts.get(&entry.hash)", "call": "opq_local_prompt(&self.metadata, &entry.hash)"}, {"expr": "if let Some(cached_result) =\n                        foreign_prompts_cache.get(&entry.hash)\n                    {\n                        cached_result.clone()\n                    } else {\n                        // Try to find prompt record using git grep\n                        let shas =\n                            crate::git::refs::grep_ai_notes(repo, &format!(\"\\\"{}\\\"\", &entry.hash))\n                                .unwrap_or_default();\n                        let result = if let Some(latest_sha) = shas.first() {\n                            if let Some(authorship_log) =\n                                crate::git::refs::get_authorship(repo, latest_sha)\n                            {\n                                authorship_log.metadata.prompts.get(&entry.hash).cloned()\n                            } else {\n                                None\n                            }\n                        } else {\n                            None\n                        };\n                        // Cache the result (even if None) to avoid repeated grepping\n                        foreign_prompts_cache.insert(entry.hash.clone(), result.clone());\n                        result\n                    }", "call": "opq_foreign_prompt(repo, &entry.hash, foreign_prompts_cache)"}, {"expr": "prompt_record.clone()", "call": "opq_clone_prompt(prompt_record)"}]'
    pub fn get_line_attribution(
        &self,
        repo: &Repository,
        file: &str,
        line: u32,
        foreign_prompts_cache: &mut HashMap<String, Option<PromptRecord>>,
    ) -> (r_: Option<(Author, Option<String>, Option<PromptRecord>)>)
    //@     ensures
    //@         // a file the note does not name has no AI line
    //@         no_file(self.attestations@, file@) ==> r_ is None,
    //@         // otherwise the answer comes from the FIRST attestation of that path, and within it the LAST entry that lists the line wins
    //@         forall|i: int| first_file_at(self.attestations@, file@, i) ==> lookup_post((#[trigger] self.attestations@[i]).entries@, self.metadata, line, r_),
    {
        // Find the file attestation
        let file_attestation = opq_find_file(&self.attestations, file)?;
        //@ let ghost es = file_attestation.entries@;
        //@ let ghost n = es.len() as int;
        //@ let ghost md = self.metadata;
        //@ proof {
        //@     let i0 = choose|i: int| first_file_at(self.attestations@, file@, i) && *file_attestation == self.attestations@[i];
        //@     assert forall|i: int| first_file_at(self.attestations@, file@, i) implies i == i0 by {
        //@         if i < i0 { assert(self.attestations@.subrange(0, i0)[i] == self.attestations@[i]); }
        //@         if i0 < i { assert(self.attestations@.subrange(0, i)[i0] == self.attestations@[i0]); }
        //@     }
        //@     assert(!no_file(self.attestations@, file@)) by { assert(self.attestations@[i0].file_path@ == file@); }
        //@     assert forall|i: int| first_file_at(self.attestations@, file@, i) implies (#[trigger] self.attestations@[i]).entries@ == es by { assert(i == i0); }
        //@ }

        // Check entries in reverse order (latest wins)
        for entry in it_0: file_attestation.entries.iter().rev()
        //@     invariant
        //@         es == file_attestation.entries@, n == es.len(), md == self.metadata,
        //@         !no_file(self.attestations@, file@),
        //@         forall|i: int| first_file_at(self.attestations@, file@, i) ==> (#[trigger] self.attestations@[i]).entries@ == es,
        //@         it_0.snapshot@.remaining().len() == n,
        //@         forall|j: int| 0 <= j < n ==> *(#[trigger] it_0.snapshot@.remaining()[j]) == es[n - 1 - j],
        //@         forall|m: int| n - it_0.index@ <= m < n ==> !hit(md, #[trigger] es[m], line),
        {
            //@ let ghost k = n - 1 - it_0.index@;
            //@ proof { assert(*entry == es[k]); }
            // Check if this line is covered by any of the line ranges
            let contains = opq_any_contains(&entry.line_ranges, line);
            if contains {
                // The hash corresponds to a prompt session short hash
                if let Some(prompt_record) = opq_local_prompt(&self.metadata, &entry.hash) {
                    // Create author info from the prompt record
                    let author = Author {
                        username: prompt_record.agent_id.tool.clone(),
                        email: String::new(), // AI agents don't have email
                    };
                    //@ proof { assert(hit(md, es[k], line)); }

                    // Return author and prompt info
                    return Some((
                        author,
                        Some(entry.hash.clone()),
                        Some(opq_clone_prompt(prompt_record)),
                    ));
                } else {
                    // Check cache first before grepping
                    let prompt_record = opq_foreign_prompt(repo, &entry.hash, foreign_prompts_cache);

                    if let Some(prompt_record) = prompt_record {
                        let author = Author {
                            username: prompt_record.agent_id.tool.clone(),
                            email: String::new(), // AI agents don't have email
                        };
                        //@ proof { assert(hit(md, es[k], line)); }
                        return Some((author, Some(entry.hash.clone()), Some(prompt_record)));
                    }
                }
            }
        }
        None
    }
//#end
}

} // verus!
fn main() {}
