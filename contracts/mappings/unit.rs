// Unit mappings — properties C02 / C15: WHICH original commit corresponds to WHICH rewritten commit.
//   walk_commits_to_base, build_rebase_commit_mappings, build_cherry_pick_commit_mappings: the two commit lists of a rebase /
//   the new commits of a cherry-pick are the commits git lists for the stated ranges, OLDEST FIRST (git's newest-first output
//   reversed exactly once); what git is asked (merge-base --is-ancestor, rev-list --topo-order --ancestry-path base..head,
//   rev-list --reverse <range>, rev-parse <rev>) is proved at the call sites of the rule-O1 stubs.
//   parse_cherry_pick_commits, expand_commit_range, resolve_commit_sha: the source commits of `git cherry-pick <args>` are, in
//   command-line order, the commits of every range argument (application order) and the commit of every single revision;
//   an option and the separate value of a value-taking option contribute nothing.
//   Regions rb_pairs / cp_pairs (rewrite_authorship_after_rebase_v2 / _after_cherry_pick): which (original, new) pairs the
//   note remapping and the slow path's fallback consume.
// git's answers, utf-8 decoding and line splitting are uninterpreted.
use vstd::prelude::*;
use vstd::std_specs::iter::IteratorSpec;
verus! {

/// stand-ins (never inspected by the verified text)
#[verifier::external_body] pub struct Repository { _o: () }
pub enum GitAiError { Generic(String) }
pub type GErr = GitAiError;
/// stand-in for std::process::Output (only stdout is read)
pub struct Output { pub stdout: Vec<u8> }
/// stand-in for crate::git::repository::Commit: only its id is read
pub struct Commit { pub oid: String }

pub open spec fn views(v: Seq<String>) -> Seq<Seq<char>> { Seq::new(v.len(), |i: int| v[i]@) }

// ---------------------------------------------------------------- what git answers (uninterpreted)
pub uninterp spec fn global_args() -> Seq<Seq<char>>;
/// the object id `find_commit(spec)` resolves to
pub uninterp spec fn commit_id_of(spec: Seq<char>) -> Seq<char>;
/// `git merge-base --is-ancestor a d` exits 0
pub uninterp spec fn git_is_ancestor(a: Seq<char>, d: Seq<char>) -> bool;
/// `git merge-base a b`
pub uninterp spec fn git_merge_base(a: Seq<char>, b: Seq<char>) -> Seq<char>;
/// `git rev-list <opts> <range>`: success and stdout
pub uninterp spec fn rev_list_ok(opts: Seq<Seq<char>>, range: Seq<char>) -> bool;
pub uninterp spec fn rev_list_stdout(opts: Seq<Seq<char>>, range: Seq<char>) -> Seq<u8>;
/// `git rev-parse <rev>`: success and stdout
pub uninterp spec fn rev_parse_ok(rev: Seq<char>) -> bool;
pub uninterp spec fn rev_parse_stdout(rev: Seq<char>) -> Seq<u8>;
pub uninterp spec fn utf8_ok(b: Seq<u8>) -> bool;
pub uninterp spec fn utf8_dec(b: Seq<u8>) -> Seq<char>;
/// the lines of a text, each trimmed, empty ones dropped, in order
pub uninterp spec fn nonempty_trimmed_lines(s: Seq<char>) -> Seq<Seq<char>>;
pub uninterp spec fn trim_spec(s: Seq<char>) -> Seq<char>;

/// the commits `git rev-list <opts> <range>` prints, in the order printed
pub open spec fn git_rev_list(opts: Seq<Seq<char>>, range: Seq<char>) -> Seq<Seq<char>> {
    nonempty_trimmed_lines(utf8_dec(rev_list_stdout(opts, range)))
}
pub open spec fn WALK_OPTS() -> Seq<Seq<char>> { seq!["--topo-order"@, "--ancestry-path"@] }
pub open spec fn REVERSE_OPTS() -> Seq<Seq<char>> { seq!["--reverse"@] }
pub open spec fn dotdot(base: Seq<char>, head: Seq<char>) -> Seq<char> { base + ".."@ + head }
/// git's listing of the commits after `base` up to `head`: NEWEST FIRST (rev-list prints children before parents)
pub open spec fn walk_spec(head: Seq<char>, base: Seq<char>) -> Seq<Seq<char>> {
    if head == base { Seq::empty() } else { git_rev_list(WALK_OPTS(), dotdot(base, head)) }
}
/// the same commits OLDEST FIRST: the order in which they were / are applied
pub open spec fn oldest_first(head: Seq<char>, base: Seq<char>) -> Seq<Seq<char>> { walk_spec(head, base).reverse() }

/// THEOREM (orientation): position i of an oldest-first list is position len-1-i of git's newest-first listing; in particular
/// its first element is the LAST line git printed (the commit directly after the base) and reversing it again gives git's order.
pub proof fn theorem_oldest_first(head: Seq<char>, base: Seq<char>)
    ensures
        oldest_first(head, base).len() == walk_spec(head, base).len(),
        forall|i: int| 0 <= i < oldest_first(head, base).len() ==> oldest_first(head, base)[i] == walk_spec(head, base)[walk_spec(head, base).len() - 1 - i],
        oldest_first(head, base).reverse() == walk_spec(head, base),
{
    assert(walk_spec(head, base).reverse().reverse() =~= walk_spec(head, base));
}

/// element-wise views commute with reversal (and reversing twice is the identity)
pub proof fn lemma_views_reverse(v: Seq<String>)
    ensures views(v.reverse()) == views(v).reverse(), v.reverse().reverse() == v,
{
    assert(views(v.reverse()) =~= views(v).reverse());
    assert(v.reverse().reverse() =~= v);
}

// ---------------------------------------------------------------- rule O1 stubs
pub assume_specification<T>[ <[T]>::reverse ](s: &mut [T])
    ensures final(s)@ == old(s)@.reverse();

#[verifier::external_body]
fn opq_global_args() -> (r: Vec<String>)
    ensures views(r@) == global_args(),
{ unimplemented!() }
#[verifier::external_body]
fn opq_log() { unimplemented!() }
/// `repository.find_commit(spec)`
#[verifier::external_body]
fn opq_find_commit(spec: String) -> (r: Result<Commit, GErr>)
    ensures r is Ok ==> r->Ok_0.oid@ == commit_id_of(spec@),
{ unimplemented!() }
/// `exec_git(<global> merge-base --is-ancestor <anc> <desc>).is_err()`: the PRECONDITION states what git is asked
#[verifier::external_body]
fn opq_not_ancestor(args: &Vec<String>, Ghost(anc): Ghost<Seq<char>>, Ghost(desc): Ghost<Seq<char>>) -> (r: bool)
    requires views(args@) == global_args() + seq!["merge-base"@, "--is-ancestor"@, anc, desc],
    ensures r == !git_is_ancestor(anc, desc),
{ unimplemented!() }
#[verifier::external_body]
fn opq_fmt_not_ancestor(base: &str, head: &str) -> (r: String)
{ unimplemented!() }
/// `format!("{}..{}", a, b)`
#[verifier::external_body]
fn opq_fmt_range(a: &str, b: &str) -> (r: String)
    ensures r@ == dotdot(a@, b@),
{ unimplemented!() }
/// `exec_git(<global> rev-list <opts> <range>)`: the PRECONDITION states what git is asked
#[verifier::external_body]
fn opq_rev_list(args: &Vec<String>, Ghost(opts): Ghost<Seq<Seq<char>>>, Ghost(range): Ghost<Seq<char>>) -> (r: Result<Output, GErr>)
    requires views(args@) == global_args() + seq!["rev-list"@] + opts + seq![range],
    ensures r is Ok <==> rev_list_ok(opts, range), r is Ok ==> r->Ok_0.stdout@ == rev_list_stdout(opts, range),
{ unimplemented!() }
/// `exec_git(<global> rev-parse <rev>)`
#[verifier::external_body]
fn opq_rev_parse(args: &Vec<String>, Ghost(rev): Ghost<Seq<char>>) -> (r: Result<Output, GErr>)
    requires views(args@) == global_args() + seq!["rev-parse"@, rev],
    ensures r is Ok <==> rev_parse_ok(rev), r is Ok ==> r->Ok_0.stdout@ == rev_parse_stdout(rev),
{ unimplemented!() }
/// `String::from_utf8(bytes)` (+ the `?` conversion of its error)
#[verifier::external_body]
fn opq_from_utf8(bytes: Vec<u8>) -> (r: Result<String, GErr>)
    ensures r is Ok <==> utf8_ok(bytes@), r is Ok ==> r->Ok_0@ == utf8_dec(bytes@),
{ unimplemented!() }
/// `s.lines().map(trim).filter(non-empty).map(to_owned).collect()`
#[verifier::external_body]
fn opq_lines_trimmed(s: &String) -> (r: Vec<String>)
    ensures views(r@) == nonempty_trimmed_lines(s@),
{ unimplemented!() }
/// `String::from_utf8(bytes)?.lines().map(|s| s.trim().to_string()).filter(non-empty).collect()`
#[verifier::external_body]
fn opq_utf8_lines_trimmed(bytes: Vec<u8>) -> (r: Result<Vec<String>, GErr>)
    ensures r is Ok <==> utf8_ok(bytes@), r is Ok ==> views(r->Ok_0@) == nonempty_trimmed_lines(utf8_dec(bytes@)),
{ unimplemented!() }
/// `String::from_utf8(bytes)?.trim().to_string()`
#[verifier::external_body]
fn opq_utf8_trimmed(bytes: Vec<u8>) -> (r: Result<String, GErr>)
    ensures r is Ok <==> utf8_ok(bytes@), r is Ok ==> r->Ok_0@ == trim_spec(utf8_dec(bytes@)),
{ unimplemented!() }
/// `repository.merge_base(a.id(), b.id())`
#[verifier::external_body]
fn opq_merge_base(a: &Commit, b: &Commit) -> (r: Result<String, GErr>)
    ensures r is Ok ==> r->Ok_0@ == git_merge_base(a.oid@, b.oid@),
{ unimplemented!() }
pub open spec fn onto_view(o: Option<&str>) -> Option<Seq<char>> { match o { Some(s) => Some(s@), None => None } }
/// the lower bound of the rewritten commits: the rebase target when it is known and lies below the new head, else the merge base
pub open spec fn new_base_spec(onto: Option<Seq<char>>, new_head: Seq<char>, mb: Seq<char>) -> Seq<char> {
    if onto is Some && git_is_ancestor(onto->Some_0, new_head) { onto->Some_0 } else { mb }
}
/// `onto_head.filter(|onto| is_ancestor(repository, onto, new_head)).unwrap_or(merge_base.as_str())` (Option::filter / unwrap_or as
/// documented; is_ancestor = `git merge-base --is-ancestor onto new_head` succeeded)
#[verifier::external_body]
fn opq_new_base<'a>(onto: Option<&'a str>, new_head: &str, mb: &'a String) -> (r: &'a str)
    ensures r@ == new_base_spec(onto_view(onto), new_head@, mb@),
{ unimplemented!() }

//#item file=src/authorship/rebase_authorship.rs kind=fn name=walk_commits_to_base opaque='[{"expr": "crate::error::GitAiError", "call": "GErr"}, {"expr": "repository.find_commit(head.to_string())", "call": "opq_find_commit(head.to_string())"}, {"expr": "repository.find_commit(base.to_string())", "call": "opq_find_commit(base.to_string())"}, {"expr": "repository.global_args_for_exec()", "call": "opq_global_args()"}, {"expr": "exec_git(&is_ancestor_args).is_err()", "call": "opq_not_ancestor(&is_ancestor_args, Ghost(base@), Ghost(head@))"}, {"expr": "format!( \"Base commit {} is not an ancestor of {}\", base, head )", "call": "opq_fmt_not_ancestor(base, head)"}, {"expr": "format!(\"{}..{}\", base, head)", "call": "opq_fmt_range(base, head)"}, {"expr": "exec_git(&args)", "call": "opq_rev_list(&args, Ghost(WALK_OPTS()), Ghost(dotdot(base@, head@)))"}, {"expr": "String::from_utf8(output.stdout)", "call": "opq_from_utf8(output.stdout)"}, {"expr": "stdout .lines() .map(str::trim) .filter(|s| !s.is_empty()) .map(ToOwned::to_owned) .collect()", "call": "opq_lines_trimmed(&stdout)"}]'
pub fn walk_commits_to_base(
    repository: &Repository,
    head: &str,
    base: &str,
) -> (r_: Result<Vec<String>, GErr>)
//@     ensures
//@         // the commits after `base` up to `head` as git lists them for `base..head` (newest first); nothing when head == base
//@         r_ is Ok ==> views(r_->Ok_0@) == walk_spec(head@, base@),
//@         // a range is only walked when `base` really lies below `head` (otherwise base..head is not "the commits since base")
//@         r_ is Ok && head@ != base@ ==> git_is_ancestor(base@, head@),
{
    if head == base {
        return Ok(Vec::new());
    }

    // Validate commit-ish values early so callers get a clear error.
    opq_find_commit(head.to_string())?;
    opq_find_commit(base.to_string())?;

    // Guard against pathological traversals when `base` is not actually an ancestor.
    // The old BFS fallback could walk huge histories in this case.
    let mut is_ancestor_args = opq_global_args();
    is_ancestor_args.push("merge-base".to_string());
    is_ancestor_args.push("--is-ancestor".to_string());
    is_ancestor_args.push(base.to_string());
    is_ancestor_args.push(head.to_string());
    //@ proof { assert(views(is_ancestor_args@) =~= global_args() + seq!["merge-base"@, "--is-ancestor"@, base@, head@]); }
    if opq_not_ancestor(&is_ancestor_args, Ghost(base@), Ghost(head@)) {
        return Err(GitAiError::Generic(opq_fmt_not_ancestor(base, head)));
    }

    // Use git's native graph walker instead of per-parent subprocess traversal.
    // Return newest->oldest so existing callers can keep their current reverse() behavior.
    let mut args = opq_global_args();
    args.push("rev-list".to_string());
    args.push("--topo-order".to_string());
    args.push("--ancestry-path".to_string());
    args.push(opq_fmt_range(base, head));
    //@ proof { assert(views(args@) =~= global_args() + seq!["rev-list"@] + WALK_OPTS() + seq![dotdot(base@, head@)]); }

    let output = opq_rev_list(&args, Ghost(WALK_OPTS()), Ghost(dotdot(base@, head@)))?;
    let stdout = opq_from_utf8(output.stdout)?;
    let commits = opq_lines_trimmed(&stdout);

    Ok(commits)
}
//#end

//#item file=src/commands/hooks/rebase_hooks.rs kind=fn name=build_rebase_commit_mappings opaque='[{"expr": "crate::error::GitAiError", "call": "GErr"}, {"expr": "repository.find_commit(new_head.to_string())", "call": "opq_find_commit(new_head.to_string())"}, {"expr": "repository.find_commit(original_head.to_string())", "call": "opq_find_commit(original_head.to_string())"}, {"expr": "repository.merge_base(original_head_commit.id(), new_head_commit.id())", "call": "opq_merge_base(&original_head_commit, &new_head_commit)"}, {"expr": "debug_log(&format!( \"Commit mapping: 0 original -> 0 new (merge_base: {})\", merge_base ))", "call": "opq_log()"}, {"expr": "onto_head .filter(|onto| is_ancestor(repository, onto, new_head)) .unwrap_or(merge_base.as_str())", "call": "opq_new_base(onto_head, new_head, &merge_base)"}, {"expr": "debug_log(&format!( \"Commit mapping: {} original -> {} new (merge_base: {}, new_base: {})\", original_commits.len(), new_commits.len(), merge_base, new_commits_base ))", "call": "opq_log()"}]'
pub(crate) fn build_rebase_commit_mappings(
    repository: &Repository,
    original_head: &str,
    new_head: &str,
    onto_head: Option<&str>,
) -> (r_: Result<(Vec<String>, Vec<String>), GErr>)
//@     ensures
//@         // originals: the commits of the old branch above its merge base with the new head, OLDEST FIRST
//@         r_ is Ok ==> views(r_->Ok_0.0@) == oldest_first(original_head@, git_merge_base(commit_id_of(original_head@), commit_id_of(new_head@))),
//@         // rewritten commits: the commits of the new branch above the rebase target (merge base when the target is unknown or
//@         // not below the new head), OLDEST FIRST; none when nothing was rebased
//@         r_ is Ok ==> views(r_->Ok_0.1@) =~= (if r_->Ok_0.0@.len() == 0 { Seq::<Seq<char>>::empty() } else {
//@             oldest_first(new_head@, new_base_spec(onto_view(onto_head), new_head@, git_merge_base(commit_id_of(original_head@), commit_id_of(new_head@)))) }),
{
    // Get commits from new_head and original_head
    let new_head_commit = opq_find_commit(new_head.to_string())?;
    let original_head_commit = opq_find_commit(original_head.to_string())?;

    // Find merge base between original and new
    let merge_base = opq_merge_base(&original_head_commit, &new_head_commit)?;

    // Walk from original_head to merge_base to get the commits that were rebased
    let mut original_commits = walk_commits_to_base(repository, original_head, &merge_base)?;
    //@ proof { lemma_views_reverse(original_commits@); }
    original_commits.reverse();

    // If there were no original commits, there is nothing to rewrite.
    // Avoid walking potentially large parts of new history.
    if original_commits.is_empty() {
        opq_log();
        return Ok((original_commits, Vec::new()));
    }

    // Prefer the rebase target (onto) as the lower bound for new commits. This prevents
    // skipped/no-op rebases from sweeping unrelated target-branch history.
    let new_commits_base = opq_new_base(onto_head, new_head, &merge_base);

    // Walk from new_head to base to get the actual rebased commits
    let mut new_commits = walk_commits_to_base(repository, new_head, new_commits_base)?;
    //@ proof { lemma_views_reverse(new_commits@); }

    // Reverse so they're in chronological order (oldest first)
    new_commits.reverse();

    opq_log();

    // Always pass all commits through - let the authorship rewriting logic
    // handle many-to-one, one-to-one, and other mapping scenarios properly
    Ok((original_commits, new_commits))
}
//#end

//#item file=src/commands/hooks/cherry_pick_hooks.rs kind=fn name=build_cherry_pick_commit_mappings opaque='[{"expr": "crate::error::GitAiError", "call": "GErr"}, {"expr": "debug_log(&format!( \"Cherry-pick created {} new commits\", new_commits.len() ))", "call": "opq_log()"}]'
fn build_cherry_pick_commit_mappings(
    repository: &Repository,
    original_head: &str,
    new_head: &str,
) -> (r_: Result<Vec<String>, GErr>)
//@     ensures
//@         // the commits the cherry-pick created: everything above the old head up to the new head, OLDEST FIRST (= application order)
//@         r_ is Ok ==> views(r_->Ok_0@) == oldest_first(new_head@, original_head@),
{
    // Walk from new_head back to original_head to get the newly created commits
    let new_commits = walk_commits_to_base(repository, new_head, original_head)?;
    //@ proof { lemma_views_reverse(new_commits@); }

    // Reverse to get chronological order (oldest first)
    let mut new_commits = new_commits;
    new_commits.reverse();

    opq_log();

    Ok(new_commits)
}
//#end

// ================================================================ the source commits of `git cherry-pick <args>`
pub open spec fn starts_dash(a: Seq<char>) -> bool { a.len() > 0 && a[0] == '-' }
/// git-cherry-pick(1) / parse-options: an argument starting with '-' is an option - except the lone "-", which is a REVISION
/// (the previous branch, shorthand for "@{-1}")
pub open spec fn is_option(a: Seq<char>) -> bool { starts_dash(a) && a != "-"@ }
/// the revision an argument that is not an option names
pub open spec fn rev_of(a: Seq<char>) -> Seq<char> { if a == "-"@ { "@{-1}"@ } else { a } }
/// git-cherry-pick(1): the options whose value may be given as a SEPARATE argument
pub open spec fn takes_value(a: Seq<char>) -> bool {
    a == "-m"@ || a == "--mainline"@ || a == "--strategy"@ || a == "-X"@ || a == "--strategy-option"@ || a == "--cleanup"@
}
/// arguments on which the code is known to DISAGREE with git's command line (see REPORT.md, finding F2): excluded by the
/// precondition of parse_cherry_pick_commits; the replay driver reports them as a named oracle clause.
///   "-X" / "--strategy-option" / "--cleanup" (take a separate value: the code reads the value as a revision)
/// (Repaired and now COVERED: "-s" = --signoff takes no value - F1, /repo 3c53d708; the lone "-" is the previous branch and the
/// bare words continue / abort / quit / skip are ordinary revisions - F3, /repo 3dcb2201.)
pub open spec fn disputed(a: Seq<char>) -> bool {
    a == "-X"@ || a == "--strategy-option"@ || a == "--cleanup"@
}
pub open spec fn has_dotdot(a: Seq<char>) -> bool { exists|k: int| 0 <= k && k + 1 < a.len() && a[k] == '.' && #[trigger] a[k + 1] == '.' }
/// `git rev-list --reverse <range>`: the commits of the range in APPLICATION order (oldest first), None when git fails
pub open spec fn range_commits(range: Seq<char>) -> Option<Seq<Seq<char>>> {
    if rev_list_ok(REVERSE_OPTS(), range) && utf8_ok(rev_list_stdout(REVERSE_OPTS(), range)) { Some(git_rev_list(REVERSE_OPTS(), range)) } else { None }
}
/// `git rev-parse <rev>`: the one commit a single revision names
pub open spec fn resolve_one(rev: Seq<char>) -> Option<Seq<char>> {
    if rev_parse_ok(rev) && utf8_ok(rev_parse_stdout(rev)) { Some(trim_spec(utf8_dec(rev_parse_stdout(rev)))) } else { None }
}
/// what ONE revision argument contributes
pub open spec fn rev_commits(a: Seq<char>) -> Seq<Seq<char>> {
    if has_dotdot(a) { match range_commits(a) { Some(cs) => cs, None => Seq::empty() } }
    else { match resolve_one(a) { Some(c) => seq![c], None => Seq::empty() } }
}
/// the source commits named by args[i..]: options (and the separate value of a value-taking option) contribute nothing,
/// every other argument contributes its commits, in command-line order
pub open spec fn parse_from(args: Seq<Seq<char>>, i: int) -> Seq<Seq<char>>
    decreases args.len() - i
{
    if i < 0 || i >= args.len() { Seq::empty() }
    else if is_option(args[i]) { if takes_value(args[i]) { if i + 2 <= args.len() { parse_from(args, i + 2) } else { Seq::empty() } } else { parse_from(args, i + 1) } }
    else { rev_commits(rev_of(args[i])) + parse_from(args, i + 1) }
}
pub open spec fn no_disputed(args: Seq<Seq<char>>) -> bool { forall|k: int| 0 <= k < args.len() ==> !disputed(#[trigger] args[k]) }

proof fn lemma_parse_shift(x: Seq<char>, rest: Seq<Seq<char>>, i: int)
    requires 0 <= i,
    ensures parse_from(seq![x] + rest, i + 1) == parse_from(rest, i),
    decreases rest.len() - i
{
    let a = seq![x] + rest;
    if i < rest.len() {
        assert(a[i + 1] == rest[i]);
        lemma_parse_shift(x, rest, i + 1);
        if i + 2 <= rest.len() { lemma_parse_shift(x, rest, i + 2); }
    }
}
/// THEOREM (options are not read as revisions): an option without separate value contributes nothing, whatever follows
pub proof fn theorem_option_contributes_nothing(opt: Seq<char>, rest: Seq<Seq<char>>)
    requires is_option(opt), !takes_value(opt),
    ensures parse_from(seq![opt] + rest, 0) == parse_from(rest, 0),
{
    assert((seq![opt] + rest)[0] == opt);
    lemma_parse_shift(opt, rest, 0);
}
/// THEOREM (finding F1, repaired): `-s` (--signoff) contributes nothing and does NOT consume the argument after it
pub proof fn theorem_signoff_does_not_consume_next(rest: Seq<Seq<char>>)
    ensures parse_from(seq!["-s"@] + rest, 0) == parse_from(rest, 0),
{
    reveal_strlit("-s"); reveal_strlit("-m"); reveal_strlit("--mainline"); reveal_strlit("--strategy"); reveal_strlit("-X"); reveal_strlit("--strategy-option"); reveal_strlit("--cleanup");
    reveal_strlit("-"); assert("-"@.len() == 1 && "-s"@.len() == 2);
    assert(is_option("-s"@));
    assert("-s"@.len() == 2 && "-m"@.len() == 2 && "-X"@.len() == 2 && "-s"@[1] == 's' && "-m"@[1] == 'm' && "-X"@[1] == 'X');
    assert(!takes_value("-s"@));
    theorem_option_contributes_nothing("-s"@, rest);
}
/// THEOREM (finding F3, repaired): the lone `-` is the previous branch: it contributes what the revision "@{-1}" names
pub proof fn theorem_dash_is_previous_branch(rest: Seq<Seq<char>>)
    ensures parse_from(seq!["-"@] + rest, 0) == rev_commits("@{-1}"@) + parse_from(rest, 0),
{
    assert((seq!["-"@] + rest)[0] == "-"@);
    lemma_parse_shift("-"@, rest, 0);
}
/// THEOREM (finding F3, repaired): the bare words continue / abort / quit / skip are revisions like any other
pub proof fn theorem_sequencer_words_are_revisions(w: Seq<char>, rest: Seq<Seq<char>>)
    requires w == "continue"@ || w == "abort"@ || w == "quit"@ || w == "skip"@,
    ensures parse_from(seq![w] + rest, 0) == rev_commits(w) + parse_from(rest, 0),
{
    reveal_strlit("continue"); reveal_strlit("abort"); reveal_strlit("quit"); reveal_strlit("skip"); reveal_strlit("-");
    assert(w[0] != '-' && w.len() > 1);
    assert(!is_option(w) && rev_of(w) == w);
    assert((seq![w] + rest)[0] == w);
    lemma_parse_shift(w, rest, 0);
}
/// THEOREM: neither a value-taking option nor its separate value is read as a revision
pub proof fn theorem_option_value_contributes_nothing(opt: Seq<char>, value: Seq<char>, rest: Seq<Seq<char>>)
    requires is_option(opt), takes_value(opt),
    ensures parse_from(seq![opt] + (seq![value] + rest), 0) == parse_from(rest, 0),
{
    let a = seq![opt] + (seq![value] + rest);
    assert(a[0] == opt);
    lemma_parse_shift(opt, seq![value] + rest, 1);
    lemma_parse_shift(value, rest, 0);
}
/// THEOREM (revisions in command-line order): a revision argument contributes the commits of its range in application order
/// (or its one commit), followed by what the remaining arguments contribute
pub proof fn theorem_revision_then_rest(a: Seq<char>, rest: Seq<Seq<char>>)
    requires !is_option(a),
    ensures parse_from(seq![a] + rest, 0) == rev_commits(rev_of(a)) + parse_from(rest, 0),
        has_dotdot(a) && range_commits(a) is Some ==> rev_commits(a) == git_rev_list(REVERSE_OPTS(), a),
        !has_dotdot(a) && resolve_one(a) is Some ==> rev_commits(a).len() == 1,
{
    assert((seq![a] + rest)[0] == a);
    lemma_parse_shift(a, rest, 0);
}

/// `arg.starts_with('-')`
#[verifier::external_body]
fn opq_starts_dash(a: &String) -> (r: bool)
    ensures r == starts_dash(a@),
{ unimplemented!() }
/// `String == &str`
#[verifier::external_body]
fn opq_eq(a: &String, b: &str) -> (r: bool)
    ensures r == (a@ == b@),
{ unimplemented!() }
/// `String != &str`
#[verifier::external_body]
fn opq_ne(a: &String, b: &str) -> (r: bool)
    ensures r == (a@ != b@),
{ unimplemented!() }
/// `s.contains("..")`
#[verifier::external_body]
fn opq_has_dotdot(a: &String) -> (r: bool)
    ensures r == has_dotdot(a@),
{ unimplemented!() }
/// `Vec::extend(vec)`: appended in order
#[verifier::external_body]
fn opq_extend(v: &mut Vec<String>, more: Vec<String>)
    ensures final(v)@ == old(v)@ + more@,
{ unimplemented!() }
proof fn lemma_views_add(a: Seq<String>, b: Seq<String>)
    ensures views(a + b) == views(a) + views(b),
{
    assert(views(a + b) =~= views(a) + views(b));
}

//#item file=src/commands/hooks/cherry_pick_hooks.rs kind=fn name=expand_commit_range opaque='[{"expr": "crate::error::GitAiError", "call": "GErr"}, {"expr": "repository.global_args_for_exec()", "call": "opq_global_args()"}, {"expr": "crate::git::repository::exec_git(&args)", "call": "opq_rev_list(&args, Ghost(REVERSE_OPTS()), Ghost(range@))"}, {"expr": "String::from_utf8(output.stdout)? .lines() .map(|s| s.trim().to_string()) .filter(|s| !s.is_empty()) .collect()", "call": "opq_utf8_lines_trimmed(output.stdout)?"}]'
fn expand_commit_range(
    repository: &Repository,
    range: &str,
) -> (r_: Result<Vec<String>, GErr>)
//@     ensures
//@         // the commits of the range in application order (git is asked `rev-list --reverse <range>`: see the stub's precondition)
//@         r_ is Ok <==> range_commits(range@) is Some,
//@         r_ is Ok ==> views(r_->Ok_0@) == range_commits(range@)->Some_0,
{
    // Use git rev-list to expand the range
    let mut args = opq_global_args();
    args.push("rev-list".to_string());
    args.push("--reverse".to_string()); // Oldest first
    args.push(range.to_string());
    //@ proof { assert(views(args@) =~= global_args() + seq!["rev-list"@] + REVERSE_OPTS() + seq![range@]); }

    let output = opq_rev_list(&args, Ghost(REVERSE_OPTS()), Ghost(range@))?;
    let commits = opq_utf8_lines_trimmed(output.stdout)?;

    Ok(commits)
}
//#end

//#item file=src/commands/hooks/cherry_pick_hooks.rs kind=fn name=resolve_commit_sha opaque='[{"expr": "crate::error::GitAiError", "call": "GErr"}, {"expr": "repository.global_args_for_exec()", "call": "opq_global_args()"}, {"expr": "crate::git::repository::exec_git(&args)", "call": "opq_rev_parse(&args, Ghost(commit_ref@))"}, {"expr": "String::from_utf8(output.stdout)?.trim().to_string()", "call": "opq_utf8_trimmed(output.stdout)?"}]'
fn resolve_commit_sha(
    repository: &Repository,
    commit_ref: &str,
) -> (r_: Result<String, GErr>)
//@     ensures
//@         r_ is Ok <==> resolve_one(commit_ref@) is Some,
//@         r_ is Ok ==> r_->Ok_0@ == resolve_one(commit_ref@)->Some_0,
{
    let mut args = opq_global_args();
    args.push("rev-parse".to_string());
    args.push(commit_ref.to_string());
    //@ proof { assert(views(args@) =~= global_args() + seq!["rev-parse"@, commit_ref@]); }

    let output = opq_rev_parse(&args, Ghost(commit_ref@))?;
    let sha = opq_utf8_trimmed(output.stdout)?;

    Ok(sha)
}
//#end

/// loop invariant of parse_cherry_pick_commits: what was collected plus what the remaining arguments name is the whole answer
pub open spec fn parse_inv(args: Seq<Seq<char>>, i: int, commits: Seq<String>) -> bool {
    views(commits) + parse_from(args, i) == parse_from(args, 0)
}

//#item file=src/commands/hooks/cherry_pick_hooks.rs kind=fn name=parse_cherry_pick_commits opaque='[{"expr": "arg.starts_with(\u0027-\u0027)", "call": "opq_starts_dash(arg)"}, {"expr": "arg != \"-\"", "call": "opq_ne(arg, \"-\")"}, {"expr": "arg == \"-m\"", "call": "opq_eq(arg, \"-m\")"}, {"expr": "arg == \"--mainline\"", "call": "opq_eq(arg, \"--mainline\")"}, {"expr": "arg == \"--strategy\"", "call": "opq_eq(arg, \"--strategy\")"}, {"expr": "arg == \"-\"", "call": "opq_eq(arg, \"-\")"}, {"expr": "commit_ref.contains(\"..\")", "call": "opq_has_dotdot(&commit_ref)"}, {"expr": "commits.extend(expanded)", "call": "opq_extend(&mut commits, expanded)"}]'
fn parse_cherry_pick_commits(repository: &Repository, args: &[String]) -> (r_: Vec<String>)
//@     requires
//@         args@.len() < usize::MAX,
//@         no_disputed(views(args@)),
//@     ensures
//@         views(r_@) == parse_from(views(args@), 0),
{
    let mut commits = Vec::new();

    // Filter out flags and options
    let mut i = 0;
    while i < args.len()
    //@     invariant
    //@         i <= args@.len() + 1, args@.len() < usize::MAX, no_disputed(views(args@)),
    //@         parse_inv(views(args@), i as int, commits@),
    //@     decreases args@.len() + 1 - i,
    {
        let arg = &args[i];
        //@ proof { assert(views(args@)[i as int] == arg@); assert(!disputed(views(args@)[i as int])); }

        // Skip flags and their values (a lone `-` is not a flag: it names the previous branch)
        if opq_starts_dash(arg) && opq_ne(arg, "-") {
            // Skip option values for flags that take arguments
            // (`-s` is --signoff for cherry-pick and takes no value)
            if opq_eq(arg, "-m") || opq_eq(arg, "--mainline") || opq_eq(arg, "--strategy") {
                i += 2; // Skip flag and its value
                continue;
            }
            i += 1;
            continue;
        }

        // This is a commit reference (`continue`, `abort`, `quit` and `skip` without dashes are
        // ordinary revision names for git; `-` is shorthand for `@{-1}`)
        //@ let ghost old_commits = commits@;
        let commit_ref = if opq_eq(arg, "-") {
            "@{-1}".to_string()
        } else {
            arg.clone()
        };

        // Check if it's a range (contains ..)
        if opq_has_dotdot(&commit_ref) {
            // Expand the range
            if let Ok(expanded) = expand_commit_range(repository, &commit_ref) {
                //@ proof { lemma_views_add(commits@, expanded@); }
                opq_extend(&mut commits, expanded);
            }
        } else {
            // Single commit - resolve it
            if let Ok(resolved) = resolve_commit_sha(repository, &commit_ref) {
                //@ proof { assert(views(commits@.push(resolved)) =~= views(commits@) + seq![resolved@]); }
                commits.push(resolved);
            }
        }
        //@ proof { assert(views(commits@) + parse_from(views(args@), i as int + 1) =~= views(old_commits) + (rev_commits(rev_of(arg@)) + parse_from(views(args@), i as int + 1))); }

        i += 1;
    }

    commits
}
//#end

// ================================================================ which (original, new) pairs the note remapping consumes
#[verifier::external_body]
pub struct Lookup { _o: () }          // HashSet<&str>: the rewritten commits that still need a note
pub uninterp spec fn in_lookup(l: Lookup, c: Seq<char>) -> bool;
pub open spec fn min_len(a: Seq<String>, b: Seq<String>) -> int { if a.len() <= b.len() { a.len() as int } else { b.len() as int } }
/// pairs = the positional pairs (a[i], b[i]), i below the length of the SHORTER list, whose b[i] is selected - in order, each once
pub open spec fn is_selection(a: Seq<String>, b: Seq<String>, l: Lookup, pairs: Seq<(String, String)>, idx: Seq<int>) -> bool {
    &&& idx.len() == pairs.len()
    &&& forall|k: int| 0 <= k < idx.len() ==> 0 <= #[trigger] idx[k] < min_len(a, b) && pairs[k].0@ == a[idx[k]]@ && pairs[k].1@ == b[idx[k]]@ && in_lookup(l, b[idx[k]]@)
    &&& forall|k: int, m: int| 0 <= k < m < idx.len() ==> idx[k] < idx[m]
    &&& forall|i: int| 0 <= i < min_len(a, b) && in_lookup(l, #[trigger] b[i]@) ==> idx.contains(i)
}
pub open spec fn selects(a: Seq<String>, b: Seq<String>, l: Lookup, pairs: Seq<(String, String)>) -> bool { exists|idx: Seq<int>| is_selection(a, b, l, pairs, idx) }
/// `v.iter().map(String::as_str).collect()` into a HashSet<&str>
#[verifier::external_body]
fn opq_lookup_of(v: &Vec<String>) -> (r: Lookup)
    ensures forall|c: Seq<char>| in_lookup(r, c) <==> views(v@).contains(c),
{ unimplemented!() }
/// `a.iter().zip(b.iter()).map(|(x, y)| (x.clone(), y.clone())).collect()` (zip as documented: by position, as long as BOTH lists last)
#[verifier::external_body]
fn opq_zip(a: &[String], b: &[String]) -> (r: Vec<(String, String)>)
    ensures r@.len() == min_len(a@, b@), forall|i: int| 0 <= i < r@.len() ==> (#[trigger] r@[i]).0@ == a@[i]@ && r@[i].1@ == b@[i]@,
{ unimplemented!() }
/// the same with `.filter(|(_, y)| lookup.contains(y.as_str()))` between zip and map
#[verifier::external_body]
fn opq_zip_selected(a: &[String], b: &[String], l: &Lookup) -> (r: Vec<(String, String)>)
    ensures selects(a@, b@, *l, r@),
{ unimplemented!() }
/// `pairs.iter().map(|(x, _)| x.clone()).collect()`
#[verifier::external_body]
fn opq_firsts(pairs: &Vec<(String, String)>) -> (r: Vec<String>)
    ensures r@.len() == pairs@.len(), forall|i: int| 0 <= i < r@.len() ==> (#[trigger] r@[i])@ == pairs@[i].0@,
{ unimplemented!() }

//#item file=src/authorship/rebase_authorship.rs kind=region name=cp_pairs in=rewrite_authorship_after_cherry_pick from="let commit_pairs: Vec<(String, String)> = source_commits" to=".collect();" from_nth=0 to_nth=1 opaque='[{"expr": "source_commits .iter() .zip(new_commits.iter()) .map(|(source_commit, new_commit)| (source_commit.clone(), new_commit.clone())) .collect()", "call": "opq_zip(source_commits, new_commits)"}, {"expr": "commit_pairs .iter() .map(|(source_commit, _new_commit)| source_commit.clone()) .collect()", "call": "opq_firsts(&commit_pairs)"}]'
//@ fn region_cp_pairs(source_commits: &[String], new_commits: &[String]) -> (r: (Vec<(String, String)>, Vec<String>))
//@     ensures
//@         // pair i is (source i, new commit i); a surplus on either side stays UNPAIRED (no note is copied from / to it)
//@         r.0@.len() == min_len(source_commits@, new_commits@),
//@         forall|i: int| 0 <= i < r.0@.len() ==> (#[trigger] r.0@[i]).0@ == source_commits@[i]@ && r.0@[i].1@ == new_commits@[i]@,
//@         // the notes loaded are those of exactly the paired sources, in the same order
//@         r.1@.len() == r.0@.len(), forall|i: int| 0 <= i < r.1@.len() ==> (#[trigger] r.1@[i])@ == r.0@[i].0@,
//@ {
    let commit_pairs: Vec<(String, String)> = opq_zip(source_commits, new_commits);
    let source_commits_for_pairs: Vec<String> = opq_firsts(&commit_pairs);
//@     (commit_pairs, source_commits_for_pairs)
//@ }
//#end

//#item file=src/authorship/rebase_authorship.rs kind=region name=rb_pairs in=rewrite_authorship_after_rebase_v2 from="let commits_to_process_lookup: HashSet<&str> =" to=".collect();" from_nth=0 to_nth=2 opaque='[{"expr": "HashSet<&str>", "call": "Lookup"}, {"expr": "commits_to_process.iter().map(String::as_str).collect()", "call": "opq_lookup_of(&commits_to_process)"}, {"expr": "original_commits .iter() .zip(new_commits.iter()) .filter(|(_original_commit, new_commit)| { commits_to_process_lookup.contains(new_commit.as_str()) }) .map(|(original_commit, new_commit)| (original_commit.clone(), new_commit.clone())) .collect()", "call": "opq_zip_selected(original_commits, new_commits, &commits_to_process_lookup)"}, {"expr": "commit_pairs_to_process .iter() .map(|(original_commit, _new_commit)| original_commit.clone()) .collect()", "call": "opq_firsts(&commit_pairs_to_process)"}]'
//@ fn region_rb_pairs(original_commits: &[String], new_commits: &[String], commits_to_process: Vec<String>) -> (r: (Lookup, Vec<(String, String)>, Vec<String>))
//@     ensures
//@         // selected = the rewritten commits that still need a note
//@         forall|c: Seq<char>| in_lookup(r.0, c) <==> views(commits_to_process@).contains(c),
//@         // the pairs: (original i, new commit i) for every position i both lists have whose new commit is selected - in order, each once
//@         selects(original_commits@, new_commits@, r.0, r.1@),
//@         r.2@.len() == r.1@.len(), forall|i: int| 0 <= i < r.2@.len() ==> (#[trigger] r.2@[i])@ == r.1@[i].0@,
//@ {
    let commits_to_process_lookup: Lookup =
        opq_lookup_of(&commits_to_process);
    let commit_pairs_to_process: Vec<(String, String)> = opq_zip_selected(original_commits, new_commits, &commits_to_process_lookup);
    let original_commits_for_processing: Vec<String> = opq_firsts(&commit_pairs_to_process);
//@     (commits_to_process_lookup, commit_pairs_to_process, original_commits_for_processing)
//@ }
//#end

/// p joins the original and the new commit of ONE position i
pub open spec fn pair_at(a: Seq<String>, b: Seq<String>, p: (String, String), i: int) -> bool { 0 <= i < a.len() && i < b.len() && p.0@ == a[i]@ && p.1@ == b[i]@ }
/// the pair p is positional: it joins the two commits of some one position
pub open spec fn positional(a: Seq<String>, b: Seq<String>, p: (String, String)) -> bool { exists|i: int| #[trigger] pair_at(a, b, p, i) }
pub open spec fn paired(a: Seq<String>, b: Seq<String>, pairs: Seq<(String, String)>, i: int) -> bool { exists|k: int| 0 <= k < pairs.len() && #[trigger] pair_at(a, b, pairs[k], i) }
/// THEOREM (pairing is by position, never across positions): whatever the lengths, a pair never joins an original with a new
/// commit of ANOTHER position; when the lengths agree every selected new commit is paired (with the original of its position).
pub proof fn theorem_pairs_positional(a: Seq<String>, b: Seq<String>, l: Lookup, pairs: Seq<(String, String)>, idx: Seq<int>)
    requires is_selection(a, b, l, pairs, idx),
    ensures
        forall|k: int| 0 <= k < pairs.len() ==> positional(a, b, #[trigger] pairs[k]),
        a.len() == b.len() ==> forall|i: int| 0 <= i < b.len() && in_lookup(l, #[trigger] b[i]@) ==> paired(a, b, pairs, i),
{
    assert forall|k: int| 0 <= k < pairs.len() implies positional(a, b, #[trigger] pairs[k]) by {
        assert(pair_at(a, b, pairs[k], idx[k]));
    }
    if a.len() == b.len() {
        assert forall|i: int| 0 <= i < b.len() && in_lookup(l, #[trigger] b[i]@) implies paired(a, b, pairs, i) by {
            assert(idx.contains(i));
            let k = choose|k: int| 0 <= k < idx.len() && idx[k] == i;
            assert(pair_at(a, b, pairs[k], i));
        }
    }
}

} // verus!
fn main() {}
