// Replay driver for unit mappings: the ORIGINAL walk_commits_to_base, build_rebase_commit_mappings, build_cherry_pick_commit_mappings,
// parse_cherry_pick_commits, expand_commit_range, resolve_commit_sha (and the two pairing regions) run against a small model of a
// git repository (a commit DAG with refs; `exec_git` answers merge-base --is-ancestor / rev-list / rev-parse from the graph, honours
// exactly the flags it is given and records every command line).  The oracles are written from the property, per SCENARIO: the
// histories are built so that the expected commit lists are known by construction (never by re-walking with the code's logic).
#![allow(dead_code, unused)]
use std::cell::RefCell;
use std::collections::{HashMap, HashSet};
mod error {
    #[derive(Debug)]
    pub enum GitAiError { Generic(String), Utf8 }
    impl From<std::string::FromUtf8Error> for GitAiError { fn from(_: std::string::FromUtf8Error) -> Self { GitAiError::Utf8 } }
    impl std::fmt::Display for GitAiError { fn fmt(&self, f: &mut std::fmt::Formatter) -> std::fmt::Result { write!(f, "{:?}", self) } }
}
use crate::error::GitAiError;
pub struct Output { pub stdout: Vec<u8> }
#[derive(Clone, Default)]
pub struct Model { parents: Vec<Vec<usize>>, refs: HashMap<String, usize>, garbage: Option<Vec<u8>> }
thread_local! { static GIT: RefCell<Model> = Default::default(); static LOG: RefCell<Vec<Vec<String>>> = Default::default(); }
fn sha(i: usize) -> String { format!("s{:02}", i) }
impl Model {
    fn commit(&mut self, parents: &[usize]) -> usize { self.parents.push(parents.to_vec()); self.parents.len() - 1 }
    fn resolve(&self, name: &str) -> Option<usize> {
        if let Some(i) = self.refs.get(name) { return Some(*i); }
        (0..self.parents.len()).find(|i| sha(*i) == name)
    }
    fn anc(&self, c: usize) -> HashSet<usize> { let mut s = HashSet::new(); let mut st = vec![c]; while let Some(x) = st.pop() { if s.insert(x) { st.extend(self.parents[x].iter().copied()); } } s }
}
pub struct Commit { id: String }
impl Commit { pub fn id(&self) -> String { self.id.clone() } }
pub struct Repository { pub _o: () }
impl Repository {
    pub fn global_args_for_exec(&self) -> Vec<String> { vec!["-C".to_string(), "/r".to_string()] }
    pub fn find_commit(&self, spec: String) -> Result<Commit, GitAiError> { GIT.with(|g| g.borrow().resolve(&spec).map(|i| Commit { id: sha(i) }).ok_or(GitAiError::Generic("no such commit".into()))) }
    /// stand-in for `git merge-base a b`: the newest common ancestor
    pub fn merge_base(&self, a: String, b: String) -> Result<String, GitAiError> {
        GIT.with(|g| { let g = g.borrow(); let (x, y) = (g.resolve(&a).ok_or(GitAiError::Utf8)?, g.resolve(&b).ok_or(GitAiError::Utf8)?);
            let (ax, ay) = (g.anc(x), g.anc(y)); ax.intersection(&ay).max().map(|i| sha(*i)).ok_or(GitAiError::Generic("no merge base".into())) })
    }
}
fn debug_log(_m: &str) {}
mod git { pub mod repository {
    use crate::*;
    /// the model's git: honours exactly the flags it is given
    pub fn exec_git(args: &[String]) -> Result<Output, GitAiError> {
        LOG.with(|l| l.borrow_mut().push(args.to_vec()));
        if args.len() < 3 || args[0] != "-C" || args[1] != "/r" { return Err(GitAiError::Generic("global args missing".into())); }
        let a: Vec<&str> = args[2..].iter().map(|s| s.as_str()).collect();
        GIT.with(|g| { let g = g.borrow();
            match a[0] {
                "merge-base" if a.len() == 4 && a[1] == "--is-ancestor" => {
                    let (x, y) = (g.resolve(a[2]).ok_or(GitAiError::Utf8)?, g.resolve(a[3]).ok_or(GitAiError::Utf8)?);
                    if g.anc(y).contains(&x) { Ok(Output { stdout: vec![] }) } else { Err(GitAiError::Generic("exit 1".into())) }
                }
                "rev-list" => {
                    let (mut reverse, mut ancestry) = (false, false); let mut range = None;
                    for x in &a[1..] { match *x { "--reverse" => reverse = true, "--topo-order" => {}, "--ancestry-path" => ancestry = true, o if o.starts_with('-') => return Err(GitAiError::Generic("bad option".into())), r => { if range.is_some() { return Err(GitAiError::Generic("two revs".into())); } range = Some(r) } } }
                    let range = range.ok_or(GitAiError::Utf8)?;
                    if let Some(gb) = &g.garbage { return Ok(Output { stdout: gb.clone() }); }
                    let (lo, hi) = range.split_once("..").ok_or(GitAiError::Generic("not a range".into()))?;
                    let (lo, hi) = (g.resolve(lo).ok_or(GitAiError::Utf8)?, g.resolve(hi).ok_or(GitAiError::Utf8)?);
                    let (alo, ahi) = (g.anc(lo), g.anc(hi));
                    // commits are numbered in creation order and parents precede children: descending number = newest first, children before parents
                    let mut v: Vec<usize> = ahi.iter().copied().filter(|c| !alo.contains(c)).filter(|c| !ancestry || g.anc(*c).contains(&lo)).collect();
                    v.sort(); if !reverse { v.reverse(); }
                    Ok(Output { stdout: v.iter().map(|c| format!("{}\n", sha(*c))).collect::<String>().into_bytes() })
                }
                "rev-parse" if a.len() == 2 => {
                    if let Some(gb) = &g.garbage { return Ok(Output { stdout: gb.clone() }); }
                    if a[1].starts_with('-') { return Ok(Output { stdout: format!("{}\n", a[1]).into_bytes() }); }     // real `git rev-parse --ff` / `git rev-parse -` echo the argument
                    g.resolve(a[1]).map(|i| Output { stdout: format!("{}\n", sha(i)).into_bytes() }).ok_or(GitAiError::Generic("unknown revision".into()))
                }
                _ => Err(GitAiError::Generic("unexpected git command".into())),
            }
        })
    }
} }
use crate::git::repository::exec_git;
include!("@ITEMS@");
use std::panic::{catch_unwind, AssertUnwindSafe};
struct Ctx { evaluated: u64, failed: std::collections::HashSet<String> }
impl Ctx {
    fn fail(&mut self, f: &str, clause: &str, input: String, observed: String, expected: String) {
        if self.failed.insert(format!("{}::{}", f, clause)) { println!("FAIL fn=[[{}]] clause=[[{}]] input=[[{}]] observed=[[{}]] expected=[[{}]]", f, clause, input, observed, expected); }
    }
}
fn guarded<T>(f: impl FnOnce() -> T) -> Result<T, String> {
    catch_unwind(AssertUnwindSafe(f)).map_err(|e| { let m = e.downcast_ref::<String>().cloned().or_else(|| e.downcast_ref::<&str>().map(|s| s.to_string())).unwrap_or_default(); format!("panic: {}", m) })
}
struct Rng(u64);
impl Rng { fn next(&mut self) -> u64 { self.0 ^= self.0 << 13; self.0 ^= self.0 >> 7; self.0 ^= self.0 << 17; self.0 } fn below(&mut self, n: u64) -> u64 { self.next() % n } }
fn set_model(m: Model) { GIT.with(|g| *g.borrow_mut() = m); LOG.with(|l| l.borrow_mut().clear()); }
fn log() -> Vec<Vec<String>> { LOG.with(|l| l.borrow().clone()) }
fn cmd(parts: &[&str]) -> Vec<String> { let mut v = vec!["-C".to_string(), "/r".to_string()]; v.extend(parts.iter().map(|s| s.to_string())); v }
fn shas(v: &[usize]) -> Vec<String> { v.iter().map(|i| sha(*i)).collect() }
fn hex(b: &[u8]) -> String { b.iter().map(|x| format!("{:02x}", x)).collect() }
fn unhex(s: &str) -> Vec<u8> { (0..s.len() / 2).map(|i| u8::from_str_radix(&s[2 * i..2 * i + 2], 16).unwrap_or(0)).collect() }

/// a rebase: k base commits, n originals on top, main advanced by m, p rewritten commits on top of the advanced main.
/// onto: 0 = unknown, 1 = the advanced main (the rebase target), 2 = the ORIGINAL head (not below the new head when n > 0)
struct Rb { model: Model, original_head: usize, new_head: usize, main_tip: usize, originals: Vec<usize>, mains: Vec<usize>, news: Vec<usize> }
fn rb_scenario(k: usize, n: usize, m: usize, p: usize) -> Rb {
    let mut g = Model::default();
    let mut tip = g.commit(&[]); for _ in 1..k { tip = g.commit(&[tip]); }
    let fork = tip;
    let mut originals = vec![]; let mut t = fork; for _ in 0..n { t = g.commit(&[t]); originals.push(t); } let original_head = t;
    let mut mains = vec![]; let mut t = fork; for _ in 0..m { t = g.commit(&[t]); mains.push(t); } let main_tip = t;
    let mut news = vec![]; for _ in 0..p { t = g.commit(&[t]); news.push(t); } let new_head = t;
    g.refs.insert("main".into(), main_tip);
    Rb { model: g, original_head, new_head, main_tip, originals, mains, news }
}
fn chk_rebase(c: &mut Ctx, k: usize, n: usize, m: usize, p: usize, onto: usize) {
    c.evaluated += 1;
    let input = format!("RB|{}|{}|{}|{}|{}", k, n, m, p, onto);
    let s = rb_scenario(k, n, m, p);
    set_model(s.model.clone());
    let (oh, nh) = (sha(s.original_head), sha(s.new_head));
    let onto_s = match onto { 1 => Some(sha(s.main_tip)), 2 => Some(sha(s.original_head)), _ => None };
    let r = guarded(|| build_rebase_commit_mappings(&Repository { _o: () }, &oh, &nh, onto_s.as_deref()));
    // expected, by construction of the history: the originals oldest first; the rewritten commits oldest first above the target
    // when the target is known and below the new head, else everything of the new branch above the fork point
    let exp_orig = shas(&s.originals);
    let exp_new: Vec<String> = if n == 0 { vec![] } else if onto == 1 { shas(&s.news) } else { let mut v = shas(&s.mains); v.extend(shas(&s.news)); v };
    match r {
        Err(pn) => c.fail("build_rebase_commit_mappings", "safety", input, pn, "no panic".into()),
        Ok(Err(e)) => c.fail("build_rebase_commit_mappings", "ensures#0", input, format!("Err({:?})", e), "Ok: every commit exists and the fork point is below both heads".into()),
        Ok(Ok((o, nw))) => {
            if o != exp_orig { c.fail("build_rebase_commit_mappings", "ensures#0", input.clone(), format!("{:?}", o), format!("{:?}: the original commits, oldest first", exp_orig)); }
            if nw != exp_new { c.fail("build_rebase_commit_mappings", "ensures#1", input, format!("{:?}", nw), format!("{:?}: the rewritten commits, oldest first", exp_new)); }
        }
    }
}
fn chk_cherry_mappings(c: &mut Ctx, k: usize, p: usize) {
    c.evaluated += 1;
    let input = format!("CPM|{}|{}", k, p);
    let s = rb_scenario(k, 0, 0, p);
    set_model(s.model.clone());
    let (oh, nh) = (sha(s.main_tip), sha(s.new_head));
    let r = guarded(|| build_cherry_pick_commit_mappings(&Repository { _o: () }, &oh, &nh));
    let exp = shas(&s.news);
    match r {
        Err(pn) => c.fail("build_cherry_pick_commit_mappings", "safety", input, pn, "no panic".into()),
        Ok(Err(e)) => c.fail("build_cherry_pick_commit_mappings", "ensures#0", input, format!("Err({:?})", e), "Ok".into()),
        Ok(Ok(v)) => if v != exp { c.fail("build_cherry_pick_commit_mappings", "ensures#0", input, format!("{:?}", v), format!("{:?}: the commits the cherry-pick created, in application order", exp)); }
    }
}
/// a chain c0..c(l-1) plus one side commit on c0 (never below anything else); head / base by index (index l = the side commit)
fn chk_walk(c: &mut Ctx, l: usize, head: usize, base: usize) {
    c.evaluated += 1;
    let input = format!("WALK|{}|{}|{}", l, head, base);
    let mut g = Model::default(); let mut t = g.commit(&[]); for _ in 1..l { t = g.commit(&[t]); } let side = g.commit(&[0]);
    set_model(g);
    let (h, b) = (sha(head), sha(base));
    let r = guarded(|| walk_commits_to_base(&Repository { _o: () }, &h, &b));
    let below = |x: usize, y: usize| -> bool { if y == side { x == 0 || x == side } else if x == side { false } else { x <= y } };   // x is y or an ancestor of y
    let cmds = log();
    match r {
        Err(pn) => c.fail("walk_commits_to_base", "safety", input, pn, "no panic".into()),
        Ok(res) => {
            if head == base { if !matches!(&res, Ok(v) if v.is_empty()) { c.fail("walk_commits_to_base", "ensures#0", input, format!("{:?}", res), "Ok([]): nothing lies between a commit and itself".into()); } return; }
            if cmds.first() != Some(&cmd(&["merge-base", "--is-ancestor", &b, &h])) { c.fail("walk_commits_to_base", "pre@opq_not_ancestor#0", input.clone(), format!("{:?}", cmds.first()), "merge-base --is-ancestor <base> <head>".into()); }
            if !below(base, head) { if res.is_ok() { c.fail("walk_commits_to_base", "ensures#1", input, format!("{:?}", res), "Err: the base is not below the head".into()); } return; }
            if cmds.get(1) != Some(&cmd(&["rev-list", "--topo-order", "--ancestry-path", &format!("{}..{}", b, h)])) { c.fail("walk_commits_to_base", "pre@opq_rev_list#0", input.clone(), format!("{:?}", cmds.get(1)), "rev-list --topo-order --ancestry-path <base>..<head>".into()); }
            // newest first: head, head-1, .., base+1 on the chain; the side commit alone above c0
            let exp: Vec<String> = if head == side { vec![sha(side)] } else { (base + 1..=head).rev().map(sha).collect() };
            match res { Ok(v) if v == exp => {}, o => c.fail("walk_commits_to_base", "ensures#0", input, format!("{:?}", o), format!("Ok({:?}): the commits above the base up to the head, newest first", exp)) }
        }
    }
}
/// totality: whatever bytes git prints, no panic; for valid text the non-empty trimmed lines are returned as they come
fn chk_garbage(c: &mut Ctx, bytes: &[u8]) {
    c.evaluated += 1;
    let input = format!("GARB|{}", hex(bytes));
    let mut g = Model::default(); let a = g.commit(&[]); let b = g.commit(&[a]); g.garbage = Some(bytes.to_vec());
    set_model(g);
    let lines: Option<Vec<String>> = String::from_utf8(bytes.to_vec()).ok().map(|t| t.split('\n').map(|l| l.trim().to_string()).filter(|l| !l.is_empty()).collect());
    let r = guarded(|| walk_commits_to_base(&Repository { _o: () }, &sha(b), &sha(a)));
    match (r, &lines) {
        (Err(pn), _) => c.fail("walk_commits_to_base", "safety", input.clone(), pn, "no panic".into()),
        (Ok(Ok(v)), Some(l)) if &v == l => {}
        (Ok(Err(_)), None) => {}
        (Ok(o), _) => c.fail("walk_commits_to_base", "ensures#0", input.clone(), format!("{:?}", o), format!("{:?}", lines)),
    }
    let r = guarded(|| expand_commit_range(&Repository { _o: () }, "s00..s01"));
    match (r, &lines) {
        (Err(pn), _) => c.fail("expand_commit_range", "safety", input.clone(), pn, "no panic".into()),
        (Ok(Ok(v)), Some(l)) if &v == l => {}
        (Ok(Err(_)), None) => {}
        (Ok(o), _) => c.fail("expand_commit_range", "ensures#1", input.clone(), format!("{:?}", o), format!("{:?}", lines)),
    }
    let one: Option<String> = String::from_utf8(bytes.to_vec()).ok().map(|t| t.trim().to_string());
    let r = guarded(|| resolve_commit_sha(&Repository { _o: () }, "s01"));
    match (r, &one) {
        (Err(pn), _) => c.fail("resolve_commit_sha", "safety", input.clone(), pn, "no panic".into()),
        (Ok(Ok(v)), Some(l)) if &v == l => {}
        (Ok(Err(_)), None) => {}
        (Ok(o), _) => c.fail("resolve_commit_sha", "ensures#1", input.clone(), format!("{:?}", o), format!("{:?}", one)),
    }
    let r = guarded(|| parse_cherry_pick_commits(&Repository { _o: () }, &["s00..s01".to_string(), "-x".to_string(), "s01".to_string()]));
    if let Err(pn) = r { c.fail("parse_cherry_pick_commits", "safety", input, pn, "no panic".into()); }
}

// ---------------------------------------------------------------- the command line of git cherry-pick, from git-cherry-pick(1)
/// options whose value may be a SEPARATE argument
const VALUE_OPTS: [&str; 6] = ["-m", "--mainline", "--strategy", "-X", "--strategy-option", "--cleanup"];
/// the history of the parse checks: s00 - s01 - s02 (main, also the previous branch "@{-1}") - s03 - s04 - s05 (feat); a branch named
/// `ours` at s01, one named `skip` at s00 and one named `continue` at s04 (legal branch names).  "-" itself is NOT a ref: git only
/// understands it as shorthand on the cherry-pick command line; `git rev-parse -` just echoes "-" (as it echoes any option).
fn parse_model() -> Model {
    let mut g = Model::default(); let mut t = g.commit(&[]); for _ in 1..6 { t = g.commit(&[t]); }
    for (n, i) in [("main", 2usize), ("feat", 5), ("ours", 1), ("skip", 0), ("continue", 4), ("@{-1}", 2)] { g.refs.insert(n.to_string(), i); }
    g
}
/// what ONE revision argument names, by construction of parse_model (ranges in application order = oldest first)
fn rev_expected(g: &Model, a: &str) -> Vec<String> {
    let a = if a == "-" { "@{-1}" } else { a };      // git-cherry-pick(1): "-" is the previous branch
    if let Some((lo, hi)) = a.split_once("..") {
        match (g.resolve(lo), g.resolve(hi)) { (Some(l), Some(h)) => (l + 1..=h).map(sha).collect(), _ => vec![] }     // a chain: lo+1 ..= hi
    } else { g.resolve(a).map(|i| vec![sha(i)]).unwrap_or_default() }
}
fn disputed_kind(a: &str) -> Option<&'static str> {
    match a { "-X" | "--strategy-option" | "--cleanup" => Some("finding_F2_option_value_read_as_revision"),
        _ => None }
}
fn chk_parse(c: &mut Ctx, args: &[String]) {
    c.evaluated += 1;
    let input = format!("PARSE|{}", args.join(" "));
    let g = parse_model(); set_model(g.clone());
    let a2 = args.to_vec();
    let r = guarded(move || parse_cherry_pick_commits(&Repository { _o: () }, &a2));
    // git's reading of the command line: options (and the separate value of a value option) are not revisions; everything else is
    let mut exp: Vec<String> = vec![]; let mut i = 0; let mut kind: Option<&'static str> = None;
    while i < args.len() {
        let a = args[i].as_str();
        if kind.is_none() { kind = disputed_kind(a); }
        if a.starts_with('-') && a != "-" { i += if VALUE_OPTS.contains(&a) { 2 } else { 1 }; continue; }
        exp.extend(rev_expected(&g, a)); i += 1;
    }
    match r {
        Err(pn) => c.fail("parse_cherry_pick_commits", "safety", input, pn, "no panic".into()),
        Ok(v) => {
            if v != exp { c.fail("parse_cherry_pick_commits", kind.unwrap_or("ensures#0"), input.clone(), format!("{:?}", v), format!("{:?}: the commits git cherry-pick applies for these arguments, in order", exp)); }
            // what git is asked: one rev-list --reverse per range, one rev-parse per single revision, nothing else
            for l in log() { let ok = (l.len() == 5 && l[2] == "rev-list" && l[3] == "--reverse" && l[4].contains("..")) || (l.len() == 4 && l[2] == "rev-parse" && !l[3].contains(".."));
                if !ok { c.fail(if l.get(2).map(|s| s.as_str()) == Some("rev-parse") { "resolve_commit_sha" } else { "expand_commit_range" }, if l.get(2).map(|s| s.as_str()) == Some("rev-parse") { "pre@opq_rev_parse#0" } else { "pre@opq_rev_list#0" }, input.clone(), format!("{:?}", l), "rev-list --reverse <range> / rev-parse <rev>".into()); } }
        }
    }
}
fn chk_range(c: &mut Ctx, range: &str) {
    c.evaluated += 1;
    let input = format!("RANGE|{}", range);
    let g = parse_model(); set_model(g.clone());
    let r = guarded(|| expand_commit_range(&Repository { _o: () }, range));
    let (lo, hi) = range.split_once("..").unwrap_or((range, range));
    let exp: Option<Vec<String>> = match (g.resolve(lo), g.resolve(hi)) { (Some(l), Some(h)) => Some((l + 1..=h).map(sha).collect()), _ => None };
    match r {
        Err(pn) => c.fail("expand_commit_range", "safety", input, pn, "no panic".into()),
        Ok(res) => {
            if log().first() != Some(&cmd(&["rev-list", "--reverse", range])) { c.fail("expand_commit_range", "pre@opq_rev_list#0", input.clone(), format!("{:?}", log().first()), "rev-list --reverse <range>".into()); }
            match (&res, &exp) { (Ok(v), Some(e)) if v == e => {}, (Err(_), None) => {}, _ => c.fail("expand_commit_range", if res.is_ok() == exp.is_some() { "ensures#1" } else { "ensures#0" }, input, format!("{:?}", res), format!("{:?}: the commits of the range, oldest first", exp)) }
        }
    }
}

// ---------------------------------------------------------------- the pairing regions
fn names(p: &str, n: usize) -> Vec<String> { (0..n).map(|i| format!("{}{}", p, i)).collect() }
/// sources s0.., new commits n0..; `sel` = bit mask of the new commits that still need a note (rebase only)
fn chk_pairs(c: &mut Ctx, rebase: bool, a: usize, b: usize, sel: u32, findings: bool) {
    c.evaluated += 1;
    let f = if rebase { "region_rb_pairs" } else { "region_cp_pairs" };
    let input = format!("{}|{}|{}|{}", if rebase { "RBP" } else { "CPP" }, a, b, sel);
    let (src, new) = (names("s", a), names("n", b));
    let todo: Vec<String> = (0..b).filter(|i| !rebase || sel >> i & 1 == 1).map(|i| new[i].clone()).collect();
    let (s2, n2, t2) = (src.clone(), new.clone(), todo.clone());
    let r = guarded(move || if rebase { region_rb_pairs(&s2, &n2, t2) } else { region_cp_pairs(&s2, &n2) });
    match r {
        Err(pn) => c.fail(f, "safety", input, pn, "no panic".into()),
        Ok((pairs, firsts)) => {
            // a pair may only join the two commits of ONE position, positions ascending, each at most once
            let mut last: i64 = -1; let mut ok = true;
            for (x, y) in &pairs { let i = x[1..].parse::<i64>().unwrap_or(-9); let j = y[1..].parse::<i64>().unwrap_or(-8); if i != j || i <= last || !todo.contains(y) { ok = false; } last = i; }
            if !ok { c.fail(f, if rebase { "ensures#1" } else { "ensures#1" }, input.clone(), format!("{:?}", pairs), "only (original i, new i) pairs of selected new commits, in order".into()); }
            let want: Vec<(String, String)> = (0..a.min(b)).filter(|i| todo.contains(&new[*i])).map(|i| (src[i].clone(), new[i].clone())).collect();
            if a == b && pairs != want { c.fail(f, if rebase { "ensures#1" } else { "ensures#0" }, input.clone(), format!("{:?}", pairs), format!("{:?}: every selected new commit paired with the original of its position", want)); }
            if a != b && ok && pairs != want { c.fail(f, if rebase { "ensures#1" } else { "ensures#0" }, input.clone(), format!("{:?}", pairs), format!("{:?}: the positions both lists have", want)); }
            let fx: Vec<String> = pairs.iter().map(|(x, _)| x.clone()).collect();
            if firsts != fx { c.fail(f, if rebase { "ensures#2" } else { "ensures#2" }, input.clone(), format!("{:?}", firsts), format!("{:?}: the notes loaded are those of the paired originals", fx)); }
            // FINDING F4 (only with MAPPINGS_FINDINGS / in replay mode): with different lengths position i of one list is not the rewrite
            // of position i of the other (a commit was dropped, squashed, split or skipped), so NO positional pair is justified
            if findings && a != b && !pairs.is_empty() { c.fail(f, "finding_F4_positional_pairs_despite_length_mismatch", input, format!("{:?}", pairs), "no pairs: the lists do not correspond by position when their lengths differ".into()); }
        }
    }
}
fn main() {
    std::panic::set_hook(Box::new(|_| {}));
    let a: Vec<String> = std::env::args().collect();
    let mut c = Ctx { evaluated: 0, failed: Default::default() };
    let findings = std::env::var("MAPPINGS_FINDINGS").is_ok();
    if a[1] == "search" {
        let want = |f: &str| a[2] == "*" || a[2] == f;
        let seed: u64 = a.get(3).and_then(|s| s.parse().ok()).unwrap_or(1);
        let mut rng = Rng(seed.wrapping_mul(0x9E3779B97F4A7C15) | 1);
        if want("build_rebase_commit_mappings") || want("walk_commits_to_base") { for k in 1..3 { for n in 0..4 { for m in 0..3 { for p in 0..4 { for onto in 0..3 { if onto == 2 && n == 0 { continue; } chk_rebase(&mut c, k, n, m, p, onto); } } } } } }
        if want("build_cherry_pick_commit_mappings") || want("walk_commits_to_base") { for k in 1..3 { for p in 0..5 { chk_cherry_mappings(&mut c, k, p); } } }
        if want("walk_commits_to_base") { for l in 1..5 { for h in 0..=l { for b in 0..=l { chk_walk(&mut c, l, h, b); } } } }
        if a[2] == "*" || ["walk_commits_to_base", "expand_commit_range", "resolve_commit_sha", "parse_cherry_pick_commits"].contains(&a[2].as_str()) {
            for g in [&b""[..], b"\n", b"\n\n", b"  s01  \r\ns00\r\n", b"s01", b"\xff\xfe\n", b"s01\n\n  \ns00", b"\r", b" "] { chk_garbage(&mut c, g); }
            for _ in 0..300 { let n = rng.below(7) as usize; let v: Vec<u8> = (0..n).map(|_| [b's', b'0', b'1', b'\n', b'\r', b' ', 0xc3, 0xa9, 0xff, b'\t'][rng.below(10) as usize]).collect(); chk_garbage(&mut c, &v); }
        }
        if want("expand_commit_range") { for r in ["s01..s04", "main..feat", "feat..main", "s02..s02", "nosuch..feat", "main..nosuch", "s00..s05"] { chk_range(&mut c, r); } }
        if want("parse_cherry_pick_commits") || want("expand_commit_range") || want("resolve_commit_sha") {
            let flags = ["-s", "-x", "-e", "-n", "--ff", "--signoff", "-Skey", "--strategy=ort", "-m1", "-Xours", "--allow-empty", "--no-commit"];
            let valued = [("-m", "1"), ("--mainline", "2"), ("--strategy", "ort"), ("-m", "s03"), ("--strategy", "main")];
            let revs = ["s03", "feat", "main", "s01..s04", "main..feat", "nosuch", "nosuch..feat", "feat..main", "s05", "-", "skip", "continue", "abort"];
            let disputed = ["-X", "--strategy-option", "--cleanup"];
            // exhaustive-small: up to three words
            let mut words: Vec<Vec<String>> = vec![];
            for f in flags { words.push(vec![f.to_string()]); } for (o, v) in valued { words.push(vec![o.to_string(), v.to_string()]); } for r in revs { words.push(vec![r.to_string()]); }
            let nd = words.len();
            if findings { for d in disputed { words.push(vec![d.to_string()]); } words.push(vec!["-X".to_string(), "ours".to_string()]); }
            // finding F1 (repaired in /repo 3c53d708): -s is --signoff, takes no value, must not swallow the revision after it
            for w in [&["-s", "s03"][..], &["-s", "s01..s04"], &["-s", "s03", "feat"], &["-x", "-s", "main..feat", "-s"]] { let v: Vec<String> = w.iter().map(|x| x.to_string()).collect(); chk_parse(&mut c, &v); }
            // finding F3 (repaired in /repo 3dcb2201): the lone "-" is the previous branch, bare sequencer words are revisions
            for w in [&["-"][..], &["skip"], &["continue"], &["-", "s03"], &["-x", "-", "skip..s03"], &["quit"]] { let v: Vec<String> = w.iter().map(|x| x.to_string()).collect(); chk_parse(&mut c, &v); }
            if findings { for w in [&["-X", "ours", "s03"][..]] { let v: Vec<String> = w.iter().map(|x| x.to_string()).collect(); chk_parse(&mut c, &v); } }
            chk_parse(&mut c, &[]);
            for x in &words { chk_parse(&mut c, x); for y in &words { let mut v = x.clone(); v.extend(y.clone()); chk_parse(&mut c, &v); } }
            for _ in 0..3000 { let n = 1 + rng.below(5) as usize; let mut v: Vec<String> = vec![]; for _ in 0..n { v.extend(words[rng.below(words.len() as u64) as usize].clone()); }
                // a value option as LAST word (its value missing) must not break anything either
                if rng.below(8) == 0 { v.push(["-m", "--mainline", "--strategy"][rng.below(3) as usize].to_string()); }
                chk_parse(&mut c, &v); }
            let _ = nd;
        }
        for (rb, f) in [(false, "region_cp_pairs"), (true, "region_rb_pairs")] { if want(f) { for x in 0..5usize { for y in 0..5usize { if !findings && false { continue; } for sel in 0..(if rb { 1u32 << y } else { 1 }) { chk_pairs(&mut c, rb, x, y, sel, findings); } } } } }
    } else {
        let q: Vec<&str> = a[3].split('|').collect();
        let n = |i: usize| -> usize { q.get(i).and_then(|s| s.parse().ok()).unwrap_or(0) };
        match q[0] {
            "RB" => chk_rebase(&mut c, n(1), n(2), n(3), n(4), n(5)),
            "CPM" => chk_cherry_mappings(&mut c, n(1), n(2)),
            "WALK" => chk_walk(&mut c, n(1), n(2), n(3)),
            "GARB" => chk_garbage(&mut c, &unhex(q.get(1).copied().unwrap_or(""))),
            "RANGE" => chk_range(&mut c, &q[1..].join("|")),
            "PARSE" => { let v: Vec<String> = q[1..].join("|").split(' ').filter(|s| !s.is_empty()).map(|s| s.to_string()).collect(); chk_parse(&mut c, &v) }
            "RBP" => chk_pairs(&mut c, true, n(1), n(2), n(3) as u32, true),
            "CPP" => chk_pairs(&mut c, false, n(1), n(2), n(3) as u32, true),
            _ => {}
        }
    }
    println!("DONE evaluated={}", c.evaluated);
}
