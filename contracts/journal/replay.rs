// Replay driver for unit journal: the ORIGINAL deserialize_events_from_jsonl and read_initial_attributions with stand-ins for
// serde (a line / a file is "valid JSON" when it is `{...}`) and REAL files for INITIAL (missing, a directory, invalid
// UTF-8, corrupt, valid).  Oracle: corrupt input loses only itself and never produces an error or a panic.
#![allow(dead_code, unused)]
use std::fs;
use std::path::PathBuf;
#[derive(Debug)]
pub enum GitAiError { Generic(String) }
#[derive(Debug, Clone, PartialEq, Eq)]
pub struct RewriteLogEvent(pub String);
#[derive(Debug, Clone, PartialEq, Eq, Default)]
pub struct InitialAttributions(pub String);
pub trait FromText: Sized { fn from_text(s: &str) -> Self; }
impl FromText for RewriteLogEvent { fn from_text(s: &str) -> Self { RewriteLogEvent(s.to_string()) } }
impl FromText for InitialAttributions { fn from_text(s: &str) -> Self { InitialAttributions(s.to_string()) } }
fn valid_json(s: &str) -> bool { let t = s.trim(); t.len() >= 2 && t.starts_with('{') && t.ends_with('}') && !t.contains("!!") }
mod serde_json { pub fn from_str<T: super::FromText>(s: &str) -> Result<T, String> { if super::valid_json(s) { Ok(T::from_text(s)) } else { Err(format!("expected value at {:?}", s.chars().take(8).collect::<String>())) } } }
fn debug_log(_m: &str) {}
pub struct PersistedWorkingLog { pub initial_file: PathBuf, pub dir: PathBuf }
use std::collections::HashMap;
impl From<std::io::Error> for GitAiError { fn from(e: std::io::Error) -> Self { GitAiError::Generic(e.to_string()) } }
pub const CHECKPOINT_API_VERSION: &str = "checkpoint/1.0.0";
#[derive(Debug, Clone, PartialEq, Eq)] pub struct AgentId { pub id: String, pub tool: String }
#[derive(Debug, Clone, PartialEq, Eq)] pub struct Attr { pub author_id: String }
#[derive(Debug, Clone, PartialEq, Eq)] pub struct LAttr { pub author_id: String, pub overrode: Option<String> }
#[derive(Debug, Clone, PartialEq, Eq)] pub struct Entry { pub attributions: Vec<Attr>, pub line_attributions: Vec<LAttr> }
/// stand-in checkpoint: `{"v":"<api version>","n":<tag>}`
#[derive(Debug, Clone, PartialEq, Eq)] pub struct Checkpoint { pub api_version: String, pub agent_id: Option<AgentId>, pub entries: Vec<Entry>, pub raw: String }
impl FromText for Checkpoint { fn from_text(s: &str) -> Self { let v = s.split("\"v\":\"").nth(1).and_then(|r| r.split('"').next()).unwrap_or("").to_string(); Checkpoint { api_version: v, agent_id: None, entries: vec![], raw: s.to_string() } } }
fn generate_short_hash(id: &str, tool: &str) -> String { format!("{:0<16}", format!("{}{}", tool, id)) }
include!("@ITEMS@");
use std::panic::{catch_unwind, AssertUnwindSafe};
struct Ctx { evaluated: u64, failed: std::collections::HashSet<String> }
impl Ctx {
    fn fail(&mut self, f: &str, clause: &str, input: String, observed: String, expected: String) {
        if self.failed.insert(format!("{}::{}", f, clause)) { println!("FAIL fn=[[{}]] clause=[[{}]] input=[[{}]] observed=[[{}]] expected=[[{}]]", f, clause, input, observed, expected); }
    }
}
fn guarded<T>(f: impl FnOnce() -> T) -> Result<T, String> {
    catch_unwind(AssertUnwindSafe(f)).map_err(|e| { let m = e.downcast_ref::<String>().cloned().or_else(|| e.downcast_ref::<&str>().map(|s| s.to_string())).unwrap_or_default(); format!("panic: {}", m) })
}
struct Rng(u64);
impl Rng { fn next(&mut self) -> u64 { self.0 ^= self.0 << 13; self.0 ^= self.0 >> 7; self.0 ^= self.0 << 17; self.0 } fn below(&mut self, n: u64) -> u64 { self.next() % n } }
fn esc(s: &str) -> String { s.chars().map(|c| if c.is_ascii_graphic() && !"\\|~;:#[]".contains(c) { c.to_string() } else { format!("\\u{{{:x}}}", c as u32) }).collect() }
fn unesc(s: &str) -> String {
    let mut out = String::new(); let mut it = s.chars().peekable();
    while let Some(c) = it.next() {
        if c == '\\' && it.peek() == Some(&'u') { it.next(); it.next(); let mut h = String::new(); while let Some(&d) = it.peek() { it.next(); if d == '}' { break; } h.push(d); } out.push(char::from_u32(u32::from_str_radix(&h, 16).unwrap()).unwrap()); }
        else { out.push(c); }
    }
    out
}
const SHAPES: &[&str] = &["{\"commit\":{\"sha\":\"a1\"}}", "{\"rebase_complete\":{\"n\":2}}", "", "   ", "\t", "garbage", "{\"commit\":{\"sha\":", "{!!}", "\u{0}\u{1}", "}{", "{\"ü\":\"日本\"}", "  {\"padded\":1}  ", "[1,2]", "{\"a\":1}\r"];
fn chk_log(c: &mut Ctx, lines: &[String], sep: &str) {
    c.evaluated += 1;
    let text = lines.join(sep);
    let input = format!("LOG#{}", esc(&text));
    let want: Vec<RewriteLogEvent> = text.lines().filter(|l| !l.trim().is_empty() && valid_json(l)).map(|l| RewriteLogEvent(l.to_string())).take(200).collect();
    let t = text.clone();
    match guarded(move || deserialize_events_from_jsonl(&t)) {
        Err(p) => c.fail("deserialize_events_from_jsonl", "safety", input, p, "no panic".into()),
        Ok(Err(e)) => c.fail("deserialize_events_from_jsonl", "ensures#0", input, format!("Err({:?})", e), "Ok: a corrupt journal never fails the reader".into()),
        Ok(Ok(g)) => if g != want { c.fail("deserialize_events_from_jsonl", "ensures#1", input, format!("{} events: {:?}", g.len(), g.iter().take(4).collect::<Vec<_>>()), format!("{} events: {:?}", want.len(), want.iter().take(4).collect::<Vec<_>>())); },
    }
}
/// kind: missing | dir | badutf8 | text:<content>
fn chk_initial(c: &mut Ctx, kind: &str) {
    c.evaluated += 1;
    let input = format!("INITIAL#{}", esc(kind));
    let dir = std::env::temp_dir().join(format!("gitai-verif-journal-{}-{}", std::process::id(), c.evaluated));
    let _ = fs::remove_dir_all(&dir); fs::create_dir_all(&dir).unwrap();
    let f = dir.join("INITIAL");
    let want = match kind {
        "missing" => InitialAttributions::default(),
        "dir" => { fs::create_dir_all(&f).unwrap(); InitialAttributions::default() }
        "badutf8" => { fs::write(&f, [0xffu8, 0xfe, 0x7b, 0x7d]).unwrap(); InitialAttributions::default() }
        k => { let t = &k[5..]; fs::write(&f, t).unwrap(); if valid_json(t) { InitialAttributions(t.to_string()) } else { InitialAttributions::default() } }
    };
    let w = PersistedWorkingLog { initial_file: f, dir: dir.clone() };
    match guarded(move || w.read_initial_attributions()) {
        Err(p) => c.fail("PersistedWorkingLog::read_initial_attributions", "safety", input, p, "no panic: unreadable state reads as empty".into()),
        Ok(g) => if g != want { c.fail("PersistedWorkingLog::read_initial_attributions", "ensures#0", input, format!("{:?}", g), format!("{:?}", want)); },
    }
    let _ = fs::remove_dir_all(&dir);
}
/// the checkpoint journal: lines as written to <dir>/checkpoints.jsonl ("missing" = no file)
fn chk_journal(c: &mut Ctx, lines: Option<&[String]>, sep: &str) {
    c.evaluated += 1;
    let input = format!("JOURNAL#{}", match lines { None => "missing".to_string(), Some(l) => esc(&l.join(sep)) });
    let dir = std::env::temp_dir().join(format!("gitai-verif-journal-cp-{}-{}", std::process::id(), c.evaluated));
    let _ = fs::remove_dir_all(&dir); fs::create_dir_all(&dir).unwrap();
    let want: Result<Vec<String>, ()> = match lines {
        None => Ok(vec![]),
        Some(l) => { let text = l.join(sep); fs::write(dir.join("checkpoints.jsonl"), &text).unwrap();
            let mut out = vec![]; let mut bad = false;
            for ln in text.lines() { if ln.trim().is_empty() { continue; } if !valid_json(ln) { bad = true; break; } if ln.contains("\"v\":\"checkpoint/1.0.0\"") { out.push(ln.to_string()); } }
            if bad { Err(()) } else { Ok(out) } }
    };
    let w = PersistedWorkingLog { initial_file: dir.join("INITIAL"), dir: dir.clone() };
    match guarded(move || w.read_all_checkpoints().map(|v| v.into_iter().map(|c| c.raw).collect::<Vec<String>>())) {
        Err(p) => c.fail("PersistedWorkingLog::read_all_checkpoints", "safety", input, p, "no panic".into()),
        Ok(Ok(g)) => match want { Ok(w) => if g != w { c.fail("PersistedWorkingLog::read_all_checkpoints", "ensures#2", input, format!("{:?}", g), format!("{:?}", w)); }, Err(()) => c.fail("PersistedWorkingLog::read_all_checkpoints", "ensures#1", input, format!("Ok({} checkpoints)", g.len()), "Err: a journal with a damaged line is refused as a whole, never used with a line missing".into()) },
        Ok(Err(e)) => if want.is_ok() { c.fail("PersistedWorkingLog::read_all_checkpoints", "ensures#1", input, format!("Err({:?})", e), "Ok".into()); },
    }
    let _ = fs::remove_dir_all(&dir);
}
fn search(c: &mut Ctx, only: &str, seed: u64) {
    let all = only == "*";
    if all || only == "deserialize_events_from_jsonl" {
        let n = SHAPES.len();
        for a in 0..n { chk_log(c, &[SHAPES[a].to_string()], "\n"); for b in 0..n { for d in 0..n { chk_log(c, &[SHAPES[a].to_string(), SHAPES[b].to_string(), SHAPES[d].to_string()], "\n"); } } }
        let mut g = Rng(seed.wrapping_mul(0x9E3779B97F4A7C15) | 1);
        for _ in 0..1500 { let k = g.below(9) as usize; let ls: Vec<String> = (0..k).map(|_| SHAPES[g.below(n as u64) as usize].to_string()).collect(); chk_log(c, &ls, if g.below(4) == 0 { "\r\n" } else { "\n" }); }
        // more than 200 events, with corrupt lines in between
        for bad_every in [0usize, 3, 7] { let ls: Vec<String> = (0..450).map(|i| if bad_every > 0 && i % bad_every == 0 { "{\"cut".to_string() } else { format!("{{\"n\":{}}}", i) }).collect(); chk_log(c, &ls, "\n"); }
    }
    if all || only == "PersistedWorkingLog::read_all_checkpoints" {
        const CP: &[&str] = &["{\"v\":\"checkpoint/1.0.0\",\"n\":1}", "{\"v\":\"checkpoint/1.0.0\",\"n\":2}", "{\"v\":\"checkpoint/0.9\",\"n\":3}", "", "   ", "{\"v\":\"checkpoint/1.0.0\",\"n\":4", "garbage"];
        chk_journal(c, None, "\n");
        let n = CP.len();
        for a in 0..n { for b in 0..n { for d in 0..n { chk_journal(c, Some(&[CP[a].to_string(), CP[b].to_string(), CP[d].to_string()]), "\n"); } } }
        chk_journal(c, Some(&[CP[0].to_string(), CP[1].to_string()]), "\r\n");
    }
    if all || only == "PersistedWorkingLog::read_initial_attributions" {
        for k in ["missing", "dir", "badutf8", "text:", "text:{}", "text:{\"files\":{}}", "text:{\"files\":", "text:garbage", "text:\u{0}", "text:{!!}", "text:  {\"a\":1}\n"] { chk_initial(c, k); }
    }
}
fn main() {
    std::panic::set_hook(Box::new(|_| {}));
    let a: Vec<String> = std::env::args().collect();
    let mut c = Ctx { evaluated: 0, failed: Default::default() };
    match a[1].as_str() {
        "search" => search(&mut c, &a[2], a[3].parse().unwrap_or(1)),
        "replay" => { let inp = &a[3]; if let Some(t) = inp.strip_prefix("LOG#") { chk_log(&mut c, &[unesc(t)], "\n"); } else if let Some(k) = inp.strip_prefix("INITIAL#") { chk_initial(&mut c, &unesc(k)); } else if let Some(k) = inp.strip_prefix("JOURNAL#") { if k == "missing" { chk_journal(&mut c, None, "\n"); } else { chk_journal(&mut c, Some(&[unesc(k)]), "\n"); } } }
        _ => {}
    }
    println!("DONE evaluated={}", c.evaluated);
}
