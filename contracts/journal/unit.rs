// Unit journal — property C07, the mechanism "malformed journal lines are skipped, missing files read as empty": the readers
// of git-ai's private state never fail and never panic, whatever bytes the files hold.  (1) deserialize_events_from_jsonl
// (the rewrite log): every line that parses is kept, in order, around any number of corrupt lines; the result is always Ok.
// (2) read_initial_attributions (INITIAL): a missing, unreadable or corrupt file reads as empty.  serde and the file system
// are uninterpreted stubs: the proof is about what the readers do with their answers.
use vstd::prelude::*;
use vstd::string::StringSliceAdditionalSpecFns;
use vstd::std_specs::iter::IteratorSpec;
verus! {

/// stand-ins: never inspected by the verified text
pub enum GitAiError { Generic(String) }
#[verifier::external_body] pub struct RewriteLogEvent { _o: () }
#[verifier::external_body] pub struct InitialAttributions { _o: () }
#[verifier::external_body] pub struct ErrStandIn { _o: () }

// ---------------------------------------------------------------- (1) the rewrite log
pub open spec fn strs(v: Seq<&str>) -> Seq<Seq<u8>> { Seq::new(v.len(), |i: int| v[i].spec_bytes()) }
pub uninterp spec fn sp_lines(b: Seq<u8>) -> Seq<Seq<u8>>;       // str::lines
pub uninterp spec fn sp_blank(l: Seq<u8>) -> bool;              // line.trim().is_empty()
pub uninterp spec fn ev_ok(l: Seq<u8>) -> bool;                 // serde_json accepts the line as an event
pub uninterp spec fn ev_val(l: Seq<u8>) -> RewriteLogEvent;
#[verifier::external_body]
fn opq_lines<'a>(s: &'a str) -> (r: Vec<&'a str>)
    ensures strs(r@) == sp_lines(s.spec_bytes()),
{ unimplemented!() }
#[verifier::external_body]
fn opq_blank(s: &str) -> (r: bool)
    ensures r == sp_blank(s.spec_bytes()),
{ unimplemented!() }
#[verifier::external_body]
fn opq_parse_event(s: &str) -> (r: Result<RewriteLogEvent, ErrStandIn>)
    ensures r is Ok <==> ev_ok(s.spec_bytes()), r is Ok ==> r->Ok_0 == ev_val(s.spec_bytes()),
{ unimplemented!() }
/// `v.truncate(n)` (documented: keeps the first n elements)
#[verifier::external_body]
fn opq_truncate(v: &mut Vec<RewriteLogEvent>, n: usize)
    ensures final(v)@ == (if old(v)@.len() > n { old(v)@.subrange(0, n as int) } else { old(v)@ }),
{ unimplemented!() }
/// the events of the first n lines: every non-blank line that parses, in order; everything else is skipped
pub open spec fn kept(ls: Seq<Seq<u8>>, n: int) -> Seq<RewriteLogEvent>
    decreases n
{
    if n <= 0 { Seq::<RewriteLogEvent>::empty() } else {
        let k = kept(ls, n - 1);
        if !sp_blank(ls[n - 1]) && ev_ok(ls[n - 1]) { k.push(ev_val(ls[n - 1])) } else { k }
    }
}
//#item file=src/git/rewrite_log.rs kind=const name=MAX_EVENTS
const MAX_EVENTS: usize = 200;
//#end
//#item file=src/git/rewrite_log.rs kind=fn name=deserialize_events_from_jsonl opaque='[{"expr": "jsonl.lines()", "call": "opq_lines(jsonl)"}, {"expr": "line.trim().is_empty()", "call": "opq_blank(line)"}, {"expr": "serde_json::from_str::<RewriteLogEvent>(line)", "call": "opq_parse_event(line)"}, {"expr": "events.truncate(MAX_EVENTS)", "call": "opq_truncate(&mut events, MAX_EVENTS)"}]'
pub fn deserialize_events_from_jsonl(jsonl: &str) -> (r_: Result<Vec<RewriteLogEvent>, GitAiError>)
//@     ensures
//@         // for EVERY text (any corruption, truncation, garbage): never an error; every line that parses is kept, in order,
//@         // a line that does not parse loses only itself; at most the first 200 (newest) events are kept
//@         r_ is Ok,
//@         r_->Ok_0@ == (if kept(sp_lines(jsonl.spec_bytes()), sp_lines(jsonl.spec_bytes()).len() as int).len() > 200
//@             { kept(sp_lines(jsonl.spec_bytes()), sp_lines(jsonl.spec_bytes()).len() as int).subrange(0, 200) } else { kept(sp_lines(jsonl.spec_bytes()), sp_lines(jsonl.spec_bytes()).len() as int) }),
{
    let mut events = Vec::new();
    //@ let ghost ls = sp_lines(jsonl.spec_bytes());

    for line in it_0: opq_lines(jsonl)
    //@     invariant
    //@         ls == sp_lines(jsonl.spec_bytes()), it_0.snapshot@.remaining().len() == ls.len(),
    //@         forall|i: int| 0 <= i < ls.len() ==> (#[trigger] it_0.snapshot@.remaining()[i]).spec_bytes() == ls[i],
    //@         events@ == kept(ls, it_0.index@),
    {
        //@ proof { assert(line.spec_bytes() == ls[it_0.index@]); }
        if !(opq_blank(line)) {

        // Skip malformed entries instead of failing
        if let Ok(event) = opq_parse_event(line) {
            events.push(event);
        }
        // Silently skip lines that don't parse - they're probably old format
    }
    }

    // Trim to max events (keep newest, which are first due to newest-first ordering)
    if events.len() > MAX_EVENTS {
        opq_truncate(&mut events, MAX_EVENTS);
    }

    Ok(events)
}
//#end

// ---------------------------------------------------------------- (2) INITIAL
/// stand-in for PersistedWorkingLog (only `initial_file` is touched, through the stubs below)
#[verifier::external_body] pub struct PersistedWorkingLog { _o: () }
pub uninterp spec fn fs_exists(w: PersistedWorkingLog) -> bool;
pub uninterp spec fn fs_read(w: PersistedWorkingLog) -> Option<Seq<u8>>;     // None: the read failed
pub uninterp spec fn init_ok(b: Seq<u8>) -> bool;                            // serde accepts the text
pub uninterp spec fn init_val(b: Seq<u8>) -> InitialAttributions;
pub uninterp spec fn init_default() -> InitialAttributions;
pub open spec fn sb(s: String) -> Seq<u8> { vstd::utf8::encode_utf8(s@) }
#[verifier::external_body]
fn opq_initial_exists(w: &PersistedWorkingLog) -> (r: bool)
    ensures r == fs_exists(*w),
{ unimplemented!() }
#[verifier::external_body]
fn opq_read_initial(w: &PersistedWorkingLog) -> (r: Result<String, ErrStandIn>)
    ensures r is Ok <==> fs_read(*w) is Some, r is Ok ==> sb(r->Ok_0) == fs_read(*w)->Some_0,
{ unimplemented!() }
#[verifier::external_body]
fn opq_parse_initial(s: &String) -> (r: Result<InitialAttributions, ErrStandIn>)
    ensures r is Ok <==> init_ok(sb(*s)), r is Ok ==> r->Ok_0 == init_val(sb(*s)),
{ unimplemented!() }
#[verifier::external_body]
fn opq_initial_default() -> (r: InitialAttributions)
    ensures r == init_default(),
{ unimplemented!() }
#[verifier::external_body]
fn opq_log(e: &ErrStandIn)
{ unimplemented!() }
impl PersistedWorkingLog {
//#item file=src/git/repo_storage.rs kind=fn name=read_initial_attributions impl="PersistedWorkingLog" opaque='[{"expr": "self.initial_file.exists()", "call": "opq_initial_exists(self)"}, {"expr": "InitialAttributions::default()", "call": "opq_initial_default()"}, {"expr": "fs::read_to_string(&self.initial_file)", "call": "opq_read_initial(self)"}, {"expr": "serde_json::from_str(&content)", "call": "opq_parse_initial(&content)"}, {"expr": "debug_log(&format!( \"Failed to parse INITIAL file: {}. Returning empty.\", e ))", "call": "opq_log(&e)"}, {"expr": "debug_log(&format!( \"Failed to read INITIAL file: {}. Returning empty.\", e ))", "call": "opq_log(&e)"}]'
    pub fn read_initial_attributions(&self) -> (r_: InitialAttributions)
    //@     ensures
    //@         // a missing, unreadable or corrupt INITIAL file reads as empty - never an error, never a panic; a readable,
    //@         // well-formed one is returned as parsed
    //@         r_ == (if fs_exists(*self) && fs_read(*self) is Some && init_ok(fs_read(*self)->Some_0) { init_val(fs_read(*self)->Some_0) } else { init_default() }),
    {
        if !opq_initial_exists(self) {
            return opq_initial_default();
        }

        match opq_read_initial(self) {
            Ok(content) => match opq_parse_initial(&content) {
                Ok(initial_data) => initial_data,
                Err(e) => {
                    opq_log(&e);
                    opq_initial_default()
                }
            },
            Err(e) => {
                opq_log(&e);
                opq_initial_default()
            }
        }
    }
//#end
}

// ---------------------------------------------------------------- (3) the checkpoint journal
/// stand-ins
#[verifier::external_body] pub struct Checkpoint { _o: () }
#[verifier::external_body] pub struct JPath { _o: () }
#[verifier::external_body]
#[verifier::reject_recursive_types(K)]
#[verifier::reject_recursive_types(V)]
pub struct HashMap<K, V> { _p: core::marker::PhantomData<(K, V)> }
pub uninterp spec fn cj_exists(w: PersistedWorkingLog) -> bool;
pub uninterp spec fn cj_read(w: PersistedWorkingLog) -> Option<Seq<char>>;       // None: the read failed
pub uninterp spec fn cj_path_of(p: JPath) -> PersistedWorkingLog;
pub uninterp spec fn sp_lines_c(s: Seq<char>) -> Seq<Seq<char>>;
pub uninterp spec fn blank_c(l: Seq<char>) -> bool;
pub uninterp spec fn cp_ok(l: Seq<char>) -> bool;                                // serde accepts the line as a checkpoint
pub uninterp spec fn cp_val(l: Seq<char>) -> Checkpoint;
pub uninterp spec fn version_ok(c: Checkpoint) -> bool;                           // api_version == CHECKPOINT_API_VERSION
pub uninterp spec fn migrate_all(cps: Seq<Checkpoint>) -> Seq<Checkpoint>;      // the 7-char -> 16-char prompt hash migration
pub open spec fn strs_c(v: Seq<&str>) -> Seq<Seq<char>> { Seq::new(v.len(), |i: int| v[i]@) }
#[verifier::external_body]
fn opq_journal_path(w: &PersistedWorkingLog) -> (r: JPath)
    ensures cj_path_of(r) == *w,
{ unimplemented!() }
#[verifier::external_body]
fn opq_path_exists(p: &JPath) -> (r: bool)
    ensures r == cj_exists(cj_path_of(*p)),
{ unimplemented!() }
#[verifier::external_body]
fn opq_read_journal(p: &JPath) -> (r: Result<String, GitAiError>)
    ensures r is Ok <==> cj_read(cj_path_of(*p)) is Some, r is Ok ==> r->Ok_0@ == cj_read(cj_path_of(*p))->Some_0,
{ unimplemented!() }
#[verifier::external_body]
fn opq_lines_of<'a>(s: &'a String) -> (r: Vec<&'a str>)
    ensures strs_c(r@) == sp_lines_c(s@),
{ unimplemented!() }
#[verifier::external_body]
fn opq_blank_c(s: &str) -> (r: bool)
    ensures r == blank_c(s@),
{ unimplemented!() }
#[verifier::external_body]
fn opq_parse_checkpoint(s: &str) -> (r: Result<Checkpoint, GitAiError>)
    ensures r is Ok <==> cp_ok(s@), r is Ok ==> r->Ok_0 == cp_val(s@),
{ unimplemented!() }
#[verifier::external_body]
fn opq_version_ok(c: &Checkpoint) -> (r: bool)
    ensures r == version_ok(*c),
{ unimplemented!() }
#[verifier::external_body]
fn opq_hash_map_new() -> (r: HashMap<String, String>)
{ unimplemented!() }
#[verifier::external_body]
fn opq_build_hash_map(cps: &Vec<Checkpoint>, m: &mut HashMap<String, String>)
{ unimplemented!() }
#[verifier::external_body]
fn opq_migrate_all(cps: Vec<Checkpoint>, m: &HashMap<String, String>, out: &mut Vec<Checkpoint>)
    requires old(out)@.len() == 0,
    ensures final(out)@ == migrate_all(cps@),
{ unimplemented!() }
/// the checkpoints of the first n lines: every non-blank line must parse; those of another api version are skipped
pub open spec fn cps_of(ls: Seq<Seq<char>>, n: int) -> Option<Seq<Checkpoint>>
    decreases n
{
    if n <= 0 { Some(Seq::<Checkpoint>::empty()) } else {
        match cps_of(ls, n - 1) {
            None => None,
            Some(acc) => if blank_c(ls[n - 1]) { Some(acc) } else if !cp_ok(ls[n - 1]) { None } else if version_ok(cp_val(ls[n - 1])) { Some(acc.push(cp_val(ls[n - 1]))) } else { Some(acc) },
        }
    }
}
pub proof fn lemma_cps_none(ls: Seq<Seq<char>>, k: int, n: int)
    requires k <= n, cps_of(ls, k) is None,
    ensures cps_of(ls, n) is None,
    decreases n - k
{
    if k < n { lemma_cps_none(ls, k, n - 1); }
}
impl PersistedWorkingLog {
//#item file=src/git/repo_storage.rs kind=fn name=read_all_checkpoints impl="PersistedWorkingLog" opaque='[{"expr": "self.dir.join(\"checkpoints.jsonl\")", "call": "opq_journal_path(self)"}, {"expr": "checkpoints_file.exists()", "call": "opq_path_exists(&checkpoints_file)"}, {"expr": "fs::read_to_string(&checkpoints_file)", "call": "opq_read_journal(&checkpoints_file)"}, {"expr": "content.lines()", "call": "opq_lines_of(&content)"}, {"expr": "line.trim().is_empty()", "call": "opq_blank_c(line)"}, {"expr": "serde_json::from_str(line) .map_err(|e| std::io::Error::new(std::io::ErrorKind::InvalidData, e))", "call": "opq_parse_checkpoint(line)"}, {"stmt_from": "if checkpoint.api_version != CHECKPOINT_API_VERSION {", "call": "if !opq_version_ok(&checkpoint) { continue; }"}, {"expr": "HashMap::new()", "call": "opq_hash_map_new()"}, {"stmt_from": "for checkpoint in &checkpoints {", "call": "opq_build_hash_map(&checkpoints, &mut old_to_new_hash);"}, {"stmt_from": "for mut checkpoint in checkpoints {", "call": "opq_migrate_all(checkpoints, &old_to_new_hash, &mut migrated_checkpoints);"}]'
    pub fn read_all_checkpoints(&self) -> (r_: Result<Vec<Checkpoint>, GitAiError>)
    //@     ensures
    //@         // no journal: no checkpoints.  Otherwise the read succeeds EXACTLY when the file is readable and EVERY non-blank line
    //@         // parses - a journal with a damaged line is refused as a whole (the pre-commit checkpoint then refuses before git
    //@         // runs), never used with a line missing - and yields the parsed checkpoints of this api version, in order, migrated
    //@         !cj_exists(*self) ==> r_ is Ok && r_->Ok_0@.len() == 0,
    //@         cj_exists(*self) ==> (r_ is Ok <==> cj_read(*self) is Some && cps_of(sp_lines_c(cj_read(*self)->Some_0), sp_lines_c(cj_read(*self)->Some_0).len() as int) is Some),
    //@         cj_exists(*self) && r_ is Ok ==> r_->Ok_0@ == migrate_all(cps_of(sp_lines_c(cj_read(*self)->Some_0), sp_lines_c(cj_read(*self)->Some_0).len() as int)->Some_0),
    {
        let checkpoints_file = opq_journal_path(self);

        if !opq_path_exists(&checkpoints_file) {
            return Ok(Vec::new());
        }

        let content = opq_read_journal(&checkpoints_file)?;
        let mut checkpoints = Vec::new();
        //@ let ghost ls = sp_lines_c(content@);

        // Parse JSONL file - each line is a separate JSON object
        for line in it_0: opq_lines_of(&content)
        //@     invariant
        //@         ls == sp_lines_c(content@), cj_exists(*self), cj_read(*self) == Some(content@), it_0.snapshot@.remaining().len() == ls.len(),
        //@         forall|i: int| 0 <= i < ls.len() ==> (#[trigger] it_0.snapshot@.remaining()[i])@ == ls[i],
        //@         cps_of(ls, it_0.index@) == Some(checkpoints@),
        {
            //@ let ghost k = it_0.index@;
            //@ proof { assert(line@ == ls[k]); if cps_of(ls, k + 1) is None { lemma_cps_none(ls, k + 1, ls.len() as int); } }
            if !(opq_blank_c(line)) {

            let checkpoint: Checkpoint = opq_parse_checkpoint(line)?;

            if !(!opq_version_ok(&checkpoint)) {

            checkpoints.push(checkpoint);
        } }
        }

        // Migrate 7-char prompt hashes to 16-char hashes
        // Step 1: Build mapping from old 7-char hash to new 16-char hash
        let mut old_to_new_hash: HashMap<String, String> = opq_hash_map_new();

        opq_build_hash_map(&checkpoints, &mut old_to_new_hash);

        // Step 2: Replace 7-char author_ids in all checkpoints' attributions and line_attributions
        let mut migrated_checkpoints = Vec::new();
        opq_migrate_all(checkpoints, &old_to_new_hash, &mut migrated_checkpoints);

        Ok(migrated_checkpoints)
    }
//#end
}

} // verus!
fn main() {}
