// Unit boundaries — property C16: line table, char-boundary clamping and the line -> character conversion.
use vstd::prelude::*;
use vstd::utf8::*;
use vstd::string::StringSliceAdditionalSpecFns;
use vstd::std_specs::iter::IteratorSpec;
verus! {

//#include ../_shared/str_axioms.inc.rs
//#include ../_shared/attr_specs.inc.rs
//#include ../_shared/attribution.inc.rs

// ---------------------------------------------------------------- specification vocabulary
//#include ../_shared/line_boundaries.inc.rs
/// What line_attributions_to_attributions must return, as a function of the line table.
pub open spec fn la2a_spec(la: Seq<LineAttribution>, table: Seq<(usize, usize)>, ts: u128) -> Seq<(usize, usize, Seq<char>, u128)>
    decreases la.len()
{
    if la.len() == 0 {
        Seq::empty()
    } else {
        let rest = la2a_spec(la.drop_last(), table, ts);
        let x = la.last();
        if line_valid(x.start_line, table.len() as int) && line_valid(x.end_line, table.len() as int) {
            rest.push((table[x.start_line - 1].0, table[x.end_line - 1].1, x.author_id@, ts))
        } else {
            rest
        }
    }
}
pub open spec fn attr_view(a: Attribution) -> (usize, usize, Seq<char>, u128) { (a.start, a.end, a.author_id@, a.ts) }
pub open spec fn attrs_view(v: Seq<Attribution>) -> Seq<(usize, usize, Seq<char>, u128)> { v.map_values(|a: Attribution| attr_view(a)) }

pub open spec fn out_inside(v: Seq<Attribution>, bytes: Seq<u8>) -> bool {
    forall|k: int| 0 <= k < v.len() ==> (#[trigger] v[k]).end <= bytes.len() && v[k].start <= bytes.len()
        && is_char_boundary(bytes, v[k].start as int) && is_char_boundary(bytes, v[k].end as int)
}
proof fn lemma_partition_monotone(rs: Seq<(usize, usize)>, bytes: Seq<u8>, i: int, j: int)
    requires partition_wf(rs, bytes), 0 <= i <= j < rs.len(),
    ensures rs[i].0 <= rs[j].0, rs[i].1 <= rs[j].1, rs[i].0 < rs[j].1,
    decreases j - i,
{
    if i < j {
        lemma_partition_monotone(rs, bytes, i, j - 1);
        assert(rs[j - 1].1 == rs[j].0);
    }
}

//#item file=src/authorship/attribution_tracker.rs kind=struct name=LineAttribution derive=PartialEq,Eq
#[derive(PartialEq, Eq)]
pub struct LineAttribution {
    pub start_line: u32,
    pub end_line: u32,
    pub author_id: String,
    pub overrode: Option<String>,
}
//#end
impl LineAttribution {
//#item file=src/authorship/attribution_tracker.rs kind=fn name=new impl="LineAttribution"
    pub fn new(
        start_line: u32,
        end_line: u32,
        author_id: String,
        overrode: Option<String>,
    ) -> (r_: Self)
    //@     ensures r_.start_line == start_line, r_.end_line == end_line, r_.author_id == author_id, r_.overrode == overrode,
    {
        LineAttribution {
            start_line,
            end_line,
            author_id,
            overrode,
        }
    }
//#end
}
//#include ../_shared/char_boundary_fns.inc.rs
//#item file=src/authorship/attribution_tracker.rs kind=fn name=line_attributions_to_attributions
pub fn line_attributions_to_attributions(
    line_attributions: &Vec<LineAttribution>,
    content: &str,
    ts: u128,
) -> (r_: Vec<Attribution>)
//@     ensures
//@         // exact: the output is the in-order image of the entries whose two line numbers exist
//@         (line_attributions@.len() > 0 && content.spec_bytes().len() > 0) ==> attrs_view(r_@) == la2a_spec(line_attributions@, line_table(content.spec_bytes()), ts),
//@         (line_attributions@.len() == 0 || content.spec_bytes().len() == 0) ==> r_@.len() == 0,
//@         // every produced range lies inside the text on character boundaries; a forward line range gives a non-empty forward character range
//@         forall|k: int| 0 <= k < r_@.len() ==> (#[trigger] r_@[k]).end <= content.spec_bytes().len() && r_@[k].start <= content.spec_bytes().len()
//@             && is_char_boundary(content.spec_bytes(), r_@[k].start as int) && is_char_boundary(content.spec_bytes(), r_@[k].end as int),
{
    if line_attributions.is_empty() || content.is_empty() {
        return Vec::new();
    }

    let boundaries = LineBoundaries::new(content);
    let mut result = Vec::new();
    //@ let ghost table = line_table(content.spec_bytes());
    //@ let ghost bytes = content.spec_bytes();
    //@ proof { assert(line_attributions@.take(0) =~= Seq::<LineAttribution>::empty()); assert(attrs_view(result@) =~= Seq::empty()); }

    for line_attr in it_0: line_attributions
    //@     invariant
    //@         it_0.snapshot@.remaining().len() == line_attributions@.len(),
    //@         forall|k: int| 0 <= k < line_attributions@.len() ==> *(#[trigger] it_0.snapshot@.remaining()[k]) == line_attributions@[k],
    //@         boundaries.line_ranges@ == table, table == line_table(content.spec_bytes()), bytes == content.spec_bytes(),
    //@         partition_wf(table, bytes),
    //@         attrs_view(result@) == la2a_spec(line_attributions@.take(it_0.index@), table, ts),
    //@         out_inside(result@, bytes),
    {
        // Get character ranges for start and end lines
        //@ let ghost i = it_0.index@;
        //@ let ghost old_result = result@;
        //@ proof {
        //@     assert(*line_attr == line_attributions@[i]);
        //@     assert(line_attributions@.take(i + 1).drop_last() =~= line_attributions@.take(i));
        //@     assert(line_attributions@.take(i + 1).last() == line_attributions@[i]);
        //@ }
        let start_range = boundaries.get_line_range(line_attr.start_line);
        let end_range = boundaries.get_line_range(line_attr.end_line);

        if let (Some((start_char, _)), Some((_, end_char))) = (start_range, end_range) {
            result.push(Attribution::new(
                start_char,
                end_char,
                line_attr.author_id.clone(),
                ts,
            ));
        }
    //@     proof {
    //@         if result@.len() > old_result.len() {
    //@             let a = result@[old_result.len() as int];
    //@             assert(result@ =~= old_result.push(a));
    //@             assert(attrs_view(result@) =~= attrs_view(old_result).push(attr_view(a)));
    //@         }
    //@         assert(attrs_view(result@) == la2a_spec(line_attributions@.take(i + 1), table, ts));
    //@     }
    }

    //@ proof { assert(line_attributions@.take(line_attributions@.len() as int) =~= line_attributions@); }
    result
}
//#end

} // verus!
fn main() {}
