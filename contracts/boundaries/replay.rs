// Replay driver for unit boundaries (plain Rust, compiled by the repository's rustc).
// @ITEMS@ is replaced by the path of a file holding the ORIGINAL text of the items from /repo.
#![allow(dead_code, unused)]
include!("@ITEMS@");

use std::panic::{catch_unwind, AssertUnwindSafe};

struct Ctx { evaluated: u64, failed: std::collections::HashSet<String> }
impl Ctx {
    fn fail(&mut self, f: &str, clause: &str, input: String, observed: String, expected: String) {
        if self.failed.insert(f.to_string()) {
            println!("FAIL fn=[[{}]] clause=[[{}]] input=[[{}]] observed=[[{}]] expected=[[{}]]", f, clause, input, observed, expected);
        }
    }
}
fn guarded<T>(f: impl FnOnce() -> T) -> Result<T, String> {
    catch_unwind(AssertUnwindSafe(f)).map_err(|e| {
        let m = e.downcast_ref::<String>().cloned().or_else(|| e.downcast_ref::<&str>().map(|s| s.to_string())).unwrap_or_default();
        format!("panic: {}", m)
    })
}
struct Rng(u64);
impl Rng {
    fn next(&mut self) -> u64 { self.0 ^= self.0 << 13; self.0 ^= self.0 >> 7; self.0 ^= self.0 << 17; self.0 }
    fn below(&mut self, n: u64) -> u64 { self.next() % n }
}
// strings are passed hex-encoded so that any UTF-8 text survives the command line
fn hex(s: &str) -> String { s.bytes().map(|b| format!("{:02x}", b)).collect() }
fn unhex(h: &str) -> String { String::from_utf8((0..h.len() / 2).map(|i| u8::from_str_radix(&h[2 * i..2 * i + 2], 16).unwrap()).collect()).unwrap() }

/// independent line table: [start, end) per line, newline included
fn table(s: &str) -> Vec<(usize, usize)> {
    let b = s.as_bytes(); let mut out = vec![]; let mut st = 0;
    for i in 0..b.len() { if b[i] == b'\n' { out.push((st, i + 1)); st = i + 1; } }
    if st < b.len() { out.push((st, b.len())); }
    out
}

fn chk_new_and_glr(c: &mut Ctx, s: &str) {
    c.evaluated += 1;
    let input = hex(s);
    let t = table(s);
    match guarded(|| LineBoundaries::new(s)) {
        Ok(lb) => {
            if lb.line_ranges != t { c.fail("LineBoundaries::new", "ensures#0", input.clone(), format!("{:?}", lb.line_ranges), format!("{:?}", t)); }
            for n in 0..(t.len() as u32 + 3) {
                let want = if n >= 1 && (n as usize) <= t.len() { Some(t[n as usize - 1]) } else { None };
                let inp = format!("{};{}", input, n);
                match guarded(|| lb.get_line_range(n)) {
                    Ok(g) => if g != want { c.fail("LineBoundaries::get_line_range", "ensures", inp, format!("{:?}", g), format!("{:?}", want)); },
                    Err(p) => c.fail("LineBoundaries::get_line_range", "safety", inp, p, "no panic".into()),
                }
            }
            for n in [u32::MAX, u32::MAX - 1] {
                let inp = format!("{};{}", input, n);
                match guarded(|| lb.get_line_range(n)) {
                    Ok(g) => if g.is_some() { c.fail("LineBoundaries::get_line_range", "ensures#0", inp, format!("{:?}", g), "None".into()); },
                    Err(p) => c.fail("LineBoundaries::get_line_range", "safety", inp, p, "no panic".into()),
                }
            }
        }
        Err(p) => c.fail("LineBoundaries::new", "safety", input, p, "no panic".into()),
    }
}
fn chk_floor_ceil(c: &mut Ctx, s: &str, idx: usize) {
    c.evaluated += 1;
    let input = format!("{};{}", hex(s), idx);
    let len = s.len();
    let fl = (0..=idx.min(len)).rev().find(|&i| s.is_char_boundary(i)).unwrap();
    let ce = (idx.min(len)..=len).find(|&i| s.is_char_boundary(i)).unwrap();
    match guarded(|| floor_char_boundary(s, idx)) {
        Ok(g) => if g != fl { c.fail("floor_char_boundary", "ensures", input.clone(), g.to_string(), format!("{} (largest char boundary <= min(idx, len))", fl)) },
        Err(p) => c.fail("floor_char_boundary", "safety", input.clone(), p, "no panic".into()),
    }
    match guarded(|| ceil_char_boundary(s, idx)) {
        Ok(g) => if g != ce { c.fail("ceil_char_boundary", "ensures", input, g.to_string(), format!("{} (smallest char boundary >= min(idx, len))", ce)) },
        Err(p) => c.fail("ceil_char_boundary", "safety", input, p, "no panic".into()),
    }
}
fn chk_la2a(c: &mut Ctx, s: &str, las: &[(u32, u32)], ts: u128) {
    c.evaluated += 1;
    let input = format!("{};{};{}", hex(s), las.iter().map(|x| format!("{}-{}", x.0, x.1)).collect::<Vec<_>>().join(" "), ts);
    let t = table(s);
    let v: Vec<LineAttribution> = las.iter().enumerate().map(|(i, x)| LineAttribution::new(x.0, x.1, format!("au{}", i), None)).collect();
    let valid = |n: u32| n >= 1 && (n as usize) <= t.len();
    let mut want: Vec<(usize, usize, String, u128)> = vec![];
    if !las.is_empty() && !s.is_empty() {
        for (i, x) in las.iter().enumerate() { if valid(x.0) && valid(x.1) { want.push((t[x.0 as usize - 1].0, t[x.1 as usize - 1].1, format!("au{}", i), ts)); } }
    }
    match guarded(|| line_attributions_to_attributions(&v, s, ts)) {
        Ok(g) => {
            let got: Vec<(usize, usize, String, u128)> = g.iter().map(|a| (a.start, a.end, a.author_id.clone(), a.ts)).collect();
            if got != want { c.fail("line_attributions_to_attributions", "ensures#0", input.clone(), format!("{:?}", got), format!("{:?}", want)); return; }
            for a in &g {
                if !(a.start <= s.len() && a.end <= s.len() && s.is_char_boundary(a.start) && s.is_char_boundary(a.end)) {
                    c.fail("line_attributions_to_attributions", "ensures#2", input.clone(), format!("{}..{}", a.start, a.end), "inside the text on char boundaries".into()); return;
                }
            }
        }
        Err(p) => c.fail("line_attributions_to_attributions", "safety", input, p, "no panic".into()),
    }
}

fn corpus() -> Vec<String> {
    let atoms = ["", "a", "\n", "é", "日本", "x\r\n", "🙂", " ", "b\n"];
    let mut out: Vec<String> = vec![];
    for a in atoms { for b in atoms { for cc in atoms { out.push(format!("{}{}{}", a, b, cc)); } } }
    out.push("line1\nline2\nline3".into()); out.push("\n\n\n".into()); out.push("é\né\né\n".into());
    out.sort(); out.dedup();
    out
}

fn search(c: &mut Ctx, which: &str, seed: u64) {
    let want = |n: &str| which == "*" || which == n || n.ends_with(which);
    let cp = corpus();
    for s in &cp {
        if want("LineBoundaries::get_line_range") || want("LineBoundaries::new") || want("LineBoundaries::line_count") { chk_new_and_glr(c, s); }
        if want("floor_char_boundary") || want("ceil_char_boundary") { for idx in 0..s.len() + 3 { chk_floor_ceil(c, s, idx); } chk_floor_ceil(c, s, usize::MAX); }
        if want("line_attributions_to_attributions") {
            let n = table(s).len() as u32;
            chk_la2a(c, s, &[], 7);
            for a in 0..n + 2 { for b in 0..n + 2 { chk_la2a(c, s, &[(a, b)], 7); } }
            chk_la2a(c, s, &[(1, 1), (n, n), (1, n), (n + 1, n + 1), (2, 1)], 9);
        }
    }
    let mut g = Rng(seed.wrapping_mul(0x9E3779B97F4A7C15) ^ 0x5851F42D4C957F2D);
    let atoms = ["a", "bc", "\n", "é", "日", "🙂", "\r\n", " ", "\t"];
    for _ in 0..4000 {
        let n = g.below(9); let mut s = String::new();
        for _ in 0..n { s.push_str(atoms[g.below(atoms.len() as u64) as usize]); }
        if want("LineBoundaries::get_line_range") || want("LineBoundaries::new") { chk_new_and_glr(c, &s); }
        if want("floor_char_boundary") || want("ceil_char_boundary") { chk_floor_ceil(c, &s, g.below(s.len() as u64 + 3) as usize); }
        if want("line_attributions_to_attributions") {
            let lc = table(&s).len() as u64; let k = g.below(4);
            let v: Vec<(u32, u32)> = (0..k).map(|_| (g.below(lc + 2) as u32, g.below(lc + 2) as u32)).collect();
            chk_la2a(c, &s, &v, g.below(5) as u128);
        }
    }
}

fn replay(c: &mut Ctx, f: &str, input: &str) {
    let p: Vec<&str> = input.split(';').collect();
    let s = unhex(p[0]);
    match f {
        "LineBoundaries::new" | "LineBoundaries::get_line_range" => chk_new_and_glr(c, &s),
        "floor_char_boundary" | "ceil_char_boundary" => chk_floor_ceil(c, &s, p[1].parse().unwrap()),
        "line_attributions_to_attributions" => {
            let v: Vec<(u32, u32)> = p[1].split_whitespace().map(|x| { let q: Vec<u32> = x.split('-').map(|y| y.parse().unwrap()).collect(); (q[0], q[1]) }).collect();
            chk_la2a(c, &s, &v, p[2].parse().unwrap())
        }
        _ => println!("unknown function {}", f),
    }
}

fn main() {
    std::panic::set_hook(Box::new(|_| {}));
    let a: Vec<String> = std::env::args().collect();
    let mut c = Ctx { evaluated: 0, failed: Default::default() };
    if a[1] == "search" { search(&mut c, &a[2], a[3].parse().unwrap_or(0)); } else { replay(&mut c, &a[2], &a[3]); }
    println!("DONE evaluated={}", c.evaluated);
}
