// Unit merge — property C16: the coalescing loop of AttributionTracker::merge_attributions (last phase of
// update_attributions).  Statement region (rule R1) with rule N6 for its let-chain + `continue`.
use vstd::prelude::*;
use vstd::std_specs::iter::IteratorSpec;
verus! {

//#include ../_shared/attr_specs.inc.rs
//#use-contract tracker_geom ../_shared/attribution.inc.rs

/// what `attributions.sort_by(..)` leaves behind, as far as the loop needs it: starts are non-decreasing
pub open spec fn attr_starts_sorted(rs: Seq<Attribution>) -> bool { forall|i: int, j: int| 0 <= i < j < rs.len() ==> (#[trigger] rs[i]).start <= (#[trigger] rs[j]).start }
/// position x is covered by a non-empty range of (author au, timestamp ts) among the first n entries
pub open spec fn cov(v: Seq<Attribution>, n: int, x: int, au: Seq<char>, ts: u128) -> bool {
    exists|i: int| 0 <= i < n && (#[trigger] v[i]).start <= x < v[i].end && v[i].author_id@ == au && v[i].ts == ts
}
/// a zero-length marker of (au, ts) sits at position p among the first n entries
pub open spec fn mark(v: Seq<Attribution>, n: int, p: int, au: Seq<char>, ts: u128) -> bool {
    exists|i: int| 0 <= i < n && (#[trigger] v[i]).start == p && v[i].end == p && v[i].author_id@ == au && v[i].ts == ts
}
proof fn lemma_cov_step(rs: Seq<Attribution>, k: int, x: int, au: Seq<char>, ts: u128)
    requires 0 <= k < rs.len()
    ensures cov(rs, k + 1, x, au, ts) <==> (cov(rs, k, x, au, ts) || (rs[k].start <= x < rs[k].end && rs[k].author_id@ == au && rs[k].ts == ts))
{
    if cov(rs, k + 1, x, au, ts) { let i = choose|i: int| 0 <= i < k + 1 && (#[trigger] rs[i]).start <= x < rs[i].end && rs[i].author_id@ == au && rs[i].ts == ts; if i < k { assert(0 <= i < k && rs[i].start <= x < rs[i].end && rs[i].author_id@ == au && rs[i].ts == ts); } }
    if cov(rs, k, x, au, ts) { let i = choose|i: int| 0 <= i < k && (#[trigger] rs[i]).start <= x < rs[i].end && rs[i].author_id@ == au && rs[i].ts == ts; assert(0 <= i < k + 1 && rs[i].start <= x < rs[i].end && rs[i].author_id@ == au && rs[i].ts == ts); }
    if rs[k].start <= x < rs[k].end && rs[k].author_id@ == au && rs[k].ts == ts { assert(0 <= k < k + 1 && rs[k].start <= x < rs[k].end && rs[k].author_id@ == au && rs[k].ts == ts); }
}
proof fn lemma_cov_push(v: Seq<Attribution>, r: Attribution, x: int, au: Seq<char>, ts: u128)
    ensures cov(v.push(r), v.len() as int + 1, x, au, ts) <==> (cov(v, v.len() as int, x, au, ts) || (r.start <= x < r.end && r.author_id@ == au && r.ts == ts))
{
    let w = v.push(r);
    if cov(w, w.len() as int, x, au, ts) { let i = choose|i: int| 0 <= i < w.len() && (#[trigger] w[i]).start <= x < w[i].end && w[i].author_id@ == au && w[i].ts == ts; if i < v.len() { assert(w[i] == v[i]); assert(0 <= i < v.len() && v[i].start <= x < v[i].end && v[i].author_id@ == au && v[i].ts == ts); } else { assert(w[i] == r); } }
    if cov(v, v.len() as int, x, au, ts) { let i = choose|i: int| 0 <= i < v.len() && (#[trigger] v[i]).start <= x < v[i].end && v[i].author_id@ == au && v[i].ts == ts; assert(w[i] == v[i]); assert(0 <= i < w.len() && w[i].start <= x < w[i].end && w[i].author_id@ == au && w[i].ts == ts); }
    if r.start <= x < r.end && r.author_id@ == au && r.ts == ts { let i = v.len() as int; assert(w[i] == r); assert(0 <= i < w.len() && w[i].start <= x < w[i].end && w[i].author_id@ == au && w[i].ts == ts); }
}
/// only the end of the last (non-empty) range grew: its (author, ts) gains [old end, new end), nothing else changes
proof fn lemma_cov_grow_last(v: Seq<Attribution>, w: Seq<Attribution>, x: int, au: Seq<char>, ts: u128)
    requires
        v.len() > 0, w.len() == v.len(), forall|i: int| 0 <= i < v.len() - 1 ==> w[i] == v[i],
        w.last().start == v.last().start, w.last().author_id@ == v.last().author_id@, w.last().ts == v.last().ts,
        w.last().end >= v.last().end, v.last().start < v.last().end,
    ensures cov(w, w.len() as int, x, au, ts) <==> (cov(v, v.len() as int, x, au, ts) || (v.last().end <= x < w.last().end && v.last().author_id@ == au && v.last().ts == ts))
{
    let n = v.len() as int;
    if cov(w, n, x, au, ts) {
        let i = choose|i: int| 0 <= i < n && (#[trigger] w[i]).start <= x < w[i].end && w[i].author_id@ == au && w[i].ts == ts;
        if i < n - 1 { assert(w[i] == v[i]); assert(0 <= i < n && v[i].start <= x < v[i].end && v[i].author_id@ == au && v[i].ts == ts); }
        else { if x < v.last().end { assert(0 <= n - 1 < n && v[n - 1].start <= x < v[n - 1].end && v[n - 1].author_id@ == au && v[n - 1].ts == ts); } }
    }
    if cov(v, n, x, au, ts) {
        let i = choose|i: int| 0 <= i < n && (#[trigger] v[i]).start <= x < v[i].end && v[i].author_id@ == au && v[i].ts == ts;
        if i < n - 1 { assert(w[i] == v[i]); assert(0 <= i < n && w[i].start <= x < w[i].end && w[i].author_id@ == au && w[i].ts == ts); }
        else { assert(0 <= n - 1 < n && w[n - 1].start <= x < w[n - 1].end && w[n - 1].author_id@ == au && w[n - 1].ts == ts); }
    }
    if v.last().end <= x < w.last().end && v.last().author_id@ == au && v.last().ts == ts { assert(0 <= n - 1 < n && w[n - 1].start <= x < w[n - 1].end && w[n - 1].author_id@ == au && w[n - 1].ts == ts); }
}
proof fn lemma_mark_step(rs: Seq<Attribution>, k: int, p: int, au: Seq<char>, ts: u128)
    requires 0 <= k < rs.len()
    ensures mark(rs, k + 1, p, au, ts) <==> (mark(rs, k, p, au, ts) || (rs[k].start == p && rs[k].end == p && rs[k].author_id@ == au && rs[k].ts == ts))
{
    if mark(rs, k + 1, p, au, ts) { let i = choose|i: int| 0 <= i < k + 1 && (#[trigger] rs[i]).start == p && rs[i].end == p && rs[i].author_id@ == au && rs[i].ts == ts; if i < k { assert(0 <= i < k && rs[i].start == p && rs[i].end == p && rs[i].author_id@ == au && rs[i].ts == ts); } }
    if mark(rs, k, p, au, ts) { let i = choose|i: int| 0 <= i < k && (#[trigger] rs[i]).start == p && rs[i].end == p && rs[i].author_id@ == au && rs[i].ts == ts; assert(0 <= i < k + 1 && rs[i].start == p && rs[i].end == p && rs[i].author_id@ == au && rs[i].ts == ts); }
    if rs[k].start == p && rs[k].end == p && rs[k].author_id@ == au && rs[k].ts == ts { assert(0 <= k < k + 1 && rs[k].start == p && rs[k].end == p && rs[k].author_id@ == au && rs[k].ts == ts); }
}
proof fn lemma_mark_push(v: Seq<Attribution>, r: Attribution, p: int, au: Seq<char>, ts: u128)
    ensures mark(v.push(r), v.len() as int + 1, p, au, ts) <==> (mark(v, v.len() as int, p, au, ts) || (r.start == p && r.end == p && r.author_id@ == au && r.ts == ts))
{
    let w = v.push(r);
    if mark(w, w.len() as int, p, au, ts) { let i = choose|i: int| 0 <= i < w.len() && (#[trigger] w[i]).start == p && w[i].end == p && w[i].author_id@ == au && w[i].ts == ts; if i < v.len() { assert(w[i] == v[i]); assert(0 <= i < v.len() && v[i].start == p && v[i].end == p && v[i].author_id@ == au && v[i].ts == ts); } else { assert(w[i] == r); } }
    if mark(v, v.len() as int, p, au, ts) { let i = choose|i: int| 0 <= i < v.len() && (#[trigger] v[i]).start == p && v[i].end == p && v[i].author_id@ == au && v[i].ts == ts; assert(w[i] == v[i]); assert(0 <= i < w.len() && w[i].start == p && w[i].end == p && w[i].author_id@ == au && w[i].ts == ts); }
    if r.start == p && r.end == p && r.author_id@ == au && r.ts == ts { let i = v.len() as int; assert(w[i] == r); assert(0 <= i < w.len() && w[i].start == p && w[i].end == p && w[i].author_id@ == au && w[i].ts == ts); }
}
/// growing the end of a NON-EMPTY last range creates and destroys no zero-length marker
proof fn lemma_mark_grow_last(v: Seq<Attribution>, w: Seq<Attribution>, p: int, au: Seq<char>, ts: u128)
    requires
        v.len() > 0, w.len() == v.len(), forall|i: int| 0 <= i < v.len() - 1 ==> w[i] == v[i],
        w.last().start == v.last().start, w.last().end >= v.last().end, v.last().start < v.last().end,
    ensures mark(w, w.len() as int, p, au, ts) <==> mark(v, v.len() as int, p, au, ts)
{
    let n = v.len() as int;
    if mark(w, n, p, au, ts) { let i = choose|i: int| 0 <= i < n && (#[trigger] w[i]).start == p && w[i].end == p && w[i].author_id@ == au && w[i].ts == ts; assert(i < n - 1); assert(w[i] == v[i]); assert(0 <= i < n && v[i].start == p && v[i].end == p && v[i].author_id@ == au && v[i].ts == ts); }
    if mark(v, n, p, au, ts) { let i = choose|i: int| 0 <= i < n && (#[trigger] v[i]).start == p && v[i].end == p && v[i].author_id@ == au && v[i].ts == ts; assert(i < n - 1); assert(w[i] == v[i]); assert(0 <= i < n && w[i].start == p && w[i].end == p && w[i].author_id@ == au && w[i].ts == ts); }
}

//#item file=src/authorship/attribution_tracker.rs kind=region name=ma_merge_loop in=merge_attributions impl="AttributionTracker" from="let mut merged: Vec<Attribution> = Vec::with_capacity(attributions.len());" to="=merged" to_exclusive=yes
//@ fn region_ma_merge_loop(attributions: Vec<Attribution>) -> (r_: Vec<Attribution>)
//@     requires attr_starts_sorted(attributions@),
//@     ensures
//@         // coalescing neither loses nor invents coverage for any (author, timestamp), and keeps every zero-length deletion marker
//@         forall|x: int, au: Seq<char>, ts: u128| #![trigger cov(r_@, r_@.len() as int, x, au, ts)] cov(r_@, r_@.len() as int, x, au, ts) <==> cov(attributions@, attributions@.len() as int, x, au, ts),
//@         forall|p: int, au: Seq<char>, ts: u128| #![trigger mark(r_@, r_@.len() as int, p, au, ts)] mark(r_@, r_@.len() as int, p, au, ts) <==> mark(attributions@, attributions@.len() as int, p, au, ts),
//@ {
//@     let ghost rs = attributions@;
        let mut merged: Vec<Attribution> = Vec::with_capacity(attributions.len());
        for attr in it_0: attributions
        //@     invariant
        //@         it_0.snapshot@.remaining() =~= rs, attr_starts_sorted(rs),
        //@         merged@.len() > 0 ==> (forall|j: int| it_0.index@ <= j < rs.len() ==> merged@.last().start <= (#[trigger] rs[j]).start),
        //@         forall|x: int, au: Seq<char>, ts: u128| #![trigger cov(merged@, merged@.len() as int, x, au, ts)] #![trigger cov(rs, it_0.index@, x, au, ts)] cov(merged@, merged@.len() as int, x, au, ts) <==> cov(rs, it_0.index@, x, au, ts),
        //@         forall|p: int, au: Seq<char>, ts: u128| #![trigger mark(merged@, merged@.len() as int, p, au, ts)] #![trigger mark(rs, it_0.index@, p, au, ts)] mark(merged@, merged@.len() as int, p, au, ts) <==> mark(rs, it_0.index@, p, au, ts),
        {
            //@ let ghost k = it_0.index@;
            //@ let ghost before = merged@;
            //@ proof { assert(attr == rs[k]); }
            if let Some(last) = merged.last_mut() { if last.author_id == attr.author_id
                && last.ts == attr.ts
                && last.start < last.end
                && attr.start < attr.end
                && attr.start <= last.end { last.end = last.end.max(attr.end); } else {
            merged.push(attr);
        } } else { merged.push(attr); }
            //@ proof {
            //@     assert forall|x: int, au: Seq<char>, ts: u128| #![trigger cov(merged@, merged@.len() as int, x, au, ts)] #![trigger cov(rs, k + 1, x, au, ts)] cov(merged@, merged@.len() as int, x, au, ts) <==> cov(rs, k + 1, x, au, ts) by {
            //@         lemma_cov_step(rs, k, x, au, ts);
            //@         assert(cov(before, before.len() as int, x, au, ts) <==> cov(rs, k, x, au, ts));
            //@         if merged@.len() > before.len() { lemma_cov_push(before, merged@[before.len() as int], x, au, ts); assert(merged@ =~= before.push(merged@[before.len() as int])); }
            //@         else { lemma_cov_grow_last(before, merged@, x, au, ts); }
            //@     }
            //@     assert forall|p: int, au: Seq<char>, ts: u128| #![trigger mark(merged@, merged@.len() as int, p, au, ts)] #![trigger mark(rs, k + 1, p, au, ts)] mark(merged@, merged@.len() as int, p, au, ts) <==> mark(rs, k + 1, p, au, ts) by {
            //@         lemma_mark_step(rs, k, p, au, ts);
            //@         assert(mark(before, before.len() as int, p, au, ts) <==> mark(rs, k, p, au, ts));
            //@         if merged@.len() > before.len() { lemma_mark_push(before, merged@[before.len() as int], p, au, ts); assert(merged@ =~= before.push(merged@[before.len() as int])); }
            //@         else { lemma_mark_grow_last(before, merged@, p, au, ts); }
            //@     }
            //@ }
        }
//@     merged
//@ }
//#end

} // verus!
fn main() {}
