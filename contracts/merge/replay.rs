// Replay driver for unit merge: the ORIGINAL AttributionTracker::merge_attributions (whole function: sort, dedup, loop).
#![allow(dead_code, unused)]
include!("@ITEMS@");
use std::panic::{catch_unwind, AssertUnwindSafe};
struct Ctx { evaluated: u64, failed: std::collections::HashSet<String> }
impl Ctx {
    fn fail(&mut self, f: &str, clause: &str, input: String, observed: String, expected: String) {
        if self.failed.insert(f.to_string()) { println!("FAIL fn=[[{}]] clause=[[{}]] input=[[{}]] observed=[[{}]] expected=[[{}]]", f, clause, input, observed, expected); }
    }
}
fn guarded<T>(f: impl FnOnce() -> T) -> Result<T, String> {
    catch_unwind(AssertUnwindSafe(f)).map_err(|e| { let m = e.downcast_ref::<String>().cloned().or_else(|| e.downcast_ref::<&str>().map(|s| s.to_string())).unwrap_or_default(); format!("panic: {}", m) })
}
struct Rng(u64);
impl Rng { fn next(&mut self) -> u64 { self.0 ^= self.0 << 13; self.0 ^= self.0 >> 7; self.0 ^= self.0 << 17; self.0 } fn below(&mut self, n: u64) -> u64 { self.next() % n } }
type A = (usize, usize, String, u128);
fn chk(c: &mut Ctx, attrs: &[A]) {
    c.evaluated += 1;
    let input = attrs.iter().map(|a| format!("{}-{}-{}-{}", a.0, a.1, a.2, a.3)).collect::<Vec<_>>().join(" ");
    let t = AttributionTracker { config: AttributionConfig { move_lines_threshold: 3 } };
    let got: Vec<A> = attrs.to_vec();
    match guarded(|| t.merge_attributions(attrs.iter().map(|a| Attribution::new(a.0, a.1, a.2.clone(), a.3)).collect())) {
        Ok(m) => {
            let mg: Vec<A> = m.iter().map(|a| (a.start, a.end, a.author_id.clone(), a.ts)).collect();
            let hi = got.iter().chain(mg.iter()).map(|g| g.1).max().unwrap_or(0) + 1;
            for g in got.iter().chain(mg.iter()) { for x in 0..hi {
                let cov = |v: &Vec<A>| v.iter().any(|r| r.2 == g.2 && r.3 == g.3 && r.0 <= x && x < r.1);
                if cov(&got) != cov(&mg) { c.fail("region_ma_merge_loop", "ensures#0", input.clone(), format!("{:?}", mg), format!("same coverage per (author, ts); position {} of {} ts {}", x, g.2, g.3)); return; }
            } }
            let mut z0: Vec<A> = got.iter().filter(|g| g.0 == g.1).cloned().collect(); z0.sort(); z0.dedup();
            let mut z1: Vec<A> = mg.iter().filter(|g| g.0 == g.1).cloned().collect(); z1.sort(); z1.dedup();
            if z0 != z1 { c.fail("region_ma_merge_loop", "ensures#1", input, format!("{:?}", z1), format!("markers {:?}", z0)); }
        }
        Err(p) => c.fail("region_ma_merge_loop", "safety", input, p, "no panic".into()),
    }
}
fn main() {
    std::panic::set_hook(Box::new(|_| {}));
    let a: Vec<String> = std::env::args().collect();
    let mut c = Ctx { evaluated: 0, failed: Default::default() };
    if a[1] == "search" {
        let iv: Vec<(usize, usize)> = (0..5usize).flat_map(|s| (s..6usize).map(move |e| (s, e))).collect();
        for x in &iv { for y in &iv { for au in ["a", "b"] { for ts in [1u128, 2] { chk(&mut c, &[(x.0, x.1, "a".into(), 1), (y.0, y.1, au.into(), ts)]); } } } }
        let mut g = Rng(a[3].parse::<u64>().unwrap_or(0).wrapping_mul(0x9E3779B97F4A7C15) ^ 0x6a09e667f3bcc909);
        for _ in 0..30000 { let n = g.below(6) as usize; let v: Vec<A> = (0..n).map(|_| { let s = g.below(8) as usize; (s, s + g.below(5) as usize, ["a", "b"][g.below(2) as usize].to_string(), g.below(2) as u128) }).collect(); chk(&mut c, &v); }
    } else {
        let v: Vec<A> = a[3].split_whitespace().map(|t| { let q: Vec<&str> = t.split('-').collect(); (q[0].parse().unwrap(), q[1].parse().unwrap(), q[2].to_string(), q[3].parse().unwrap()) }).collect();
        chk(&mut c, &v);
    }
    println!("DONE evaluated={}", c.evaluated);
}
