// Unit serial — property C17: the text format of authorship notes.  (1) the parser side - parse_line_ranges,
// parse_attestation_section, deserialize_from_string - is TOTAL (no slice out of bounds or off a char boundary for any
// text) and computes exactly a fold over the lines that is written down as a spec function; text without a divider line
// is rejected.  (2) the serializer writes exactly the grammar of the standard.  (3) lemmas over the two contracts: what
// the serializer writes for a well-formed attestation list parses back to the same files, hashes and (sorted) ranges.
// The std string functions are rule-O1 stubs whose contracts state their documented behaviour over the UTF-8 bytes.
use vstd::prelude::*;
use vstd::utf8::*;
use vstd::string::StringSliceAdditionalSpecFns;
use vstd::std_specs::iter::IteratorSpec;
use std::fmt;
verus! {

//#include ../_shared/str_axioms.inc.rs
//#include ../_shared/linerange_type.inc.rs

/// stand-ins: `Box<dyn std::error::Error>` (rule O1 on the type: Verus has no `dyn Error`) and the serde metadata record
#[verifier::external_body] pub struct BoxedError { _o: () }
#[verifier::external_body] pub struct AuthorshipMetadata { _o: () }

// ---------------------------------------------------------------- byte vocabulary
pub open spec fn sb(s: String) -> Seq<u8> { encode_utf8(s@) }
pub open spec fn has_byte(b: Seq<u8>, c: u8) -> bool { exists|i: int| 0 <= i < b.len() && b[i] == c }
/// index of the first byte equal to c, or b.len() when there is none
pub open spec fn first_idx(b: Seq<u8>, c: u8) -> int
    decreases b.len()
{
    if b.len() == 0 { 0 } else {
        let k = first_idx(b.drop_last(), c);
        if k < b.len() - 1 { k } else if b.last() == c { b.len() - 1 } else { b.len() as int }
    }
}
pub proof fn lemma_first_idx(b: Seq<u8>, c: u8)
    ensures
        0 <= first_idx(b, c) <= b.len(),
        first_idx(b, c) < b.len() ==> b[first_idx(b, c)] == c,
        forall|j: int| 0 <= j < first_idx(b, c) ==> (#[trigger] b[j]) != c,
        first_idx(b, c) == b.len() <==> !has_byte(b, c),
    decreases b.len()
{
    if b.len() > 0 {
        let p = b.drop_last();
        lemma_first_idx(p, c);
        let k = first_idx(p, c);
        assert forall|j: int| 0 <= j < p.len() implies p[j] == b[j] by {}
        if k < p.len() { assert(b[k] == c); }
        else {
            assert forall|j: int| 0 <= j < p.len() implies (#[trigger] b[j]) != c by { assert(p[j] != c); }
            if b.last() != c { assert forall|j: int| 0 <= j < b.len() implies (#[trigger] b[j]) != c by { if j < p.len() { assert(p[j] != c); } } }
        }
    }
}
/// the pieces of b between the occurrences of c (documented behaviour of `str::split(char)`; always at least one piece)
pub open spec fn split_of(b: Seq<u8>, c: u8) -> Seq<Seq<u8>>
    decreases b.len()
{
    if b.len() == 0 { seq![Seq::<u8>::empty()] } else {
        let pre = split_of(b.drop_last(), c);
        if b.last() == c { pre.push(Seq::<u8>::empty()) } else { pre.drop_last().push(pre.last().push(b.last())) }
    }
}
pub proof fn lemma_split_nonempty(b: Seq<u8>, c: u8)
    ensures split_of(b, c).len() >= 1,
    decreases b.len()
{
    if b.len() > 0 { lemma_split_nonempty(b.drop_last(), c); }
}

// ---------------------------------------------------------------- O1 stubs: documented behaviour of std, over the bytes
/// `&s[a..b]` on str (vstd checks the index precondition but states nothing about the result)
#[verifier::external_body]
fn str_sub<'a>(s: &'a str, a: usize, b: usize) -> (r: &'a str)
    requires a <= b <= s.spec_bytes().len(), is_char_boundary(s.spec_bytes(), a as int), is_char_boundary(s.spec_bytes(), b as int),
    ensures r.spec_bytes() == s.spec_bytes().subrange(a as int, b as int),
{ unimplemented!() }
/// `s.split(c)` for an ASCII separator, collected
#[verifier::external_body]
fn opq_split<'a>(s: &'a str, c: char) -> (r: Vec<&'a str>)
    requires (c as u32) < 128,
    ensures r@.len() == split_of(s.spec_bytes(), c as u8).len(), forall|i: int| 0 <= i < r@.len() ==> (#[trigger] r@[i]).spec_bytes() == split_of(s.spec_bytes(), c as u8)[i],
{ unimplemented!() }
/// `s.find(c)` for an ASCII char: byte offset of the first occurrence
#[verifier::external_body]
fn opq_find(s: &str, c: char) -> (r: Option<usize>)
    requires (c as u32) < 128,
    ensures match r { Some(i) => i == first_idx(s.spec_bytes(), c as u8) && i < s.spec_bytes().len(), None => first_idx(s.spec_bytes(), c as u8) == s.spec_bytes().len() },
{ unimplemented!() }
/// `s.parse::<u32>()` (with the `?` conversion of its error): an uninterpreted partial function of the bytes
pub uninterp spec fn num_ok(b: Seq<u8>) -> bool;
pub uninterp spec fn num_val(b: Seq<u8>) -> u32;
#[verifier::external_body]
fn opq_parse_u32(s: &str) -> (r: Result<u32, BoxedError>)
    ensures r is Ok <==> num_ok(s.spec_bytes()), r is Ok ==> r->Ok_0 == num_val(s.spec_bytes()),
{ unimplemented!() }
/// `s.trim_end()`: a prefix of s that ends on a char boundary; which prefix is the uninterpreted `trim_len`
pub uninterp spec fn trim_len(b: Seq<u8>) -> int;
#[verifier::external_body]
fn opq_trim_end<'a>(s: &'a str) -> (r: &'a str)
    ensures 0 <= trim_len(s.spec_bytes()) <= s.spec_bytes().len(), r.spec_bytes() == s.spec_bytes().subrange(0, trim_len(s.spec_bytes())),
{ unimplemented!() }
/// `s.strip_prefix("  ")`
#[verifier::external_body]
fn opq_strip_two_spaces<'a>(s: &'a str) -> (r: Option<&'a str>)
    ensures
        r is Some <==> (s.spec_bytes().len() >= 2 && s.spec_bytes()[0] == 0x20 && s.spec_bytes()[1] == 0x20),
        r is Some ==> r->Some_0.spec_bytes() == s.spec_bytes().subrange(2, s.spec_bytes().len() as int),
{ unimplemented!() }
/// `s.starts_with(c)` / `s.ends_with(c)` for an ASCII char
#[verifier::external_body]
fn opq_starts_with(s: &str, c: char) -> (r: bool)
    requires (c as u32) < 128,
    ensures r == (s.spec_bytes().len() > 0 && s.spec_bytes()[0] == c as u8),
{ unimplemented!() }
#[verifier::external_body]
fn opq_ends_with(s: &str, c: char) -> (r: bool)
    requires (c as u32) < 128,
    ensures r == (s.spec_bytes().len() > 0 && s.spec_bytes().last() == c as u8),
{ unimplemented!() }
#[verifier::external_body]
fn opq_to_string(s: &str) -> (r: String)
    ensures sb(r) == s.spec_bytes(),
{ unimplemented!() }
/// `"..".into()` / `format!(..).into()` as the boxed error
#[verifier::external_body]
fn opq_err(s: &str) -> (r: BoxedError)
{ unimplemented!() }
#[verifier::external_body]
fn opq_err_fmt(s: &str) -> (r: BoxedError)
{ unimplemented!() }

// ---------------------------------------------------------------- (1a) parse_line_ranges
pub open spec fn piece_ok(p: Seq<u8>) -> bool {
    let d = first_idx(p, 0x2d);
    if d < p.len() { num_ok(p.subrange(0, d)) && num_ok(p.subrange(d + 1, p.len() as int)) } else { num_ok(p) }
}
pub open spec fn piece_val(p: Seq<u8>) -> LineRange {
    let d = first_idx(p, 0x2d);
    if d < p.len() { LineRange::Range(num_val(p.subrange(0, d)), num_val(p.subrange(d + 1, p.len() as int))) } else { LineRange::Single(num_val(p)) }
}
/// the ranges of the first n comma-separated pieces: empty pieces are skipped, None as soon as a number does not parse
pub open spec fn ranges_of(ps: Seq<Seq<u8>>, n: int) -> Option<Seq<LineRange>>
    decreases n
{
    if n <= 0 { Some(Seq::<LineRange>::empty()) } else {
        match ranges_of(ps, n - 1) {
            None => None,
            Some(acc) => if ps[n - 1].len() == 0 { Some(acc) } else if piece_ok(ps[n - 1]) { Some(acc.push(piece_val(ps[n - 1]))) } else { None },
        }
    }
}
/// once a piece fails the fold stays None
pub proof fn lemma_ranges_none(ps: Seq<Seq<u8>>, k: int, n: int)
    requires k <= n, ranges_of(ps, k) is None,
    ensures ranges_of(ps, n) is None,
    decreases n - k
{
    if k < n { lemma_ranges_none(ps, k, n - 1); }
}
pub open spec fn parse_ranges(b: Seq<u8>) -> Option<Seq<LineRange>> { ranges_of(split_of(b, 0x2c), split_of(b, 0x2c).len() as int) }

/// In valid UTF-8 the position after an ASCII byte that starts a character is a char boundary (from vstd's UTF-8 theory).
pub proof fn lemma_boundary_after_ascii(bytes: Seq<u8>, i: int)
    requires valid_utf8(bytes), 0 <= i < bytes.len(), is_char_boundary(bytes, i), bytes[i] < 128,
    ensures is_char_boundary(bytes, i + 1),
    decreases i
{
    let n = length_of_first_scalar(bytes);
    if i == 0 {
        assert(n == 1);
        assert(is_char_boundary(pop_first_scalar(bytes), 0));
    } else {
        let rest = pop_first_scalar(bytes);
        assert(rest == bytes.subrange(n, bytes.len() as int));
        lemma_boundary_after_ascii(rest, i - n);
    }
}
/// an ASCII byte of valid UTF-8 starts a character: both its position and the one after it are char boundaries
pub proof fn lemma_ascii_at(bytes: Seq<u8>, i: int)
    requires valid_utf8(bytes), 0 <= i < bytes.len(), bytes[i] < 128,
    ensures is_char_boundary(bytes, i), is_char_boundary(bytes, i + 1),
{
    is_char_boundary_iff_not_is_continuation_byte(bytes, i);
    lemma_boundary_after_ascii(bytes, i);
}

//#item file=src/authorship/authorship_log_serialization.rs kind=fn name=parse_line_ranges opaque='[{"expr": "Box<dyn std::error::Error>>", "call": "BoxedError>"}, {"expr": "input.split(\u0027,\u0027)", "call": "opq_split(input, \u0027,\u0027)"}, {"expr": "part.find(\u0027-\u0027)", "call": "opq_find(part, \u0027-\u0027)"}, {"expr": "&part[..dash_pos]", "call": "str_sub(part, 0, dash_pos)"}, {"expr": "&part[dash_pos + 1..]", "call": "str_sub(part, dash_pos + 1, part.len())"}, {"expr": "start_str.parse()", "call": "opq_parse_u32(start_str)"}, {"expr": "end_str.parse()", "call": "opq_parse_u32(end_str)"}, {"expr": "part.parse()", "call": "opq_parse_u32(part)"}]'
fn parse_line_ranges(input: &str) -> (r_: Result<Vec<LineRange>, BoxedError>)
//@     ensures
//@         // total: every slice is in bounds and on a char boundary for every text; the result is the fold over the pieces
//@         r_ is Ok <==> parse_ranges(input.spec_bytes()) is Some,
//@         r_ is Ok ==> r_->Ok_0@ == parse_ranges(input.spec_bytes())->Some_0,
{
    let mut ranges = Vec::new();
    //@ let ghost ps = split_of(input.spec_bytes(), 0x2c);

    for part in it_0: opq_split(input, ',')
    //@     invariant
    //@         ps == split_of(input.spec_bytes(), 0x2c), it_0.snapshot@.remaining().len() == ps.len(),
    //@         forall|i: int| 0 <= i < ps.len() ==> (#[trigger] it_0.snapshot@.remaining()[i]).spec_bytes() == ps[i],
    //@         ranges_of(ps, it_0.index@) == Some(ranges@),
    {
        //@ let ghost k = it_0.index@;
        //@ let ghost pb = part.spec_bytes();
        //@ proof { assert(pb == ps[k]); lemma_first_idx(pb, 0x2d); encode_utf8_valid_utf8(part@); is_char_boundary_start_end_of_seq(pb);
        //@     if ranges_of(ps, k + 1) is None { lemma_ranges_none(ps, k + 1, ps.len() as int); } }
        if !(part.is_empty()) {

        if let Some(dash_pos) = opq_find(part, '-') {
            // Range format: "start-end"
            //@ proof { lemma_ascii_at(pb, dash_pos as int); }
            let start_str = str_sub(part, 0, dash_pos);
            let end_str = str_sub(part, dash_pos + 1, part.len());
            let start: u32 = opq_parse_u32(start_str)?;
            let end: u32 = opq_parse_u32(end_str)?;
            ranges.push(LineRange::Range(start, end));
        } else {
            // Single line format: "line"
            let line: u32 = opq_parse_u32(part)?;
            ranges.push(LineRange::Single(line));
        }
    }
    }

    Ok(ranges)
}
//#end

// ---------------------------------------------------------------- (1b) parse_attestation_section
//#item file=src/authorship/authorship_log_serialization.rs kind=struct name=AttestationEntry
pub struct AttestationEntry {
    pub hash: String,
    pub line_ranges: Vec<LineRange>,
}
//#end
//#item file=src/authorship/authorship_log_serialization.rs kind=struct name=FileAttestation
pub struct FileAttestation {
    pub file_path: String,
    pub entries: Vec<AttestationEntry>,
}
//#end
//#item file=src/authorship/authorship_log_serialization.rs kind=struct name=AuthorshipLog
pub struct AuthorshipLog {
    pub attestations: Vec<FileAttestation>,
    pub metadata: AuthorshipMetadata,
}
//#end
impl AttestationEntry {
//#item file=src/authorship/authorship_log_serialization.rs kind=fn name=new impl="AttestationEntry"
    pub fn new(hash: String, line_ranges: Vec<LineRange>) -> (r_: Self)
    //@     ensures r_.hash == hash, r_.line_ranges == line_ranges,
    {
        Self { hash, line_ranges }
    }
//#end
}
impl FileAttestation {
//#item file=src/authorship/authorship_log_serialization.rs kind=fn name=new impl="FileAttestation"
    pub fn new(file_path: String) -> (r_: Self)
    //@     ensures r_.file_path == file_path, r_.entries@.len() == 0,
    {
        Self {
            file_path,
            entries: Vec::new(),
        }
    }
//#end
//#item file=src/authorship/authorship_log_serialization.rs kind=fn name=add_entry impl="FileAttestation"
    pub fn add_entry(&mut self, entry: AttestationEntry)
    //@     ensures final(self).file_path == old(self).file_path, final(self).entries@ == old(self).entries@.push(entry),
    {
        self.entries.push(entry);
    }
//#end
}
/// what a note says, as plain values: per file its path bytes and, per entry, the hash bytes and the ranges
pub struct EntryV { pub hash: Seq<u8>, pub ranges: Seq<LineRange> }
pub struct FileV { pub path: Seq<u8>, pub entries: Seq<EntryV> }
pub open spec fn entry_v(e: AttestationEntry) -> EntryV { EntryV { hash: sb(e.hash), ranges: e.line_ranges@ } }
pub open spec fn entries_v(es: Seq<AttestationEntry>) -> Seq<EntryV> { Seq::new(es.len(), |i: int| entry_v(es[i])) }
pub open spec fn file_v(f: FileAttestation) -> FileV { FileV { path: sb(f.file_path), entries: entries_v(f.entries@) } }
pub open spec fn files_v(fs: Seq<FileAttestation>) -> Seq<FileV> { Seq::new(fs.len(), |i: int| file_v(fs[i])) }
/// parser state: files completed, the file being filled, an error seen
pub struct PState { pub done: Seq<FileV>, pub cur: Option<FileV>, pub err: bool }
pub open spec fn trimmed(raw: Seq<u8>) -> Seq<u8> { raw.subrange(0, trim_len(raw)) }
pub open spec fn flush(done: Seq<FileV>, cur: Option<FileV>) -> Seq<FileV> {
    match cur { Some(f) => if f.entries.len() > 0 { done.push(f) } else { done }, None => done }
}
/// a path line: `"..."` (at least the two quotes) has its quotes removed, anything else is the path itself
pub open spec fn path_of_line(l: Seq<u8>) -> Seq<u8> {
    if l.len() >= 2 && l[0] == 0x22 && l.last() == 0x22 { l.subrange(1, l.len() - 1) } else { l }
}
/// one line of the attestation section
pub open spec fn step(st: PState, raw: Seq<u8>) -> PState {
    let l = trimmed(raw);
    if st.err || l.len() == 0 { st }
    else if l.len() >= 2 && l[0] == 0x20 && l[1] == 0x20 {
        // entry line: two spaces, the hash up to the first space, the ranges
        let e = l.subrange(2, l.len() as int);
        let sp = first_idx(e, 0x20);
        if sp == e.len() { PState { err: true, ..st } }
        else {
            match (parse_ranges(e.subrange(sp + 1, e.len() as int)), st.cur) {
                (Some(rs), Some(f)) => PState { cur: Some(FileV { path: f.path, entries: f.entries.push(EntryV { hash: e.subrange(0, sp), ranges: rs }) }), ..st },
                _ => PState { err: true, ..st },
            }
        }
    } else {
        // path line: the previous file is complete (kept only if it has entries)
        PState { done: flush(st.done, st.cur), cur: Some(FileV { path: path_of_line(l), entries: Seq::<EntryV>::empty() }), err: false }
    }
}
pub open spec fn init_state() -> PState { PState { done: Seq::<FileV>::empty(), cur: None, err: false } }
pub open spec fn fold_from(st: PState, ls: Seq<Seq<u8>>, n: int) -> PState
    decreases n
{
    if n <= 0 { st } else { step(fold_from(st, ls, n - 1), ls[n - 1]) }
}
pub open spec fn fold_lines(ls: Seq<Seq<u8>>, n: int) -> PState { fold_from(init_state(), ls, n) }
/// the attestation section of a note: None when a line is malformed
pub open spec fn parse_section(ls: Seq<Seq<u8>>) -> Option<Seq<FileV>> {
    let st = fold_lines(ls, ls.len() as int);
    if st.err { None } else { Some(flush(st.done, st.cur)) }
}
pub proof fn lemma_fold_err(ls: Seq<Seq<u8>>, k: int, n: int)
    requires k <= n, fold_lines(ls, k).err,
    ensures fold_lines(ls, n).err,
    decreases n - k
{
    if k < n { lemma_fold_err(ls, k, n - 1); assert(fold_lines(ls, n) == step(fold_lines(ls, n - 1), ls[n - 1])); }
}
pub open spec fn line_bytes(ls: Seq<&str>) -> Seq<Seq<u8>> { Seq::new(ls.len(), |i: int| ls[i].spec_bytes()) }

//#item file=src/authorship/authorship_log_serialization.rs kind=fn name=parse_attestation_section opaque='[{"expr": "Box<dyn std::error::Error>>", "call": "BoxedError>"}, {"expr": "line.trim_end()", "call": "opq_trim_end(*line)"}, {"expr": "line.strip_prefix(\"  \")", "call": "opq_strip_two_spaces(line)"}, {"expr": "entry_line.find(\u0027 \u0027)", "call": "opq_find(entry_line, \u0027 \u0027)"}, {"expr": "entry_line[..space_pos].to_string()", "call": "opq_to_string(str_sub(entry_line, 0, space_pos))"}, {"expr": "&entry_line[space_pos + 1..]", "call": "str_sub(entry_line, space_pos + 1, entry_line.len())"}, {"expr": "\"Attestation entry found without a file path\".into()", "call": "opq_err(\"Attestation entry found without a file path\")"}, {"expr": "format!(\"Invalid attestation entry format: {}\", entry_line).into()", "call": "opq_err_fmt(entry_line)"}, {"expr": "line.starts_with(\u0027\"\u0027)", "call": "opq_starts_with(line, \u0027\"\u0027)"}, {"expr": "line.ends_with(\u0027\"\u0027)", "call": "opq_ends_with(line, \u0027\"\u0027)"}, {"expr": "line[1..line.len() - 1].to_string()", "call": "opq_to_string(str_sub(line, 1, line.len() - 1))"}, {"expr": "line.to_string()", "call": "opq_to_string(line)"}]'
fn parse_attestation_section(
    lines: &[&str],
) -> (r_: Result<Vec<FileAttestation>, BoxedError>)
//@     ensures
//@         // total for every sequence of lines, and exactly the fold `parse_section`
//@         r_ is Ok <==> parse_section(line_bytes(lines@)) is Some,
//@         r_ is Ok ==> files_v(r_->Ok_0@) == parse_section(line_bytes(lines@))->Some_0,
{
    let mut attestations = Vec::new();
    let mut current_file: Option<FileAttestation> = None;
    //@ let ghost ls = line_bytes(lines@);

    for line in it_0: lines
    //@     invariant
    //@         ls == line_bytes(lines@), it_0.snapshot@.remaining().len() == ls.len(),
    //@         forall|i: int| 0 <= i < ls.len() ==> (#[trigger] it_0.snapshot@.remaining()[i]).spec_bytes() == ls[i],
    //@         !fold_lines(ls, it_0.index@).err,
    //@         files_v(attestations@) == fold_lines(ls, it_0.index@).done,
    //@         current_file is Some <==> fold_lines(ls, it_0.index@).cur is Some,
    //@         current_file is Some ==> file_v(current_file->Some_0) == fold_lines(ls, it_0.index@).cur->Some_0,
    {
        //@ let ghost k = it_0.index@;
        //@ let ghost st = fold_lines(ls, k);
        //@ proof { assert(line.spec_bytes() == ls[k]); if fold_lines(ls, k + 1).err { lemma_fold_err(ls, k + 1, ls.len() as int); } }
        let line = opq_trim_end(*line); // Remove trailing whitespace but preserve leading
        //@ let ghost l = line.spec_bytes();
        //@ proof { assert(l == trimmed(ls[k])); encode_utf8_valid_utf8(line@); is_char_boundary_start_end_of_seq(l); }

        if !(line.is_empty()) {

        if let Some(entry_line) = opq_strip_two_spaces(line) {
            // Attestation entry line (indented)
            // Remove "  " prefix
            //@ let ghost e = entry_line.spec_bytes();
            //@ proof { lemma_first_idx(e, 0x20); encode_utf8_valid_utf8(entry_line@); is_char_boundary_start_end_of_seq(e); }

            // Split on first space to separate hash from line ranges
            if let Some(space_pos) = opq_find(entry_line, ' ') {
                //@ proof { lemma_ascii_at(e, space_pos as int); }
                let hash = opq_to_string(str_sub(entry_line, 0, space_pos));
                let ranges_str = str_sub(entry_line, space_pos + 1, entry_line.len());
                let line_ranges = parse_line_ranges(ranges_str)?;

                let entry = AttestationEntry::new(hash, line_ranges);

                if let Some(ref mut file_attestation) = current_file {
                    file_attestation.add_entry(entry);
                } else {
                    return Err(opq_err("Attestation entry found without a file path"));
                }
                //@ proof { assert(entries_v(current_file->Some_0.entries@) =~= st.cur->Some_0.entries.push(entry_v(entry))); }
            } else {
                return Err(opq_err_fmt(entry_line));
            }
        } else {
            // File path line (not indented)
            if let Some(file_attestation) = current_file.take() { if !file_attestation.entries.is_empty() {
                //@ proof { assert(files_v(attestations@.push(file_attestation)) =~= files_v(attestations@).push(file_v(file_attestation))); }
                attestations.push(file_attestation);
            } }

            // Parse file path, handling quoted paths
            let file_path = if line.len() >= 2 && opq_starts_with(line, '"') && opq_ends_with(line, '"') {
                // Quoted path - remove quotes (no unescaping needed since quotes aren't allowed in file names)
                //@ proof { lemma_ascii_at(l, 0); lemma_ascii_at(l, l.len() - 1); }
                opq_to_string(str_sub(line, 1, line.len() - 1))
            } else {
                // Unquoted path
                opq_to_string(line)
            };

            current_file = Some(FileAttestation::new(file_path));
            //@ proof { assert(entries_v(current_file->Some_0.entries@) =~= Seq::<EntryV>::empty()); }
        }
    }
    }

    // Don't forget the last file
    if let Some(file_attestation) = current_file { if !file_attestation.entries.is_empty() {
        //@ proof { assert(files_v(attestations@.push(file_attestation)) =~= files_v(attestations@).push(file_v(file_attestation))); }
        attestations.push(file_attestation);
    } }

    Ok(attestations)
}
//#end

// ---------------------------------------------------------------- (1c) deserialize_from_string
pub open spec fn strip_cr(p: Seq<u8>) -> Seq<u8> { if p.len() > 0 && p.last() == 0x0d { p.drop_last() } else { p } }
/// documented behaviour of `str::lines()`: the pieces between newlines, a carriage return before a newline removed,
/// no empty last line after a final newline
pub open spec fn lines_of(b: Seq<u8>) -> Seq<Seq<u8>> {
    let ps = split_of(b, 0x0a);
    let head = Seq::new((ps.len() - 1) as nat, |i: int| strip_cr(ps[i]));
    if ps.last().len() == 0 { head } else { head.push(ps.last()) }
}
pub open spec fn divider() -> Seq<u8> { seq![0x2du8, 0x2du8, 0x2du8] }
/// index of the first divider line, or ls.len() when there is none
pub open spec fn first_div(ls: Seq<Seq<u8>>) -> int
    decreases ls.len()
{
    if ls.len() == 0 { 0 } else {
        let k = first_div(ls.drop_last());
        if k < ls.len() - 1 { k } else if ls.last() == divider() { ls.len() - 1 } else { ls.len() as int }
    }
}
pub proof fn lemma_first_div(ls: Seq<Seq<u8>>)
    ensures
        0 <= first_div(ls) <= ls.len(),
        first_div(ls) < ls.len() ==> ls[first_div(ls)] == divider(),
        forall|j: int| 0 <= j < first_div(ls) ==> (#[trigger] ls[j]) != divider(),
    decreases ls.len()
{
    if ls.len() > 0 {
        let p = ls.drop_last();
        lemma_first_div(p);
        assert forall|j: int| 0 <= j < p.len() implies p[j] == ls[j] by {}
        assert forall|j: int| 0 <= j < first_div(ls) implies (#[trigger] ls[j]) != divider() by { if j < p.len() { assert(p[j] == ls[j]); } }
    }
}
/// the pieces joined with one separator byte between them
pub open spec fn join_of(ps: Seq<Seq<u8>>, c: u8) -> Seq<u8>
    decreases ps.len()
{
    if ps.len() == 0 { Seq::<u8>::empty() } else if ps.len() == 1 { ps[0] } else { join_of(ps.drop_last(), c) + seq![c] + ps.last() }
}
pub uninterp spec fn json_ok(b: Seq<u8>) -> bool;
pub uninterp spec fn json_val(b: Seq<u8>) -> AuthorshipMetadata;
/// `content.lines().collect()`
#[verifier::external_body]
fn opq_lines<'a>(s: &'a str) -> (r: Vec<&'a str>)
    ensures line_bytes(r@) == lines_of(s.spec_bytes()),
{ unimplemented!() }
/// `lines.iter().position(|&line| line == "---").ok_or("Missing divider ..")` (first line equal to the divider)
#[verifier::external_body]
fn opq_divider_pos(lines: &Vec<&str>) -> (r: Result<usize, BoxedError>)
    ensures match r { Ok(i) => i == first_div(line_bytes(lines@)) && i < lines@.len(), Err(_) => first_div(line_bytes(lines@)) == lines@.len() },
{ unimplemented!() }
/// `json_lines.join("\n")`
#[verifier::external_body]
fn opq_join_nl(ls: &[&str]) -> (r: String)
    ensures sb(r) == join_of(line_bytes(ls@), 0x0a),
{ unimplemented!() }
/// `serde_json::from_str(&json_content)` (with the `?` conversion of its error): uninterpreted
#[verifier::external_body]
fn opq_json_parse(s: &String) -> (r: Result<AuthorshipMetadata, BoxedError>)
    ensures r is Ok <==> json_ok(sb(*s)), r is Ok ==> r->Ok_0 == json_val(sb(*s)),
{ unimplemented!() }
/// what deserialize_from_string makes of a text: None = rejected
pub open spec fn parse_note(b: Seq<u8>) -> Option<(Seq<FileV>, AuthorshipMetadata)> {
    let ls = lines_of(b);
    let d = first_div(ls);
    if d >= ls.len() { None }   // no divider line: rejected
    else {
        let js = join_of(ls.subrange(d + 1, ls.len() as int), 0x0a);
        match parse_section(ls.subrange(0, d)) {
            Some(fs) => if json_ok(js) { Some((fs, json_val(js))) } else { None },
            None => None,
        }
    }
}
impl AuthorshipLog {
//#item file=src/authorship/authorship_log_serialization.rs kind=fn name=deserialize_from_string impl="AuthorshipLog" opaque='[{"expr": "Box<dyn std::error::Error>>", "call": "BoxedError>"}, {"expr": "content.lines().collect()", "call": "opq_lines(content)"}, {"expr": "lines .iter() .position(|&line| line == \"---\") .ok_or(\"Missing divider \u0027---\u0027 in authorship log\")", "call": "opq_divider_pos(&lines)"}, {"expr": "json_lines.join(\"\\n\")", "call": "opq_join_nl(json_lines)"}, {"expr": "serde_json::from_str(&json_content)", "call": "opq_json_parse(&json_content)"}]'
    pub fn deserialize_from_string(content: &str) -> (r_: Result<Self, BoxedError>)
    //@     ensures
    //@         // text without a divider line is rejected; otherwise the attestation section before the FIRST divider line
    //@         // is parsed by the fold and everything after it is the JSON metadata
    //@         r_ is Ok <==> parse_note(content.spec_bytes()) is Some,
    //@         r_ is Ok ==> files_v(r_->Ok_0.attestations@) == parse_note(content.spec_bytes())->Some_0.0 && r_->Ok_0.metadata == parse_note(content.spec_bytes())->Some_0.1,
    {
        let lines: Vec<&str> = opq_lines(content);
        //@ let ghost ls = line_bytes(lines@);
        //@ proof { lemma_first_div(ls); }

        // Find the divider
        let divider_pos = opq_divider_pos(&lines)?;

        // Parse attestation section (before divider)
        let attestation_lines = &lines[..divider_pos];
        //@ proof { assert(line_bytes(attestation_lines@) =~= ls.subrange(0, divider_pos as int)); }
        let attestations = parse_attestation_section(attestation_lines)?;

        // Parse JSON metadata section (after divider)
        let json_lines = &lines[divider_pos + 1..];
        //@ proof { assert(line_bytes(json_lines@) =~= ls.subrange(divider_pos + 1, ls.len() as int)); }
        let json_content = opq_join_nl(json_lines);
        let metadata: AuthorshipMetadata = opq_json_parse(&json_content)?;

        Ok(Self {
            attestations,
            metadata,
        })
    }
//#end
}

// ---------------------------------------------------------------- (2) the serializer
/// a path is written in quotes when it contains a space, tab or newline (the standard's MUST), and also when it would not
/// survive the parser unquoted: it starts with a quote, it is the divider line, or it ends in whitespace that trim_end removes
pub open spec fn needs_q(p: Seq<u8>) -> bool {
    has_byte(p, 0x20) || has_byte(p, 0x09) || has_byte(p, 0x0a) || (p.len() > 0 && p[0] == 0x22) || p == divider() || trim_len(p) != p.len()
}
pub open spec fn quoted(p: Seq<u8>) -> Seq<u8> { seq![0x22u8] + p + seq![0x22u8] }
/// the standard's path line: quoted when the path contains whitespace
pub open spec fn path_line(p: Seq<u8>) -> Seq<u8> { if needs_q(p) { quoted(p) } else { p } }
/// decimal rendering of a u32 (`to_string` / `{}`): uninterpreted, see axiom_dec
pub uninterp spec fn dec(n: u32) -> Seq<u8>;
pub open spec fn render(r: LineRange) -> Seq<u8> {
    match r { LineRange::Single(l) => dec(l), LineRange::Range(a, b) => dec(a) + seq![0x2du8] + dec(b) }
}
pub open spec fn renders(rs: Seq<LineRange>) -> Seq<Seq<u8>> { Seq::new(rs.len(), |i: int| render(rs[i])) }
/// what `sort_by(start)` leaves: an uninterpreted function of the list (documented: a stable sort by the first line)
pub uninterp spec fn sorted_by_start(rs: Seq<LineRange>) -> Seq<LineRange>;
pub open spec fn fmt_ranges(rs: Seq<LineRange>) -> Seq<u8> { join_of(renders(sorted_by_start(rs)), 0x2c) }
pub open spec fn ser_entry(e: EntryV) -> Seq<u8> { seq![0x20u8, 0x20u8] + e.hash + seq![0x20u8] + fmt_ranges(e.ranges) + seq![0x0au8] }
pub open spec fn ser_entries(es: Seq<EntryV>, n: int) -> Seq<u8>
    decreases n
{
    if n <= 0 { Seq::<u8>::empty() } else { ser_entries(es, n - 1) + ser_entry(es[n - 1]) }
}
pub open spec fn ser_file(f: FileV) -> Seq<u8> { path_line(f.path) + seq![0x0au8] + ser_entries(f.entries, f.entries.len() as int) }
pub open spec fn ser_files(fs: Seq<FileV>, n: int) -> Seq<u8>
    decreases n
{
    if n <= 0 { Seq::<u8>::empty() } else { ser_files(fs, n - 1) + ser_file(fs[n - 1]) }
}
pub open spec fn divider_line() -> Seq<u8> { seq![0x2du8, 0x2du8, 0x2du8, 0x0au8] }
pub uninterp spec fn json_text_ok(m: AuthorshipMetadata) -> bool;
pub uninterp spec fn json_text(m: AuthorshipMetadata) -> Seq<u8>;
/// `s.contains(c)` for an ASCII char
#[verifier::external_body]
fn opq_contains(s: &str, c: char) -> (r: bool)
    requires (c as u32) < 128,
    ensures r == has_byte(s.spec_bytes(), c as u8),
{ unimplemented!() }
/// `path == "---"`
#[verifier::external_body]
fn opq_is_divider(s: &str) -> (r: bool)
    ensures r == (s.spec_bytes() == divider()),
{ unimplemented!() }
#[verifier::external_body]
fn opq_to_vec(v: &[LineRange]) -> (r: Vec<LineRange>)
    ensures r@ == v@,
{ unimplemented!() }
/// `v.sort_by(|a, b| start(a).cmp(&start(b)))`
#[verifier::external_body]
fn opq_sort_by_start(v: &mut Vec<LineRange>)
    ensures final(v)@ == sorted_by_start(old(v)@),
{ unimplemented!() }
/// `.iter().map(|range| match range { Single(l) => l.to_string(), Range(s, e) => format!("{}-{}", s, e) }).collect::<Vec<_>>().join(",")`
#[verifier::external_body]
fn opq_render_join(v: &Vec<LineRange>) -> (r: String)
    ensures sb(r) == join_of(renders(v@), 0x2c),
{ unimplemented!() }
#[verifier::external_body]
fn opq_new_string() -> (r: String)
    ensures sb(r) == Seq::<u8>::empty(),
{ unimplemented!() }
/// `format!("\"{}\"", path)`
#[verifier::external_body]
fn opq_quote(p: &String) -> (r: String)
    ensures sb(r) == quoted(sb(*p)),
{ unimplemented!() }
#[verifier::external_body]
fn opq_clone_string(p: &String) -> (r: String)
    ensures sb(r) == sb(*p),
{ unimplemented!() }
#[verifier::external_body]
fn opq_push_string(s: &mut String, x: &String)
    ensures sb(*final(s)) == sb(*old(s)) + sb(*x),
{ unimplemented!() }
/// `s.push(c)` for an ASCII char
#[verifier::external_body]
fn opq_push_char(s: &mut String, c: char)
    requires (c as u32) < 128,
    ensures sb(*final(s)) == sb(*old(s)).push(c as u8),
{ unimplemented!() }
/// `s.push_str("  ")` and `s.push_str("---\n")`
#[verifier::external_body]
fn opq_push_indent(s: &mut String)
    ensures sb(*final(s)) == sb(*old(s)) + seq![0x20u8, 0x20u8],
{ unimplemented!() }
#[verifier::external_body]
fn opq_push_divider(s: &mut String)
    ensures sb(*final(s)) == sb(*old(s)) + divider_line(),
{ unimplemented!() }
/// `serde_json::to_string_pretty(&self.metadata).map_err(|_| fmt::Error)`: uninterpreted
#[verifier::external_body]
fn opq_json_pretty(m: &AuthorshipMetadata) -> (r: Result<String, fmt::Error>)
    ensures r is Ok <==> json_text_ok(*m), r is Ok ==> sb(r->Ok_0) == json_text(*m),
{ unimplemented!() }

//#item file=src/authorship/authorship_log_serialization.rs kind=fn name=needs_quoting opaque='[{"expr": "path.contains(\u0027 \u0027)", "call": "opq_contains(path, \u0027 \u0027)"}, {"expr": "path.contains(\u0027\\t\u0027)", "call": "opq_contains(path, \u0027\\t\u0027)"}, {"expr": "path.contains(\u0027\\n\u0027)", "call": "opq_contains(path, \u0027\\n\u0027)"}, {"expr": "path.starts_with(\u0027\"\u0027)", "call": "opq_starts_with(path, \u0027\"\u0027)"}, {"expr": "path == \"---\"", "call": "opq_is_divider(path)"}, {"expr": "path.trim_end()", "call": "opq_trim_end(path)"}]'
fn needs_quoting(path: &str) -> (r_: bool)
//@     ensures r_ == needs_q(path.spec_bytes()),
{
    opq_contains(path, ' ')
        || opq_contains(path, '\t')
        || opq_contains(path, '\n')
        || opq_starts_with(path, '"')
        || opq_is_divider(path)
        || opq_trim_end(path).len() != path.len()
}
//#end
//#item file=src/authorship/authorship_log_serialization.rs kind=fn name=format_line_ranges opaque='[{"expr": "ranges.to_vec()", "call": "opq_to_vec(ranges)"}, {"expr": "sorted_ranges.sort_by(|a, b| { let a_start = match a { LineRange::Single(line) => *line, LineRange::Range(start, _) => *start, }; let b_start = match b { LineRange::Single(line) => *line, LineRange::Range(start, _) => *start, }; a_start.cmp(&b_start) })", "call": "opq_sort_by_start(&mut sorted_ranges)"}, {"expr": "sorted_ranges .iter() .map(|range| match range { LineRange::Single(line) => line.to_string(), LineRange::Range(start, end) => format!(\"{}-{}\", start, end), }) .collect::<Vec<_>>() .join(\",\")", "call": "opq_render_join(&sorted_ranges)"}]'
fn format_line_ranges(ranges: &[LineRange]) -> (r_: String)
//@     ensures sb(r_) == fmt_ranges(ranges@),
{
    let mut sorted_ranges = opq_to_vec(ranges);
    opq_sort_by_start(&mut sorted_ranges);

    opq_render_join(&sorted_ranges)
}
//#end
impl AuthorshipLog {
//#item file=src/authorship/authorship_log_serialization.rs kind=fn name=serialize_to_string impl="AuthorshipLog" opaque='[{"expr": "String::new()", "call": "opq_new_string()"}, {"expr": "format!(\"\\\"{}\\\"\", &file_attestation.file_path)", "call": "opq_quote(&file_attestation.file_path)"}, {"expr": "file_attestation.file_path.clone()", "call": "opq_clone_string(&file_attestation.file_path)"}, {"expr": "output.push_str(&file_path)", "call": "opq_push_string(&mut output, &file_path)"}, {"expr": "output.push(\u0027\\n\u0027)", "call": "opq_push_char(&mut output, \u0027\\n\u0027)"}, {"expr": "output.push_str(\"  \")", "call": "opq_push_indent(&mut output)"}, {"expr": "output.push_str(&entry.hash)", "call": "opq_push_string(&mut output, &entry.hash)"}, {"expr": "output.push(\u0027 \u0027)", "call": "opq_push_char(&mut output, \u0027 \u0027)"}, {"expr": "output.push_str(&format_line_ranges(&entry.line_ranges))", "call": "opq_push_string(&mut output, &format_line_ranges(&entry.line_ranges))"}, {"expr": "output.push_str(\"---\\n\")", "call": "opq_push_divider(&mut output)"}, {"expr": "serde_json::to_string_pretty(&self.metadata).map_err(|_| fmt::Error)", "call": "opq_json_pretty(&self.metadata)"}, {"expr": "output.push_str(&json_str)", "call": "opq_push_string(&mut output, &json_str)"}]'
    pub fn serialize_to_string(&self) -> (r_: Result<String, fmt::Error>)
    //@     ensures
    //@         // the grammar of the standard: per file an unindented path line (quoted when it contains whitespace), per entry
    //@         // a two-space indented `hash ranges` line, ONE divider line, then the JSON object - and nothing else
    //@         r_ is Ok <==> json_text_ok(self.metadata),
    //@         r_ is Ok ==> sb(r_->Ok_0) == ser_files(files_v(self.attestations@), self.attestations@.len() as int) + divider_line() + json_text(self.metadata),
    {
        let mut output = opq_new_string();
        //@ let ghost fs = files_v(self.attestations@);

        // Write attestation section
        for file_attestation in it_0: &self.attestations
        //@     invariant
        //@         fs == files_v(self.attestations@), it_0.snapshot@.remaining().len() == fs.len(),
        //@         forall|i: int| 0 <= i < fs.len() ==> *(#[trigger] it_0.snapshot@.remaining()[i]) == self.attestations@[i],
        //@         sb(output) == ser_files(fs, it_0.index@),
        {
            //@ let ghost k = it_0.index@;
            //@ let ghost f = fs[k];
            //@ proof { assert(*file_attestation == self.attestations@[k]); assert(f == file_v(*file_attestation)); }
            // Quote file names that contain spaces or whitespace
            let file_path = if needs_quoting(&file_attestation.file_path) {
                opq_quote(&file_attestation.file_path)
            } else {
                opq_clone_string(&file_attestation.file_path)
            };
            opq_push_string(&mut output, &file_path);
            opq_push_char(&mut output, '\n');
            //@ let ghost base = ser_files(fs, k) + path_line(f.path) + seq![0x0au8];
            //@ proof { assert(sb(output) =~= base); }

            for entry in it_1: &file_attestation.entries
            //@     invariant
            //@         f == file_v(*file_attestation), it_1.snapshot@.remaining().len() == f.entries.len(),
            //@         forall|i: int| 0 <= i < f.entries.len() ==> *(#[trigger] it_1.snapshot@.remaining()[i]) == file_attestation.entries@[i],
            //@         sb(output) == base + ser_entries(f.entries, it_1.index@),
            {
                //@ let ghost j = it_1.index@;
                //@ proof { assert(*entry == file_attestation.entries@[j]); assert(f.entries[j] == entry_v(*entry)); }
                opq_push_indent(&mut output);
                opq_push_string(&mut output, &entry.hash);
                opq_push_char(&mut output, ' ');
                opq_push_string(&mut output, &format_line_ranges(&entry.line_ranges));
                opq_push_char(&mut output, '\n');
                //@ proof { assert(sb(output) =~= base + ser_entries(f.entries, j) + ser_entry(f.entries[j])); assert(sb(output) =~= base + ser_entries(f.entries, j + 1)); }
            }
            //@ proof { assert(sb(output) =~= ser_files(fs, k) + ser_file(f)); }
        }

        // Write divider
        opq_push_divider(&mut output);

        // Write JSON metadata section
        let json_str = opq_json_pretty(&self.metadata)?;
        opq_push_string(&mut output, &json_str);

        Ok(output)
    }
//#end
}

// ---------------------------------------------------------------- (3) the round trip, as lemmas over the two contracts
/// TRUSTED (documented behaviour of std, used only by the lemmas below): `u32::to_string` writes decimal digits that
/// `str::parse::<u32>` reads back; `trim_end` never removes an ASCII byte that is not whitespace and always removes an ASCII
/// whitespace byte at the end; a sort returns as many elements as it was given.
pub axiom fn axiom_dec(n: u32)
    ensures dec(n).len() > 0, forall|i: int| 0 <= i < dec(n).len() ==> 0x30 <= #[trigger] dec(n)[i] <= 0x39, num_ok(dec(n)), num_val(dec(n)) == n;
pub axiom fn axiom_trim(b: Seq<u8>)
    ensures 0 <= trim_len(b) <= b.len(),
        b.len() > 0 && b.last() < 128 ==> (trim_len(b) == b.len() <==> !(b.last() == 0x20 || (0x09 <= b.last() <= 0x0d)));
pub axiom fn axiom_sorted(rs: Seq<LineRange>)
    ensures sorted_by_start(rs).len() == rs.len();

pub proof fn lemma_no_byte_prefix(p: Seq<u8>, c: u8)
    requires !has_byte(p, c), p.len() > 0,
    ensures !has_byte(p.drop_last(), c), p.last() != c,
{
    let p0 = p.drop_last();
    if has_byte(p0, c) { let i = choose|i: int| 0 <= i < p0.len() && p0[i] == c; assert(p[i] == c); }
    assert(p[p.len() - 1] == p.last());
}
/// appending separator-free bytes extends the last piece
pub proof fn lemma_split_append(b: Seq<u8>, p: Seq<u8>, c: u8)
    requires !has_byte(p, c),
    ensures split_of(b + p, c) == split_of(b, c).drop_last().push(split_of(b, c).last() + p),
    decreases p.len()
{
    lemma_split_nonempty(b, c);
    let s0 = split_of(b, c);
    if p.len() == 0 {
        assert(b + p =~= b); assert(s0.last() + p =~= s0.last()); assert(s0.drop_last().push(s0.last()) =~= s0);
    } else {
        let p0 = p.drop_last(); let x = p.last();
        lemma_no_byte_prefix(p, c);
        lemma_split_append(b, p0, c);
        assert((b + p).drop_last() =~= b + p0);
        assert((b + p).last() == x);
        let pre = split_of(b + p0, c);
        assert(pre.drop_last() =~= s0.drop_last());
        assert(pre.last().push(x) =~= s0.last() + p);
    }
}
pub proof fn lemma_split_sep(b: Seq<u8>, c: u8)
    ensures split_of(b.push(c), c) == split_of(b, c).push(Seq::<u8>::empty()),
{
    assert(b.push(c).drop_last() =~= b);
}
pub open spec fn no_sep(ps: Seq<Seq<u8>>, c: u8) -> bool { forall|i: int| 0 <= i < ps.len() ==> !has_byte(#[trigger] ps[i], c) }
/// splitting what was joined gives the pieces back
pub proof fn lemma_split_join(ps: Seq<Seq<u8>>, c: u8)
    requires ps.len() >= 1, no_sep(ps, c),
    ensures split_of(join_of(ps, c), c) == ps,
    decreases ps.len()
{
    let e = Seq::<u8>::empty();
    if ps.len() == 1 {
        lemma_split_append(e, ps[0], c);
        assert(e + ps[0] =~= ps[0]);
        assert(split_of(e, c) =~= seq![e]);
        assert(seq![e].drop_last().push(seq![e].last() + ps[0]) =~= ps);
    } else {
        let ps0 = ps.drop_last();
        assert(no_sep(ps0, c)) by { assert forall|i: int| 0 <= i < ps0.len() implies !has_byte(#[trigger] ps0[i], c) by { assert(ps0[i] == ps[i]); } }
        lemma_split_join(ps0, c);
        let j0 = join_of(ps0, c);
        lemma_split_sep(j0, c);
        lemma_split_append(j0.push(c), ps.last(), c);
        assert(join_of(ps, c) =~= j0.push(c) + ps.last());
        assert(j0 + seq![c] =~= j0.push(c));
        assert(ps0.push(e).drop_last().push(ps0.push(e).last() + ps.last()) =~= ps);
    }
}
/// the first occurrence is where the byte is, with none before
pub proof fn lemma_first_idx_at(e: Seq<u8>, c: u8, k: int)
    requires 0 <= k < e.len(), e[k] == c, forall|j: int| 0 <= j < k ==> (#[trigger] e[j]) != c,
    ensures first_idx(e, c) == k,
{
    lemma_first_idx(e, c);
    let f = first_idx(e, c);
    if f > k { assert(e[k] != c); }
    if f < k { assert(e[f] != c); }
}
/// one rendered range parses back to itself
pub proof fn lemma_piece(r: LineRange)
    ensures piece_ok(render(r)), piece_val(render(r)) == r, render(r).len() > 0, !has_byte(render(r), 0x2c),
        0x30 <= render(r).last() <= 0x39,
{
    match r {
        LineRange::Single(l) => {
            axiom_dec(l);
            let p = render(r);
            lemma_first_idx(p, 0x2d);
            if has_byte(p, 0x2d) { let i = choose|i: int| 0 <= i < p.len() && p[i] == 0x2d; assert(0x30 <= dec(l)[i]); }
            if has_byte(p, 0x2c) { let i = choose|i: int| 0 <= i < p.len() && p[i] == 0x2c; assert(0x30 <= dec(l)[i]); }
            assert(0x30 <= dec(l)[dec(l).len() - 1] <= 0x39);
        }
        LineRange::Range(a, b) => {
            axiom_dec(a); axiom_dec(b);
            let p = render(r);
            let da = dec(a); let db = dec(b);
            assert(p.len() == da.len() + 1 + db.len());
            assert(p[da.len() as int] == 0x2d);
            assert forall|j: int| 0 <= j < da.len() implies (#[trigger] p[j]) != 0x2d by { assert(p[j] == da[j]); assert(0x30 <= da[j]); }
            lemma_first_idx_at(p, 0x2d, da.len() as int);
            assert(p.subrange(0, da.len() as int) =~= da);
            assert(p.subrange(da.len() as int + 1, p.len() as int) =~= db);
            if has_byte(p, 0x2c) {
                let i = choose|i: int| 0 <= i < p.len() && p[i] == 0x2c;
                if i < da.len() { assert(p[i] == da[i]); assert(0x30 <= da[i]); } else if i > da.len() { assert(p[i] == db[i - da.len() - 1]); assert(0x30 <= db[i - da.len() - 1]); }
            }
            assert(p.last() == db[db.len() - 1]); assert(0x30 <= db[db.len() - 1] <= 0x39);
        }
    }
}
pub proof fn lemma_ranges_rt(rs: Seq<LineRange>, n: int)
    requires 0 <= n <= rs.len(),
    ensures ranges_of(renders(rs), n) == Some(rs.subrange(0, n)),
    decreases n
{
    if n > 0 {
        lemma_ranges_rt(rs, n - 1);
        lemma_piece(rs[n - 1]);
        assert(renders(rs)[n - 1] == render(rs[n - 1]));
        assert(rs.subrange(0, n - 1).push(rs[n - 1]) =~= rs.subrange(0, n));
    } else {
        assert(rs.subrange(0, 0) =~= Seq::<LineRange>::empty());
    }
}
/// format_line_ranges' text parses back to the ranges it rendered
pub proof fn lemma_parse_fmt(rs: Seq<LineRange>)
    ensures parse_ranges(join_of(renders(rs), 0x2c)) == Some(rs),
{
    let ps = renders(rs);
    if rs.len() == 0 {
        let e = Seq::<u8>::empty();
        assert(join_of(ps, 0x2c) =~= e);
        assert(split_of(e, 0x2c) =~= seq![e]);
        assert(ranges_of(seq![e], 0) == Some(Seq::<LineRange>::empty()));
        assert(ranges_of(seq![e], 1) == Some(Seq::<LineRange>::empty()));
        assert(rs =~= Seq::<LineRange>::empty());
    } else {
        assert(no_sep(ps, 0x2c)) by { assert forall|i: int| 0 <= i < ps.len() implies !has_byte(#[trigger] ps[i], 0x2c) by { lemma_piece(rs[i]); } }
        lemma_split_join(ps, 0x2c);
        lemma_ranges_rt(rs, rs.len() as int);
        assert(rs.subrange(0, rs.len() as int) =~= rs);
    }
}
/// the joined text of a non-empty list ends with a digit
pub proof fn lemma_join_last(rs: Seq<LineRange>)
    requires rs.len() > 0,
    ensures join_of(renders(rs), 0x2c).len() > 0, 0x30 <= join_of(renders(rs), 0x2c).last() <= 0x39,
{
    let ps = renders(rs);
    lemma_piece(rs[rs.len() - 1]);
    assert(ps.last() == render(rs[rs.len() - 1]));
    if ps.len() > 1 {
        let j = join_of(ps, 0x2c);
        assert(j == join_of(ps.drop_last(), 0x2c) + seq![0x2cu8] + ps.last());
        assert(j.last() == ps.last().last());
    }
}

pub open spec fn norm_entry(e: EntryV) -> EntryV { EntryV { hash: e.hash, ranges: sorted_by_start(e.ranges) } }
pub open spec fn norm_entries(es: Seq<EntryV>) -> Seq<EntryV> { Seq::new(es.len(), |j: int| norm_entry(es[j])) }
pub open spec fn norm_file(f: FileV) -> FileV { FileV { path: f.path, entries: norm_entries(f.entries) } }
pub open spec fn norm(fs: Seq<FileV>) -> Seq<FileV> { Seq::new(fs.len(), |i: int| norm_file(fs[i])) }
/// what a log must satisfy to survive the round trip: hashes without spaces or newlines, every entry lists at least one
/// range, every file has an entry and a non-empty path without a newline
pub open spec fn wf_entry(e: EntryV) -> bool { !has_byte(e.hash, 0x20) && !has_byte(e.hash, 0x0a) && e.ranges.len() > 0 }
pub open spec fn wf_file(f: FileV) -> bool {
    f.path.len() > 0 && !has_byte(f.path, 0x0a) && f.entries.len() > 0 && forall|j: int| 0 <= j < f.entries.len() ==> wf_entry(#[trigger] f.entries[j])
}
pub open spec fn wf_files(fs: Seq<FileV>) -> bool { forall|i: int| 0 <= i < fs.len() ==> wf_file(#[trigger] fs[i]) }
pub open spec fn entry_line(e: EntryV) -> Seq<u8> { seq![0x20u8, 0x20u8] + e.hash + seq![0x20u8] + fmt_ranges(e.ranges) }
pub open spec fn entry_lines(es: Seq<EntryV>) -> Seq<Seq<u8>> { Seq::new(es.len(), |j: int| entry_line(es[j])) }
pub open spec fn file_lines(f: FileV) -> Seq<Seq<u8>> { seq![path_line(f.path)] + entry_lines(f.entries) }
pub open spec fn att_lines(fs: Seq<FileV>, n: int) -> Seq<Seq<u8>>
    decreases n
{
    if n <= 0 { Seq::<Seq<u8>>::empty() } else { att_lines(fs, n - 1) + file_lines(fs[n - 1]) }
}

pub proof fn lemma_fold_concat(st: PState, a: Seq<Seq<u8>>, b: Seq<Seq<u8>>, n: int)
    requires 0 <= n <= b.len(),
    ensures fold_from(st, a + b, a.len() + n) == fold_from(fold_from(st, a, a.len() as int), b, n),
    decreases n
{
    if n == 0 {
        lemma_fold_prefix(st, a + b, a, a.len() as int);
    } else {
        lemma_fold_concat(st, a, b, n - 1);
        assert((a + b)[a.len() + n - 1] == b[n - 1]);
    }
}
/// the fold over the first n lines only looks at those lines
pub proof fn lemma_fold_prefix(st: PState, x: Seq<Seq<u8>>, y: Seq<Seq<u8>>, n: int)
    requires 0 <= n <= x.len(), n <= y.len(), forall|i: int| 0 <= i < n ==> x[i] == y[i],
    ensures fold_from(st, x, n) == fold_from(st, y, n),
    decreases n
{
    if n > 0 { lemma_fold_prefix(st, x, y, n - 1); }
}
/// an entry line of a well-formed entry adds exactly that entry (ranges sorted) to the file being filled
pub proof fn lemma_step_entry(st: PState, e: EntryV)
    requires !st.err, st.cur is Some, wf_entry(e),
    ensures step(st, entry_line(e)) == (PState { cur: Some(FileV { path: st.cur->Some_0.path, entries: st.cur->Some_0.entries.push(norm_entry(e)) }), ..st }),
{
    let h = e.hash; let srt = sorted_by_start(e.ranges); let rtxt = fmt_ranges(e.ranges);
    let l = entry_line(e);
    axiom_sorted(e.ranges);
    lemma_join_last(srt);
    assert(l.last() == rtxt.last());
    axiom_trim(l);
    assert(trimmed(l) =~= l);
    assert(l[0] == 0x20 && l[1] == 0x20);
    let body = l.subrange(2, l.len() as int);
    assert(body =~= h + seq![0x20u8] + rtxt);
    assert(body[h.len() as int] == 0x20);
    assert forall|j: int| 0 <= j < h.len() implies (#[trigger] body[j]) != 0x20 by { assert(body[j] == h[j]); }
    lemma_first_idx_at(body, 0x20, h.len() as int);
    assert(body.subrange(h.len() as int + 1, body.len() as int) =~= rtxt);
    assert(body.subrange(0, h.len() as int) =~= h);
    lemma_parse_fmt(srt);
}
/// a path line of a well-formed path closes the previous file and opens this one, with exactly that path
pub proof fn lemma_step_path(st: PState, p: Seq<u8>)
    requires !st.err, p.len() > 0, !has_byte(p, 0x0a),
    ensures step(st, path_line(p)) == (PState { done: flush(st.done, st.cur), cur: Some(FileV { path: p, entries: Seq::<EntryV>::empty() }), err: false }),
{
    let l = path_line(p);
    axiom_trim(l);
    if needs_q(p) {
        assert(l.last() == 0x22); assert(l[0] == 0x22);
        assert(trimmed(l) =~= l);
        assert(l.subrange(1, l.len() - 1) =~= p);
    } else {
        assert(trimmed(l) =~= l);
        assert(p[0] != 0x20);
        assert(p[0] != 0x22);
    }
}
pub proof fn lemma_fold_entries(st: PState, es: Seq<EntryV>, n: int)
    requires !st.err, st.cur is Some, 0 <= n <= es.len(), forall|j: int| 0 <= j < es.len() ==> wf_entry(#[trigger] es[j]),
    ensures fold_from(st, entry_lines(es), n) == (PState { cur: Some(FileV { path: st.cur->Some_0.path, entries: st.cur->Some_0.entries + norm_entries(es).subrange(0, n) }), ..st }),
    decreases n
{
    let f0 = st.cur->Some_0;
    if n == 0 {
        assert(f0.entries + norm_entries(es).subrange(0, 0) =~= f0.entries);
    } else {
        lemma_fold_entries(st, es, n - 1);
        let mid = fold_from(st, entry_lines(es), n - 1);
        assert(wf_entry(es[n - 1]));
        lemma_step_entry(mid, es[n - 1]);
        assert(entry_lines(es)[n - 1] == entry_line(es[n - 1]));
        assert((f0.entries + norm_entries(es).subrange(0, n - 1)).push(norm_entry(es[n - 1])) =~= f0.entries + norm_entries(es).subrange(0, n));
    }
}
pub proof fn lemma_fold_file(st: PState, f: FileV)
    requires !st.err, wf_file(f),
    ensures fold_from(st, file_lines(f), file_lines(f).len() as int) == (PState { done: flush(st.done, st.cur), cur: Some(norm_file(f)), err: false }),
{
    let a = seq![path_line(f.path)];
    let b = entry_lines(f.entries);
    lemma_fold_concat(st, a, b, b.len() as int);
    assert(fold_from(st, a, 1) == step(fold_from(st, a, 0), a[0]));
    lemma_step_path(st, f.path);
    let st1 = fold_from(st, a, 1);
    lemma_fold_entries(st1, f.entries, f.entries.len() as int);
    assert(Seq::<EntryV>::empty() + norm_entries(f.entries).subrange(0, f.entries.len() as int) =~= norm_entries(f.entries));
}
pub proof fn lemma_fold_files(fs: Seq<FileV>, n: int)
    requires wf_files(fs), 0 <= n <= fs.len(),
    ensures
        n == 0 ==> fold_lines(att_lines(fs, n), att_lines(fs, n).len() as int) == init_state(),
        n > 0 ==> fold_lines(att_lines(fs, n), att_lines(fs, n).len() as int) == (PState { done: norm(fs).subrange(0, n - 1), cur: Some(norm_file(fs[n - 1])), err: false }),
    decreases n
{
    if n > 0 {
        lemma_fold_files(fs, n - 1);
        let a = att_lines(fs, n - 1); let b = file_lines(fs[n - 1]);
        lemma_fold_concat(init_state(), a, b, b.len() as int);
        let st = fold_lines(a, a.len() as int);
        assert(wf_file(fs[n - 1]));
        lemma_fold_file(st, fs[n - 1]);
        if n == 1 {
            assert(flush(st.done, st.cur) =~= norm(fs).subrange(0, 0));
        } else {
            assert(wf_file(fs[n - 2]));
            assert(norm_file(fs[n - 2]).entries.len() > 0);
            assert(norm(fs).subrange(0, n - 2).push(norm_file(fs[n - 2])) =~= norm(fs).subrange(0, n - 1));
        }
    }
}
/// ROUND TRIP (attestation section): the lines the serializer writes for a well-formed attestation list parse back to the
/// same files, hashes and ranges (each entry's ranges in the serializer's sorted order)
pub proof fn theorem_section_roundtrip(fs: Seq<FileV>)
    requires wf_files(fs),
    ensures parse_section(att_lines(fs, fs.len() as int)) == Some(norm(fs)),
{
    let n = fs.len() as int;
    lemma_fold_files(fs, n);
    if n == 0 {
        assert(flush(init_state().done, init_state().cur) =~= norm(fs));
    } else {
        assert(wf_file(fs[n - 1]));
        assert(norm_file(fs[n - 1]).entries.len() > 0);
        assert(norm(fs).subrange(0, n - 1).push(norm_file(fs[n - 1])) =~= norm(fs));
    }
}

// ---------------------------------------------------------------- (3b) the round trip at the level of the note's bytes
/// the lines, each terminated by a newline
pub open spec fn term(ls: Seq<Seq<u8>>, n: int) -> Seq<u8>
    decreases n
{
    if n <= 0 { Seq::<u8>::empty() } else { term(ls, n - 1) + ls[n - 1] + seq![0x0au8] }
}
pub proof fn lemma_term_prefix(x: Seq<Seq<u8>>, y: Seq<Seq<u8>>, n: int)
    requires 0 <= n <= x.len(), n <= y.len(), forall|i: int| 0 <= i < n ==> x[i] == y[i],
    ensures term(x, n) == term(y, n),
    decreases n
{
    if n > 0 { lemma_term_prefix(x, y, n - 1); }
}
pub proof fn lemma_term_concat(a: Seq<Seq<u8>>, b: Seq<Seq<u8>>, n: int)
    requires 0 <= n <= b.len(),
    ensures term(a + b, a.len() + n) == term(a, a.len() as int) + term(b, n),
    decreases n
{
    if n == 0 {
        lemma_term_prefix(a + b, a, a.len() as int);
        assert(term(a, a.len() as int) + term(b, 0) =~= term(a, a.len() as int));
    } else {
        lemma_term_concat(a, b, n - 1);
        assert((a + b)[a.len() + n - 1] == b[n - 1]);
        assert(term(a + b, a.len() + n) =~= term(a, a.len() as int) + term(b, n));
    }
}
pub proof fn lemma_ser_entries_term(es: Seq<EntryV>, n: int)
    requires 0 <= n <= es.len(),
    ensures ser_entries(es, n) == term(entry_lines(es), n),
    decreases n
{
    if n > 0 {
        lemma_ser_entries_term(es, n - 1);
        assert(entry_lines(es)[n - 1] == entry_line(es[n - 1]));
        assert(ser_entry(es[n - 1]) =~= entry_line(es[n - 1]) + seq![0x0au8]);
        assert(ser_entries(es, n) =~= term(entry_lines(es), n));
    }
}
pub proof fn lemma_ser_files_term(fs: Seq<FileV>, n: int)
    requires 0 <= n <= fs.len(),
    ensures ser_files(fs, n) == term(att_lines(fs, n), att_lines(fs, n).len() as int),
    decreases n
{
    if n > 0 {
        lemma_ser_files_term(fs, n - 1);
        let f = fs[n - 1];
        let a = att_lines(fs, n - 1); let b = file_lines(f);
        lemma_term_concat(a, b, b.len() as int);
        let h = seq![path_line(f.path)]; let el = entry_lines(f.entries);
        lemma_term_concat(h, el, el.len() as int);
        lemma_ser_entries_term(f.entries, f.entries.len() as int);
        assert(term(h, 1) =~= path_line(f.path) + seq![0x0au8]) by { assert(term(h, 0) =~= Seq::<u8>::empty()); }
        assert(ser_file(f) =~= term(b, b.len() as int));
    }
}
pub open spec fn clean_line(l: Seq<u8>) -> bool { !has_byte(l, 0x0a) && !(l.len() > 0 && l.last() == 0x0d) }
pub open spec fn clean_lines(ls: Seq<Seq<u8>>) -> bool { forall|i: int| 0 <= i < ls.len() ==> clean_line(#[trigger] ls[i]) }
pub proof fn lemma_split_term(ls: Seq<Seq<u8>>, n: int)
    requires 0 <= n <= ls.len(), clean_lines(ls),
    ensures split_of(term(ls, n), 0x0a) == ls.subrange(0, n).push(Seq::<u8>::empty()),
    decreases n
{
    let e = Seq::<u8>::empty();
    if n == 0 {
        assert(split_of(e, 0x0a) =~= seq![e]);
        assert(ls.subrange(0, 0).push(e) =~= seq![e]);
    } else {
        lemma_split_term(ls, n - 1);
        let t0 = term(ls, n - 1); let l = ls[n - 1];
        assert(clean_line(l));
        lemma_split_append(t0, l, 0x0a);
        lemma_split_sep(t0 + l, 0x0a);
        assert(term(ls, n) =~= (t0 + l).push(0x0au8));
        let s0 = ls.subrange(0, n - 1).push(e);
        assert(s0.drop_last().push(s0.last() + l).push(e) =~= ls.subrange(0, n).push(e));
    }
}
/// when the first text ends a piece (its last piece is empty), splitting the concatenation is concatenating the splits
pub proof fn lemma_split_concat(a: Seq<u8>, j: Seq<u8>, c: u8)
    requires split_of(a, c).last().len() == 0,
    ensures split_of(a + j, c) == split_of(a, c).drop_last() + split_of(j, c),
    decreases j.len()
{
    lemma_split_nonempty(a, c); lemma_split_nonempty(j, c);
    let sa = split_of(a, c);
    if j.len() == 0 {
        assert(a + j =~= a);
        assert(split_of(j, c) =~= seq![Seq::<u8>::empty()]);
        assert(sa.last() =~= Seq::<u8>::empty());
        assert(sa.drop_last() + seq![Seq::<u8>::empty()] =~= sa);
    } else {
        let j0 = j.drop_last(); let x = j.last();
        lemma_split_concat(a, j0, c);
        lemma_split_nonempty(j0, c);
        assert((a + j).drop_last() =~= a + j0);
        let sj0 = split_of(j0, c);
        let pre = split_of(a + j0, c);
        if x == c {
            assert(pre.push(Seq::<u8>::empty()) =~= sa.drop_last() + sj0.push(Seq::<u8>::empty()));
        } else {
            assert(pre.drop_last() =~= sa.drop_last() + sj0.drop_last());
            assert(pre.last() == sj0.last());
            assert(pre.drop_last().push(pre.last().push(x)) =~= sa.drop_last() + sj0.drop_last().push(sj0.last().push(x)));
        }
    }
}
/// `lines()` of newline-terminated clean lines followed by more text: the lines, then the lines of the rest
pub proof fn lemma_lines_term(ls: Seq<Seq<u8>>, j: Seq<u8>)
    requires clean_lines(ls),
    ensures lines_of(term(ls, ls.len() as int) + j) == ls + lines_of(j),
{
    let n = ls.len() as int;
    let a = term(ls, n);
    lemma_split_term(ls, n);
    assert(ls.subrange(0, n) =~= ls);
    lemma_split_concat(a, j, 0x0a);
    lemma_split_nonempty(j, 0x0a);
    let sj = split_of(j, 0x0a);
    let ps = split_of(a + j, 0x0a);
    assert(ls.push(Seq::<u8>::empty()).drop_last() =~= ls);
    assert(ps =~= ls + sj);
    assert(ps.last() == sj.last());
    let head = Seq::new((ps.len() - 1) as nat, |i: int| strip_cr(ps[i]));
    let headj = Seq::new((sj.len() - 1) as nat, |i: int| strip_cr(sj[i]));
    assert(head =~= ls + headj) by {
        assert forall|i: int| 0 <= i < head.len() implies head[i] == (ls + headj)[i] by {
            if i < n { assert(ps[i] == ls[i]); assert(clean_line(ls[i])); } else { assert(ps[i] == sj[i - n]); }
        }
    }
    if sj.last().len() == 0 { assert(lines_of(a + j) =~= ls + lines_of(j)); } else { assert(head.push(ps.last()) =~= ls + headj.push(sj.last())); }
}
pub proof fn lemma_first_div_at(ls: Seq<Seq<u8>>, k: int)
    requires 0 <= k < ls.len(), ls[k] == divider(), forall|i: int| 0 <= i < k ==> (#[trigger] ls[i]) != divider(),
    ensures first_div(ls) == k,
{
    lemma_first_div(ls);
    let f = first_div(ls);
    if f > k { assert(ls[k] != divider()); }
    if f < k { assert(ls[f] != divider()); }
}
/// the text of a range list consists of digits, '-' and ','
pub open spec fn range_byte(b: u8) -> bool { (0x30 <= b <= 0x39) || b == 0x2d || b == 0x2c }
pub proof fn lemma_fmt_bytes(rs: Seq<LineRange>, n: int)
    requires 0 <= n <= rs.len(),
    ensures forall|i: int| 0 <= i < join_of(renders(rs).subrange(0, n), 0x2c).len() ==> range_byte(#[trigger] join_of(renders(rs).subrange(0, n), 0x2c)[i]),
    decreases n
{
    let ps = renders(rs).subrange(0, n);
    if n > 0 {
        lemma_fmt_bytes(rs, n - 1);
        let r = rs[n - 1];
        assert(ps.last() == render(r));
        assert(ps.drop_last() =~= renders(rs).subrange(0, n - 1));
        assert forall|i: int| 0 <= i < render(r).len() implies range_byte(#[trigger] render(r)[i]) by {
            match r {
                LineRange::Single(l) => { axiom_dec(l); }
                LineRange::Range(a, b) => { axiom_dec(a); axiom_dec(b); let da = dec(a); if i < da.len() { assert(render(r)[i] == da[i]); } else if i > da.len() { assert(render(r)[i] == dec(b)[i - da.len() - 1]); } }
            }
        }
        let jn = join_of(ps, 0x2c);
        if n == 1 { assert(jn == ps[0]); } else {
            let j0 = join_of(ps.drop_last(), 0x2c);
            assert(jn == j0 + seq![0x2cu8] + ps.last());
            assert forall|i: int| 0 <= i < jn.len() implies range_byte(#[trigger] jn[i]) by {
                if i < j0.len() { assert(jn[i] == j0[i]); } else if i > j0.len() { assert(jn[i] == render(r)[i - j0.len() - 1]); }
            }
        }
    }
}
/// every line the serializer writes for a well-formed list is a clean line and is not the divider
pub proof fn lemma_att_lines_clean(fs: Seq<FileV>, n: int)
    requires wf_files(fs), 0 <= n <= fs.len(),
    ensures clean_lines(att_lines(fs, n)), forall|i: int| 0 <= i < att_lines(fs, n).len() ==> (#[trigger] att_lines(fs, n)[i]) != divider(),
    decreases n
{
    if n > 0 {
        lemma_att_lines_clean(fs, n - 1);
        let f = fs[n - 1];
        assert(wf_file(f));
        let a = att_lines(fs, n - 1); let b = file_lines(f);
        assert forall|i: int| 0 <= i < b.len() implies clean_line(#[trigger] b[i]) && b[i] != divider() by {
            if i == 0 {
                let p = f.path; let l = path_line(p);
                assert(b[0] == l);
                if needs_q(p) {
                    assert(l[0] == 0x22); assert(divider()[0] == 0x2d);
                    assert(l.last() == 0x22);
                    if has_byte(l, 0x0a) { let q = choose|q: int| 0 <= q < l.len() && l[q] == 0x0a; assert(0 < q < l.len() - 1); assert(p[q - 1] == 0x0a); }
                } else {
                    axiom_trim(p);
                }
            } else {
                let e = f.entries[i - 1];
                assert(wf_entry(e));
                let l = entry_line(e);
                assert(b[i] == l);
                assert(l[0] == 0x20); assert(divider()[0] == 0x2d);
                let srt = sorted_by_start(e.ranges);
                axiom_sorted(e.ranges);
                lemma_join_last(srt);
                lemma_fmt_bytes(srt, srt.len() as int);
                assert(renders(srt).subrange(0, srt.len() as int) =~= renders(srt));
                let rtxt = fmt_ranges(e.ranges);
                assert(l.last() == rtxt.last());
                if has_byte(l, 0x0a) {
                    let q = choose|q: int| 0 <= q < l.len() && l[q] == 0x0a;
                    if q < 2 { } else if q < 2 + e.hash.len() { assert(l[q] == e.hash[q - 2]); } else if q == 2 + e.hash.len() { } else { assert(l[q] == rtxt[q - 3 - e.hash.len()]); assert(range_byte(rtxt[q - 3 - e.hash.len()])); }
                }
            }
        }
        let all = att_lines(fs, n);
        assert forall|i: int| 0 <= i < all.len() implies clean_line(#[trigger] all[i]) && all[i] != divider() by {
            if i < a.len() { assert(all[i] == a[i]); } else { assert(all[i] == b[i - a.len()]); }
        }
    }
}
/// ROUND TRIP (whole note): for a well-formed attestation list and ANY metadata text, what serialize_to_string writes is
/// accepted by deserialize_from_string exactly when serde accepts the re-joined metadata lines, and the attestations that
/// come back are the same files, hashes and ranges (ranges in the serializer's sorted order)
pub proof fn theorem_note_roundtrip(fs: Seq<FileV>, jt: Seq<u8>)
    requires wf_files(fs),
    ensures ({
        let out = ser_files(fs, fs.len() as int) + divider_line() + jt;
        let js = join_of(lines_of(jt), 0x0a);
        parse_note(out) == (if json_ok(js) { Some((norm(fs), json_val(js))) } else { None })
    }),
{
    let n = fs.len() as int;
    let al = att_lines(fs, n);
    let ls = al.push(divider());
    lemma_ser_files_term(fs, n);
    lemma_att_lines_clean(fs, n);
    assert(clean_lines(ls)) by {
        assert forall|i: int| 0 <= i < ls.len() implies clean_line(#[trigger] ls[i]) by {
            if i < al.len() { assert(ls[i] == al[i]); } else {
                let d = divider();
                assert(d.last() == 0x2d);
                if has_byte(d, 0x0a) { let q = choose|q: int| 0 <= q < d.len() && d[q] == 0x0a; assert(d[q] == 0x2d); }
            }
        }
    }
    lemma_term_concat(al, seq![divider()], 1);
    assert(al + seq![divider()] =~= ls);
    assert(term(seq![divider()], 1) =~= divider_line()) by { assert(term(seq![divider()], 0) =~= Seq::<u8>::empty()); }
    let out = ser_files(fs, n) + divider_line() + jt;
    assert(out =~= term(ls, ls.len() as int) + jt);
    lemma_lines_term(ls, jt);
    let all = lines_of(out);
    assert(all == ls + lines_of(jt));
    assert forall|i: int| 0 <= i < al.len() implies (#[trigger] all[i]) != divider() by { assert(all[i] == al[i]); }
    assert(all[al.len() as int] == divider());
    lemma_first_div_at(all, al.len() as int);
    assert(all.subrange(0, al.len() as int) =~= al);
    assert(all.subrange(al.len() as int + 1, all.len() as int) =~= lines_of(jt));
    theorem_section_roundtrip(fs);
}
/// the well-formedness premise is satisfiable (guards the two theorems against a vacuous premise)
pub proof fn lemma_wf_inhabited()
    ensures exists|fs: Seq<FileV>| wf_files(fs) && fs.len() == 1,
{
    let e = EntryV { hash: seq![0x61u8], ranges: seq![LineRange::Single(1)] };
    let f = FileV { path: seq![0x61u8], entries: seq![e] };
    let fs = seq![f];
    assert(!has_byte(e.hash, 0x20) && !has_byte(e.hash, 0x0a));
    assert(!has_byte(f.path, 0x0a));
    assert(wf_entry(e));
    assert(wf_file(f));
    assert(wf_files(fs) && fs.len() == 1);
}

} // verus!
fn main() {}
