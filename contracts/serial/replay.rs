// Replay driver for unit serial: the ORIGINAL serialize_to_string / deserialize_from_string / parse_attestation_section /
// parse_line_ranges / format_line_ranges / needs_quoting, compiled with plain rustc.  serde_json and AuthorshipMetadata are
// stand-ins (the metadata record is an opaque text that is "valid JSON" when it starts with '{').  Oracles are independent
// re-implementations: the expected text is assembled from the standard's grammar, the expected parse by a reference fold.
#![allow(dead_code, unused)]
use std::fmt;
#[derive(Debug, Clone, PartialEq, Eq, Default)]
pub struct AuthorshipMetadata { pub text: String }
mod serde_json {
    pub fn to_string_pretty(m: &super::AuthorshipMetadata) -> Result<String, ()> { Ok(m.text.clone()) }
    pub fn from_str(s: &str) -> Result<super::AuthorshipMetadata, std::fmt::Error> { if s.starts_with('{') { Ok(super::AuthorshipMetadata { text: s.to_string() }) } else { Err(std::fmt::Error) } }
}
include!("@ITEMS@");
use std::panic::{catch_unwind, AssertUnwindSafe};
struct Ctx { evaluated: u64, failed: std::collections::HashSet<String> }
impl Ctx {
    fn fail(&mut self, f: &str, clause: &str, input: String, observed: String, expected: String) {
        if self.failed.insert(format!("{}::{}", f, clause)) { println!("FAIL fn=[[{}]] clause=[[{}]] input=[[{}]] observed=[[{}]] expected=[[{}]]", f, clause, input, observed, expected); }
    }
}
fn guarded<T>(f: impl FnOnce() -> T) -> Result<T, String> {
    catch_unwind(AssertUnwindSafe(f)).map_err(|e| { let m = e.downcast_ref::<String>().cloned().or_else(|| e.downcast_ref::<&str>().map(|s| s.to_string())).unwrap_or_default(); format!("panic: {}", m) })
}
struct Rng(u64);
impl Rng { fn next(&mut self) -> u64 { self.0 ^= self.0 << 13; self.0 ^= self.0 >> 7; self.0 ^= self.0 << 17; self.0 } fn below(&mut self, n: u64) -> u64 { self.next() % n } }
fn esc(s: &str) -> String { s.chars().map(|c| if c.is_ascii_graphic() && !"\\|~;:#[]".contains(c) { c.to_string() } else { format!("\\u{{{:x}}}", c as u32) }).collect() }
fn unesc(s: &str) -> String {
    let mut out = String::new(); let mut it = s.chars().peekable();
    while let Some(c) = it.next() {
        if c == '\\' && it.peek() == Some(&'u') { it.next(); it.next(); let mut h = String::new(); while let Some(&d) = it.peek() { it.next(); if d == '}' { break; } h.push(d); } out.push(char::from_u32(u32::from_str_radix(&h, 16).unwrap()).unwrap()); }
        else { out.push(c); }
    }
    out
}

// ---------------------------------------------------------------- plain values and their encoding
type Entry = (String, Vec<LineRange>);
type File = (String, Vec<Entry>);
fn start_of(r: &LineRange) -> u32 { match r { LineRange::Single(l) => *l, LineRange::Range(s, _) => *s } }
fn rng_txt(r: &LineRange) -> String { match r { LineRange::Single(l) => format!("{}", l), LineRange::Range(a, b) => format!("{}-{}", a, b) } }
fn enc_files(fs: &[File]) -> String {
    fs.iter().map(|(p, es)| format!("{}~{}", esc(p), es.iter().map(|(h, rs)| format!("{}:{}", esc(h), rs.iter().map(rng_txt).collect::<Vec<_>>().join(","))).collect::<Vec<_>>().join(";"))).collect::<Vec<_>>().join("|")
}
fn dec_ranges(s: &str) -> Vec<LineRange> {
    s.split(',').filter(|p| !p.is_empty()).map(|p| match p.split_once('-') { Some((a, b)) => LineRange::Range(a.parse().unwrap(), b.parse().unwrap()), None => LineRange::Single(p.parse().unwrap()) }).collect()
}
fn dec_files(s: &str) -> Vec<File> {
    if s.is_empty() { return vec![]; }
    s.split('|').map(|f| { let (p, es) = f.split_once('~').unwrap(); (unesc(p), if es.is_empty() { vec![] } else { es.split(';').map(|e| { let (h, r) = e.split_once(':').unwrap(); (unesc(h), dec_ranges(r)) }).collect() }) }).collect()
}
fn to_log(fs: &[File], meta: &str) -> AuthorshipLog {
    AuthorshipLog { attestations: fs.iter().map(|(p, es)| FileAttestation { file_path: p.clone(), entries: es.iter().map(|(h, rs)| AttestationEntry { hash: h.clone(), line_ranges: rs.clone() }).collect() }).collect(), metadata: AuthorshipMetadata { text: meta.to_string() } }
}
fn of_atts(a: &[FileAttestation]) -> Vec<File> { a.iter().map(|f| (f.file_path.clone(), f.entries.iter().map(|e| (e.hash.clone(), e.line_ranges.clone())).collect())).collect() }
fn norm(fs: &[File]) -> Vec<File> { fs.iter().map(|(p, es)| (p.clone(), es.iter().map(|(h, rs)| { let mut r = rs.clone(); r.sort_by_key(start_of); (h.clone(), r) }).collect())).collect() }

// ---------------------------------------------------------------- oracle 1: the grammar of the standard
/// ASCII and Unicode White_Space, as trim_end sees it
fn ends_ws(p: &str) -> bool { p.chars().last().map(|c| c.is_whitespace()).unwrap_or(false) }
fn want_quoted(p: &str) -> bool { p.contains(' ') || p.contains('\t') || p.contains('\n') }
fn expected_text(fs: &[File], meta: &str, quote_more: bool) -> String {
    let mut out = String::new();
    for (p, es) in fs {
        let q = want_quoted(p) || (quote_more && (p.starts_with('"') || p == "---" || ends_ws(p)));
        if q { out.push('"'); out.push_str(p); out.push('"'); } else { out.push_str(p); }
        out.push('\n');
        for (h, rs) in es { let mut r = rs.clone(); r.sort_by_key(start_of); out.push_str("  "); out.push_str(h); out.push(' '); out.push_str(&r.iter().map(rng_txt).collect::<Vec<_>>().join(",")); out.push('\n'); }
    }
    out.push_str("---\n"); out.push_str(meta); out
}
// ---------------------------------------------------------------- oracle 2: a reference fold for the attestation section
fn ref_ranges(s: &str) -> Option<Vec<LineRange>> {
    let mut v = vec![];
    for part in s.split(',') {
        if part.is_empty() { continue; }
        match part.split_once('-') { Some((a, b)) => v.push(LineRange::Range(a.parse().ok()?, b.parse().ok()?)), None => v.push(LineRange::Single(part.parse().ok()?)) }
    }
    Some(v)
}
fn ref_section(lines: &[&str]) -> Option<Vec<File>> {
    let mut done: Vec<File> = vec![]; let mut cur: Option<File> = None;
    for raw in lines {
        let l = raw.trim_end();
        if l.is_empty() { continue; }
        if l.len() >= 2 && l.as_bytes()[0] == b' ' && l.as_bytes()[1] == b' ' {
            let e = &l[2..];
            let sp = e.find(' ')?;
            let rs = ref_ranges(&e[sp + 1..])?;
            match cur.as_mut() { Some(f) => f.1.push((e[..sp].to_string(), rs)), None => return None }
        } else {
            if let Some(f) = cur.take() { if !f.1.is_empty() { done.push(f); } }
            let b = l.as_bytes();
            let p = if b.len() >= 2 && b[0] == b'"' && b[b.len() - 1] == b'"' { &l[1..l.len() - 1] } else { l };
            cur = Some((p.to_string(), vec![]));
        }
    }
    if let Some(f) = cur { if !f.1.is_empty() { done.push(f); } }
    Some(done)
}

// ---------------------------------------------------------------- checks
fn chk_roundtrip(c: &mut Ctx, fs: &[File], meta: &str) {
    c.evaluated += 1;
    let input = format!("{}#{}", enc_files(fs), esc(meta));
    let log = to_log(fs, meta);
    let text = match guarded(|| log.serialize_to_string()) { Ok(Ok(t)) => t, Ok(Err(_)) => { c.fail("AuthorshipLog::serialize_to_string", "ensures#0", input, "Err".into(), "Ok".into()); return; } Err(p) => { c.fail("AuthorshipLog::serialize_to_string", "safety", input, p, "no panic".into()); return; } };
    // the grammar: either the standard's minimum quoting or the wider rule (paths that would not survive parsing unquoted)
    let (e1, e2) = (expected_text(fs, meta, true), expected_text(fs, meta, false));
    if text != e1 && text != e2 { c.fail("AuthorshipLog::serialize_to_string", "ensures#1", input.clone(), esc(&text), esc(&e1)); }
    let has_nl = fs.iter().any(|(p, _)| p.contains('\n'));
    let clause = if has_nl { "roundtrip_path_with_newline" } else { "roundtrip" };
    match guarded(|| AuthorshipLog::deserialize_from_string(&text).map_err(|e| e.to_string())) {
        Ok(Ok(back)) => {
            let got = of_atts(&back.attestations);
            if got != norm(fs) { c.fail("theorem_note_roundtrip", clause, input, format!("parsed back as {}", enc_files(&got)), format!("{}", enc_files(&norm(fs)))); }
            else if back.metadata.text != meta { c.fail("theorem_note_roundtrip", "roundtrip_metadata", input, esc(&back.metadata.text), esc(meta)); }
        }
        Ok(Err(e)) => c.fail("theorem_note_roundtrip", clause, input, format!("Err({})", e), "Ok: the same files, hashes and ranges".into()),
        Err(p) => c.fail("AuthorshipLog::deserialize_from_string", "safety", input, p, "no panic".into()),
    }
}
fn chk_text(c: &mut Ctx, text: &str) {
    c.evaluated += 1;
    let input = format!("TEXT#{}", esc(text));
    let lines: Vec<&str> = text.lines().collect();
    let div = lines.iter().position(|l| *l == "---");
    match guarded(|| AuthorshipLog::deserialize_from_string(text).map(|l| (of_atts(&l.attestations), l.metadata.text)).map_err(|e| e.to_string())) {
        Err(p) => c.fail("AuthorshipLog::deserialize_from_string", "safety", input, p, "no panic on arbitrary text".into()),
        Ok(r) => match div {
            None => if r.is_ok() { c.fail("AuthorshipLog::deserialize_from_string", "ensures#0", input, "Ok".into(), "Err: text without a divider line is rejected".into()); },
            Some(d) => {
                let want = ref_section(&lines[..d]).and_then(|fs| { let js = lines[d + 1..].join("\n"); if js.starts_with('{') { Some((fs, js)) } else { None } });
                match (r, want) {
                    (Ok(g), Some(w)) => if g != w { c.fail("AuthorshipLog::deserialize_from_string", "ensures#1", input, format!("{}#{}", enc_files(&g.0), esc(&g.1)), format!("{}#{}", enc_files(&w.0), esc(&w.1))); },
                    (Err(_), None) => {}
                    (Ok(g), None) => c.fail("AuthorshipLog::deserialize_from_string", "ensures#0", input, format!("Ok({})", enc_files(&g.0)), "Err".into()),
                    (Err(e), Some(w)) => c.fail("AuthorshipLog::deserialize_from_string", "ensures#0", input, format!("Err({})", e), format!("Ok({})", enc_files(&w.0))),
                }
            }
        },
    }
}
fn chk_section(c: &mut Ctx, lines: &[&str]) {
    c.evaluated += 1;
    let input = format!("LINES#{}", lines.iter().map(|l| esc(l)).collect::<Vec<_>>().join("|"));
    let want = ref_section(lines);
    let owned: Vec<String> = lines.iter().map(|s| s.to_string()).collect();
    match guarded(move || { let v: Vec<&str> = owned.iter().map(|s| s.as_str()).collect(); parse_attestation_section(&v).map(|a| of_atts(&a)).map_err(|e| e.to_string()) }) {
        Err(p) => c.fail("parse_attestation_section", "safety", input, p, "no panic on arbitrary lines".into()),
        Ok(Ok(g)) => match want { Some(w) => if g != w { c.fail("parse_attestation_section", "ensures#1", input, enc_files(&g), enc_files(&w)); }, None => c.fail("parse_attestation_section", "ensures#0", input, "Ok".into(), "Err".into()) },
        Ok(Err(e)) => if let Some(w) = want { c.fail("parse_attestation_section", "ensures#0", input, format!("Err({})", e), format!("Ok({})", enc_files(&w))); },
    }
}
fn chk_ranges(c: &mut Ctx, rs: &[LineRange]) {
    c.evaluated += 1;
    let input = format!("RANGES#{}", rs.iter().map(rng_txt).collect::<Vec<_>>().join(","));
    let v = rs.to_vec();
    match guarded(move || { let t = format_line_ranges(&v); (t.clone(), parse_line_ranges(&t).map_err(|e| e.to_string())) }) {
        Err(p) => c.fail("format_line_ranges", "safety", input, p, "no panic".into()),
        Ok((t, back)) => {
            let mut s = rs.to_vec(); s.sort_by_key(start_of);
            let want = s.iter().map(rng_txt).collect::<Vec<_>>().join(",");
            if t != want { c.fail("format_line_ranges", "ensures#0", input.clone(), t.clone(), want); }
            if back != Ok(s.clone()) { c.fail("parse_line_ranges", "ensures#1", input, format!("{:?}", back), format!("{:?}", s)); }
        }
    }
}
fn chk_ranges_text(c: &mut Ctx, t: &str) {
    c.evaluated += 1;
    let input = format!("RTEXT#{}", esc(t));
    let t2 = t.to_string();
    match guarded(move || parse_line_ranges(&t2).map_err(|e| e.to_string())) {
        Err(p) => c.fail("parse_line_ranges", "safety", input, p, "no panic on arbitrary text".into()),
        Ok(g) => { let w = ref_ranges(t); if g.clone().ok() != w { c.fail("parse_line_ranges", "ensures#0", input, format!("{:?}", g), format!("{:?}", w)); } }
    }
}

// ---------------------------------------------------------------- generators
const PATHS: &[&str] = &["src/main.rs", "a b.txt", "tab\tname", "ünï/ça.rs", "-dash", " lead", "\"", "\"\"", "\"quoted\"", "q\"x", "---", "--- ", "trail\u{a0}", "trail\r", "trail\u{2003}", "\u{a0}lead", "x", "  two", "日本語.txt", "a\u{b}", "\"open", "close\""];
const BAD_PATHS: &[&str] = &["nl\nname", "a\n---\nb"];
const HASHES: &[&str] = &["d9978a8723e02b52", "abc", "h-1", "ü", "a\"b"];
fn range_sets() -> Vec<Vec<LineRange>> {
    use LineRange::*;
    vec![vec![Single(1)], vec![Range(1, 4)], vec![Single(7), Range(1, 3)], vec![Range(19, 222), Single(2), Single(1)], vec![Single(u32::MAX), Single(0)], vec![Range(5, 5), Single(5)], vec![Single(3), Single(3)], vec![Range(10, 2)]]
}
const LINE_SHAPES: &[&str] = &["src/a.rs", "\"a b.rs\"", "\"", "\"\"", "  h1 1,2-3", "  h2 7", "  bad", "  h 1-", "  h -1", "  h 1,,2", "", "   ", "  ", "---", "--- ", " ---", "{\"k\":1}", "{", "x\r", "ü  ", "  ü 4", "\u{a0}", "  h 99999999999", "  h 1-2-3", "\t", "  \"q\" 1"];
const RANGE_TEXTS: &[&str] = &["", "1", "1,2", "1-2", "-", "1-", "-1", ",", ",,", "1,,2", "a", "1-2-3", "ü", "1-ü", "ü-1", " 1", "1 ", "4294967295", "4294967296", "0-0", "-ü-", "１", "1,\u{a0}"];
fn gen_file(g: &mut Rng, bad: bool) -> File {
    let p = if bad && g.below(3) == 0 { BAD_PATHS[g.below(BAD_PATHS.len() as u64) as usize] } else { PATHS[g.below(PATHS.len() as u64) as usize] };
    let rs = range_sets();
    let n = 1 + g.below(3) as usize;
    (p.to_string(), (0..n).map(|_| (HASHES[g.below(HASHES.len() as u64) as usize].to_string(), rs[g.below(rs.len() as u64) as usize].clone())).collect())
}
const METAS: &[&str] = &["{}", "{\n  \"schema_version\": \"authorship/3.0.0\",\n  \"prompts\": {}\n}", "{\"a\":\"---\"}", "{\n\"x\": 1,\n\n\"y\": \"  z\"\n}"];

fn search(c: &mut Ctx, only: &str, seed: u64) {
    let all = only == "*";
    let want = |f: &str| all || f.ends_with(only) || only.ends_with(f);
    if want("format_line_ranges") || want("parse_line_ranges") {
        for rs in range_sets() { chk_ranges(c, &rs); }
        chk_ranges(c, &[]);
        for t in RANGE_TEXTS { chk_ranges_text(c, t); }
    }
    if want("parse_attestation_section") || want("AuthorshipLog::deserialize_from_string") {
        let n = LINE_SHAPES.len();
        for a in 0..n { chk_section(c, &[LINE_SHAPES[a]]); for b in 0..n { chk_section(c, &[LINE_SHAPES[a], LINE_SHAPES[b]]); } }
        for a in 0..n { for b in 0..n { let t = format!("{}\n{}", LINE_SHAPES[a], LINE_SHAPES[b]); chk_text(c, &t); chk_text(c, &format!("{}\n", t)); chk_text(c, &format!("{}\r\n---\n{{}}", t)); } }
        let mut g = Rng(seed.wrapping_mul(0x9E3779B97F4A7C15) | 1);
        for _ in 0..3000 { let k = g.below(7) as usize; let ls: Vec<&str> = (0..k).map(|_| LINE_SHAPES[g.below(n as u64) as usize]).collect(); chk_section(c, &ls); chk_text(c, &ls.join(if g.below(4) == 0 { "\r\n" } else { "\n" })); }
    }
    if want("AuthorshipLog::serialize_to_string") || want("theorem_note_roundtrip") || want("needs_quoting") || want("AuthorshipLog::deserialize_from_string") {
        let rs = range_sets();
        for p in PATHS { for h in HASHES { chk_roundtrip(c, &[(p.to_string(), vec![(h.to_string(), rs[2].clone())])], METAS[1]); } }
        for p in PATHS { for q in PATHS { chk_roundtrip(c, &[(p.to_string(), vec![("abc".into(), rs[0].clone())]), (q.to_string(), vec![("d9978a8723e02b52".into(), rs[3].clone()), ("abc".into(), rs[1].clone())])], METAS[0]); } }
        for p in BAD_PATHS { chk_roundtrip(c, &[(p.to_string(), vec![("abc".into(), rs[0].clone())])], METAS[0]); }
        chk_roundtrip(c, &[], METAS[1]);
        let mut g = Rng(seed.wrapping_mul(0xD1B54A32D192ED03) | 1);
        for _ in 0..3000 { let k = g.below(4) as usize; let bad = g.below(8) == 0; let fs: Vec<File> = (0..k).map(|_| gen_file(&mut g, bad)).collect(); chk_roundtrip(c, &fs, METAS[g.below(METAS.len() as u64) as usize]); }
    }
}
fn replay(c: &mut Ctx, input: &str) {
    if let Some(t) = input.strip_prefix("TEXT#") { chk_text(c, &unesc(t)); }
    else if let Some(t) = input.strip_prefix("LINES#") { let ls: Vec<String> = if t.is_empty() { vec![] } else { t.split('|').map(unesc).collect() }; let v: Vec<&str> = ls.iter().map(|s| s.as_str()).collect(); chk_section(c, &v); }
    else if let Some(t) = input.strip_prefix("RANGES#") { chk_ranges(c, &dec_ranges(t)); }
    else if let Some(t) = input.strip_prefix("RTEXT#") { chk_ranges_text(c, &unesc(t)); }
    else { let (f, m) = input.rsplit_once('#').unwrap(); chk_roundtrip(c, &dec_files(f), &unesc(m)); }
}
fn main() {
    std::panic::set_hook(Box::new(|_| {}));
    let a: Vec<String> = std::env::args().collect();
    let mut c = Ctx { evaluated: 0, failed: Default::default() };
    match a[1].as_str() {
        "search" => search(&mut c, &a[2], a[3].parse().unwrap_or(1)),
        "replay" => replay(&mut c, &a[3]),
        _ => {}
    }
    println!("DONE evaluated={}", c.evaluated);
}
