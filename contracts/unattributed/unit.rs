// Unit unattributed — property C16: attribute_unattributed_ranges, the public entry point that gives every character no
// prior attribution covers to one author.  Proved: it never panics, leaves the prior attributions untouched, and appends
// forward, in-bounds, char-boundary ranges by that author which cover exactly the uncovered characters.
use vstd::prelude::*;
use vstd::utf8::*;
use vstd::string::StringSliceAdditionalSpecFns;
use vstd::std_specs::iter::IteratorSpec;
verus! {

//#include ../_shared/str_axioms.inc.rs
//#include ../_shared/attr_specs.inc.rs
//#use-contract tracker_geom ../_shared/attribution.inc.rs

#[verifier::external_body] pub struct AttributionConfig { _o: () }
//#item file=src/authorship/attribution_tracker.rs kind=struct name=AttributionTracker
pub struct AttributionTracker {
    config: AttributionConfig,
}
//#end

/// `[s, e)` meets attribution a (what Attribution::overlaps computes)
pub open spec fn ov(a: Attribution, s: int, e: int) -> bool { a.start < e && a.end > s }
pub open spec fn any_ov(v: Seq<Attribution>, s: int, e: int) -> bool { exists|j: int| 0 <= j < v.len() && ov(#[trigger] v[j], s, e) }
/// the characters of the text: (byte offset, char) in order.  ASSUMED of str::char_indices / char::len_utf8 (documented
/// behaviour): offsets are char boundaries, the first is 0, each next offset is offset + len_utf8, the last cell ends at len
pub uninterp spec fn char_idx(bytes: Seq<u8>) -> Seq<(usize, char)>;
pub uninterp spec fn utf8_len(c: char) -> int;
pub open spec fn cell_end(v: Seq<(usize, char)>, k: int) -> int { v[k].0 + utf8_len(v[k].1) }
pub open spec fn cells_ok(v: Seq<(usize, char)>, bytes: Seq<u8>) -> bool {
    &&& forall|k: int| 0 <= k < v.len() ==> is_char_boundary(bytes, (#[trigger] v[k]).0 as int) && 1 <= utf8_len(v[k].1) <= 4 && cell_end(v, k) <= bytes.len()
    &&& forall|k: int, m: int| 0 <= k && m == k + 1 && m < v.len() ==> cell_end(v, k) == (#[trigger] v[m]).0 && (#[trigger] v[k]).0 < v[m].0
    &&& v.len() > 0 ==> v[0].0 == 0 && cell_end(v, v.len() - 1) == bytes.len()
    &&& v.len() == 0 ==> bytes.len() == 0
}
#[verifier::external_body]
fn opq_char_indices(s: &str) -> (r: Vec<(usize, char)>)
    ensures r@ == char_idx(s.spec_bytes()), cells_ok(r@, s.spec_bytes()),
{ unimplemented!() }
#[verifier::external_body]
fn opq_len_utf8(c: char) -> (r: usize)
    ensures r as int == utf8_len(c),
{ unimplemented!() }
/// O1 stubs: `prev.to_vec()` copies the attributions; `.iter().any(|a| a.overlaps(idx, end))` is any_ov; `author.to_string()`
#[verifier::external_body]
fn opq_attrs_to_vec(s: &[Attribution]) -> (r: Vec<Attribution>)
    ensures r@ =~= s@,
{ unimplemented!() }
#[verifier::external_body]
fn opq_any_overlaps(v: &Vec<Attribution>, s: usize, e: usize) -> (r: bool)
    ensures r == any_ov(v@, s as int, e as int),
{ unimplemented!() }
#[verifier::external_body]
fn opq_author(s: &str) -> (r: String)
    ensures r@ == s@,
{ unimplemented!() }

/// character cell c is covered by one of the appended ranges app
pub open spec fn in_app(app: Seq<Attribution>, v: Seq<(usize, char)>, c: int) -> bool {
    exists|m: int| 0 <= m < app.len() && (#[trigger] app[m]).start <= v[c].0 && cell_end(v, c) <= app[m].end
}
/// every appended range is a forward range by the given author that ends at or before `lim`
pub open spec fn app_ok(app: Seq<Attribution>, author: Seq<char>, ts: u128, lim: int, bytes: Seq<u8>) -> bool {
    forall|m: int| 0 <= m < app.len() ==> (#[trigger] app[m]).start < app[m].end && app[m].end <= lim && app[m].author_id@ == author && app[m].ts == ts
        && is_char_boundary(bytes, app[m].start as int) && is_char_boundary(bytes, app[m].end as int)
}
/// after the first k cells: an uncovered cell is inside an appended range or in the pending run starting at rs
pub open spec fn au_inv(v: Seq<(usize, char)>, prev: Seq<Attribution>, app: Seq<Attribution>, k: int, rs: Option<usize>) -> bool {
    &&& forall|c: int| 0 <= c < k ==> (!any_ov(prev, (#[trigger] v[c]).0 as int, cell_end(v, c)) <==> (in_app(app, v, c) || (rs is Some && rs.unwrap() <= v[c].0)))
    &&& rs is Some ==> (exists|c0: int| 0 <= c0 < k && (#[trigger] v[c0]).0 == rs.unwrap())
}

proof fn lemma_cells_mono(v: Seq<(usize, char)>, bytes: Seq<u8>, c: int, d: int)
    requires cells_ok(v, bytes), 0 <= c < d < v.len(),
    ensures cell_end(v, c) <= v[d].0, v[c].0 < v[d].0,
    decreases d - c
{
    if c + 1 < d { lemma_cells_mono(v, bytes, c, d - 1); assert(cell_end(v, d - 1) == v[d].0); assert(v[d - 1].0 < v[d].0); }
    else { assert(cell_end(v, c) == v[c + 1].0); }
}
/// the appended ranges end at or before s, so they do not meet [s, e): asking the whole vector is asking the prior ones
proof fn lemma_any_split(prev: Seq<Attribution>, app: Seq<Attribution>, all: Seq<Attribution>, s: int, e: int)
    requires all.len() >= prev.len(), all.subrange(0, prev.len() as int) =~= prev, app =~= all.subrange(prev.len() as int, all.len() as int),
             forall|m: int| 0 <= m < app.len() ==> (#[trigger] app[m]).end <= s,
    ensures any_ov(all, s, e) == any_ov(prev, s, e),
{
    if any_ov(all, s, e) {
        let j = choose|j: int| 0 <= j < all.len() && ov(#[trigger] all[j], s, e);
        if j < prev.len() { assert(all.subrange(0, prev.len() as int)[j] == all[j]); assert(ov(prev[j], s, e)); }
        else { assert(app[j - prev.len()] == all[j]); assert(false); }
    }
    if any_ov(prev, s, e) {
        let j = choose|j: int| 0 <= j < prev.len() && ov(#[trigger] prev[j], s, e);
        assert(all.subrange(0, prev.len() as int)[j] == all[j]); assert(ov(all[j], s, e));
    }
}
pub open spec fn lim_at(v: Seq<(usize, char)>, k: int, bytes: Seq<u8>) -> int { if 0 <= k < v.len() { v[k].0 as int } else { bytes.len() as int } }
/// pushing the pending run [s, e) makes exactly the cells inside it covered
proof fn lemma_in_app_push(app: Seq<Attribution>, x: Attribution, v: Seq<(usize, char)>, c: int)
    ensures in_app(app.push(x), v, c) <==> (in_app(app, v, c) || (x.start <= v[c].0 && cell_end(v, c) <= x.end)),
{
    let a2 = app.push(x);
    if in_app(a2, v, c) {
        let m = choose|m: int| 0 <= m < a2.len() && (#[trigger] a2[m]).start <= v[c].0 && cell_end(v, c) <= a2[m].end;
        if m < app.len() { assert(a2[m] == app[m]); assert(app[m].start <= v[c].0 && cell_end(v, c) <= app[m].end); } else { assert(a2[m] == x); }
    }
    if in_app(app, v, c) {
        let m = choose|m: int| 0 <= m < app.len() && (#[trigger] app[m]).start <= v[c].0 && cell_end(v, c) <= app[m].end;
        assert(a2[m] == app[m]); assert(a2[m].start <= v[c].0 && cell_end(v, c) <= a2[m].end);
    }
    if x.start <= v[c].0 && cell_end(v, c) <= x.end { assert(a2[app.len() as int] == x); assert(a2[app.len() as int].start <= v[c].0 && cell_end(v, c) <= a2[app.len() as int].end); }
}
/// one step of the scan
proof fn lemma_au_step(v: Seq<(usize, char)>, prev: Seq<Attribution>, app0: Seq<Attribution>, app1: Seq<Attribution>, k: int, rs0: Option<usize>, rs1: Option<usize>, covered: bool, author: Seq<char>, ts: u128, bytes: Seq<u8>)
    requires
        cells_ok(v, bytes), 0 <= k < v.len(), au_inv(v, prev, app0, k, rs0), app_ok(app0, author, ts, v[k].0 as int, bytes),
        covered == any_ov(prev, v[k].0 as int, cell_end(v, k)),
        rs0 is Some ==> is_char_boundary(bytes, rs0.unwrap() as int) && rs0.unwrap() < v[k].0,
        // what the loop body did
        covered ==> rs1 is None && (match rs0 {
            Some(s) => app1.len() == app0.len() + 1 && app1 =~= app0.push(app1[app0.len() as int]) && app1[app0.len() as int].start == s && app1[app0.len() as int].end == v[k].0
                       && app1[app0.len() as int].author_id@ == author && app1[app0.len() as int].ts == ts,
            None => app1 =~= app0 }),
        !covered ==> app1 =~= app0 && rs1 == (if rs0 is None { Some(v[k].0) } else { rs0 }),
    ensures
        au_inv(v, prev, app1, k + 1, rs1), app_ok(app1, author, ts, lim_at(v, k + 1, bytes), bytes),
        rs1 is Some ==> is_char_boundary(bytes, rs1.unwrap() as int) && rs1.unwrap() < lim_at(v, k + 1, bytes),
{
    if k + 1 < v.len() { lemma_cells_mono(v, bytes, k, k + 1); }
    assert(v[k].0 < cell_end(v, k) <= lim_at(v, k + 1, bytes));
    assert forall|c: int| 0 <= c < k + 1 implies (!any_ov(prev, (#[trigger] v[c]).0 as int, cell_end(v, c)) <==> (in_app(app1, v, c) || (rs1 is Some && rs1.unwrap() <= v[c].0))) by {
        if c < k { lemma_cells_mono(v, bytes, c, k); }
        if covered && rs0 is Some { lemma_in_app_push(app0, app1[app0.len() as int], v, c); }
        // no appended range reaches into cell k
        if c == k && in_app(app0, v, c) { let m = choose|m: int| 0 <= m < app0.len() && (#[trigger] app0[m]).start <= v[c].0 && cell_end(v, c) <= app0[m].end; assert(app0[m].end <= v[k].0); }
    }
    if rs1 is Some {
        if rs0 is Some { let c0 = choose|c0: int| 0 <= c0 < k && (#[trigger] v[c0]).0 == rs0.unwrap(); assert(0 <= c0 < k + 1 && v[c0].0 == rs1.unwrap()); }
        else { assert(0 <= k < k + 1 && v[k].0 == rs1.unwrap()); }
    }
    assert forall|m: int| 0 <= m < app1.len() implies (#[trigger] app1[m]).start < app1[m].end && app1[m].end <= lim_at(v, k + 1, bytes) && app1[m].author_id@ == author && app1[m].ts == ts
        && is_char_boundary(bytes, app1[m].start as int) && is_char_boundary(bytes, app1[m].end as int) by {
        if m < app0.len() { assert(app1[m] == app0[m]); }
    }
}
/// after the last cell: the pending run, if any, reaches the end of the text
proof fn lemma_au_final(v: Seq<(usize, char)>, prev: Seq<Attribution>, app1: Seq<Attribution>, app2: Seq<Attribution>, rs1: Option<usize>, author: Seq<char>, ts: u128, bytes: Seq<u8>)
    requires
        cells_ok(v, bytes), au_inv(v, prev, app1, v.len() as int, rs1), app_ok(app1, author, ts, bytes.len() as int, bytes), is_char_boundary(bytes, bytes.len() as int),
        rs1 is Some ==> is_char_boundary(bytes, rs1.unwrap() as int) && rs1.unwrap() < bytes.len(),
        match rs1 {
            Some(s) => app2.len() == app1.len() + 1 && app2 =~= app1.push(app2[app1.len() as int]) && app2[app1.len() as int].start == s && app2[app1.len() as int].end == bytes.len()
                       && app2[app1.len() as int].author_id@ == author && app2[app1.len() as int].ts == ts,
            None => app2 =~= app1 },
    ensures
        app_ok(app2, author, ts, bytes.len() as int, bytes),
        forall|c: int| 0 <= c < v.len() ==> (!any_ov(prev, (#[trigger] v[c]).0 as int, cell_end(v, c)) <==> in_app(app2, v, c)),
{
    assert forall|c: int| 0 <= c < v.len() implies (!any_ov(prev, (#[trigger] v[c]).0 as int, cell_end(v, c)) <==> in_app(app2, v, c)) by {
        if rs1 is Some { lemma_in_app_push(app1, app2[app1.len() as int], v, c); }
    }
    assert forall|m: int| 0 <= m < app2.len() implies (#[trigger] app2[m]).start < app2[m].end && app2[m].end <= bytes.len() && app2[m].author_id@ == author && app2[m].ts == ts
        && is_char_boundary(bytes, app2[m].start as int) && is_char_boundary(bytes, app2[m].end as int) by {
        if m < app1.len() { assert(app2[m] == app1[m]); }
    }
}

impl AttributionTracker {
//#item file=src/authorship/attribution_tracker.rs kind=fn name=attribute_unattributed_ranges impl="AttributionTracker" opaque='[{"expr": "prev_attributions.to_vec()", "call": "opq_attrs_to_vec(prev_attributions)"}, {"expr": "content.char_indices()", "call": "opq_char_indices(content)"}, {"expr": "ch.len_utf8()", "call": "opq_len_utf8(ch)"}, {"expr": "attributions.iter().any(|a| a.overlaps(idx, end))", "call": "opq_any_overlaps(&attributions, idx, end)"}, {"expr": "author.to_string()", "call": "opq_author(author)"}]'
    pub fn attribute_unattributed_ranges(
        &self,
        content: &str,
        prev_attributions: &[Attribution],
        author: &str,
        ts: u128,
    ) -> (r_: Vec<Attribution>)
    //@     requires content.spec_bytes().len() < usize::MAX,
    //@     ensures
    //@         // the prior attributions are kept as they are, in order
    //@         r_@.len() >= prev_attributions@.len(), r_@.subrange(0, prev_attributions@.len() as int) =~= prev_attributions@,
    //@         // what is appended: forward ranges inside the text on char boundaries, all by `author` with timestamp `ts`
    //@         app_ok(r_@.subrange(prev_attributions@.len() as int, r_@.len() as int), author@, ts, content.spec_bytes().len() as int, content.spec_bytes()),
    //@         // and they cover exactly the characters no prior attribution covers
    //@         forall|c: int| 0 <= c < char_idx(content.spec_bytes()).len() ==>
    //@             (!any_ov(prev_attributions@, (#[trigger] char_idx(content.spec_bytes())[c]).0 as int, cell_end(char_idx(content.spec_bytes()), c))
    //@              <==> in_app(r_@.subrange(prev_attributions@.len() as int, r_@.len() as int), char_idx(content.spec_bytes()), c)),
    {
        let mut attributions = opq_attrs_to_vec(prev_attributions);
        let mut range_start: Option<usize> = None;
        //@ let ghost bytes = content.spec_bytes(); let ghost prev = prev_attributions@; let ghost np = prev.len() as int; let ghost v = char_idx(bytes);
        //@ proof { encode_utf8_valid_utf8(content@); is_char_boundary_start_end_of_seq(bytes); assert(attributions@.subrange(np, np) =~= Seq::<Attribution>::empty()); }

        // Find all unattributed character ranges on UTF-8 boundaries.
        for (idx, ch) in it_0: opq_char_indices(content)
        //@     invariant
        //@         bytes == content.spec_bytes(), prev == prev_attributions@, np == prev.len(), v == char_idx(bytes), it_0.snapshot@.remaining() == v, cells_ok(v, bytes),
        //@         bytes.len() < usize::MAX, is_char_boundary(bytes, bytes.len() as int),
        //@         attributions@.len() >= np, attributions@.subrange(0, np) =~= prev,
        //@         app_ok(attributions@.subrange(np, attributions@.len() as int), author@, ts, lim_at(v, it_0.index@, bytes), bytes),
        //@         au_inv(v, prev, attributions@.subrange(np, attributions@.len() as int), it_0.index@, range_start),
        //@         range_start is Some ==> is_char_boundary(bytes, range_start.unwrap() as int) && range_start.unwrap() < lim_at(v, it_0.index@, bytes),
        {
            //@ let ghost k = it_0.index@; let ghost a0 = attributions@; let ghost app0 = a0.subrange(np, a0.len() as int); let ghost rs0 = range_start;
            //@ proof { assert((idx, ch) == v[k]); if k + 1 < v.len() { assert(cell_end(v, k) == v[k + 1].0); } }
            let end = idx + opq_len_utf8(ch);
            let covered = opq_any_overlaps(&attributions, idx, end);
            //@ proof { lemma_any_split(prev, app0, a0, idx as int, end as int); }

            if covered {
                if let Some(start) = range_start.take() { if start < idx {
                    attributions.push(Attribution::new(start, idx, opq_author(author), ts));
                } }
            } else if range_start.is_none() {
                range_start = Some(idx);
            }
            //@ proof { lemma_au_step(v, prev, app0, attributions@.subrange(np, attributions@.len() as int), k, rs0, range_start, covered, author@, ts, bytes); }
        }

        //@ let ghost a1 = attributions@; let ghost app1 = a1.subrange(np, a1.len() as int); let ghost rs1 = range_start;
        if let Some(start) = range_start.take() { if start < content.len() {
            attributions.push(Attribution::new(
                start,
                content.len(),
                opq_author(author),
                ts,
            ));
        } }
        //@ proof { lemma_au_final(v, prev, app1, attributions@.subrange(np, attributions@.len() as int), rs1, author@, ts, bytes); }

        attributions
    }
//#end
}

} // verus!
fn main() {}
