// Replay driver for unit unattributed: the ORIGINAL attribute_unattributed_ranges.
#![allow(dead_code, unused)]
#[derive(Clone, Default)] pub struct AttributionConfig { pub _opaque: () }
include!("@ITEMS@");
use std::panic::{catch_unwind, AssertUnwindSafe};
struct Ctx { evaluated: u64, failed: std::collections::HashSet<String> }
impl Ctx {
    fn fail(&mut self, f: &str, clause: &str, input: String, observed: String, expected: String) {
        if self.failed.insert(format!("{}::{}", f, clause)) { println!("FAIL fn=[[{}]] clause=[[{}]] input=[[{}]] observed=[[{}]] expected=[[{}]]", f, clause, input, observed, expected); }
    }
}
fn guarded<T>(f: impl FnOnce() -> T) -> Result<T, String> {
    catch_unwind(AssertUnwindSafe(f)).map_err(|e| { let m = e.downcast_ref::<String>().cloned().or_else(|| e.downcast_ref::<&str>().map(|s| s.to_string())).unwrap_or_default(); format!("panic: {}", m) })
}
struct Rng(u64);
impl Rng { fn next(&mut self) -> u64 { self.0 ^= self.0 << 13; self.0 ^= self.0 >> 7; self.0 ^= self.0 << 17; self.0 } fn below(&mut self, n: u64) -> u64 { self.next() % n } }
const FN: &str = "AttributionTracker::attribute_unattributed_ranges";
// input: <text with \n written as \\n>;start-end start-end ..
fn chk(c: &mut Ctx, text: &str, prev: &[(usize, usize)]) {
    c.evaluated += 1;
    let input = format!("{};{}", text.replace('\n', "\\n"), prev.iter().map(|p| format!("{}-{}", p.0, p.1)).collect::<Vec<_>>().join(" "));
    let pv: Vec<Attribution> = prev.iter().enumerate().map(|(i, p)| Attribution::new(p.0, p.1, format!("a{}", i), 7)).collect();
    let t = AttributionTracker { config: AttributionConfig::default() };
    match guarded(|| t.attribute_unattributed_ranges(text, &pv, "me", 9)) {
        Ok(r) => {
            let show = r.iter().map(|a| format!("{}-{}:{}", a.start, a.end, a.author_id)).collect::<Vec<_>>().join(" ");
            if r.len() < pv.len() || r[..pv.len()] != pv[..] { c.fail(FN, "ensures#1", input.clone(), show.clone(), "prior attributions kept in place".into()); return; }
            let app = &r[pv.len()..];
            for a in app { if !(a.start < a.end && a.end <= text.len() && text.is_char_boundary(a.start) && text.is_char_boundary(a.end) && a.author_id == "me" && a.ts == 9) { c.fail(FN, "ensures#2", input.clone(), show.clone(), "appended ranges: forward, inside the text, on char boundaries, by the author".into()); return; } }
            for (i, ch) in text.char_indices() { let e = i + ch.len_utf8();
                let covered = pv.iter().any(|a| a.start < e && a.end > i);
                let inapp = app.iter().any(|a| a.start <= i && e <= a.end);
                if covered == inapp { c.fail(FN, "ensures#3", input.clone(), format!("{} (char at {} {})", show, i, if covered { "covered twice" } else { "left without attribution" }), "exactly the uncovered characters".into()); return; } }
        }
        Err(p) => c.fail(FN, "safety", input, p, "no panic".into()),
    }
}
fn main() {
    std::panic::set_hook(Box::new(|_| {}));
    let a: Vec<String> = std::env::args().collect();
    let mut c = Ctx { evaluated: 0, failed: Default::default() };
    if a[1] == "search" {
        let texts = ["", "a", "ab\ncd", "é", "aé\nü", "x\n", "\n\n", "ab é"];
        for t in texts { let n = t.len() + 2;
            chk(&mut c, t, &[]);
            for s in 0..n { for e in s..n { chk(&mut c, t, &[(s, e)]); for s2 in 0..n { for e2 in s2..n { chk(&mut c, t, &[(s, e), (s2, e2)]); } } } } }
        let mut g = Rng(a[3].parse::<u64>().unwrap_or(0).wrapping_mul(0x9E3779B97F4A7C15) ^ 0xB5026F5AA96619E9);
        let al = ["a", "b", " ", "\n", "é", "ü", "("];
        for _ in 0..20000 { let t: String = (0..g.below(12)).map(|_| al[g.below(7) as usize]).collect(); let m = t.len() as u64 + 3; let pv: Vec<(usize, usize)> = (0..g.below(4)).map(|_| { let x = g.below(m) as usize; let y = g.below(m) as usize; (x.min(y), x.max(y)) }).collect(); chk(&mut c, &t, &pv); }
    } else {
        let (t, rest) = a[3].split_once(';').unwrap();
        let pv: Vec<(usize, usize)> = rest.split_whitespace().map(|p| { let q: Vec<usize> = p.split('-').map(|x| x.parse().unwrap()).collect(); (q[0], q[1]) }).collect();
        chk(&mut c, &t.replace("\\n", "\n"), &pv);
    }
    println!("DONE evaluated={}", c.evaluated);
}
