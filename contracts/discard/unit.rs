// Unit discard — property C03, the mechanism "discarding pending attribution when the work is discarded" (path checkout):
// matches_any_pathspec decides which files lose their pending attribution on `git checkout <rev> -- <pathspec>..`.
// Its body is ONE iterator expression (`.iter().any(closure)` over str predicates), which is outside the Verus subset and is
// abstracted whole by rule O1: the proof below only ties the function to the specification `spec_matches`; the evidence for
// the expression itself is the BOUNDED replay sweep (original function against an independent matcher).
use vstd::prelude::*;
use vstd::string::StringSliceAdditionalSpecFns;
verus! {

pub open spec fn has_prefix(b: Seq<u8>, p: Seq<u8>) -> bool { b.len() >= p.len() && b.subrange(0, p.len() as int) == p }
/// a pathspec selects the file itself, everything below it when it ends in '/', and everything below `<pathspec>/`; `.` names the
/// whole work tree
pub open spec fn selects(p: Seq<u8>, f: Seq<u8>) -> bool {
    p == seq![0x2eu8] || f == p || (p.len() > 0 && p.last() == 0x2f && has_prefix(f, p)) || has_prefix(f, p.push(0x2fu8))
}
pub open spec fn spec_matches(f: Seq<u8>, ps: Seq<String>) -> bool { exists|i: int| 0 <= i < ps.len() && selects(vstd::utf8::encode_utf8((#[trigger] ps[i])@), f) }
/// rule O1: the whole `.iter().any(..)` expression, with the documented meaning of Iterator::any and the str predicates
#[verifier::external_body]
fn opq_any_pathspec_matches(file: &str, pathspecs: &[String]) -> (r: bool)
    ensures r == spec_matches(file.spec_bytes(), pathspecs@),
{ unimplemented!() }
//#item file=src/commands/hooks/checkout_hooks.rs kind=fn name=matches_any_pathspec opaque='[{"expr": "pathspecs.iter().any(|p| { // `.` names the whole work tree (`git checkout -- .`)\n        p == \".\" || file == p || (p.ends_with(\u0027/\u0027) && file.starts_with(p)) || file.starts_with(&format!(\"{}/\", p)) })", "call": "opq_any_pathspec_matches(file, pathspecs)"}]'
fn matches_any_pathspec(file: &str, pathspecs: &[String]) -> (r_: bool)
//@     ensures r_ == spec_matches(file.spec_bytes(), pathspecs@),
{
    opq_any_pathspec_matches(file, pathspecs)
}
//#end

} // verus!
fn main() {}
