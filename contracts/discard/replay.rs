// Replay driver for unit discard (BOUNDED stand-in): the ORIGINAL matches_any_pathspec against an independent matcher over a
// vocabulary of files and pathspecs (exact files, directories with and without trailing slash, prefixes that are not directories).
#![allow(dead_code, unused)]
include!("@ITEMS@");
struct Ctx { evaluated: u64, failed: std::collections::HashSet<String> }
impl Ctx {
    fn fail(&mut self, f: &str, clause: &str, input: String, observed: String, expected: String) {
        if self.failed.insert(format!("{}::{}", f, clause)) { println!("FAIL fn=[[{}]] clause=[[{}]] input=[[{}]] observed=[[{}]] expected=[[{}]]", f, clause, input, observed, expected); }
    }
}
const FILES: &[&str] = &["pkg/b.txt", "pkg/sub/c.txt", "pkg", "pkgx/b.txt", "a.txt", "pkg/b.txt.bak", "dir with space/f", "ü/é.rs", ""];
const SPECS: &[&str] = &["pkg", "pkg/", "pkg/b.txt", "pkg/sub", "pkg/sub/", "pk", "a.txt", ".", "", "ü", "ü/", "dir with space", "pkg/b.txt/"];
fn selects(p: &str, f: &str) -> bool {
    if p == "." || f == p { return true; }   // `.` names the whole work tree
    let (pb, fb) = (p.as_bytes(), f.as_bytes());
    if pb.last() == Some(&b'/') && fb.len() >= pb.len() && &fb[..pb.len()] == pb { return true; }
    let mut q = pb.to_vec(); q.push(b'/');
    fb.len() >= q.len() && &fb[..q.len()] == &q[..]
}
fn chk(c: &mut Ctx, f: &str, specs: &[String]) {
    c.evaluated += 1;
    let input = format!("{}|{}", f, specs.join(","));
    let got = matches_any_pathspec(f, specs);
    let want = specs.iter().any(|p| selects(p, f));
    if got != want { c.fail("matches_any_pathspec", "ensures#0", input, format!("{}", got), format!("{}: a pathspec selects the file itself and everything below the directory it names (with or without a trailing slash)", want)); }
}
fn main() {
    let a: Vec<String> = std::env::args().collect();
    let mut c = Ctx { evaluated: 0, failed: Default::default() };
    if a[1] == "search" {
        for f in FILES { for p in SPECS { chk(&mut c, f, &[p.to_string()]); for p2 in SPECS { chk(&mut c, f, &[p.to_string(), p2.to_string()]); } } chk(&mut c, f, &[]); }
    } else { let (f, s) = a[3].split_once('|').unwrap(); let specs: Vec<String> = if s.is_empty() { vec![] } else { s.split(',').map(|x| x.to_string()).collect() }; chk(&mut c, f, &specs); }
    println!("DONE evaluated={}", c.evaluated);
}
