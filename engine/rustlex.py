"""Minimal Rust lexer: enough to match braces, find items and compare token streams.

Token kinds: 'comment', 'doc', 'str', 'char', 'life', 'ident', 'num', 'punct', 'ws'.
Multi-character punctuation that matters for us is grouped (->, =>, ::, .., ..=, &&, ||, ==, !=, <=, >=, +=, -=).
"""
import re

_PUNCT3 = ("..=", "<<=", ">>=", "...")
_PUNCT2 = ("->", "=>", "::", "..", "&&", "||", "==", "!=", "<=", ">=", "+=", "-=", "*=", "/=", "%=", "^=", "&=", "|=", "<<", ">>")
_ident_re = re.compile(r"[A-Za-z_][A-Za-z0-9_]*")
_num_re = re.compile(r"[0-9][0-9A-Za-z_]*(?:\.[0-9][0-9A-Za-z_]*)?")
_char_re = re.compile(r"'(?:\\x[0-9a-fA-F]{2}|\\u\{[0-9a-fA-F_]+\}|\\.|[^\\'\n])'")
_rawstr_re = re.compile(r'b?r(#*)"')


class Tok:
    __slots__ = ("kind", "text", "start", "end")

    def __init__(self, kind, text, start, end):
        self.kind, self.text, self.start, self.end = kind, text, start, end

    def __repr__(self):
        return "Tok(%s,%r,%d)" % (self.kind, self.text, self.start)


def lex(src, keep_ws=False):
    toks = []
    i, n = 0, len(src)
    while i < n:
        c = src[i]
        if c in " \t\r\n":
            j = i + 1
            while j < n and src[j] in " \t\r\n":
                j += 1
            if keep_ws:
                toks.append(Tok("ws", src[i:j], i, j))
            i = j
            continue
        if c == "/" and i + 1 < n and src[i + 1] == "/":
            j = src.find("\n", i)
            if j < 0:
                j = n
            text = src[i:j]
            kind = "doc" if (text.startswith("///") and not text.startswith("////")) or text.startswith("//!") else "comment"
            toks.append(Tok(kind, text, i, j))
            i = j
            continue
        if c == "/" and i + 1 < n and src[i + 1] == "*":
            depth, j = 1, i + 2
            while j < n and depth > 0:
                if src.startswith("/*", j):
                    depth += 1
                    j += 2
                elif src.startswith("*/", j):
                    depth -= 1
                    j += 2
                else:
                    j += 1
            toks.append(Tok("comment", src[i:j], i, j))
            i = j
            continue
        m = _rawstr_re.match(src, i)
        if m and (c == "r" or (c == "b" and src[i + 1] == "r")):
            closing = '"' + m.group(1)
            j = src.find(closing, m.end())
            if j < 0:
                raise ValueError("unterminated raw string at %d" % i)
            j += len(closing)
            toks.append(Tok("str", src[i:j], i, j))
            i = j
            continue
        if c == '"' or (c == "b" and i + 1 < n and src[i + 1] == '"'):
            j = i + (2 if c == "b" else 1)
            while j < n and src[j] != '"':
                j += 2 if src[j] == "\\" else 1
            j += 1
            toks.append(Tok("str", src[i:j], i, j))
            i = j
            continue
        if c == "'" or (c == "b" and i + 1 < n and src[i + 1] == "'"):
            k = i + (1 if c == "b" else 0)
            m = _char_re.match(src, k)
            if m:
                toks.append(Tok("char", src[i:m.end()], i, m.end()))
                i = m.end()
                continue
            if c == "'":
                m = _ident_re.match(src, i + 1)
                if m:
                    toks.append(Tok("life", src[i:m.end()], i, m.end()))
                    i = m.end()
                    continue
        m = _ident_re.match(src, i)
        if m:
            toks.append(Tok("ident", m.group(0), i, m.end()))
            i = m.end()
            continue
        m = _num_re.match(src, i)
        if m:
            # do not swallow the range operator in `1..n`
            text = m.group(0)
            if "." in text and src.startswith("..", i + text.index(".")):
                text = text[: text.index(".")]
            toks.append(Tok("num", text, i, i + len(text)))
            i += len(text)
            continue
        for group in (_PUNCT3, _PUNCT2):
            hit = next((p for p in group if src.startswith(p, i)), None)
            if hit:
                toks.append(Tok("punct", hit, i, i + len(hit)))
                i += len(hit)
                break
        else:
            toks.append(Tok("punct", c, i, i + 1))
            i += 1
    return toks


def code_tokens(src):
    """Tokens without comments/doc comments/whitespace."""
    return [t for t in lex(src) if t.kind not in ("comment", "doc", "ws")]


OPEN = {"(": ")", "[": "]", "{": "}"}
CLOSE = {v: k for k, v in OPEN.items()}


def match_close(toks, i):
    """toks[i] is an opening bracket; return index of its matching closer."""
    depth = 0
    for j in range(i, len(toks)):
        t = toks[j]
        if t.kind != "punct":
            continue
        if t.text in OPEN:
            depth += 1
        elif t.text in CLOSE:
            depth -= 1
            if depth == 0:
                return j
    raise ValueError("unbalanced bracket at token %d (%r)" % (i, toks[i]))


def strip_attributes(toks):
    """Drop `#[...]` and `#![...]` attribute token groups from a code token list."""
    out, i = [], 0
    while i < len(toks):
        t = toks[i]
        if t.kind == "punct" and t.text == "#":
            j = i + 1
            if j < len(toks) and toks[j].text == "!":
                j += 1
            if j < len(toks) and toks[j].text == "[":
                i = match_close(toks, j) + 1
                continue
        out.append(t)
        i += 1
    return out
