"""Kani runs on a scratch copy of /repo (thorough tier). Implemented in kani_impl.py; this thin
wrapper keeps bin/check importable when Kani is absent."""
import os, sys
sys.path.insert(0, os.path.dirname(os.path.abspath(__file__)))


def run_kani(prop, cfg, work, seed):
    try:
        import kani_impl
    except ImportError:
        return {"harnesses": [], "note": "kani_impl missing"}
    return kani_impl.run(prop, cfg, work, seed)
