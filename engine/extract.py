"""Item extraction from /repo sources (byte-for-byte) and the local normalisations.

Nothing here rewrites semantics except the rules named in DESIGN.md section 3.1
(D1, A1-A4, N1-N3).  Every application is logged by the caller.
"""
import re
from rustlex import lex, code_tokens, match_close, strip_attributes, Tok, OPEN, CLOSE


class ExtractError(Exception):
    pass


def _nows(s):
    return re.sub(r"\s+", "", s)


def find_item(src, kind, name, impl_of=None):
    """Return (start_offset, end_offset, header_start_offset) of the item text in src.

    start includes preceding attributes and doc comments; header_start is where the
    visibility / keyword begins.  kind in fn|struct|enum|const|type.
    impl_of: text between `impl` and `{` of the enclosing impl block (whitespace-insensitive)."""
    toks = [t for t in lex(src) if t.kind != "ws"]
    # region to search: whole file at depth 0, or inside the impl block at depth 1
    lo, hi, base_depth = 0, len(toks), 0
    if impl_of is not None:
        want = _nows(impl_of)
        found = None
        depth = 0
        i = 0
        while i < len(toks):
            t = toks[i]
            if t.kind == "punct" and t.text in OPEN:
                depth += 1
            elif t.kind == "punct" and t.text in CLOSE:
                depth -= 1
            elif depth == 0 and t.kind == "ident" and t.text == "impl":
                j = i + 1
                while j < len(toks) and not (toks[j].kind == "punct" and toks[j].text == "{"):
                    j += 1
                head = "".join(x.text for x in toks[i + 1:j] if x.kind not in ("comment", "doc"))
                if _nows(head) == want:
                    k = match_close(toks, j)
                    # there may be several impl blocks with the same head; search each
                    r = _find_in(toks, j + 1, k, kind, name)
                    if r is not None:
                        found = r
                        break
                    i = k
                    depth = 0
            i += 1
        if found is None:
            raise ExtractError("item %s %s not found in impl %s" % (kind, name, impl_of))
        a, b, h = found
    else:
        r = _find_in(toks, 0, len(toks), kind, name)
        if r is None:
            raise ExtractError("item %s %s not found" % (kind, name))
        a, b, h = r
    return toks[a].start, toks[b].end, toks[h].start


def _find_in(toks, lo, hi, kind, name):
    depth = 0
    i = lo
    while i < hi:
        t = toks[i]
        if t.kind == "punct" and t.text in OPEN:
            depth += 1
        elif t.kind == "punct" and t.text in CLOSE:
            depth -= 1
        elif depth == 0 and t.kind == "ident" and t.text == kind and i + 1 < hi and toks[i + 1].kind == "ident" and toks[i + 1].text == name:
            # header start: walk back over qualifiers
            h = i
            while h - 1 >= lo:
                p = toks[h - 1]
                if p.kind == "ident" and p.text in ("pub", "const", "async", "unsafe", "extern", "default"):
                    h -= 1
                elif p.kind == "punct" and p.text == ")" and h - 4 >= lo and toks[h - 4].text == "pub":
                    h -= 4  # pub(crate) / pub(super)
                else:
                    break
            a = h
            while a - 1 >= lo:
                p = toks[a - 1]
                if p.kind in ("doc",):
                    a -= 1
                elif p.kind == "punct" and p.text == "]":
                    # find the matching '#['
                    d, k = 0, a - 1
                    while k >= lo:
                        if toks[k].kind == "punct" and toks[k].text == "]":
                            d += 1
                        elif toks[k].kind == "punct" and toks[k].text == "[":
                            d -= 1
                            if d == 0:
                                break
                        k -= 1
                    if k - 1 >= lo and toks[k - 1].text == "#":
                        a = k - 1
                    else:
                        break
                else:
                    break
            # end: matching brace of the first '{' at bracket depth 0, or ';'
            j = i + 2
            d = 0
            while j < hi:
                x = toks[j]
                if x.kind == "punct":
                    if x.text == "{" and d == 0:
                        return a, match_close(toks, j), h
                    if x.text == ";" and d == 0:
                        return a, j, h
                    if x.text in ("(", "["):
                        d += 1
                    elif x.text in (")", "]"):
                        d -= 1
                j += 1
            raise ExtractError("no body for %s %s" % (kind, name))
        i += 1
    return None


def extract(path, kind, name, impl_of=None, in_fn=None):
    src = open(path, encoding="utf-8").read()
    if in_fn:
        # an item declared inside the body of function `in_fn` (Verus rejects items inside bodies; the item is
        # verified as a free-standing one and the enclosing function is reached through a statement region)
        oa, ob, oh = find_item(src, "fn", in_fn, impl_of)
        toks = [t for t in lex(src) if t.kind != "ws"]
        lo = next(i for i, t in enumerate(toks) if t.start >= oa)
        hi = next(i for i, t in enumerate(toks) if t.end >= ob)
        # body brace of the outer fn
        j = lo
        d = 0
        while not (toks[j].kind == "punct" and toks[j].text == "{" and d == 0):
            if toks[j].text in ("(", "["):
                d += 1
            elif toks[j].text in (")", "]"):
                d -= 1
            j += 1
        r = _find_in(toks, j + 1, hi, kind, name)
        if r is None:
            raise ExtractError("item %s %s not found inside fn %s" % (kind, name, in_fn))
        a, b, h = toks[r[0]].start, toks[r[1]].end, toks[r[2]].start
    else:
        a, b, h = find_item(src, kind, name, impl_of)
    a = src.rfind("\n", 0, a) + 1 if src[src.rfind("\n", 0, a) + 1:a].strip() == "" else a
    line_a = src.count("\n", 0, a) + 1
    line_b = src.count("\n", 0, b) + 1
    return {"text": src[a:b], "line_start": line_a, "line_end": line_b, "header_offset": h - a}


def extract_region(path, fn_name, impl_of, from_anchor, to_anchor, from_nth=0, to_nth=0, to_exclusive=False):
    """Whole lines of function `fn_name` from the line containing from_anchor (its from_nth-th occurrence
    inside the function) through the to_nth-th line containing to_anchor at or after it."""
    src = open(path, encoding="utf-8").read()
    a, b, h = find_item(src, "fn", fn_name, impl_of)
    first_line = src.count("\n", 0, a) + 1
    lines = src[a:b].split("\n")
    def _m(anchor, l):
        # "=text" matches a line whose stripped text equals `text`; otherwise substring match
        return l.strip() == anchor[1:] if anchor.startswith("=") else anchor in l
    hits = [i for i, l in enumerate(lines) if _m(from_anchor, l)]
    if len(hits) <= from_nth:
        raise ExtractError("region start anchor %r (occurrence %d) not found in %s" % (from_anchor, from_nth, fn_name))
    i0 = hits[from_nth]
    if to_anchor == "$block_end":
        # the region runs to the end of the block in which its first line sits: up to the line before the
        # line holding the brace that closes that block
        d = 0
        i1 = None
        for i in range(i0, len(lines)):
            for t in code_tokens(lines[i]):
                if t.kind == "punct" and t.text in OPEN:
                    d += 1
                elif t.kind == "punct" and t.text in CLOSE:
                    d -= 1
                    if d < 0:
                        i1 = i - 1
                        break
            if i1 is not None:
                break
        if i1 is None:
            raise ExtractError("region from %r: enclosing block does not close inside %s" % (from_anchor, fn_name))
        while i1 > i0 and lines[i1].strip() == "":
            i1 -= 1
        hits2 = None
    else:
        hits2 = [i for i, l in enumerate(lines) if i >= i0 and _m(to_anchor, l)]
        if len(hits2) <= to_nth:
            raise ExtractError("region end anchor %r (occurrence %d) not found after the start anchor in %s" % (to_anchor, to_nth, fn_name))
        i1 = hits2[to_nth]
    if to_exclusive and hits2 is not None:
        i1 -= 1
        while i1 > i0 and lines[i1].strip() == "":
            i1 -= 1
    text = "\n".join(lines[i0:i1 + 1])
    # the region must be brace-balanced (whole statements)
    d = 0
    for t in code_tokens(text):
        if t.kind == "punct" and t.text in OPEN:
            d += 1
        elif t.kind == "punct" and t.text in CLOSE:
            d -= 1
            if d < 0:
                raise ExtractError("region %r..%r is not brace-balanced" % (from_anchor, to_anchor))
    if d != 0:
        raise ExtractError("region %r..%r is not brace-balanced" % (from_anchor, to_anchor))
    return {"text": text, "line_start": first_line + i0, "line_end": first_line + i1, "header_offset": 0}


def normalise_region(text, log=None):
    """Apply the loop / closure rules (A2, A4, A5, N1, N2) to a statement region by normalising it as the
    body of a dummy function and taking the body back out."""
    wrapped = "fn region__() {\n" + text + "\n}"
    out, loops = normalise_fn(wrapped, log=log)
    ls = out.split("\n")
    # A3 moved the dummy's brace to its own line: drop `fn region__()`, `{` and the final `}`
    assert ls[0].strip() == "fn region__()" and ls[1].strip() == "{" and ls[-1].strip() == "}", ls[:2]
    return "\n".join(ls[2:-1]), loops


# --------------------------------------------------------------------------------------
# normalisation


ALLOWED_DERIVES_DEFAULT = ("Clone", "Copy", "PartialEq", "Eq")


def _apply_edits(text, edits):
    """edits: list of (start, end, replacement); non-overlapping."""
    out, pos = [], 0
    for s, e, r in sorted(edits):
        if s < pos:
            raise ExtractError("overlapping edits")
        out.append(text[pos:s])
        out.append(r)
        pos = e
    out.append(text[pos:])
    return "".join(out)


def drop_attrs_and_docs(text, keep_derives=None, log=None):
    """Rule D1: remove `#[..]` attributes and doc comments; optionally re-emit a reduced derive."""
    toks = [t for t in lex(text) if t.kind != "ws"]
    edits = []
    derives = []
    i = 0
    while i < len(toks):
        t = toks[i]
        if t.kind == "doc":
            edits.append((t.start, t.end, ""))
        elif t.kind == "punct" and t.text == "#" and i + 1 < len(toks) and toks[i + 1].text in ("[", "!"):
            j = i + 1
            if toks[j].text == "!":
                j += 1
            k = match_close(toks, j)
            attr = text[t.start:toks[k].end]
            m = re.match(r"#\[\s*derive\s*\((.*)\)\s*\]\s*$", attr, re.S)
            if m:
                derives += [d.strip() for d in m.group(1).split(",") if d.strip()]
            edits.append((t.start, toks[k].end, ""))
            if log is not None:
                log.append({"rule": "D1", "dropped": " ".join(attr.split())})
            i = k
        i += 1
    # a deletion that leaves its line blank takes the whole line with it
    widened = []
    for s_, e_, r_ in edits:
        ls = text.rfind("\n", 0, s_) + 1
        le = text.find("\n", e_)
        le = len(text) if le < 0 else le
        if text[ls:s_].strip() == "" and text[e_:le].strip() == "":
            widened.append((ls, min(le + 1, len(text)), ""))
        else:
            widened.append((s_, e_, r_))
    out = _apply_edits(text, widened)
    if keep_derives:
        kept = [d for d in derives if d.split("::")[-1] in keep_derives]
        if kept:
            out = "#[derive(%s)]\n" % ", ".join(d.split("::")[-1] for d in kept) + out.lstrip("\n")
            if log is not None:
                log.append({"rule": "D1", "kept_derive": kept})
    return out


def _indent_of(text, offset):
    ls = text.rfind("\n", 0, offset) + 1
    m = re.match(r"[ \t]*", text[ls:])
    return m.group(0)


def _match_arms_n2(text, toks, mo, mc, edits, log, k):
    """Rule N2 inside the block-bodied arms of a `match` (block toks[mo]..toks[mc]) that is the LAST statement of a `for`
    body: an arm's block is in tail position, so `if C { continue; } R` => `if !(C) { R }` inside it."""
    q = mo + 1
    while q < mc:
        if toks[q].text in ("(", "["):
            q = match_close(toks, q) + 1
            continue
        if toks[q].text == "{":
            # struct pattern braces of an arm pattern
            q = match_close(toks, q) + 1
            continue
        if toks[q].text == "=>":
            if toks[q + 1].text == "{":
                ac = match_close(toks, q + 1)
                _nested_n2(text, toks, q + 1, ac, edits, log, k)
                q = ac + 1
                continue
        q += 1


def _nested_n2(text, toks, bo, bc, edits, log, k):
    """Rule N2 inside the block toks[bo]..toks[bc] that ends a `for` body (see the caller). Returns the number of rewrites."""
    q = bo + 1
    n = 0
    while q < bc:
        x = toks[q]
        at_stmt_start = toks[q - 1].text in ("{", ";", "}")
        if x.kind == "ident" and x.text == "if" and at_stmt_start and toks[q + 1].text != "let":
            dd = 0
            b = q + 1
            while not (toks[b].text == "{" and dd == 0):
                if toks[b].text in ("(", "["):
                    dd += 1
                elif toks[b].text in (")", "]"):
                    dd -= 1
                b += 1
            c2 = match_close(toks, b)
            if c2 == b + 3 and toks[b + 1].text == "continue" and toks[b + 2].text == ";" and toks[c2 + 1].text != "else":
                cond = text[toks[q + 1].start:toks[b - 1].end]
                edits.append((toks[q].start, toks[c2].end, "if !(%s) {" % cond))
                n += 1
                if log is not None:
                    log.append({"rule": "N2", "loop": k, "cond": cond, "nested": True})
                q = c2 + 1
                continue
            if toks[c2 + 1].text != "else" and c2 + 1 == bc:
                _nested_n2(text, toks, b, c2, edits, log, k)
            q = c2 + 1
            while q < bc and toks[q].text == "else":
                b2 = q + 1
                while toks[b2].text != "{":
                    b2 += 1
                q = match_close(toks, b2) + 1
            continue
        if x.kind == "punct" and x.text in OPEN:
            q = match_close(toks, q) + 1
            continue
        q += 1
    if n:
        edits.append((toks[bc].start, toks[bc].start, " ".join(["}"] * n) + " "))
    return 0


def normalise_fn(text, log=None, result_name="r_", signature_only=False):
    """Rules A1-A4, N1 on one fn item (attributes already dropped).

    A1  name the result:            `-> T`           => `-> (r_: T)`
    A2  name for-loop iterators:    `for P in E`     => `for P in it_K: E`
    A3  body brace on its own line  (whitespace only)
    A4  loop brace on its own line  (whitespace only)
    N1  `for &P in E {`             => `for vr_K in it_K: E {` + `let P = *vr_K;`
    """
    toks = [t for t in lex(text) if t.kind not in ("ws", "comment", "doc")]
    edits = []
    # --- signature
    fi = next(i for i, t in enumerate(toks) if t.kind == "ident" and t.text == "fn")
    d = 0
    body_open = None
    arrow = None
    where_i = None
    for i in range(fi, len(toks)):
        t = toks[i]
        if t.kind == "punct":
            if t.text in ("(", "["):
                d += 1
            elif t.text in (")", "]"):
                d -= 1
            elif t.text == "->" and d == 0 and arrow is None:
                arrow = i
            elif t.text == "{" and d == 0:
                body_open = i
                break
        elif t.kind == "ident" and t.text == "where" and d == 0:
            where_i = i
    if body_open is None:
        raise ExtractError("fn without body")
    if arrow is not None:
        ty_start = toks[arrow + 1].start
        ty_end_tok = toks[(where_i if where_i is not None else body_open) - 1]
        edits.append((ty_start, ty_start, "(%s: " % result_name))
        edits.append((ty_end_tok.end, ty_end_tok.end, ")"))
        if log is not None:
            log.append({"rule": "A1", "type": text[ty_start:ty_end_tok.end]})
    ind = _indent_of(text, toks[fi].start)
    bo = toks[body_open]
    prev_end = toks[body_open - 1].end
    edits.append((prev_end, bo.start, "\n" + ind))  # A3
    if signature_only:
        return _apply_edits(text, edits), 0
    # --- loops
    body_close = match_close(toks, body_open)
    k = 0  # loop ordinal
    i = body_open + 1
    while i < body_close:
        t = toks[i]
        if t.kind == "ident" and t.text in ("for", "while", "loop"):
            # skip `for<'a>` HRTB and `impl X for Y` (cannot occur inside bodies except HRTB)
            if t.text == "for" and toks[i + 1].text == "<":
                i += 1
                continue
            # find header brace
            d = 0
            j = i + 1
            in_tok = None
            while j < body_close:
                x = toks[j]
                if x.kind == "punct":
                    if x.text in ("(", "["):
                        d += 1
                    elif x.text in (")", "]"):
                        d -= 1
                    elif x.text == "{" and d == 0:
                        break
                elif x.kind == "ident" and x.text == "in" and d == 0 and in_tok is None and t.text == "for":
                    in_tok = j
                j += 1
            lind = _indent_of(text, t.start)
            edits.append((toks[j - 1].end, toks[j].start, "\n" + lind))  # A4
            if t.text == "for":
                if in_tok is None:
                    raise ExtractError("for without in")
                # N2: top-level `if C { continue; }` statements of the body wrap the rest of the body
                close = match_close(toks, j)
                q = j + 1
                n2 = 0
                tail_closers = []
                open_order = []
                while q < close:
                    x = toks[q]
                    at_stmt_start = toks[q - 1].text in ("{", ";", "}")
                    if x.kind == "ident" and x.text == "if" and at_stmt_start and toks[q + 1].text != "let":
                        dd = 0
                        b = q + 1
                        while not (toks[b].text == "{" and dd == 0):
                            if toks[b].text in ("(", "["):
                                dd += 1
                            elif toks[b].text in (")", "]"):
                                dd -= 1
                            b += 1
                        bc = match_close(toks, b)
                        if bc == b + 3 and toks[b + 1].text == "continue" and toks[b + 2].text == ";" and toks[bc + 1].text != "else":
                            cond = text[toks[q + 1].start:toks[b - 1].end]
                            edits.append((toks[q].start, toks[bc].end, "if !(%s) {" % cond))
                            n2 += 1
                            open_order.append("N2")
                            if log is not None:
                                log.append({"rule": "N2", "loop": k, "cond": cond})
                            q = bc + 1
                            continue
                        if toks[bc + 1].text != "else" and bc + 1 == close:
                            # N2 (nested): the else-less `if` is the LAST statement of the loop body, so a `continue` inside its
                            # block only skips the rest of that block: `if C { continue; } R` => `if !(C) { R }` there too
                            n2 += _nested_n2(text, toks, b, bc, edits, log, k)
                        # skip the whole if/else chain
                        q = bc + 1
                        while q < close and toks[q].text == "else":
                            b2 = q + 1
                            while toks[b2].text != "{":
                                b2 += 1
                            q = match_close(toks, b2) + 1
                        continue
                    if x.kind == "ident" and x.text == "match" and at_stmt_start:
                        dd = 0
                        b = q + 1
                        while not (toks[b].text == "{" and dd == 0):
                            if toks[b].text in ("(", "["):
                                dd += 1
                            elif toks[b].text in (")", "]"):
                                dd -= 1
                            b += 1
                        bc = match_close(toks, b)
                        if bc + 1 == close:
                            _match_arms_n2(text, toks, b, bc, edits, log, k)
                        q = bc + 1
                        continue
                    if x.kind == "ident" and x.text == "if" and at_stmt_start and toks[q + 1].text == "let":
                        # N6: `if let P = E && C { S continue; }` followed by the rest R of the body
                        #     => `if let P = E { if C { S } else { R } } else { R }`   (R is duplicated)
                        dd = 0
                        b = q + 2
                        amp = None
                        while not (toks[b].text == "{" and dd == 0):
                            if toks[b].text in ("(", "["):
                                dd += 1
                            elif toks[b].text in (")", "]"):
                                dd -= 1
                            elif toks[b].text == "&&" and dd == 0 and amp is None:
                                amp = b
                            b += 1
                        bc = match_close(toks, b)
                        if amp is not None and toks[bc - 1].text == ";" and toks[bc - 2].text == "continue" and toks[bc + 1].text != "else" and bc + 1 < close:
                            head = text[toks[q + 1].start:toks[amp - 1].end]
                            cond = text[toks[amp + 1].start:toks[b - 1].end]
                            s_text = text[toks[b].end:toks[bc - 2].start].strip()
                            r_text = text[toks[bc].end:toks[close].start].strip()
                            edits.append((toks[q].start, toks[bc].end, "if %s { if %s { %s } else {" % (head, cond, s_text)))
                            tail_closers.append("} } else { %s }" % r_text)
                            open_order.append("N6")
                            if log is not None:
                                log.append({"rule": "N6", "loop": k, "head": head, "cond": cond, "then": s_text, "rest": r_text})
                            q = close   # the rest of the body is R
                            continue
                    if x.kind == "ident" and x.text == "let" and at_stmt_start:
                        # N5: `let P = E else { S continue; };` followed by the rest R of the body
                        #     => `if let P = E {` R `} else { S }`
                        dd = 0
                        e = q + 1
                        els = None
                        while e < close:
                            tx = toks[e].text
                            if tx in ("(", "[", "{"):
                                e = match_close(toks, e)
                            elif tx == ";":
                                break
                            elif tx == "else" and toks[e + 1].text == "{":
                                els = e
                                break
                            e += 1
                        if els is not None:
                            bo = els + 1
                            bc = match_close(toks, bo)
                            if toks[bc + 1].text == ";" and toks[bc - 1].text == ";" and toks[bc - 2].text == "continue":
                                head = text[toks[q].start:toks[els - 1].end]          # `let P = E`
                                s_text = text[toks[bo].end:toks[bc - 2].start].strip()  # S (without the continue)
                                edits.append((toks[q].start, toks[bc + 1].end, "if %s {" % head))
                                tail_closers.append("} else { %s }" % s_text)
                                open_order.append("N5")
                                if log is not None:
                                    log.append({"rule": "N5", "loop": k, "head": head, "else_body": s_text})
                                q = bc + 2
                                continue
                    if x.kind == "punct" and x.text in OPEN:
                        q = match_close(toks, q) + 1
                        continue
                    q += 1
                if n2 or tail_closers:
                    # closers are emitted innermost first: the wrappers were opened in source order
                    closers = []
                    for kind_ in reversed(open_order):
                        closers.append("}" if kind_ == "N2" else tail_closers.pop())
                    edits.append((toks[close].start, toks[close].start, " ".join(closers) + "\n" + lind))
                expr_start = toks[in_tok + 1].start
                if toks[i + 1].kind == "punct" and toks[i + 1].text == "&":
                    pat = text[toks[i + 2].start:toks[in_tok - 1].end]
                    edits.append((toks[i + 1].start, toks[in_tok - 1].end, "vr_%d" % k))
                    edits.append((toks[j].end, toks[j].end, "\n" + lind + "    let %s = *vr_%d;" % (pat, k)))
                    if log is not None:
                        log.append({"rule": "N1", "loop": k, "pattern": pat})
                edits.append((expr_start, expr_start, "it_%d: " % k))
                if log is not None:
                    log.append({"rule": "A2", "loop": k})
            k += 1
        i += 1
    # --- A5: closures with an explicit return type and a block body: name the result `c_`
    i = body_open + 1
    while i < body_close:
        t = toks[i]
        if t.kind == "punct" and t.text in ("|", "||") and (toks[i - 1].text in ("=", "(", ",", "move", "{", ";", "=>") ):
            if t.text == "||":
                j = i
            else:
                j = i + 1
                d = 0
                while j < body_close and not (toks[j].text == "|" and d == 0):
                    if toks[j].text in ("(", "[", "<"):
                        d += 1
                    elif toks[j].text in (")", "]", ">"):
                        d -= 1
                    j += 1
            if j + 1 < body_close and toks[j + 1].text == "->":
                e = j + 2
                d = 0
                while e < body_close and not (toks[e].text == "{" and d == 0):
                    if toks[e].text in ("(", "["):
                        d += 1
                    elif toks[e].text in (")", "]"):
                        d -= 1
                    e += 1
                ty_s, ty_e = toks[j + 2].start, toks[e - 1].end
                edits.append((ty_s, ty_s, "(c_: "))
                edits.append((ty_e, ty_e, ")"))
                lind = _indent_of(text, t.start)
                edits.append((ty_e, toks[e].start, "\n" + lind))
                if log is not None:
                    log.append({"rule": "A5", "closure_type": text[ty_s:ty_e]})
            i = j
        i += 1
    return _apply_edits(text, edits), k


def _find_seq(texts, pat, start=0):
    n = len(pat)
    for i in range(start, len(texts) - n + 1):
        if texts[i:i + n] == pat:
            return i
    return -1


def prepass(text, opaque=None, log=None):
    """Rules applied before normalise_fn, each with a logged inverse:
    O1  an expression listed for the item (pure, cannot panic, outside the Verus subset) is replaced by a call
        to an external_body stub declared in the unit:  `EXPR` => `CALL`
    N4  `for P in E.iter().skip(K) {` => `for P in &E[K..] {`  (equal whenever K <= E.len(), which Verus must prove
        as the bounds obligation of the slice expression)
    N2b `else { continue; }` in tail position of a `for` body => `else { (); }`
    N7  `match X { P if G => { A } _ => B, }` => `match X { P => { if G { A } else { B; } } _ => B, }`"""
    toks = [t for t in lex(text) if t.kind not in ("ws", "comment", "doc")]
    texts = [t.text for t in toks]
    edits = []
    o1_stmt_spans = []   # a rewrite inside a span that rule O1 abstracts as a whole statement is moot (the span is replaced)
    def _in_o1(pos):
        return any(s_ <= pos < e_ for s_, e_ in o1_stmt_spans)
    for o in (opaque or []):
        if "stmt_from" in o:
            # a whole block statement: from the head tokens through the brace block they open
            head = [t.text for t in code_tokens(o["stmt_from"])]
            i = -1
            for _ in range(int(o.get("nth", 0)) + 1):
                i = _find_seq(texts, head, i + 1)
                if i < 0:
                    raise ExtractError("O1: opaque statement %r (occurrence %s) not found" % (o["stmt_from"], o.get("nth", 0)))
            if "nth" not in o and _find_seq(texts, head, i + 1) >= 0:
                raise ExtractError("O1: opaque statement %r is ambiguous (give nth)" % o["stmt_from"])
            b = i + len(head) - 1
            if texts[b] != "{":
                raise ExtractError("O1: stmt_from must end with the opening brace")
            e = match_close(toks, b)
            # an if statement extends over its else / else-if chain
            while e + 1 < len(toks) and texts[e + 1] == "else":
                b2 = e + 2
                while texts[b2] != "{":
                    b2 += 1
                e = match_close(toks, b2)
            orig = text[toks[i].start:toks[e].end]
            edits.append((toks[i].start, toks[e].end, o["call"]))
            o1_stmt_spans.append((toks[i].start, toks[e].end))
            if log is not None:
                log.append({"rule": "O1", "expr": orig, "call": o["call"], "occurrences": 1, "statement": True})
            continue
        pat = [t.text for t in code_tokens(o["expr"])]
        pos = 0
        hits = 0
        while True:
            i = _find_seq(texts, pat, pos)
            if i < 0:
                break
            a_, b_ = toks[i].start, toks[i + len(pat) - 1].end
            if any(a_ < e2 and s2 < b_ for s2, e2, _ in edits):
                pos = i + 1   # inside a span an earlier entry already abstracts
                continue
            edits.append((a_, b_, o["call"]))
            hits += 1
            pos = i + len(pat)
        if hits == 0:
            # the abstracted expression no longer occurs (the code changed): nothing to abstract; what replaced it is
            # verified as it stands or is rejected by the verifier (UNDECIDED)
            if log is not None:
                log.append({"rule": "O1-absent", "expr": o["expr"]})
            continue
        if log is not None:
            log.append({"rule": "O1", "expr": o["expr"], "call": o["call"], "occurrences": hits})
    # N4
    i = 0
    while i < len(toks):
        if toks[i].kind == "ident" and toks[i].text == "for" and not (i + 1 < len(toks) and toks[i + 1].text == "<"):
            d = 0
            j = i + 1
            in_tok = None
            while j < len(toks):
                x = toks[j]
                if x.kind == "punct":
                    if x.text in ("(", "["):
                        d += 1
                    elif x.text in (")", "]"):
                        d -= 1
                    elif x.text == "{" and d == 0:
                        break
                elif x.kind == "ident" and x.text == "in" and d == 0 and in_tok is None:
                    in_tok = j
                j += 1
            if in_tok is not None and j < len(toks):
                hdr = texts[in_tok + 1:j]
                # E . iter ( ) . skip ( K )
                if len(hdr) >= 9 and hdr[-4:-1][0] == "(" and hdr[-9:-4] == [".", "iter", "(", ")", "."] and hdr[-4] == "skip" if False else False:
                    pass
                if len(hdr) >= 10 and hdr[-1] == ")" and hdr[-3] == "(" and hdr[-4] == "skip" and hdr[-5] == "." and hdr[-6] == ")" and hdr[-7] == "(" and hdr[-8] == "iter" and hdr[-9] == ".":
                    base_s, base_e = toks[in_tok + 1].start, toks[j - 10].end
                    base = text[base_s:base_e]
                    k = hdr[-2]
                    edits.append((base_s, toks[j - 1].end, "&%s[%s..]" % (base, k)))
                    if log is not None:
                        log.append({"rule": "N4", "base": base, "k": k})
            i = j
        i += 1
    # N3: else-less let-chain  `if let P = E && C { B }`  =>  `if let P = E { if C { B } }`
    i = 0
    while i + 1 < len(toks):
        if texts[i] == "if" and texts[i + 1] == "let" and (i == 0 or texts[i - 1] != "else"):
            d = 0
            j = i + 2
            amp = None
            while j < len(toks):
                x = texts[j]
                if x in ("(", "["):
                    d += 1
                elif x in (")", "]"):
                    d -= 1
                elif x == "{" and d == 0:
                    break
                elif x == "&&" and d == 0 and amp is None:
                    amp = j
                j += 1
            if amp is not None and j < len(toks):
                if _in_o1(toks[i].start):
                    i += 1
                    continue   # the whole statement is replaced by a rule-O1 stub: nothing to normalise (or to refuse) here
                bc = match_close(toks, j)
                if bc + 1 < len(toks) and texts[bc + 1] == "else":
                    raise ExtractError("N3: let-chain with else is not supported")
                if texts[bc - 1] == ";" and texts[bc - 2] == "continue":
                    i += 1
                    continue   # `.. { S; continue; }` inside a for body is rule N6's shape
                head = text[toks[i + 1].start:toks[amp - 1].end]      # `let P = E`
                cond = text[toks[amp + 1].start:toks[j - 1].end]       # C
                if _in_o1(toks[i].start):
                    i += 1
                    continue
                edits.append((toks[amp - 1].end, toks[j].end, " { if %s {" % cond))
                edits.append((toks[bc].end, toks[bc].end, " }"))
                if log is not None:
                    log.append({"rule": "N3", "head": head, "cond": cond})
        i += 1
    # N3b: else-less chain with the condition first  `if C && let P = E { B }`  =>  `if C { if let P = E { B } }`
    i = 0
    while i + 1 < len(toks):
        if texts[i] == "if" and texts[i + 1] != "let" and (i == 0 or texts[i - 1] != "else"):
            d = 0
            j = i + 1
            amp = None
            while j < len(toks):
                x = texts[j]
                if x in ("(", "["):
                    d += 1
                elif x in (")", "]"):
                    d -= 1
                elif x == "{" and d == 0:
                    break
                elif x == "&&" and d == 0 and amp is None and texts[j + 1] == "let":
                    amp = j
                elif x in (";", "}") and d == 0:
                    j = len(toks)
                    break
                j += 1
            if amp is not None and j < len(toks):
                if _in_o1(toks[i].start):
                    i += 1
                    continue   # the whole statement is replaced by a rule-O1 stub
                bc = match_close(toks, j)
                if bc + 1 < len(toks) and texts[bc + 1] == "else":
                    raise ExtractError("N3b: let-chain with else is not supported")
                cond = text[toks[i + 1].start:toks[amp - 1].end]
                head = text[toks[amp + 1].start:toks[j - 1].end]
                if "&&" in [t.text for t in code_tokens(head)]:
                    raise ExtractError("N3b: longer let-chain is not supported")
                if _in_o1(toks[i].start):
                    i += 1
                    continue
                edits.append((toks[amp - 1].end, toks[amp + 1].start, " { if "))
                edits.append((toks[bc].end, toks[bc].end, " }"))
                if log is not None:
                    log.append({"rule": "N3b", "head": head, "cond": cond})
        i += 1
    # N7: match guard on an arm that binds by mutable reference, in a two-armed match whose other arm is `_`:
    #     `match X { P if G => { A } _ => B, }`  =>  `match X { P => { if G { A } else { B; } } _ => B, }`
    #     (B, an expression without bindings of P, is duplicated textually; Verus rejects "match-guard and a binding by
    #     mutable reference" in one arm)
    i = 0
    while i < len(toks):
        if texts[i] == "match":
            d = 0
            j = i + 1
            while j < len(toks) and not (texts[j] == "{" and d == 0):
                if texts[j] in ("(", "["):
                    d += 1
                elif texts[j] in (")", "]"):
                    d -= 1
                j += 1
            if j < len(toks):
                mc = match_close(toks, j)
                # first arm: pattern .. [if G] => body
                q = j + 1
                d = 0
                g = None
                while q < mc and not (texts[q] == "=>" and d == 0):
                    if texts[q] in ("(", "[", "{"):
                        d += 1
                    elif texts[q] in (")", "]", "}"):
                        d -= 1
                    elif texts[q] == "if" and d == 0 and g is None:
                        g = q
                    q += 1
                if g is not None and q < mc and texts[q + 1] == "{":
                    ac = match_close(toks, q + 1)
                    r = ac + 1
                    if texts[r] == ",":
                        r += 1
                    if texts[r] == "_" and texts[r + 1] == "=>":
                        be = mc - 1
                        if texts[be] == ",":
                            be -= 1
                        # B must be a single expression (no further arm separator at depth 0)
                        dd = 0
                        single = True
                        for z in range(r + 2, be + 1):
                            if texts[z] in ("(", "[", "{"):
                                dd += 1
                            elif texts[z] in (")", "]", "}"):
                                dd -= 1
                            elif texts[z] in (",", "=>") and dd == 0:
                                single = False
                        if single and texts[r + 2] != "{":
                            guard = text[toks[g + 1].start:toks[q - 1].end]
                            other = text[toks[r + 2].start:toks[be].end]
                            edits.append((toks[g - 1].end, toks[q + 1].end, " => { if %s {" % guard))
                            edits.append((toks[ac].end, toks[ac].end, " else { %s; } }" % other))
                            if log is not None:
                                log.append({"rule": "N7", "guard": guard, "other": other})
        i += 1
    # N2b
    i = 0
    while i + 4 < len(toks):
        if texts[i:i + 5] == ["else", "{", "continue", ";", "}"]:
            # chain of closers after the else block
            k = i + 5
            first_loop = None
            while k < len(toks) and texts[k] == "}":
                # find opener of this closer
                d = 0
                m = k
                while m >= 0:
                    if texts[m] in ("}",):
                        d += 1
                    elif texts[m] == "{":
                        d -= 1
                        if d == 0:
                            break
                    m -= 1
                # header keyword of the block opened at m: walk back to the statement start
                h = m - 1
                dd = 0
                kw = None
                while h >= 0:
                    if texts[h] in (")", "]"):
                        dd += 1
                    elif texts[h] in ("(", "["):
                        dd -= 1
                    elif dd == 0 and texts[h] in ("{", "}", ";"):
                        break
                    elif dd == 0 and texts[h] in ("for", "while", "loop", "if", "else", "match"):
                        kw = texts[h]
                        if kw in ("for", "while", "loop"):
                            break
                    h -= 1
                if kw in ("for", "while", "loop"):
                    first_loop = kw
                    break
                k += 1
            if first_loop == "for":
                edits.append((toks[i + 2].start, toks[i + 3].end, "();"))
                if log is not None:
                    log.append({"rule": "N2b"})
        i += 1
    return _apply_edits(text, edits) if edits else text


def invert_prepass(s, rules):
    """s: token texts of the denormalised item; rules: the logged O1/N4/N2b applications."""
    for r in rules:
        if r["rule"] == "O1":
            call = [t.text for t in code_tokens(r["call"])]
            expr = [t.text for t in code_tokens(r["expr"])]
            for _ in range(r.get("occurrences", 1)):
                i = _find_seq(s, call)
                if i < 0:
                    raise ExtractError("O1 inverse: call %r not found" % r["call"])
                s = s[:i] + expr + s[i + len(call):]
        elif r["rule"] == "N4":
            base = [t.text for t in code_tokens(r["base"])]
            pat = ["&"] + base + ["[", r["k"], "..", "]"]
            i = _find_seq(s, pat)
            if i < 0:
                raise ExtractError("N4 inverse: slice %r not found" % " ".join(pat))
            s = s[:i] + base + [".", "iter", "(", ")", ".", "skip", "(", r["k"], ")"] + s[i + len(pat):]
        elif r["rule"] == "N3":
            head = [t.text for t in code_tokens(r["head"])]
            cond = [t.text for t in code_tokens(r["cond"])]
            pat = ["if"] + head + ["{", "if"] + cond + ["{"]
            i = _find_seq(s, pat)
            if i < 0:
                raise ExtractError("N3 inverse: nested form of %r not found" % r["head"])
            d = 0
            e = i + len(pat) - 1
            for e in range(i + len(pat) - 1, len(s)):
                if s[e] in ("(", "[", "{"):
                    d += 1
                elif s[e] in (")", "]", "}"):
                    d -= 1
                    if d == 0:
                        break
            if s[e + 1] != "}":
                raise ExtractError("N3 inverse: outer block does not close right after the inner one")
            s = s[:i] + ["if"] + head + ["&&"] + cond + ["{"] + s[i + len(pat):e] + ["}"] + s[e + 2:]
        elif r["rule"] == "N3b":
            head = [t.text for t in code_tokens(r["head"])]
            cond = [t.text for t in code_tokens(r["cond"])]
            pat = ["if"] + cond + ["{", "if"] + head + ["{"]
            i = _find_seq(s, pat)
            if i < 0:
                raise ExtractError("N3b inverse: nested form of %r not found" % r["head"])
            d = 0
            e = i + len(pat) - 1
            for e in range(i + len(pat) - 1, len(s)):
                if s[e] in ("(", "[", "{"):
                    d += 1
                elif s[e] in (")", "]", "}"):
                    d -= 1
                    if d == 0:
                        break
            if s[e + 1] != "}":
                raise ExtractError("N3b inverse: outer block does not close right after the inner one")
            s = s[:i] + ["if"] + cond + ["&&"] + head + ["{"] + s[i + len(pat):e] + ["}"] + s[e + 2:]
        elif r["rule"] == "N7":
            guard = [t.text for t in code_tokens(r["guard"])]
            other = [t.text for t in code_tokens(r["other"])]
            pat = ["=>", "{", "if"] + guard + ["{"]
            i = _find_seq(s, pat)
            if i < 0:
                raise ExtractError("N7 inverse: expanded guard %r not found" % r["guard"])
            d = 0
            e = i + len(pat) - 1
            for e in range(i + len(pat) - 1, len(s)):
                if s[e] in ("(", "[", "{"):
                    d += 1
                elif s[e] in (")", "]", "}"):
                    d -= 1
                    if d == 0:
                        break
            tail = ["else", "{"] + other + [";", "}", "}"]
            if s[e + 1:e + 1 + len(tail)] != tail:
                raise ExtractError("N7 inverse: duplicated catch-all arm not found after the guarded block")
            s = s[:i] + ["if"] + guard + ["=>", "{"] + s[i + len(pat):e] + ["}"] + s[e + 1 + len(tail):]
        elif r["rule"] == "N2b":
            pat = ["else", "{", "(", ")", ";", "}"]
            i = _find_seq(s, pat)
            if i < 0:
                raise ExtractError("N2b inverse: `else { (); }` not found")
            s = s[:i] + ["else", "{", "continue", ";", "}"] + s[i + len(pat):]
    return s


def denormalise_tokens(toks, result_name="r_"):
    """Inverse of A1, A2, N1 on a code-token list (texts only). A3/A4 are whitespace."""
    s = [t.text for t in toks]
    out = []
    i = 0
    pending_close = []  # stack of depths at which an A1 ')' must be dropped
    depth = 0
    while i < len(s):
        x = s[i]
        # A1
        if x == "->" and i + 3 < len(s) and s[i + 1] == "(" and s[i + 2] in (result_name, "c_") and s[i + 3] == ":":
            out.append("->")
            pending_close.append(depth)
            depth += 1
            i += 4
            continue
        if x in ("(", "[", "{"):
            depth += 1
        elif x in (")", "]", "}"):
            depth -= 1
            if x == ")" and pending_close and pending_close[-1] == depth:
                pending_close.pop()
                i += 1
                continue
        # N1 + A2:  for vr_K in it_K : E { let P = * vr_K ;   =>  for & P in E {
        if x == "for" and i + 1 < len(s) and re.fullmatch(r"vr_\d+", s[i + 1]) and s[i + 2] == "in":
            var = s[i + 1]
            j = i + 3
            if re.fullmatch(r"it_\d+", s[j]) and s[j + 1] == ":":
                j += 2
            # header expr up to '{' at depth 0
            d = 0
            e = j
            while not (s[e] == "{" and d == 0):
                if s[e] in ("(", "["):
                    d += 1
                elif s[e] in (")", "]"):
                    d -= 1
                e += 1
            # after '{': let P = * var ;
            assert s[e + 1] == "let", "N1 inverse: missing let"
            q = e + 2
            while not (s[q] == "=" and s[q + 1] == "*" and s[q + 2] == var and s[q + 3] == ";"):
                q += 1
            pat = s[e + 2:q]
            out += ["for", "&"] + pat + ["in"] + s[j:e] + ["{"]
            depth += 1
            i = q + 4
            continue
        if x == "in" and i + 2 < len(s) and re.fullmatch(r"it_\d+", s[i + 1]) and s[i + 2] == ":":
            out.append("in")
            i += 3
            continue
        out.append(x)
        i += 1
    return out


def invert_n2(s, conds):
    """s: list of token texts; conds: list of condition token-text lists (in order of application).
    `if ! ( C ) { R }` directly followed by the loop's closing brace  =>  `if C { continue ; } R`."""
    for cond in conds:
        pat = ["if", "!", "("] + cond + [")", "{"]
        n = len(pat)
        hit = next((i for i in range(len(s) - n + 1) if s[i:i + n] == pat), None)
        if hit is None:
            raise ExtractError("N2 inverse: wrapper for %r not found" % " ".join(cond))
        # matching close of the wrapper brace
        d = 0
        e = hit + n - 1
        for e in range(hit + n - 1, len(s)):
            if s[e] in ("(", "[", "{"):
                d += 1
            elif s[e] in (")", "]", "}"):
                d -= 1
                if d == 0:
                    break
        if s[e + 1] != "}":
            raise ExtractError("N2 inverse: wrapper does not end the loop body")
        s = s[:hit] + ["if"] + cond + ["{", "continue", ";", "}"] + s[hit + n:e] + s[e + 1:]
    return s


def invert_n6(s, rules):
    """`if let P = E { if C { S } else { R } } else { R }`  =>  `if let P = E && C { S continue ; } R`"""
    for r in rules:
        head = [t.text for t in code_tokens(r["head"])]
        cond = [t.text for t in code_tokens(r["cond"])]
        then = [t.text for t in code_tokens(r["then"])]
        rest = [t.text for t in code_tokens(r["rest"])]
        pat = ["if"] + head + ["{", "if"] + cond + ["{"] + then + ["}", "else", "{"] + rest + ["}", "}", "else", "{"] + rest + ["}"]
        i = _find_seq(s, pat)
        if i < 0:
            raise ExtractError("N6 inverse: expanded form of `if %s && ..` not found" % r["head"])
        s = s[:i] + ["if"] + head + ["&&"] + cond + ["{"] + then + ["continue", ";", "}"] + rest + s[i + len(pat):]
    return s


def invert_n5(s, rules):
    """`if let P = E { R } else { S }` closing the loop body  =>  `let P = E else { S continue ; } ; R`"""
    for r in rules:
        head = [t.text for t in code_tokens(r["head"])]
        sbody = [t.text for t in code_tokens(r["else_body"])]
        pat = ["if"] + head + ["{"]
        i = _find_seq(s, pat)
        if i < 0:
            raise ExtractError("N5 inverse: `if %s {` not found" % r["head"])
        d = 0
        e = i + len(pat) - 1
        for e in range(i + len(pat) - 1, len(s)):
            if s[e] in ("(", "[", "{"):
                d += 1
            elif s[e] in (")", "]", "}"):
                d -= 1
                if d == 0:
                    break
        tail = ["else", "{"] + sbody + ["}"]
        if s[e + 1:e + 1 + len(tail)] != tail:
            raise ExtractError("N5 inverse: else branch does not match the recorded one")
        inner = s[i + len(pat):e]
        s = s[:i] + head + ["else", "{"] + sbody + ["continue", ";", "}", ";"] + inner + s[e + 1 + len(tail):]
    return s


def token_texts(text):
    return [t.text for t in strip_attributes(code_tokens(text))]
