"""Thorough tier only: BOUNDED crate-level sweeps (never counted as proof).

For functions whose composition cannot be brought within the verifier's reach, a test file kept under
/verif/contracts/crate_sweeps/ is copied into a scratch copy of /repo (rsync without target/ and .git/, outside /repo
and /verif) as tests/verif_<name>.rs and run with the repository's own cargo (offline).  Nothing else in the copy is
touched.  The test prints `SWEEP-FAIL clause=<id> input=<..> observed=<..>` once per failing clause and
`SWEEP-DONE evaluated=<n> failing_clauses=<k>`.  The build output is cached under /verif/.cache/sweep-target.
"""
import os, re, shutil, subprocess, time

VERIF = os.path.dirname(os.path.dirname(os.path.abspath(__file__)))
REPO = os.environ.get("VERIF_REPO", "/repo")


def run(prop, names, work, seed):
    out = []
    scratch = os.path.join(work, "crate-sweep-src")
    os.makedirs(scratch, exist_ok=True)
    subprocess.run(["rsync", "-a", "--delete", "--exclude", "target", "--exclude", ".git", "--exclude", "/seed_out", REPO + "/", scratch + "/"], check=True)
    env = dict(os.environ, CARGO_NET_OFFLINE="true", CARGO_TARGET_DIR=os.path.join(VERIF, ".cache", "sweep-target"), VERIF_SEED=str(seed))
    for name in names:
        if name.startswith("demo:"):
            out.append(run_demo(name, scratch, env))
            continue
        src = os.path.join(VERIF, "contracts", "crate_sweeps", name + ".rs")
        test = "verif_" + name.lower()
        shutil.copy(src, os.path.join(scratch, "tests", test + ".rs"))
        cmd = ["cargo", "test", "--offline", "--test", test, "--", "--nocapture", "--test-threads", "1"]
        rec = {"name": name, "cmd": " ".join(cmd), "fails": [], "evaluated": 0, "status": "?"}
        t0 = time.time()
        try:
            p = subprocess.run(cmd, cwd=scratch, env=env, capture_output=True, text=True, timeout=int(os.environ.get("VERIF_SWEEP_TIMEOUT", "2400")))
            txt = p.stdout + "\n" + p.stderr
            for m in re.finditer(r'SWEEP-FAIL clause=(\S+) input=(".*?") observed=(".*")$', txt, re.M):
                rec["fails"].append({"fn": "crate:" + name, "clause": m.group(1), "input": m.group(2), "observed": m.group(3), "expected": "clause %s of the sweep holds" % m.group(1)})
            d = re.search(r"^SWEEP-DONE evaluated=(\d+)", txt, re.M)
            if d:
                rec["evaluated"] = int(d.group(1))
                rec["status"] = "RAN"
            else:
                rec["status"] = "BUILD-OR-RUN-ERROR"
                rec["trace"] = txt[-2500:]
        except subprocess.TimeoutExpired:
            rec["status"] = "TIMEOUT"
        rec["wall_s"] = round(time.time() - t0, 1)
        os.remove(os.path.join(scratch, "tests", test + ".rs"))
        out.append(rec)
    shutil.rmtree(scratch, ignore_errors=True)
    return out


def run_demo(name, scratch, env):
    """`demo:<dir>`: the end-to-end demonstration kept under /verif/seeded/<dir>/demo_e2e.rs (a test file for the repository's own
    harness: the real binary driven through real git in temporary repositories) is run as it stands; every libtest case is one
    clause.  Used as regression check of repaired defects (all cases must pass) and as the concrete replay of recorded findings
    (the failing cases are matched against known_findings.json).  BOUNDED: the histories written in that file, nothing more."""
    d = name.split(":", 1)[1]
    src = os.path.join(VERIF, "seeded", d, "demo_e2e.rs")
    test = "verif_demo_" + re.sub(r"[^a-z0-9]+", "_", d.lower())
    shutil.copy(src, os.path.join(scratch, "tests", test + ".rs"))
    cmd = ["cargo", "test", "--offline", "--test", test, "--no-fail-fast", "--", "--test-threads", "1"]
    rec = {"name": name, "cmd": " ".join(cmd), "fails": [], "evaluated": 0, "status": "?"}
    t0 = time.time()
    try:
        p = subprocess.run(cmd, cwd=scratch, env=env, capture_output=True, text=True, timeout=int(os.environ.get("VERIF_SWEEP_TIMEOUT", "2400")))
        txt = p.stdout + "\n" + p.stderr
        cases = re.findall(r"^test (\S+) \.\.\. (ok|FAILED)", txt, re.M)
        if cases and re.search(r"^test result: ", txt, re.M):
            rec["evaluated"] = len(cases)
            rec["status"] = "RAN"
            for case, verdict in cases:
                if verdict == "FAILED":
                    m = re.search(r"---- %s stdout ----\n(.*?)(?:\n\n|\nstack backtrace)" % re.escape(case), txt, re.S)
                    msg = (m.group(1) if m else "").strip().replace("\n", " | ")[:1500]
                    rec["fails"].append({"fn": "crate:" + name, "clause": case, "input": "\"the history written in seeded/%s/demo_e2e.rs, case %s\"" % (d, case), "observed": "\"%s\"" % msg.replace('"', "'"), "expected": "the demonstration passes"})
        else:
            rec["status"] = "BUILD-OR-RUN-ERROR"
            rec["trace"] = txt[-2500:]
    except subprocess.TimeoutExpired:
        rec["status"] = "TIMEOUT"
    rec["wall_s"] = round(time.time() - t0, 1)
    os.remove(os.path.join(scratch, "tests", test + ".rs"))
    return rec
