"""Syntactic enumeration of proof obligations in a generated Verus file.

The verifier itself does not report how many verification conditions it discharged per
function, only verified / failed per function plus one diagnostic per failed condition.
To be able to *name* obligations (and to count them for the evidence file) the generated
file is scanned for the places that generate them:

  ensures#k        one per top-level clause of a fn's `ensures`
  inv#Lj.k.init / inv#Lj.k.step   two per loop-invariant clause (before loop / end of body)
  decreases#Lj     one per loop `decreases`, `decreases#fn` for recursive fns
  assert#k         one per `assert(..)` / `assert forall .. by` in the body
  pre@callee#k     one per call site of a function of this file that has `requires`
  safety           ONE aggregate per exec fn: no overflow/underflow in machine arithmetic,
                   indices in bounds, str slices on char boundaries, no unwrap of None,
                   preconditions of std functions (vstd specs)

This is a count of *named* obligations; the SMT queries behind `safety` are many more.
"""
from rustlex import lex, match_close, OPEN, CLOSE

SECTION_KW = ("requires", "ensures", "decreases", "invariant", "invariant_except_break", "returns", "recommends", "opens_invariants", "no_unwind")


def _split_clauses(toks, lo, hi):
    """Split toks[lo:hi] into clauses on depth-0 commas. Quantifier binders `|..|` protect commas."""
    clauses, cur, depth = [], [], 0
    in_binder = False
    prev = None
    for t in toks[lo:hi]:
        if t.kind == "punct":
            if t.text in OPEN:
                depth += 1
            elif t.text in CLOSE:
                depth -= 1
            elif t.text == "|" and depth >= 0:
                if in_binder:
                    in_binder = False
                elif prev is not None and prev.kind == "ident" and prev.text in ("forall", "exists", "choose"):
                    in_binder = True
                elif prev is not None and prev.kind == "punct" and prev.text in ("(", ",", "=", "{", "==>", "&&", "||") or prev is None:
                    in_binder = True  # closure
            elif t.text == "," and depth == 0 and not in_binder:
                if cur:
                    clauses.append(cur)
                cur = []
                prev = t
                continue
        cur.append(t)
        prev = t
    if cur:
        clauses.append(cur)
    return clauses


def _line_of(src_starts, off):
    # src_starts: sorted list of line start offsets
    import bisect
    return bisect.bisect_right(src_starts, off)


def scan(src):
    """Return (functions, obligations).

    functions: list of dict(name, mode, line_start, line_end, has_requires, trusted)
    obligations: list of dict(id, fn, kind, line_start, line_end, text)
    """
    toks = [t for t in lex(src) if t.kind not in ("ws", "comment", "doc")]
    starts = [0]
    for i, c in enumerate(src):
        if c == "\n":
            starts.append(i + 1)

    def L(off):
        return _line_of(starts, off)

    fns = []
    # ---- pass 1: find fns and their signature sections
    i = 0
    impl_stack = []  # (depth, name)
    depth = 0
    n = len(toks)
    while i < n:
        t = toks[i]
        if t.kind == "punct" and t.text in OPEN:
            depth += 1
        elif t.kind == "punct" and t.text in CLOSE:
            depth -= 1
            while impl_stack and impl_stack[-1][0] > depth:
                impl_stack.pop()
        elif t.kind == "ident" and t.text == "impl":
            # impl [<..>] Path [for Path] {
            j = i + 1
            while toks[j].text != "{":
                j += 1
            names = [x.text for x in toks[i + 1:j] if x.kind == "ident"]
            ty = names[-1] if names else "?"
            if "for" in names:
                ty = names[names.index("for") + 1] if names.index("for") + 1 < len(names) else ty
            impl_stack.append((depth + 1, ty))
            i = j
            continue
        elif t.kind == "ident" and t.text == "fn" and i + 1 < n and toks[i + 1].kind == "ident":
            # modifiers before
            mode = "exec"
            k = i - 1
            trusted = False
            while k >= 0 and (toks[k].kind == "ident" and toks[k].text in ("pub", "spec", "proof", "exec", "open", "closed", "const", "broadcast", "uninterp", "tracked") or toks[k].text in (")", "(", "crate", "super")):
                if toks[k].text in ("spec", "proof"):
                    mode = toks[k].text
                k -= 1
            # attributes immediately before: look for external_body
            kk = k
            while kk >= 1 and toks[kk].text == "]":
                d, m = 0, kk
                while m >= 0:
                    if toks[m].text == "]":
                        d += 1
                    elif toks[m].text == "[":
                        d -= 1
                        if d == 0:
                            break
                    m -= 1
                attr = "".join(x.text for x in toks[m:kk + 1])
                if "external_body" in attr or "external" in attr:
                    trusted = True
                kk = m - 2
            name = toks[i + 1].text
            qual = (impl_stack[-1][1] + "::" if impl_stack else "") + name
            # signature until body '{' or ';' at depth 0 (relative)
            d = 0
            j = i + 2
            sections = []  # (kw, tok_lo, tok_hi)
            cur_kw, cur_lo = None, None
            body_open = None
            while j < n:
                x = toks[j]
                if x.kind == "punct":
                    if x.text in ("(", "["):
                        d += 1
                    elif x.text in (")", "]"):
                        d -= 1
                    elif x.text == "{" and d == 0:
                        # a brace inside a clause (e.g. `if c { a } else { b }`) only counts as the
                        # body when no section is open or the previous token ends a clause list
                        if cur_kw is None or toks[j - 1].text == "," or _looks_like_body(toks, j):
                            body_open = j
                            break
                        j = match_close(toks, j)
                    elif x.text == ";" and d == 0:
                        break
                elif x.kind == "ident" and x.text in SECTION_KW and d == 0:
                    if cur_kw is not None:
                        sections.append((cur_kw, cur_lo, j))
                    cur_kw, cur_lo = x.text, j + 1
                j += 1
            if cur_kw is not None:
                sections.append((cur_kw, cur_lo, j))
            end = match_close(toks, body_open) if body_open is not None else j
            fns.append({
                "name": qual, "mode": mode, "tok_fn": i, "tok_body": body_open, "tok_end": end,
                "sections": sections, "line_start": L(toks[i].start), "line_end": L(toks[end].start),
                "has_requires": any(s[0] == "requires" for s in sections), "trusted": trusted,
            })
            # do not skip the body: nested closures are fine, nested fns do not occur
            i = (body_open if body_open is not None else j)
            if body_open is not None:
                depth += 1
            i += 1
            continue
        i += 1

    by_short = {}
    for f in fns:
        by_short.setdefault(f["name"].split("::")[-1], []).append(f)

    obs = []
    for f in fns:
        if f["mode"] == "spec" or f["trusted"]:
            continue
        fid = f["name"]
        for kw, lo, hi in f["sections"]:
            if kw == "ensures":
                for k, cl in enumerate(_split_clauses(toks, lo, hi)):
                    obs.append(_ob(fid, "ensures#%d" % k, cl, L, src))
            elif kw == "decreases":
                cl = toks[lo:hi]
                if cl:
                    obs.append(_ob(fid, "decreases#fn", cl, L, src))
        if f["tok_body"] is None:
            continue
        # body scan
        lo, hi = f["tok_body"] + 1, f["tok_end"]
        loop_k = 0
        assert_k = 0
        closure_k = 0
        call_k = {}
        j = lo
        while j < hi:
            x = toks[j]
            if x.kind == "ident" and x.text in ("while", "for", "loop") and not (x.text == "for" and toks[j + 1].text == "<"):
                # header sections up to the body brace
                d = 0
                m = j + 1
                cur_kw, cur_lo = None, None
                secs = []
                while m < hi:
                    y = toks[m]
                    if y.kind == "punct":
                        if y.text in ("(", "["):
                            d += 1
                        elif y.text in (")", "]"):
                            d -= 1
                        elif y.text == "{" and d == 0:
                            if cur_kw is None or toks[m - 1].text == "," or _looks_like_body(toks, m):
                                break
                            m = match_close(toks, m)
                    elif y.kind == "ident" and y.text in SECTION_KW and d == 0:
                        if cur_kw is not None:
                            secs.append((cur_kw, cur_lo, m))
                        cur_kw, cur_lo = y.text, m + 1
                    m += 1
                if cur_kw is not None:
                    secs.append((cur_kw, cur_lo, m))
                for kw, a, b in secs:
                    if kw in ("invariant", "invariant_except_break"):
                        for k, cl in enumerate(_split_clauses(toks, a, b)):
                            obs.append(_ob(fid, "inv#L%d.%d.init" % (loop_k, k), cl, L, src))
                            obs.append(_ob(fid, "inv#L%d.%d.step" % (loop_k, k), cl, L, src))
                    elif kw == "decreases":
                        obs.append(_ob(fid, "decreases#L%d" % loop_k, toks[a:b], L, src))
                    elif kw == "ensures":
                        for k, cl in enumerate(_split_clauses(toks, a, b)):
                            obs.append(_ob(fid, "loop_ensures#L%d.%d" % (loop_k, k), cl, L, src))
                loop_k += 1
                j = m  # continue scanning inside the loop body
                continue
            if x.kind == "ident" and x.text == "ensures" and toks[j - 1].text == ")":
                # closure postcondition:  |args| -> (c_: T) ensures CLAUSES {
                d = 0
                m = j + 1
                while m < hi:
                    y = toks[m]
                    if y.kind == "punct":
                        if y.text in ("(", "["):
                            d += 1
                        elif y.text in (")", "]"):
                            d -= 1
                        elif y.text == "{" and d == 0:
                            if toks[m - 1].text == "," or _looks_like_body(toks, m):
                                break
                            m = match_close(toks, m)
                    m += 1
                for cl in _split_clauses(toks, j + 1, m):
                    obs.append(_ob(fid, "closure_ensures#%d" % closure_k, cl, L, src))
                    closure_k += 1
                j = m
                continue
            if x.kind == "ident" and x.text == "assert" and toks[j + 1].text in ("(", "forall"):
                if toks[j + 1].text == "(":
                    e = match_close(toks, j + 1)
                else:
                    e = j + 1
                    while toks[e].text != "by" and toks[e].text != ";":
                        e += 1
                obs.append(_ob(fid, "assert#%d" % assert_k, toks[j:e + 1], L, src))
                assert_k += 1
            elif x.kind == "ident" and j + 1 < hi and toks[j + 1].text == "(" and x.text in by_short and toks[j - 1].text != "fn":
                cands = [g for g in by_short[x.text] if g["has_requires"]]
                if cands:
                    c = call_k.get(x.text, 0)
                    call_k[x.text] = c + 1
                    e = match_close(toks, j + 1)
                    obs.append(_ob(fid, "pre@%s#%d" % (x.text, c), toks[j:e + 1], L, src))
            j += 1
        if f["mode"] == "exec":
            obs.append({"id": fid + "::safety", "fn": fid, "kind": "safety", "line_start": f["line_start"], "line_end": f["line_end"],
                        "text": "no overflow/underflow, indices and slices in bounds (char boundaries for str), no unwrap of None, std preconditions"})
    for f in fns:
        for k in ("tok_fn", "tok_body", "tok_end", "sections"):
            f.pop(k, None)
    return fns, obs


def _looks_like_body(toks, j):
    """Heuristic: brace j opens the body if the token before it cannot continue an expression
    that takes a block (`if c {`, `else {`, `match x {`)."""
    # walk back within the current clause to see if an `if`/`match`/`else` is pending
    d = 0
    k = j - 1
    while k >= 0:
        t = toks[k]
        if t.kind == "punct":
            if t.text in (")", "]", "}"):
                d += 1
            elif t.text in ("(", "[", "{"):
                if d == 0:
                    return True
                d -= 1
            elif t.text == "," and d == 0:
                return True
        elif t.kind == "ident" and d == 0:
            if t.text in ("if", "match", "else"):
                return False
            if t.text in SECTION_KW:
                return True
        k -= 1
    return True


def _ob(fid, kind, cl, L, src):
    a, b = cl[0].start, cl[-1].end
    return {"id": "%s::%s" % (fid, kind), "fn": fid, "kind": kind.split("#")[0].split("@")[0],
            "line_start": L(a), "line_end": L(b), "text": " ".join(src[a:b].split())}
