#!/usr/bin/env python3
"""Developer loop: generate + verify one unit, print failures with rendered diagnostics.
usage: dev.py <unit> [-t times] [-c canaries] [-s replay sweep of the original text]
env: VERIF_REPO=<dir> checks a scratch copy of the repository instead of /repo (e.g. to try a deliberately broken body),
     VF_WD=<dir> work directory (default /var/tmp/vfdev)."""
import sys, os
sys.path.insert(0, os.path.dirname(os.path.abspath(__file__)))
import vf
unit = sys.argv[1]
wd = os.environ.get("VF_WD", "/var/tmp/vfdev"); os.makedirs(wd, exist_ok=True)
try:
    r = vf.check_unit(unit, wd)
    print(r['runs'])
    for k, v in r['failed'].items():
        print("FAILED", k)
        for x in v: print(x['rendered'])
    for e in r['other_errors']:
        print('OTHER', e['message'], e['lines']); print(e['rendered'])
    print("obligations", len(r['obligations']), "fns", len([f for f in r['functions'] if f['mode'] != 'spec']))
    if '-t' in sys.argv:
        for k, v in sorted(r['times'].items(), key=lambda kv: -kv[1]['ms'])[:8]: print(k, v)
    if '-c' in sys.argv: print(vf.run_canaries(unit, wd))
except vf.Undecided as u:
    print('UNDECIDED', u.reason); print(u.detail)

if '-s' in sys.argv:
    import replay as RP
    sw = RP.sweep_unit(unit, wd, 0)
    if not sw['built']: print('SWEEP driver does not build:', sw['note']); print(RP.build_driver(unit, wd)[1])
    else:
        print('SWEEP evaluated', sw['evaluated'], 'fails', len(sw['fails']))
        for f in sw['fails']: print('  FAIL', f)
