#!/usr/bin/env python3
"""Print //#item blocks (normalised baseline text) for a list of items: file:kind:name[:impl[:derive]]"""
import sys, os
sys.path.insert(0, os.path.dirname(os.path.abspath(__file__)))
import vf, extract as X
for spec in sys.argv[1:]:
    parts = spec.split("|") if "|" in spec else spec.split(":")
    f, kind, name = parts[:3]
    impl = parts[3] if len(parts) > 3 and parts[3] else None
    derive = parts[4] if len(parts) > 4 else ""
    body = parts[5] if len(parts) > 5 else ""
    in_fn = parts[6] if len(parts) > 6 and kind != "region" else ""
    attrs = {"file": f, "kind": kind, "name": name}
    if impl: attrs["impl"] = impl
    if derive: attrs["derive"] = derive
    if body: attrs["body"] = body
    if in_fn: attrs["in_fn"] = in_fn
    # SCAFFOLD_OPAQUE=<file with the JSON list of rule-O1 abstractions> applies them to the printed text
    if os.environ.get("SCAFFOLD_OPAQUE"): attrs["opaque"] = open(os.environ["SCAFFOLD_OPAQUE"]).read()
    if kind == "region":
        # file:region:name:impl:in_fn:from:to[:from_nth[:to_nth]]
        in_fn, frm, to = parts[4], parts[5], parts[6]
        fn_, tn_ = (parts[7] if len(parts) > 7 else "0"), (parts[8] if len(parts) > 8 else "0")
        excl = len(parts) > 9 and parts[9] == "excl"
        attrs.update({"in": in_fn, "from": frm, "to": to})
        if excl: attrs["to_exclusive"] = "yes"
        ex = X.extract_region(os.path.join(vf.REPO, f), in_fn, impl, frm, to, int(fn_), int(tn_), excl)
        text, log, loops = vf.normalise_item(attrs, ex["text"])
        hdr = '//#item file=%s kind=region name=%s in=%s from="%s" to="%s" from_nth=%s to_nth=%s' % (f, name, in_fn, frm, to, fn_, tn_)
        if impl: hdr += ' impl="%s"' % impl
        if excl: hdr += ' to_exclusive=yes'
        print(hdr); print(text.rstrip("\n")); print("//#end")
        continue
    ex = X.extract(os.path.join(vf.REPO, f), kind, name, impl, in_fn or None)
    text, log, loops = vf.normalise_item(attrs, ex["text"])
    hdr = "//#item file=%s kind=%s name=%s" % (f, kind, name)
    if impl: hdr += ' impl="%s"' % impl
    if derive: hdr += " derive=%s" % derive
    if body: hdr += " body=%s" % body
    if in_fn: hdr += " in_fn=%s" % in_fn
    print(hdr); print(text.rstrip("\n")); print("//#end")
