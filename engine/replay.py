"""Replay: compile the ORIGINAL (un-normalised) item text from /repo with plain rustc together with the
unit's replay driver, and search for a concrete input on which the real code disagrees with the
contract's executable oracle (exhaustive-small, then random seeded by VERIF_SEED)."""
import os, re, json, subprocess, time, hashlib, sys

HERE = os.path.dirname(os.path.abspath(__file__))
VERIF = os.path.dirname(HERE)
sys.path.insert(0, HERE)
import vf
import extract as X
from rustlex import lex, match_close

STD_DERIVES = ("Debug", "Clone", "Copy", "PartialEq", "Eq", "PartialOrd", "Ord", "Hash", "Default")


def _plain_type_text(raw):
    """Original type text with serde derives/attributes removed (so it compiles without dependencies)."""
    toks = [t for t in lex(raw) if t.kind != "ws"]
    edits = []
    i = 0
    while i < len(toks):
        t = toks[i]
        if t.kind == "punct" and t.text == "#" and i + 1 < len(toks) and toks[i + 1].text == "[":
            k = match_close(toks, i + 1)
            attr = raw[t.start:toks[k].end]
            m = re.match(r"#\[\s*derive\s*\((.*)\)\s*\]\s*$", attr, re.S)
            if m:
                kept = [d.strip() for d in m.group(1).split(",") if d.strip() and d.strip().split("::")[-1] in STD_DERIVES]
                edits.append((t.start, toks[k].end, "#[derive(%s)]" % ", ".join(kept) if kept else ""))
            elif re.match(r"#\[\s*(serde|allow|cfg_attr)\b", attr):
                edits.append((t.start, toks[k].end, ""))
            i = k
        i += 1
    return X._apply_edits(raw, edits)


def build_items_rs(unit, work):
    """Write <work>/<unit>_items.rs with the original text of every /repo item of the unit."""
    unit_dir = os.path.join(VERIF, "contracts", unit)
    segs = vf.parse_template(os.path.join(unit_dir, "unit.rs"))
    types, impls, free = [], {}, []
    order = []
    meta = json.load(open(os.path.join(unit_dir, "unit.json")))
    all_items = [seg[1] for seg in segs if seg[0] == "item" and seg[1]["kind"] != "region"]
    # "replay_file_head": the ORIGINAL text of a /repo file from its first line up to (not including) the line containing the
    # anchor: for files whose statics / tables the replay needs as a whole.  Items of that file are then not extracted one by one.
    head = meta.get("replay_file_head")
    head_text = None
    if head:
        src = open(os.path.join(vf.REPO, head["file"])).read()
        cut = src.find(head["until"])
        if cut < 0:
            raise X.ExtractError("replay_file_head: anchor %r not found in %s" % (head["until"], head["file"]))
        cut = src.rfind("\n", 0, cut) + 1
        head_text = "\n".join(l for l in src[:cut].split("\n") if not l.startswith("//!"))
        all_items = [a for a in all_items if a["file"] != head["file"]]
    # extra items only the replay build needs (whole functions outside the Verus subset compile fine with rustc)
    all_items += meta.get("replay_items", [])
    seen = set()
    outer_fns = set(a["name"] for a in all_items if a["kind"] == "fn" and not a.get("in_fn"))
    for attrs in all_items:
        if attrs.get("in_fn") and attrs["in_fn"] in outer_fns:
            continue  # nested item: it comes with the enclosing function's original text
        key = (attrs["kind"], attrs["name"], attrs.get("impl"))
        if key in seen:
            continue
        seen.add(key)
        ex = X.extract(os.path.join(vf.REPO, attrs["file"]), attrs["kind"], attrs["name"], attrs.get("impl"), attrs.get("in_fn"))
        if attrs["kind"] in ("struct", "enum"):
            types.append(_plain_type_text(ex["text"]))
        elif attrs["kind"] == "const":
            types.append(ex["text"])
        elif attrs.get("impl"):
            if attrs["impl"] not in impls:
                impls[attrs["impl"]] = []
                order.append(attrs["impl"])
            impls[attrs["impl"]].append(ex["text"])
        else:
            free.append(ex["text"])
    # statement regions: the ORIGINAL region text between a plain-Rust wrapper header/footer given in unit.json
    wrappers = meta.get("replay_wrappers", {})
    for seg in segs:
        if seg[0] == "item" and seg[1]["kind"] == "region" and seg[1]["name"] in wrappers:
            a = seg[1]
            ex = X.extract_region(os.path.join(vf.REPO, a["file"]), a["in"], a.get("impl"), a["from"], a["to"], int(a.get("from_nth", 0)), int(a.get("to_nth", 0)), a.get("to_exclusive") == "yes")
            w = wrappers[a["name"]]
            free.append(w["header"] + "\n" + ex["text"] + "\n" + w["footer"])
    # regions that only the replay build needs (unverified neighbouring statements of a verified region, original text)
    for rr in meta.get("replay_regions", []):
        ex = X.extract_region(os.path.join(vf.REPO, rr["file"]), rr["in"], rr.get("impl"), rr["from"], rr["to"], int(rr.get("from_nth", 0)), int(rr.get("to_nth", 0)), rr.get("to_exclusive") == "yes")
        free.append(rr["header"] + "\n" + ex["text"] + "\n" + rr["footer"])
    out = ["// generated on every run from /repo's working tree: ORIGINAL item text (only serde derives/attributes removed from types)"]
    if head_text is not None:
        out.append(head_text)
    out += types
    for im in order:
        out.append("impl %s {" % im)
        out += impls[im]
        out.append("}")
    out += free
    path = os.path.join(work, "%s_items.rs" % unit)
    open(path, "w").write("\n\n".join(out) + "\n")
    return path


def build_driver(unit, work):
    unit_dir = os.path.join(VERIF, "contracts", unit)
    drv = os.path.join(unit_dir, "replay.rs")
    if not os.path.exists(drv):
        return None, "no replay driver for unit " + unit
    try:
        items = build_items_rs(unit, work)
    except (X.ExtractError, FileNotFoundError, ValueError) as e:
        return None, "extract failed: %s" % e
    main_rs = os.path.join(work, "%s_replay_main.rs" % unit)
    src = open(drv).read().replace("@ITEMS@", items)
    open(main_rs, "w").write(src)
    exe = os.path.join(work, "%s_replay" % unit)
    cmd = ["rustc", "--edition", "2024", "-C", "overflow-checks=on", "-C", "debug-assertions=on", "-C", "opt-level=1", "-A", "warnings", "-o", exe, main_rs]
    p = subprocess.run(cmd, capture_output=True, text=True)
    if p.returncode != 0:
        return None, "replay driver does not compile against the current item text:\n" + p.stderr[-3000:]
    return exe, " ".join(cmd)


def run_driver(exe, mode, fn, arg, timeout=240):
    try:
        p = subprocess.run([exe, mode, fn, str(arg)], capture_output=True, text=True, timeout=timeout)
    except subprocess.TimeoutExpired:
        return [], 0, "timeout"
    fails, evaluated = [], 0
    for l in p.stdout.split("\n"):
        if l.startswith("FAIL "):
            d = {}
            for m in re.finditer(r"(\w+)=\[\[(.*?)\]\]", l):
                d[m.group(1)] = m.group(2)
            fails.append(d)
        elif l.startswith("DONE "):
            m = re.search(r"evaluated=(\d+)", l)
            evaluated = int(m.group(1)) if m else 0
    return fails, evaluated, p.stderr[-2000:]


def fn_of_obligation(oid):
    # "<fn path>::<kind>" -> fn path
    return oid.rsplit("::", 1)[0]


def search_unit(prop, unit, work, seed, only_fn=None):
    exe, info = build_driver(unit, work)
    if exe is None:
        return None
    fails, evaluated, _ = run_driver(exe, "search", only_fn or "*", seed)
    # one witness per failing oracle clause (the caller skips those that are recorded findings)
    return [{"obligation": f.get("fn", "?") + "::" + f.get("clause", "oracle"), "fn": f.get("fn"), "input": f.get("input"), "observed": f.get("observed"),
             "expected": f.get("expected"), "evaluated": evaluated, "build": info} for f in fails] or None


def sweep_unit(unit, work, seed):
    """Standing bounded cross-check (every run): the unit's replay driver sweeps its exhaustive-small and
    seeded random inputs over the ORIGINAL text.  Returns dict(evaluated, fails, note)."""
    exe, info = build_driver(unit, work)
    if exe is None:
        return {"unit": unit, "evaluated": 0, "fails": [], "note": info[:300], "built": False}
    fails, evaluated, err = run_driver(exe, "search", "*", seed)
    return {"unit": unit, "evaluated": evaluated, "fails": fails, "note": "", "built": True, "build": info}


def write_replay_file(replay_dir, prop, unit, oid, wit, verifier_output, seed, extra=None):
    h = hashlib.sha256((prop + unit + oid + str(wit)).encode()).hexdigest()[:10]
    path = os.path.join(replay_dir, "%s_%s_%s.json" % (prop, unit.replace(":", "_"), h))
    doc = {"property": prop, "unit": unit, "failed_obligation": oid, "seed": seed,
           "verifier_output": verifier_output,
           "failing_input": wit if wit else None,
           "result": "concrete failing input replayed on the original /repo text" if wit else "no-failing-input-found",
           "replay_cmd": "/verif/bin/check %s --replay %s" % (prop, path)}
    if extra:
        doc.update(extra)
    json.dump(doc, open(path, "w"), indent=1, default=str)
    return path


def build_replay(prop, unit, oid, recs, res, work, seed, replay_dir, all_obligations=None):
    """Called for a failed baseline obligation. Tries to find a concrete input; always writes the file."""
    verifier_output = "\n".join((x.get("rendered") or x.get("message") or "") for x in recs)[:8000]
    extra = {"all_failed_obligations_of_function": all_obligations or [oid]}
    wit = None
    if unit.startswith("kani:"):
        k = recs[0].get("kani", {})
        extra["kani"] = {kk: k.get(kk) for kk in ("harness", "failed_check", "concrete_values", "bounded", "cmd")}
        if k.get("concrete_values"):
            wit = {"fn": k.get("function"), "input": k.get("concrete_values"), "observed": k.get("failed_check"), "expected": "contract holds"}
    elif recs and recs[0].get("sweep_witness"):
        w = recs[0]["sweep_witness"]
        wit = {"fn": w.get("fn"), "input": w.get("input"), "observed": w.get("observed"), "expected": w.get("expected"), "clause": w.get("clause")}
    else:
        f = fn_of_obligation(oid)
        exe, info = build_driver(unit, work)
        extra["replay_build"] = info
        if exe is not None:
            fails, evaluated, err = run_driver(exe, "search", f, seed)
            extra["inputs_evaluated"] = evaluated
            if not fails:
                # the failing obligation may be a call-site precondition: search the whole unit too
                fails2, ev2, _ = run_driver(exe, "search", "*", seed)
                extra["inputs_evaluated_whole_unit"] = ev2
                fails = fails2
            # a recorded finding of the unchanged tree is not evidence for THIS failure; prefer a witness of the failing function
            try:
                known = json.load(open(os.path.join(VERIF, "known_findings.json"))).get("findings", [])
            except (OSError, ValueError):
                known = []
            is_known = lambda w: any(k.get("property") == prop and k.get("unit", unit) == unit and k.get("obligation") == "%s::%s" % (w.get("fn", "?"), w.get("clause", "oracle")) for k in known)
            fails = [w for w in fails if not is_known(w)]
            same = [w for w in fails if w.get("fn") and (w["fn"] == f or w["fn"].endswith(f) or f.endswith(w["fn"]))]
            fails = same or fails
            if fails:
                w = fails[0]
                wit = {"fn": w.get("fn"), "input": w.get("input"), "observed": w.get("observed"), "expected": w.get("expected"), "clause": w.get("clause")}
        if res is not None:
            extra["changed_items"] = res.get("changed_items")
    path = write_replay_file(replay_dir, prop, unit, oid, wit, verifier_output, seed, extra)
    return {"path": path, "found_input": wit is not None}


def replay_file(path):
    """bin/check <prop> --replay <file>: re-run the recorded input against the current /repo text."""
    import tempfile, shutil
    doc = json.load(open(path))
    wit = doc.get("failing_input")
    print("replay of %s: obligation %s" % (path, doc.get("failed_obligation")))
    if not wit:
        print("no concrete input recorded (no-failing-input-found); verifier output follows")
        print(doc.get("verifier_output", ""))
        return 1
    if doc["unit"].startswith("crate:"):
        print("crate-level sweep witness (bounded check %s): clause %s" % (doc["unit"], wit.get("clause")))
        print("input:    %s" % wit.get("input"))
        print("observed: %s" % wit.get("observed"))
        print("re-run the sweep on the current tree with: /verif/bin/check %s --tier thorough" % doc.get("property"))
        return 1
    if doc["unit"].startswith("kani:"):
        print("Kani concrete values: %s" % wit)
        return 1
    work = tempfile.mkdtemp(prefix="gitai-verif-replay.", dir=os.environ.get("TMPDIR") or "/var/tmp")
    try:
        exe, info = build_driver(doc["unit"], work)
        if exe is None:
            print("cannot build replay driver: " + info)
            return 2
        p = subprocess.run([exe, "replay", wit["fn"], wit["input"]], capture_output=True, text=True, timeout=120)
        print(p.stdout.strip())
        if "FAIL " in p.stdout:
            print("VIOLATION property=%s replay=%s" % (doc["property"], path))
            return 1
        print("input no longer fails on the current tree")
        return 0
    finally:
        shutil.rmtree(work, ignore_errors=True)
