"""Kani/CBMC runs on a scratch copy of /repo (thorough tier only).

* /repo is rsync'ed (without target/, .git/, tests/) to a scratch directory outside /repo and /verif.
* The harness module text of the property (contracts/kani/<prop>.rs) is APPENDED to the named source
  file inside `#[cfg(kani)] mod verif_kani { use super::*; ... }` -- private items are reachable from a
  child module.  Nothing else is touched; a diff of the scratch file against /repo must show only the
  appended lines.
* rustix 0.37.28's build script probes a nightly feature that Kani's toolchain no longer has; a copy of
  that crate with the one probe line removed is used through [patch.crates-io] (dependency plumbing of
  `smol`; nothing that is verified depends on it).
* Loop-free harnesses over full-domain symbolic scalars are COMPLETE proofs (no unwinding involved);
  harnesses with "bounded": true in the config are bounded stand-ins and are reported as such.
"""
import os, re, json, shutil, subprocess, time, glob, tempfile, resource


def _limit_mem():
    # CBMC can balloon on harnesses that allocate; cap the address space so a runaway solver dies instead of the box
    cap = int(os.environ.get("VERIF_KANI_MEM_GB", "20")) * 1024 ** 3
    resource.setrlimit(resource.RLIMIT_AS, (cap, cap))

VERIF = os.path.dirname(os.path.dirname(os.path.abspath(__file__)))
REPO = os.environ.get("VERIF_REPO", "/repo")
CACHE = os.path.join(VERIF, ".cache")


def _rustix_patch_dir():
    dst = os.path.join(CACHE, "rustix-0.37.28-kani")
    if os.path.exists(os.path.join(dst, "Cargo.toml")):
        return dst
    cands = glob.glob(os.path.expanduser("~/.cargo/registry/src/*/rustix-0.37.28"))
    if not cands:
        return None
    os.makedirs(CACHE, exist_ok=True)
    shutil.copytree(cands[0], dst)
    b = os.path.join(dst, "build.rs")
    s = open(b).read().replace('    use_feature_or_nothing("rustc_attrs");\n', "")
    open(b, "w").write(s)
    # a vendored copy must not carry the registry checksum file
    for f in (".cargo-checksum.json", ".cargo_vcs_info.json"):
        p = os.path.join(dst, f)
        if os.path.exists(p):
            os.remove(p)
    return dst


def run(prop, cfg, work, seed):
    """cfg: {"file": "src/...rs", "harness_file": "contracts/kani/Cxx.rs", "harnesses": [{"name":..., "bounded":bool, "bound":"...", "timeout":s, "function": "..."}]}"""
    out = {"harnesses": [], "note": ""}
    if shutil.which("cargo-kani") is None and shutil.which("kani") is None:
        out["note"] = "kani not installed"
        return out
    patch = _rustix_patch_dir()
    if patch is None:
        out["note"] = "rustix-0.37.28 not in the cargo registry cache; cannot build under Kani"
        return out
    scratch = os.path.join(work, "kani-src")
    os.makedirs(scratch, exist_ok=True)
    subprocess.run(["rsync", "-a", "--delete", "--exclude", "target", "--exclude", ".git", "--exclude", "tests", "--exclude", "/seed_out", REPO + "/", scratch + "/"], check=True)
    for group in cfg["groups"]:
        target = os.path.join(scratch, group["file"])
        harness_text = open(os.path.join(VERIF, group["harness_file"])).read()
        with open(target, "a") as f:
            f.write("\n#[cfg(kani)]\nmod verif_kani {\n    use super::*;\n" + harness_text + "\n}\n")
        # add-only check
        orig = open(os.path.join(REPO, group["file"])).read()
        now = open(target).read()
        if not now.startswith(orig):
            out["note"] = "add-only check failed for " + group["file"]
            return out
    with open(os.path.join(scratch, "Cargo.toml"), "a") as f:
        f.write('\n[patch.crates-io]\nrustix = { path = "%s" }\n' % patch)
    env = dict(os.environ, CARGO_NET_OFFLINE="true", CARGO_TARGET_DIR=os.path.join(CACHE, "kani-target"))
    for group in cfg["groups"]:
        for h in group["harnesses"]:
            cmd = ["cargo", "kani", "--harness", "verif_kani::" + h["name"], "-Z", "function-contracts", "-Z", "concrete-playback", "--concrete-playback=print",
                   "--output-format", "terse"]
            if h.get("unwind"):
                cmd += ["--default-unwind", str(h["unwind"])]
            t0 = time.time()
            rec = {"harness": h["name"], "function": h.get("function"), "bounded": bool(h.get("bounded")), "bound": h.get("bound", "none (loop-free, full symbolic domain)"), "cmd": " ".join(cmd)}
            try:
                p = subprocess.run(cmd, cwd=scratch, env=env, capture_output=True, text=True, timeout=h.get("timeout", 900), preexec_fn=_limit_mem)
                txt = p.stdout + "\n" + p.stderr
                rec["wall_s"] = round(time.time() - t0, 1)
                if "VERIFICATION:- SUCCESSFUL" in txt:
                    rec["status"] = "SUCCESS"
                    m = re.search(r"(\d+) of (\d+) failed", txt)
                    mm = re.search(r"SUMMARY:\s*\n\s*\*\* (\d+) of (\d+) failed", txt)
                    if mm:
                        rec["checks"] = int(mm.group(2))
                elif "VERIFICATION:- FAILED" in txt and re.search(r"\*\* 0 of \d+ failed", txt):
                    # no property failed: Kani could not determine some check (unwinding assertion,
                    # unsupported construct reachable); that is not a counterexample
                    rec["status"] = "UNDETERMINED"
                    rec["trace"] = txt[-1500:]
                elif "VERIFICATION:- FAILED" in txt:
                    rec["status"] = "FAILED"
                    fm = re.search(r"Failed Checks: (.*)", txt)
                    rec["failed_check"] = fm.group(1).strip() if fm else "?"
                    cv = re.search(r"Concrete playback unit test.*?```\n(.*?)```", txt, re.S)
                    rec["concrete_values"] = cv.group(1)[:3000] if cv else None
                    rec["trace"] = txt[-3000:]
                elif "out of memory" in txt.lower() or "bad_alloc" in txt or "memory exhausted" in txt.lower():
                    rec["status"] = "OUT_OF_MEMORY"
                    rec["trace"] = txt[-1000:]
                else:
                    rec["status"] = "ERROR"
                    rec["trace"] = txt[-2000:]
            except subprocess.TimeoutExpired:
                rec["status"] = "TIMEOUT"
                rec["wall_s"] = round(time.time() - t0, 1)
            out["harnesses"].append(rec)
    if not os.environ.get("VERIF_KANI_KEEP"):
        shutil.rmtree(scratch, ignore_errors=True)
    return out
