#!/usr/bin/env python3
"""Contract-based deductive verification driver for git-ai (see /verif/DESIGN.md section 3).

A *unit* is a template file /verif/contracts/<unit>/unit.rs : a Verus source in which the
functions of /repo appear between `//#item ...` / `//#end` directives as their baseline
(normalised) text plus annotation lines starting with `//@`.  On every run each item is
re-extracted byte-for-byte from /repo's working tree, normalised by the rules of DESIGN 3.1,
the annotation lines are re-inserted at the aligned positions (add-only), the identity of
the verified text with the /repo text is re-checked, Verus is run, and failed obligations
are named.
"""
import sys, os, re, json, time, shlex, hashlib, subprocess, difflib, tempfile, shutil

HERE = os.path.dirname(os.path.abspath(__file__))
sys.path.insert(0, HERE)
from rustlex import lex, code_tokens, strip_attributes
import extract as X
import obligations as OB

VERIF = os.path.dirname(HERE)
REPO = os.environ.get("VERIF_REPO", "/repo")
TAG = " //@v"
VERUS_FLAGS = ["--edition", "2024", "--output-json", "--error-format=json", "--multiple-errors", "25", "--time-expanded", "--triggers-mode", "silent"]

SEMANTIC_ERRORS = (
    "postcondition not satisfied", "precondition not satisfied", "invariant not satisfied",
    "assertion failed", "possible arithmetic underflow/overflow", "possible division by zero",
    "decreases not satisfied", "could not prove termination", "assert_by", "bit shift",
    "possible bit shift", "recommendation not met", "loop invariant", "unreachable",
    "failed this postcondition", "cannot prove", "might not", "possible",
)
RESOURCE_ERRORS = ("Resource limit (rlimit) exceeded", "rlimit", "timed out", "solver disagreement")


class Undecided(Exception):
    def __init__(self, reason, detail=""):
        super().__init__(reason)
        self.reason, self.detail = reason, detail


def sha(s):
    return hashlib.sha256(s.encode("utf-8")).hexdigest()


def norm_line(l):
    return " ".join(l.split())


# ------------------------------------------------------------------------------------------
# template parsing


def parse_template(path, contract_only=None):
    """Return list of segments: ('raw', [lines]) | ('item', attrs, [(kind,line)]) where kind in 'b','a'.
    contract_only: name of the unit in which the items of this file are proved (they are then included
    here with their contracts only, bodies ignored)."""
    segs = []
    cur = ("raw", [])
    item = None
    for ln, line in enumerate(open(path, encoding="utf-8").read().split("\n"), 1):
        s = line.strip()
        if s.startswith("//#include ") and item is None:
            segs.append(cur)
            inc = os.path.join(os.path.dirname(path), s[len("//#include "):].strip())
            segs.extend(parse_template(inc, contract_only=contract_only))
            cur = ("raw", [])
            continue
        if s.startswith("//#use-contract ") and item is None:
            # //#use-contract <unit> <relative path>: callee contracts proved in another unit of the same property
            segs.append(cur)
            _, unit_name, rel = s.split(None, 2)
            segs.extend(parse_template(os.path.join(os.path.dirname(path), rel.strip()), contract_only=unit_name))
            cur = ("raw", [])
            continue
        if s.startswith("//#item"):
            if item is not None:
                raise Undecided("template-error", "%s:%d nested item" % (path, ln))
            segs.append(cur)
            attrs = {}
            for part in shlex.split(s[len("//#item"):]):
                k, _, v = part.partition("=")
                attrs[k] = v
            if contract_only:
                attrs["contract_only"] = contract_only
            item = ("item", attrs, [])
            continue
        if s.startswith("//#end"):
            if item is None:
                raise Undecided("template-error", "%s:%d stray end" % (path, ln))
            segs.append(item)
            item = None
            cur = ("raw", [])
            continue
        if item is not None:
            if s.startswith("//@"):
                body = s[3:]
                if body.startswith(" "):
                    body = body[1:]
                ind = line[: len(line) - len(line.lstrip())]
                item[2].append(("a", ind + body))
            else:
                item[2].append(("b", line))
        else:
            cur[1].append(line)
    if item is not None:
        raise Undecided("template-error", "%s: unterminated item" % path)
    segs.append(cur)
    return segs


# ------------------------------------------------------------------------------------------
# generation


def normalise_item(attrs, raw_text):
    log = []
    kind = attrs["kind"]
    if kind in ("struct", "enum"):
        keep = tuple(x for x in attrs.get("derive", "").split(",") if x)
        text = X.drop_attrs_and_docs(raw_text, keep_derives=keep, log=log)
        loops = 0
    elif kind == "fn":
        text = X.drop_attrs_and_docs(raw_text, log=log)
        if attrs.get("body") != "opaque":
            text = X.prepass(text, opaque=json.loads(attrs["opaque"]) if attrs.get("opaque") else None, log=log)
        text, loops = X.normalise_fn(text, log=log, signature_only=(attrs.get("body") == "opaque"))
    elif kind == "const":
        text = X.drop_attrs_and_docs(raw_text, log=log)
        loops = 0
    elif kind == "region":
        text = X.drop_attrs_and_docs(raw_text, log=log)
        text = X.prepass(text, opaque=json.loads(attrs["opaque"]) if attrs.get("opaque") else None, log=log)
        text, loops = X.normalise_region(text, log=log)
        log.append({"rule": "R1", "note": "statement region of %s wrapped in a synthetic fn by add-only annotation lines; free variables become parameters, mutated ones are returned" % attrs.get("in")})
    else:
        raise Undecided("template-error", "unknown kind " + kind)
    return text, log, loops


WEAK_ANCHORS = ("", "{", "}", "};", "} else {", "});", ")")
INLINE_RE = re.compile(r"/\*@<(.*?)>@\*/")
INLINE_GEN_RE = re.compile(r"/\*@<\*/.*?/\*>@\*/")


def strip_inline(line):
    return INLINE_RE.sub("", line)


def inline_place(tpl_line, cur_line, item_id):
    """Re-insert the token-level annotations of a template line into the current text of that line."""
    pieces = INLINE_RE.split(tpl_line)  # code, marker, code, marker, ...
    btoks = []
    markers = []  # (index in btoks before which the marker sits, text)
    for k, p in enumerate(pieces):
        if k % 2 == 0:
            btoks += [t.text for t in code_tokens(p)]
        else:
            markers.append((len(btoks), p))
    ctoks = code_tokens(cur_line)
    ctext = [t.text for t in ctoks]
    pos = {}
    if btoks == ctext:
        mp = {i: i for i in range(len(btoks))}
    else:
        sm = difflib.SequenceMatcher(a=btoks, b=ctext, autojunk=False)
        mp = {}
        for tag, i1, i2, j1, j2 in sm.get_opcodes():
            if tag == "equal":
                for d in range(i2 - i1):
                    mp[i1 + d] = j1 + d
            elif tag == "replace" and (i2 - i1) == (j2 - j1):
                for d in range(i2 - i1):
                    mp[i1 + d] = j1 + d
    inserts = []
    for m, text in markers:
        if m - 1 in mp:
            off = ctoks[mp[m - 1]].end
        elif m in mp:
            off = ctoks[mp[m]].start
        elif m == 0:
            off = len(cur_line) - len(cur_line.lstrip())
        else:
            raise Undecided("lost-anchor", "%s: inline annotation %r has no anchor in %r" % (item_id, text, cur_line.strip()))
        inserts.append((off, " /*@<*/ " + text.strip() + " /*>@*/ "))
    out = cur_line
    for off, text in sorted(inserts, key=lambda x: -x[0]):
        out = out[:off] + text + out[off:]
    return out


def place_annotations(tpl_lines, cur_lines, item_id):
    """tpl_lines: [(kind, text)]; cur_lines: current normalised lines.
    Returns list of (is_annotation, text, cur_line_index_or_None)."""
    base_raw = [t for k, t in tpl_lines if k == "b"]
    base = [strip_inline(t) for t in base_raw]
    inline_lines = [i for i, t in enumerate(base_raw) if INLINE_RE.search(t)]
    bn = [norm_line(x) for x in base]
    cn = [norm_line(x) for x in cur_lines]
    changed = bn != cn
    # annotation runs keyed by number of baseline lines before them
    runs = {}
    nb = 0
    for k, t in tpl_lines:
        if k == "b":
            nb += 1
        else:
            runs.setdefault(nb, []).append(t)
    pos_map = {}
    line_of = {}  # baseline line index -> current line index (for lines carrying inline annotations)
    if not changed:
        for i in runs:
            pos_map[i] = i
        for i in inline_lines:
            line_of[i] = i
    else:
        sm = difflib.SequenceMatcher(a=bn, b=cn, autojunk=False)
        ops = sm.get_opcodes()
        b2c = {}
        for tag, i1, i2, j1, j2 in ops:
            if tag == "equal":
                for d in range(i2 - i1):
                    b2c[i1 + d] = j1 + d
        for i in runs:
            if i == 0:
                pos_map[i] = 0
            elif i == len(bn):
                pos_map[i] = len(cn)
            elif (i - 1) in b2c and bn[i - 1] not in WEAK_ANCHORS:
                pos_map[i] = b2c[i - 1] + 1
            elif i in b2c and bn[i] not in WEAK_ANCHORS:
                pos_map[i] = b2c[i]
            elif (i - 1) in b2c and bn[i - 1] != "":
                pos_map[i] = b2c[i - 1] + 1
            elif i in b2c and bn[i] != "":
                pos_map[i] = b2c[i]
            elif (i - 1) in b2c:
                pos_map[i] = b2c[i - 1] + 1
            else:
                placed = False
                for tag, i1, i2, j1, j2 in ops:
                    if tag == "replace" and i1 < i <= i2 and (i2 - i1) == (j2 - j1):
                        pos_map[i] = j1 + (i - i1)
                        placed = True
                if not placed:
                    raise Undecided("lost-anchor", "%s: annotation block after baseline line %d (%r) has no anchor in the current text" % (item_id, i, base[i - 1].strip() if i > 0 else ""))
        for i in inline_lines:
            if i in b2c:
                line_of[i] = b2c[i]
            else:
                hit = None
                for tag, i1, i2, j1, j2 in ops:
                    if tag == "replace" and i1 <= i < i2 and (i2 - i1) == (j2 - j1):
                        hit = j1 + (i - i1)
                if hit is None:
                    raise Undecided("lost-anchor", "%s: line with inline annotation (%r) has no counterpart in the current text" % (item_id, base[i].strip()))
                line_of[i] = hit
    cur_lines = list(cur_lines)
    for i, j in line_of.items():
        cur_lines[j] = inline_place(base_raw[i], cur_lines[j], item_id)
    out = []
    by_cpos = {}
    for i, ts in runs.items():
        by_cpos.setdefault(pos_map[i], []).extend(ts)
    for j in range(len(cur_lines) + 1):
        for t in by_cpos.get(j, []):
            out.append((True, t, None))
        if j < len(cur_lines):
            out.append((False, cur_lines[j], j))
    return out, changed


def generate(unit_dir, canary=False):
    """Build the Verus file for a unit from /repo's working tree.
    Returns dict(text, items=[...], line_map=[...])."""
    tpl = os.path.join(unit_dir, "unit.rs")
    segs = parse_template(tpl)
    out_lines = []
    line_info = []  # per generated line: (item_id|None, is_annotation, repo_file, repo_line|None)
    items = []
    for seg in segs:
        if seg[0] == "raw":
            for l in seg[1]:
                out_lines.append(l)
                line_info.append((None, True, None, None))
            continue
        _, attrs, tpl_lines = seg
        relfile = attrs["file"]
        path = os.path.join(REPO, relfile)
        item_id = (attrs.get("impl", "").split()[-1] + "::" if attrs.get("impl") else "") + attrs["name"]
        try:
            if attrs["kind"] == "region":
                ex = X.extract_region(path, attrs["in"], attrs.get("impl"), attrs["from"], attrs["to"], int(attrs.get("from_nth", 0)), int(attrs.get("to_nth", 0)), attrs.get("to_exclusive") == "yes")
            else:
                ex = X.extract(path, attrs["kind"], attrs["name"], attrs.get("impl"), attrs.get("in_fn"))
        except (X.ExtractError, FileNotFoundError, ValueError) as e:
            raise Undecided("lost-anchor", "%s: %s" % (item_id, e))
        try:
            ntext, log, loops = normalise_item(attrs, ex["text"])
        except (X.ExtractError, ValueError, StopIteration) as e:
            raise Undecided("normalise-failed", "%s: %s" % (item_id, e))
        cur_lines = ntext.split("\n")
        while cur_lines and cur_lines[-1].strip() == "":
            cur_lines.pop()
        # template baseline (for change detection) ignores blank edge lines
        tl = list(tpl_lines)
        while tl and tl[-1][0] == "b" and tl[-1][1].strip() == "":
            tl.pop()
        while tl and tl[0][0] == "b" and tl[0][1].strip() == "":
            tl.pop(0)
        if attrs["kind"] in ("fn", "region"):
            def loop_kinds(txt):
                tk = code_tokens(txt)
                return [t.text for i, t in enumerate(tk) if t.kind == "ident" and t.text in ("for", "while", "loop") and not (t.text == "for" and i + 1 < len(tk) and tk[i + 1].text == "<")]
            base_kinds = loop_kinds("\n".join(strip_inline(t) for k_, t in tl if k_ == "b"))
            cur_kinds = loop_kinds("\n".join(cur_lines))
            if base_kinds != cur_kinds and not (attrs.get("contract_only") or attrs.get("body") == "opaque"):
                # the proof script is keyed to the loop structure: a different structure cannot be judged by it
                raise Undecided("loop-structure-changed", "%s: loops were %s, now %s" % (item_id, base_kinds, cur_kinds))
            def for_heads(txt):
                # the iterator expression of every `for` loop: the tokens between `in` and the `{` that opens the body
                tk = code_tokens(txt)
                heads = []
                i = 0
                while i < len(tk):
                    if tk[i].kind == "ident" and tk[i].text == "for" and not (i + 1 < len(tk) and tk[i + 1].text == "<"):
                        j = i + 1
                        d = 0
                        while j < len(tk) and not (tk[j].kind == "ident" and tk[j].text == "in" and d == 0):
                            if tk[j].text in ("(", "["):
                                d += 1
                            elif tk[j].text in (")", "]"):
                                d -= 1
                            j += 1
                        e = j + 1
                        d = 0
                        while e < len(tk) and not (tk[e].text == "{" and d == 0):
                            if tk[e].text in ("(", "["):
                                d += 1
                            elif tk[e].text in (")", "]"):
                                d -= 1
                            e += 1
                        heads.append(" ".join(t.text for t in tk[j + 1:e]))
                        i = e
                    i += 1
                return heads
            base_heads = for_heads("\n".join(strip_inline(t) for k_, t in tl if k_ == "b"))
            cur_heads = for_heads("\n".join(cur_lines))
            if base_heads != cur_heads and not (attrs.get("contract_only") or attrs.get("body") == "opaque"):
                # loop invariants speak about `it_k.index@` / `it_k.snapshot@.remaining()` of one specific iterator: over a
                # different iterator expression a failed invariant is a mismatch of the proof script, not evidence.  As in every
                # undecided case the replay search still runs, and a concrete witness is still reported as a violation.
                raise Undecided("loop-head-changed", "%s: `for` iterators were %s, now %s" % (item_id, base_heads, cur_heads))
        absent = [x["expr"] for x in log if x.get("rule") == "O1-absent"]
        if absent and not (attrs.get("contract_only") or attrs.get("body") == "opaque"):
            # an expression the unit abstracts (rule O1) no longer occurs in the item: whatever replaced it is outside the
            # modelled subset (typically a std call without a specification), so a failed obligation downstream is a mismatch
            # of the proof script, not evidence against the code.  As in every undecided case the replay search still runs,
            # and a concrete witness is still reported as a violation.
            raise Undecided("abstraction-changed", "%s: abstracted expression(s) no longer present: %s" % (item_id, "; ".join(a[:80] for a in absent)))
        placed, changed = place_annotations(tl, cur_lines, item_id)
        has_requires = any(a and re.match(r"\s*requires\b", t) for a, t, _ in placed)
        out_lines.append("//#item-begin %s" % item_id)
        line_info.append((None, True, None, None))
        if attrs.get("contract_only") and attrs["kind"] == "fn":
            out_lines.append("#[verifier::external_body] // contract only: proved in unit %s" % attrs["contract_only"] + TAG)
            line_info.append((item_id, True, relfile, None))
            has_requires = False  # no canary for a body that is not verified here
        first_body_brace_done = False
        if (attrs.get("contract_only") or attrs.get("body") == "opaque") and attrs["kind"] == "fn":
            # modular use: signature + requires/ensures only; the body is proved in the home unit
            # (body=opaque: the function is TRUSTED, marked external_body by its annotations; its body is not used)
            cut = next((k for k, (is_a, t, _) in enumerate(placed) if not is_a and t.strip() == "{"), None)
            if cut is None:
                raise Undecided("normalise-failed", "%s: no body brace" % item_id)
            placed = placed[:cut] + [(True, "{ unimplemented!() }", None)]
        for is_a, t, cj in placed:
            if is_a:
                out_lines.append(t + TAG)
                line_info.append((item_id, True, relfile, None))
                if canary and attrs["kind"] == "region" and has_requires and not first_body_brace_done and t.strip() == "{":
                    # the wrapper's opening brace is an annotation line
                    first_body_brace_done = True
                    out_lines.append("    assert(false); // canary" + TAG)
                    line_info.append((item_id, True, relfile, "canary"))
            else:
                out_lines.append(t)
                line_info.append((item_id, False, relfile, None))
                if canary and attrs["kind"] == "fn" and has_requires and not first_body_brace_done and t.strip() == "{":
                    first_body_brace_done = True
                    out_lines.append("    assert(false); // canary" + TAG)
                    line_info.append((item_id, True, relfile, "canary"))
        out_lines.append("//#item-end %s" % item_id)
        line_info.append((None, True, None, None))
        base_text = "\n".join(t for k, t in tl if k == "b")
        items.append({
            "id": item_id, "file": relfile, "kind": attrs["kind"], "name": attrs["name"], "impl": attrs.get("impl"),
            "line_start": ex["line_start"], "line_end": ex["line_end"], "sha256_repo_text": sha(ex["text"]),
            "sha256_normalised": sha("\n".join(norm_line(l) for l in cur_lines)),
            "changed_vs_baseline": changed, "rules_applied": log, "loops": loops, "raw_text": ex["text"],
            "has_requires": has_requires, "baseline_text": base_text, "current_text": "\n".join(cur_lines),
            "contract_only": attrs.get("contract_only"), "opaque_body": attrs.get("body") == "opaque",
        })
    return {"text": "\n".join(out_lines) + "\n", "items": items, "line_info": line_info}


def identity_check(gen):
    """Strip tagged insertions from the generated text, invert the normalisation and compare
    token-for-token with the text extracted from /repo."""
    lines = gen["text"].split("\n")
    cur = None
    bodies = {}
    for l in lines:
        if l.startswith("//#item-begin "):
            cur = l[len("//#item-begin "):].strip()
            bodies[cur] = []
        elif l.startswith("//#item-end "):
            cur = None
        elif cur is not None and not l.endswith(TAG):
            bodies[cur].append(l)
    problems = []
    for it in gen["items"]:
        if (it.get("contract_only") or it.get("opaque_body")) and it["kind"] == "fn":
            continue  # body not present here; identity is checked in the unit that proves it (or the fn is trusted)
        got = INLINE_GEN_RE.sub("", "\n".join(bodies.get(it["id"], [])))
        toks = strip_attributes(code_tokens(got))
        back = X.denormalise_tokens(toks)
        conds = [[t.text for t in code_tokens(x["cond"])] for x in it["rules_applied"] if x.get("rule") == "N2"]
        if conds:
            # the wrapper condition was denormalised too (it may contain nothing to denormalise)
            back = X.invert_n2(back, conds)
        n6 = [x for x in it["rules_applied"] if x.get("rule") == "N6"]
        if n6:
            back = X.invert_n6(back, n6)
        n5 = [x for x in it["rules_applied"] if x.get("rule") == "N5"]
        if n5:
            back = X.invert_n5(back, n5)
        pre = [x for x in it["rules_applied"] if x.get("rule") in ("O1", "N4", "N2b", "N3", "N3b", "N7")]
        if pre:
            back = X.invert_prepass(back, pre)
        want = X.token_texts(it["raw_text"])
        if back != want:
            # first difference, for the report
            k = next((i for i, (a, b) in enumerate(zip(back, want)) if a != b), min(len(back), len(want)))
            problems.append("%s: token %d: generated %r vs repo %r" % (it["id"], k, back[k:k + 6], want[k:k + 6]))
    return problems


# ------------------------------------------------------------------------------------------
# running Verus


def run_verus(path, extra=(), timeout=600):
    cmd = ["verus", path] + VERUS_FLAGS + list(extra)
    t0 = time.time()
    try:
        p = subprocess.run(cmd, capture_output=True, text=True, timeout=timeout, cwd=os.path.dirname(path))
    except subprocess.TimeoutExpired:
        raise Undecided("verifier-timeout", " ".join(cmd))
    except FileNotFoundError:
        raise Undecided("missing-tool", "verus not on PATH")
    wall = time.time() - t0
    try:
        js = json.loads(p.stdout) if p.stdout.strip().startswith("{") else None
    except json.JSONDecodeError:
        js = None
    diags = []
    raw_err = []
    for l in p.stderr.split("\n"):
        l = l.strip()
        if l.startswith("{"):
            try:
                diags.append(json.loads(l))
            except json.JSONDecodeError:
                raw_err.append(l)
        elif l:
            raw_err.append(l)
    return {"cmd": " ".join(cmd), "rc": p.returncode, "json": js, "diags": diags, "raw_err": raw_err, "wall_s": wall}


def errors_of(res, fname):
    errs = []
    for d in res["diags"]:
        if d.get("level") != "error":
            continue
        msg = d.get("message", "")
        if msg.startswith("aborting due to"):
            continue
        spans = [s for s in d.get("spans", []) if os.path.basename(s.get("file_name", "")) == fname]
        prim = [s for s in spans if s.get("is_primary")]
        errs.append({
            "message": msg,
            "primary_lines": [(s["line_start"], s["line_end"]) for s in prim],
            "other_lines": [(s["line_start"], s["line_end"], s.get("label")) for s in spans if not s.get("is_primary")],
            "all_spans": [(s.get("file_name"), s["line_start"], s.get("label")) for s in d.get("spans", [])],
            "rendered": d.get("rendered", ""),
            "code": (d.get("code") or {}).get("code") if d.get("code") else None,
        })
    return errs


def is_semantic(msg):
    m = msg.lower()
    return any(k in m for k in ("postcondition not satisfied", "precondition not satisfied", "invariant not satisfied",
                                "assertion failed", "arithmetic underflow/overflow", "division by zero", "decreases not satisfied",
                                "could not prove termination", "bit shift", "possible", "not satisfied", "unable to prove"))


def is_resource(msg):
    m = msg.lower()
    return any(k in m for k in ("rlimit", "resource limit", "timed out", "timeout"))


def func_times(js):
    out = {}
    try:
        for mod in js["times-ms"]["smt"]["smt-run-module-times"]:
            for f in mod.get("function-breakdown", []):
                out[f["function"]] = {"ms": f["time"], "rlimit": f.get("rlimit"), "success": f.get("success")}
    except (KeyError, TypeError):
        pass
    return out


def map_error_to_obligation(err, obs, fns):
    """Pick the most specific obligation whose line span contains the relevant span of the error."""
    msg = err["message"]
    cand_lines = []
    if "postcondition" in msg:
        cand_lines = [(a, b) for a, b, lab in err["other_lines"] if lab and "postcondition" in lab] + err["primary_lines"]
        # Verus marks the failed ensures clause as primary
        cand_lines = err["primary_lines"] + cand_lines
    else:
        cand_lines = err["primary_lines"] + [(a, b) for a, b, _ in err["other_lines"]]
    want_kind = None
    if "loop invariant not satisfied" in msg:
        # failed at a `break`: the labelled span is the loop's ensures / invariant clause
        cand_lines = [(a, b) for a, b, lab in err["other_lines"] if lab and "invariant" in lab] + cand_lines
        want_kind = ("loop_ensures", "inv_step", "inv_init")
    elif "postcondition" in msg:
        want_kind = ("ensures", "loop_ensures")
    elif "invariant not satisfied before" in msg:
        want_kind = ("inv_init",)
    elif "invariant not satisfied at end" in msg or "invariant not satisfied" in msg:
        want_kind = ("inv_step",)
    elif "assertion failed" in msg:
        want_kind = ("assert",)
    elif "decreases" in msg or "termination" in msg:
        want_kind = ("decreases",)
    elif "post-condition of closure" in msg:
        want_kind = ("closure_ensures",)
    elif "precondition" in msg:
        want_kind = ("pre", "safety")
    else:
        want_kind = ("safety",)

    def kind_of(o):
        if o["kind"] == "inv":
            return "inv_init" if o["id"].endswith(".init") else "inv_step"
        return o["kind"]
    best = None
    for a, b in cand_lines:
        for o in obs:
            if kind_of(o) not in want_kind:
                continue
            if o["kind"] == "safety":
                continue
            if o["line_start"] <= a and b <= o["line_end"] or (a <= o["line_start"] and o["line_end"] <= b):
                if best is None or (o["line_end"] - o["line_start"]) < (best["line_end"] - best["line_start"]):
                    best = o
        if best:
            return best
    # fall back to the safety obligation of the enclosing function
    for a, b in err["primary_lines"] or cand_lines:
        for f in fns:
            if f["line_start"] <= a <= f["line_end"] and f["mode"] != "spec":
                for o in obs:
                    if o["fn"] == f["name"] and o["kind"] == "safety":
                        return o
                return {"id": f["name"] + "::unnamed", "fn": f["name"], "kind": "other", "line_start": a, "line_end": b, "text": ""}
    return None


# ------------------------------------------------------------------------------------------
# unit check


def scan_assumptions(text):
    found = []
    for ln, l in enumerate(text.split("\n"), 1):
        if "// contract only: proved in unit" in l:
            continue
        code = l.split("//")[0]
        for pat, name in ((r"\bassume\s*\(", "assume"), (r"\badmit\s*\(", "admit"), (r"external_body", "external_body"),
                          (r"\bassume_specification\b", "assume_specification"), (r"\baxiom\s+fn\b", "axiom"), (r"#\[verifier::external", "verifier::external"),
                          (r"external_type_specification|external_trait_specification", "external_spec")):
            if re.search(pat, code):
                m = re.search(r"assume_specification\s*(?:<[^>\[]*>)?\s*\[\s*(.+?)\s*\]\s*\(", code)
                what = name
                ma = re.search(r"axiom\s+fn\s+(\w+)", code)
                if ma:
                    what = "axiom[%s]" % ma.group(1)
                if m:
                    what = "assume_specification[%s]" % " ".join(m.group(1).split())
                found.append((ln, what, " ".join(l.split())))
                break
    return found


def check_unit(unit, workdir, seeds=(None,), tier="quick"):
    """Returns a result dict; raises Undecided."""
    unit_dir = os.path.join(VERIF, "contracts", unit)
    meta = json.load(open(os.path.join(unit_dir, "unit.json")))
    gen = generate(unit_dir)
    problems = identity_check(gen)
    if problems:
        raise Undecided("identity-check-failed", "; ".join(problems))
    fname = "%s_gen.rs" % unit
    gpath = os.path.join(workdir, fname)
    open(gpath, "w").write(gen["text"])
    fns, obs = OB.scan(gen["text"])
    obs = [o for o in obs if o["fn"] != "main"]
    if not obs:
        raise Undecided("vacuous", "no obligations generated for unit " + unit)
    # assumption scan
    found = scan_assumptions(gen["text"])
    declared = meta.get("trusted", [])
    found_names = sorted(set(w for _, w, _ in found))
    declared_names = sorted(set(d["what"] for d in declared))
    if found_names != declared_names:
        raise Undecided("assumption-scan-mismatch", "found %s, declared %s" % (found_names, declared_names))
    runs = []
    failed = {}
    other_errors = []
    for seed in seeds:
        extra = [] if seed is None else ["--smt-option", "smt.random_seed=%d" % seed]
        res = run_verus(gpath, extra)
        errs = errors_of(res, fname)
        vr = (res["json"] or {}).get("verification-results", {})
        runs.append({"seed": seed, "rc": res["rc"], "verified": vr.get("verified"), "errors": vr.get("errors"), "wall_s": round(res["wall_s"], 2), "cmd": res["cmd"]})
        if seed is not None and errs and all(is_resource(e["message"]) for e in errs):
            # a stability re-run (extra solver seed) that only ran out of resource: retry once with a tenfold resource limit before
            # classifying; the retry is recorded in the evidence (a slow-query signal), the default-seed run is never relaxed
            res = run_verus(gpath, extra + ["--rlimit", "100"])
            errs = errors_of(res, fname)
            vr = (res["json"] or {}).get("verification-results", {})
            runs.append({"seed": seed, "retry_with_rlimit": 100, "rc": res["rc"], "verified": vr.get("verified"), "errors": vr.get("errors"), "wall_s": round(res["wall_s"], 2), "cmd": res["cmd"]})
        if res["json"] is None or (vr.get("encountered-vir-error")) or (res["rc"] != 0 and not errs and not vr):
            raise Undecided("verifier-front-end-error", "\n".join(res["raw_err"][:20]) + "\n".join(d.get("rendered", "") for d in res["diags"] if d.get("level") == "error")[:4000])
        compile_errs = [e for e in errs if not is_semantic(e["message"]) and not is_resource(e["message"])]
        if compile_errs and not vr.get("verified") and not vr.get("errors"):
            raise Undecided("generated-file-does-not-compile", "\n".join(e["rendered"] or e["message"] for e in compile_errs)[:6000])
        for e in errs:
            ob = map_error_to_obligation(e, obs, fns)
            rec = {"message": e["message"], "lines": e["primary_lines"], "rendered": e["rendered"], "seed": seed,
                   "obligation": ob["id"] if ob else None, "semantic": is_semantic(e["message"]), "resource": is_resource(e["message"])}
            if ob is None or not (rec["semantic"] or rec["resource"]):
                other_errors.append(rec)
            else:
                failed.setdefault(ob["id"], []).append(rec)
        times = func_times(res["json"])
    # functions that failed verification according to Verus
    failed_fns = sorted(set(o.split("::")[0] if False else next((x["fn"] for x in obs if x["id"] == o), o) for o in failed))
    return {
        "unit": unit, "meta": meta, "gen": gen, "gen_path": gpath, "functions": fns, "obligations": obs, "failed": failed,
        "other_errors": other_errors, "runs": runs, "times": times, "assumptions_found": found, "failed_fns": failed_fns,
    }


def run_canaries(unit, workdir):
    unit_dir = os.path.join(VERIF, "contracts", unit)
    gen = generate(unit_dir, canary=True)
    fname = "%s_canary.rs" % unit
    gpath = os.path.join(workdir, fname)
    open(gpath, "w").write(gen["text"])
    expected = [i + 1 for i, info in enumerate(gen["line_info"]) if info[3] == "canary"]
    if not expected:
        return {"expected": 0, "failed_as_required": 0, "vacuous": []}
    res = run_verus(gpath)
    errs = errors_of(res, fname)
    hit = set()
    for e in errs:
        if "assertion failed" in e["message"]:
            for a, b in e["primary_lines"]:
                hit.add(a)
    vac = [l for l in expected if l not in hit]
    names = []
    for l in vac:
        names.append(gen["line_info"][l - 1][0])
    return {"expected": len(expected), "failed_as_required": len(expected) - len(vac), "vacuous": names}
